#!/usr/bin/env python3
"""Regenerates the table of DESIGN.md section 8.5 (which checks catch which seeded changes) and its
summary sentence from seeded/MATRIX.tsv and the seeds' meta.json files."""
import collections, json, re
rows = [l.rstrip("\n").split("\t") for l in open('/verif/seeded/MATRIX.tsv') if l.strip()]
by = collections.defaultdict(list)
for r in rows:
    if len(r) >= 3 and r[2].startswith("CAUGHT"):
        by[r[0]].append(r[1])
seeds = sorted(set(r[0] for r in rows), key=lambda s: (s.startswith('regress'), s))
lines = ["| seeded change | what it breaks (from its meta.json) | caught by |", "|---|---|---|"]
unc = []
for s in seeds:
    m = json.load(open(f'/verif/seeded/{s}/meta.json'))
    summ = (m.get('summary') or m.get('title') or '').replace("|", "/").replace("\n", " ")
    if len(summ) > 150:
        summ = summ[:147] + "..."
    c = ", ".join(sorted(by[s])) if by[s] else "**none**"
    if not by[s]:
        unc.append(s)
    lines.append(f"| {s} | {summ} | {c} |")
agent = [s for s in seeds if not s.startswith('regress')]
regress = [s for s in seeds if s.startswith('regress')]
own = sum(1 for s in agent if s.split('-')[0] in by[s])
caught = sum(1 for s in agent if by[s])
f = '/verif/DESIGN.md'
s = open(f).read()
m = re.search(r"Of the \d+ (agent-written changes|seeded changes that are not reverse patches)[^\n]*", s)
sent = (f"Of the {len(agent)} seeded changes that are not reverse patches ({len(agent)-1} by agents, 1 by hand) {caught} are caught by at least one check and {own} by the check of the "
        f"property they were written against; all {len(regress)} reverse patches of the repairs are caught. Not caught by any check: "
        f"{', '.join(unc) if unc else 'none'}:")
s = s[:m.start()] + sent + s[m.end():]
ti = s.index("| seeded change | what it breaks")
tj = s.index("\n\n", ti)
s = s[:ti] + "\n".join(lines) + s[tj:]
open(f, 'w').write(s)
print(len(agent), caught, own, unc)
