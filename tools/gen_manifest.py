#!/usr/bin/env python3
"""Generate /verif/MANIFEST.json from the table below (one entry per claimed property).
Properties not in CLAIMED are listed under not_applicable with the reason in NA."""
import json, os

ENV = "GOFLAGS=-mod=mod GOPROXY=off GOSUMDB=off GOTOOLCHAIN=local GOWORK=off"

CLAIMED = {
 "C01": dict(
  level="proof",
  technique="static analysis: abstract interpretation of go/ssa (linear-constraint domain with Fourier-Motzkin entailment, congruences, exact fixed-width wrap-around, abstract memory, context-sensitive calls, widening) generating bounds/nil/termination/allocation obligations",
  text="Proof over the abstract semantics of checker/num: each of the 24 decode entry points is analysed with an unconstrained input slice (every length, every byte value) and a zero receiver; every index, slice (against the LENGTH), binary.BigEndian access, pointer/interface dereference, division, type assertion, reflect call with a precondition, loop and allocation in the reachable universe yields an obligation that must be entailed at that instruction in every calling context. All ~840 obligations must be discharged; an undecided obligation fails the check (it is never waived by position or text). Loops over the recursive reflection reader are decided by a type-shape rule (acyclic type graph, element wire size >= 1). This reaches what the fuzz seeds cannot: the quantifier is all byte strings, including direct calls of each decoder with frames that rtcp.Unmarshal would never pre-slice that way.",
  note="Trusted: go/ssa, the engine's transfer functions and entailment, the model of encoding/binary/bytes/fmt/errors/math/reflect, Go's panic conditions. Assumes zero, non-nil receivers; slices shorter than 2^50; no overflow of 64-bit int arithmetic on lengths/counters (32-bit int not covered). M-ALLOC decides single-allocation bounds and trip-count bounds of allocating loops, not amortised products across loop nests (DESIGN.md).",
  design="DESIGN.md §2 C01, §3"),
 "C07": dict(
  level="proof",
  technique="static analysis: conditional constant propagation with abstract heap over go/ssa, evaluated for every (P,FMT,PT) of the header; table comparison with the IANA registry",
  text="Finite and fully static: the decision structure of `unmarshal` and of each (*T).Unmarshal is evaluated on the typed SSA for all 2x32x256 header values (everything else Unknown, both branch outcomes followed) and compared with the registry table written from IANA/RFC text: dispatch table both ways (C07-TAB), each Marshal's header constants dispatch back to the same type (C07-SELF), no decoder can return nil for a foreign (PT,FMT) and can for its own (C07-GRD), RawPacket keeps the parameter slice itself (C07-RAW). Every obligation must be discharged; an undecided one fails. Proof over the abstract semantics of checker/pe, not a test: no rtcp code is executed.",
  note="Trusted: go/types+go/ssa (x/tools v0.29.0), the evaluator's transfer functions (checker/pe), registry table checker/spec/registry.go, Header field names Type/Count, non-nil package error variables (checked by C18-GLOB). Version bits fixed to 2. Value-level acceptance of own-kind bodies is not covered. Known findings F9, F10a-c (known_findings.json).",
  design="DESIGN.md §2 C07"),
 "C05": dict(
  level="other",
  technique="static analysis: abstract interpretation of go/ssa (linear constraints + linear congruences) of every Marshal/MarshalSize/Header/Len, with effect-analysis premises, a type-shape rule for the reflective XR sizes and SSA shape rules for CompoundPacket",
  text="Decides, for every receiver value at once (all list lengths, all text/extension lengths up to 65532 bytes): DET - MarshalSize/Header/Len are effect-free and Marshal never modifies its receiver copy (so MarshalSize() denotes one value MS); ALN - T.MarshalSize evaluated on an unconstrained receiver is entailed to be a multiple of 4 at every return; LEN - at every nil-error return of T.Marshal, len(result) = MS is entailed, MS coming both from the calls inside Marshal and from re-evaluating MarshalSize in the return state; HDR - the value written to the header length field satisfies 4*(Length+1) = len(result); CNT - for SR/RR/SDES/BYE the count field equals the list length (no uint8 wrap can survive the guards); ACC - Header() and Len() re-evaluated in the return state agree with the header written and with len(result); XR - wireSize reads structure only, fixed parts of every report block are multiples of 4 and element sizes are checked (three block types with 1- or 2-byte elements are open findings F14a-c); SUM/CAT - CompoundPacket.MarshalSize and rtcp.Marshal fold every member. Level other, not proof: the size domain is cut at 65532 bytes, the placement of the header bytes is a syntactic flow rule, version/PT/FMT are left to C07-SELF.",
  note="Trusted: go/ssa, checker/num, checker/effects, models of binary/copy/append/make, reflect's Type.Size/NumField/Len being structural. TransportLayerCC and RawPacket headers are caller-supplied (only LEN/ALN resp. LEN decided). Engine undecided = failure.",
  design="DESIGN.md §2 C05"),
 "C06": dict(
  level="other",
  technique="static analysis: abstract interpretation (linear constraints, exact uint16 wrap) of unmarshal/Unmarshal/CompoundPacket.Unmarshal with decoder summaries, SSA shape rules for the two datagram loops, constant-propagation evaluation of Header.Unmarshal over all first octets",
  text="Decides the structural clauses behind splitting, locality and all-or-nothing for every input: FRM - every decoder invocation in unmarshal takes the one value rawData[:n], n = 4*(Length+1) holds as an integer identity and 4 <= n <= len(rawData) at every possibly-successful return, processed = n, Length is the big-endian uint16 of bytes 2..3, the datagram parameter of unmarshal is used only for the header read, the cut rawData[:n] and an ordered comparison of its length with that n (frame-local: the result for a frame cannot depend on whether octets follow it), both datagram loops thread rest = rest[processed:] of the same call, append that call's packet and run until the remainder is empty; VER - Header.Unmarshal returns a non-nil error for all 192 first octets whose version is not 2; LOC - all ~370 index/slice/binary accesses of the 22 decoders are within the LENGTH of the slice they were handed and nothing uses cap() or 3-index slices, so no decoder can see a neighbour frame; AON - error returns of Unmarshal carry the constant nil slice, a nil-error return has at least one packet, CompoundPacket.Unmarshal stores its receiver only after the last decode call; ERR - no callee error is dropped. It does not run Unmarshal(a||b): equality of the decoded values with Unmarshal(a), Unmarshal(b) follows from LOC + C18 determinism, not from a comparison of outputs.",
  note="Trusted: go/ssa, checker/num with the decoder summaries of C01, checker/pe, encoding/binary model. A decoder that returns nil for a frame it should reject is C07/C04 territory.",
  design="DESIGN.md §2 C06"),
 "C12": dict(
  level="other",
  technique="static analysis: abstract interpretation of go/ssa with exact uint16 wrap-around kept as congruences mod 2^16, ghost state for the callback protocol, SSA def-use rules for the collecting closure",
  text="Decides necessary conditions of the NACK helper contract for all 2^32 pairs / all input lists at once: RNG-STOP - at every callback call site of Range the most recent callback result is entailed true (no call can follow a false result), RNG-ARG - the first argument is PacketID and every other argument is congruent mod 2^16 to PacketID+k with 1<=k<=16 (k-1 a bit index forced below 16 by the dominating bit test), PL - PacketList's closure returns the constant true on every path, appends exactly its argument to an initially empty list, and that list is returned after Range, NPS-SHIFT - the bit OR-ed into LostPackets is 1 << s with s congruent to (element - PacketID - 1) mod 2^16 as program integers (not masked or offset), NPS-DIST - at that site the modular distance is entailed <= 16. Not decided: that every set bit is visited in ascending order and that no requested number is missing from the pairs (needs a bit-level loop invariant outside the linear domain) - stated as not covered; a reader must not take this as full equivalence of the covered sets.",
  note="Trusted: go/ssa, checker/num (wrap congruences, bit-test refinement, load value numbering between stores). Assumes the callback does not modify the pair it iterates.",
  design="DESIGN.md §2 C12"),
 "C16": dict(
  level="other",
  technique="static analysis: bit-provenance abstract interpretation of go/ssa (bit vectors of sources, abstract byte buffers with strided cells, if-then-else joins) composing encoder and decoder maps, compared with RFC layout tables; constant propagation over all first octets; numeric engine for the count guard",
  text="For every value at once (the maps are symbolic in the field/wire bits, not sampled): RT - for Header, ReceptionReport (24-bit loss), RunLengthChunk, CCFB metric block, NACK pair, SLI entry and FIR entry the encoder's map wire bit <- field bit composed with the decoder's map field bit <- wire bit is the identity in both directions; ENC/DEC - both maps equal the RFC layout (offset, width, big-endian order, constant bits); StatusVectorChunk is decided per symbol size on both sides (decoder: constant-trip loops unrolled; encoder: evaluated with SymbolSize fixed and a full list of 14 one-bit / 7 two-bit symbols, the shift table read as a constant map); ACC - 13 corner shapes of the units (padding bit with zero length, all-ones header, extreme chunks and deltas, maximal cumulative-lost, both metric-block extremes) are not rejected on every path by the unit decoders; NR - a not-received metric block decodes to zero fields; CNT - Header.Marshal returns nil only with Count <= 31; VER - Header.Unmarshal rejects all 192 first octets whose version is not 2; CHK - every return of the XR chunk accessors selects the RFC 3611 bits and the terminating-null case is a comparison of the whole word with 0. Level other because RecvDelta (scaled arithmetic) and StatusVectorChunk.Marshal with a partly filled list are outside the engine (listed as not covered; C13 decides the delta width/scale) and the identity claim is for values that fit their wire width.",
  note="Trusted: go/ssa, checker/bits transfer functions, layout tables in props/layout.go written from the RFCs, checker/pe and checker/num for VER/CNT.",
  design="DESIGN.md §2 C16"),
 "C15": dict(
  level="other",
  technique="static analysis: bit-provenance abstract interpretation of setupBlockHeader/unpackBlockHeader, go/types walk of the block structs (type-shape), SSA dominator conditions of the block type switch, numeric abstract interpretation of the block split, retention (who-may-alias) facts of the effect analysis",
  text="Decides structural clauses of the XR block codec for all values: BT - each setupBlockHeader stores the registered RFC 3611 block type; DSP - the reader's type switch maps exactly the registered constants to their Go types and everything else to UnknownReportBlock; TS - the type-specific octet written equals the RFC 3611 table (T in the low 4 bits, L/D/J and 2-bit ToH, reserved zero) and unpackBlockHeader inverts it bit for bit; LAY - the octet widths of each block struct in declaration order equal the RFC layout; BL - blocks are split at exactly 4*(BlockLength+1) (integer identity, no uint16 wrap) and setupBlockHeader stores BlockLength = wireSize/4-1; UNK - UnknownReportBlock passes type and type-specific octet through and its wire form is header + raw octets; OWN - after ExtendedReport.Unmarshal no memory of the report refers to the input slice (retention facts of the effect analysis, reflect.Value.Set/SetBytes included), so preserved content cannot change when the caller reuses its buffer. It does not execute any block sequence: 'decode in order and independently' is argued from the split identity plus C01's bounds on the reflective reader.",
  note="Trusted: go/ssa, go/types, checker/bits, checker/num, the declaration-order walk of the reflective codec (guarded by C01 B-RFL/T-REC), RFC 3611 tables in props/c15.go. Assumes aligned blocks (findings F14a-c).",
  design="DESIGN.md §2 C15"),
 "C03": dict(
  level="other",
  technique="static analysis: bit-provenance abstract interpretation of every Marshal compared with RFC layout tables; registry cross-check of the table constants",
  text="For all values at once: the map wire bit <- source extracted from each of 16 encoders (packet types and helper units, list entries at their stride) equals the RFC layout table: field bits at their octet/bit positions in big-endian order, version 1 0, registered packet type and FMT/count bits, constant octets, reserved bits zero; the PT/FMT constants of the tables agree with the IANA registry table; XR block type, type-specific octet and field widths equal RFC 3611. Not a comparison against a reference encoder's output: values are never instantiated. Header length is C05's, variable tails and float-derived REMB bits are listed as not covered.",
  note="Trusted: go/ssa, checker/bits, layout tables props/layout.go, registry. SLI's packet type octet is left to C07 (finding F10a).",
  design="DESIGN.md §2 C03"),
 "C04": dict(
  level="other",
  technique="static analysis: bit-provenance abstract interpretation of every Unmarshal compared with RFC layout tables; numeric abstract interpretation for the count guards",
  text="For all inputs at once: the map field bit <- input octet/bit at the successful returns of 14 decoders equals the RFC layout (each field from exactly its wire bits, upper bits zero, no dependency on reserved bits); CNT - SR, RR, SDES and BYE return nil only if the number of decoded elements equals the header count (BYE: and the announced sources lie inside the packet); ACC - 39 RFC-valid boundary shapes (fixed length, a few fixed octets, everything else arbitrary: padded APP, BYE with/without reason, empty lists, minimal feedback packets, alternative TWCC chunkings, an unknown XR block, a padded frame followed by another) are evaluated by constant propagation and none may be rejected on every path (this proves rejections, it does not prove acceptance); FRESH - at the 13 places where a decoder appends a composite element inside a loop, the element is allocated (or wholly re-assigned) inside that loop, so no field or slice of the previous element can leak into the next; XR - unpackBlockHeader takes each field from its RFC 3611 bits, unknown block types reach UnknownReportBlock, blocks are split at 4*(BlockLength+1). The VALUES that alternative encodings decode to where they depend on run-time arithmetic (TWCC chunkings, REMB normalisation, APP data length, BYE reason text) are not covered.",
  note="Trusted: go/ssa, checker/bits, checker/num, layout tables.",
  design="DESIGN.md §2 C04"),
 "C02": dict(
  level="other",
  technique="static analysis: composition of the bit-provenance maps of every encoder/decoder pair, set comparison of encoded and decoded fields, constant-propagation dispatch table",
  text="Three clauses each necessary for encode-then-decode to be the identity, for all values at once: SYM - the fields whose bits reach the wire equal the integer fields the decoder stores; LAY - encoder map composed with decoder map is the identity on every field bit that reaches the wire and every wire bit the decoder uses (fixed parts and per-entry strides) for 16 pairs (StatusVectorChunk per symbol size with a full symbol list); DSP - the (PT,FMT) each Marshal emits dispatches back to its own Go type (SliceLossIndication: open finding F10d); XR - setup/unpackBlockHeader invert each other on the type-specific octet; CNT - the CCFB count field, whose coding is not the identity, is followed through encoder and decoder by constant propagation for lists of 0..3 metric blocks (n = 1 decodes to 0: open finding F16); XRH - in each of the 8 setupBlockHeader methods every read of an XRHeader field (or copy of the whole header) is dominated by a store to it in the same call and the header's address is passed to no call, so the block header emitted is a function of the semantic fields and not of what an earlier Marshal/Unmarshal left in the value. Necessary, not sufficient: variable-length parts, list equality and re-marshal byte equality need run-time values and are not covered.",
  note="Trusted: go/ssa, checker/bits, checker/pe, registry.",
  design="DESIGN.md §2 C02"),
 "C09": dict(
  level="other",
  technique="static analysis: abstract interpretation of go/ssa (linear constraints + congruences) of every encoder on an unconstrained receiver, generating run-time-check obligations; symbolic evaluation of sizes (sums over lists, prefix sums, if-then-else on field comparisons) for the obligations that relate an encoder's cursor to its size function",
  text="Decides one clause of the property, the one whose truth is in the shape of the code: 'marshalling the returned packets never panics'. Every packet type's Marshal, rtcp.Marshal and CompoundPacket.Marshal are analysed for EVERY receiver value with non-nil list elements and a re-encoded size of at most 65532 octets - a superset of what the decoders can return; all ~660 index, slice-bound (against the length), binary access, nil, division, type-assertion, make and loop obligations of the reachable universe must be entailed at the instruction; the obligations that relate a write cursor to the size function (SDES, CCFB, APP padding, TWCC deltas) are proved by the symbolic-sum engine (cursor = base + prefix sum, buffer = base + full sum of a per-element term that dominates it), REMB's float loop by a geometric-progress rule; nothing is discharged by reading on the pinned tree. SIZE - each of eight element encoders returns exactly the number of octets its container reserves for it, and RecvDelta.Marshal, packetLen and the delta cursor of TransportLayerCC.Marshal agree per size class. NOT decided: that the new bytes are accepted again and decode to an equal packet list, and the TransportLayerCC consistency condition - these relate run-time values of two executions; a reader must not take this check as evidence of idempotence. OWNBUF - the []byte that rtcp.Marshal and CompoundPacket.Marshal return aliases neither the packet list handed in nor a global (alias facts of the effect analysis, interface calls resolved through the synthesized pointer-receiver wrappers): decoded packets may be slices of the received datagram, so a re-encoder that hands back or appends into a member's buffer would overwrite the datagram the other members still refer to.",
  note="Trusted: go/ssa, checker/num, checker/effects, checker/sum, C05's DET/ALN/LEN rules (re-established for CCFeedbackReport), c09SizePairs (which size each container reserves), c09Triaged (one fallback entry for TWCC encoder forms outside the symbolic engine, unused on the pinned tree). Size-domain assumption: the 16-bit arithmetic of the size functions does not wrap. Above 65535 octets CCFeedbackReport.Marshal panics (uint16 buffer length) - outside the stated size domain.",
  design="DESIGN.md §8 (C09 as built)"),
 "C14": dict(
  level="other",
  technique="static analysis: SSA dominator conditions, numeric abstract interpretation and bit provenance for the integer clauses of the REMB codec",
  text="The numeric core of this property - decode = mantissa x 2^exponent for all 2^24 pairs, encode = largest representable value not above x, monotone, saturating - is IEEE-754 float32 arithmetic and is NOT decided by this check (no engine here models floating point). Decided are only its integer/structural clauses, each a necessary condition: NEG - every nil-error return of MarshalTo is dominated by `bitrate < 0` being false for the receiver's (clamped) bitrate, so a negative bitrate is rejected; EXP - the exponent shifted into octet 17 is entailed within 0..63 at every nil-error return; PACK - the mantissa bits OR-ed into octet 17 next to the exponent are entailed <= 3 (an upper bound of the float bitrate learned from the exit of the normalisation loop is carried through math.Floor into the integer mantissa - the only floating-point fact the engine tracks; NaN is outside the model); NORM - the decode-side loop that left-normalises the mantissa can be left only when bit 23 (the implicit leading bit) is set; CNT-ENC - octet 16 is the low 8 bits of len(SSRCs) and len(SSRCs) <= 255 at every nil-error return; CNT-DEC - Unmarshal returns nil only with len(p.SSRCs) = buf[16]; ZERO - the decoder evaluated by constant propagation on the packets with a zero mantissa (exponents 0, 1, 47, 63) must not store a definite non-zero float (it does: open finding F17, 0 x 2^e decodes to 2^(e+23)); ENORM - the encoder's loop that halves the float bitrate is guarded by a comparison whose continue-set is exactly [2^18, inf) (x >= 262144, its negation or mirror image, or x > 262143 on an integer-valued x) and an integer counter starting at 0 grows by exactly 1 in the halving block (needed for 'largest 18-bit mantissa, minimal exponent'; an encoder without a halving loop is only noted). A reader must not take a pass here as evidence about bitrate values.",
  note="Trusted: go/ssa, checker/num, checker/bits. Six obligations.",
  design="DESIGN.md §8 (C14 as built)"),
 "C08": dict(
  level="other",
  technique="static analysis: abstract interpretation of go/ssa (linear constraints, exact fixed-width wrap-around) of every encoder with per-call-string narrowing obligations and an error-discipline rule",
  text="Decides two structural clauses for every value at once: NARROW - every fixed-width operation in the universe of the 15 packet Marshal methods and of every helper encoder (each analysed as a root with an unconstrained receiver) that can lose information (conversion to a narrower integer, wrapping fixed-width arithmetic, low-bit mask) is shown not to lose any on a path that returns a nil error: the operand is entailed to fit at the operation, or it is a byte extraction whose dropped bits are emitted by a sibling conversion, or its pre-operation value (ghost) is entailed to fit at every success return (a later guard rejected the rest); ERR - in every function of that universe, at each return with a nil error the error of every call it made is entailed nil, so no encoder error is dropped and a packet-level success implies success of every helper. LIMIT - with a field fixed exactly at each of 12 wire limits (31 reports/chunks/sources, 255-octet texts, 2^24-1 lost, 255 REMB SSRCs, 16384 metric blocks, 4-octet APP name, count/subtype 31) not every return of the encoder is an error return (no over-rejection). CLASS - RecvDelta.Marshal evaluated by the symbolic-sum engine with RecvDelta.Type fixed to 0,1,2,3: every nil-error return yields exactly the wire size of the class (small delta 1 octet, large delta 2) and a Type without a wire form has no nil-error return, so an out-of-range small delta cannot be widened quietly while the packet encoder reserves one octet. 14 sites where a bounded field is deliberately cut to its width are open findings F15a-n. Level other: float-derived values (REMB mantissa) and OR-overlap of bit fields are not covered.",
  note="Trusted: go/ssa, checker/num, checker/effects (purity of opaque helpers, determinism of size functions), frozen tables c08SignedWire (1 entry) and c08Triaged (2 entries keyed by root and function, each with a reason and required to match an undecided site); mask sites carry semantic keys (owner function, field, width). Size-domain assumption as in C05.",
  design="DESIGN.md §2 C08"),
 "C18": dict(
  level="other",
  technique="static analysis: flow-insensitive alias/effect (write-set and retention) analysis over go/ssa with summaries over the VTA call graph",
  text="Decides the structural content of the property for all schedules and call histories at once: (GLOB) no function but the package initialiser writes package-level state, no goroutines/channels/sync/time/rand/os/map-iteration, unsafe only at the reflect.NewAt site; (RECV) every Marshal/MarshalSize/MarshalTo/DestinationSSRC/String/Header/Len/Validate/CNAME/Range/PacketList/... method has an empty write set w.r.t. its receiver, with ExtendedReport.Marshal verified to write only XRHeader.{BlockType,TypeSpecific,BlockLength} through setupBlockHeader; (INPUT) all 24 decode entry points have an empty write set w.r.t. their input slice; (FRESH) Marshal results are fresh allocations (RawPacket: the receiver); (RETAIN) after each of the 24 decoders its receiver refers to the input slice only through the four documented fields (RawPacket itself, SenderReport/ReceiverReport.ProfileExtensions, ApplicationDefined.Data) - stores, appends, callee summaries and reflect.Value.Set/SetBytes are followed. A positive-control fixture must make every rule fire on every run. Not a race-detector run: nothing is executed.",
  note="Trusted: go/ssa, VTA call graph, the effect model of builtins and of external functions (table in checker/effects). Assumes callers do not mutate a packet concurrently. 'Identical results on repetition' is covered only as absence of writes and of nondeterministic sources.",
  design="DESIGN.md §2 C18"),
 "C11": dict(
  level="other",
  technique="static analysis: constant-propagation evaluation of Validate/CNAME/Marshal/Unmarshal over all member dynamic types and SDES item type codes, plus SSA def-use/dominance rules",
  text="Decides structural clauses that are necessary for the compound rules, for every dynamic type of the first and of later members and every SDES item type 0..8: which first-member types pass (FIRST), the per-member outcome of the scan incl. which member types let the scan continue, that success is controlled by a monotone flag set only under item.Type==SDESCNAME, that the scan loop carries no other state (SCAN), that Marshal produces bytes only after Validate()==nil and Unmarshal returns nil only as Validate() of the list it just stored and loops until the datagram is empty (GATE), that CNAME() returns the Text of the item just compared equal to SDESCNAME from inside the scan and that the error it carries can only be assigned at a member that is neither SDES nor RR, where Validate fails (CNAME); AGG - CompoundPacket.DestinationSSRC abstracts (sequence provenance of C10) to nothing for the empty compound and else exactly the list of member 0, and CompoundPacket.MarshalSize is an accumulator over every member (shape rule of C05). It does not decide grammar equivalence for all sequences (that would be a runtime enumeration); a reader should take it as: the decision structure is the RFC one, not that every sequence was tried.",
  note="Trusted: go/ssa, checker/pe evaluator. Not covered: DestinationSSRC/MarshalSize aggregation (C10/C05).",
  design="DESIGN.md §2 C11"),
 "C10": dict(
  level="other",
  technique="static analysis: sequence-provenance abstraction of each DestinationSSRC result on go/ssa (segments One/Map/FlatCall/Call with symbolic positions), compared with a table from the property text",
  text="For each of the 24 DestinationSSRC methods (16 packet types, 8 XR block types) the returned slice is abstracted on the SSA to a concatenation of segments whose element provenance, order, positions and total length are checked symbolically for every list length at once, and compared with the table written from the property statement. Decides: which SSRC fields appear, in which order, exactly once each, with no gap/overlap and a result length equal to the elements written. An implementation outside the recognised idioms fails as undecided (accepted risk, stated in DESIGN.md). Does not decide the 'same after a round trip' clause (runtime equality; C02).",
  note="Trusted: go/ssa, the spec table c10Spec, struct field names as anchors.",
  design="DESIGN.md §2 C10"),
 "C17": dict(
  level="other",
  technique="static analysis: the C01 abstract interpreter applied to every String method, stringify and formatField with unconstrained receivers; dominator-guard table for reflect calls",
  text="Every String() method of the package (21), stringify and formatField are analysed with an unconstrained receiver (all field values, all list lengths): each index, slice, pointer/interface dereference, division, type assertion (comma-ok only), wrapper nil check and loop must be proved safe/terminating at the instruction in every calling context (about 490 obligations; an undecided one fails). Reflection in formatField is decided by a guard table (each reflect call with a precondition is dominated by Kind/CanInterface/IsValid tests of the same Value). fmt.Sprintf is modelled as total. It decides 'never panics / terminates' for every receiver value, which no finite set of String() tests can; it does not look at the text produced.",
  note="Trusted: go/ssa, checker/num, totality of fmt/strings, the reflect guard table. Assumes non-nil receivers and non-nil list elements (decoded or well-formed values); 64-bit int.",
  design="DESIGN.md §2 C17"),
 "C13": dict(
  level="other",
  technique="static analysis: numeric abstract interpretation of (*TransportLayerCC).Unmarshal with read-extent and wrap-around obligations, plus SSA def-use rules",
  text="Decides structural clauses that are necessary for the property, for every input: (DECL) every read of the packet that follows the declared-length checks has its extent entailed <= 4*(Header.Length+1), not merely <= len(rawPacket); (NOWRAP) every addition updating a loop-carried 16-bit cursor/counter of the decoder is proven not to wrap; (WIDTH) a w-byte slice is handed to RecvDelta.Unmarshal only under delta.Type == w and the cursor advances by w; (SCALE) deltas are 250*zext8 / 250*sext16(BigEndian); (CLIP) placeholders and the processed counter both use N = localMin(count-processed, runLength) and localMin is min. Chunking invariance and the one-to-one correspondence of deltas with statuses are run-time relations and are not decided (stated in the evidence). SYM - every RecvDelta placeholder is created with a Type entailed within {1, 2}, i.e. only for status symbols that carry a delta, so the number of deltas cannot exceed the number of such symbols through a stray symbol value.",
  note="Trusted: go/ssa, checker/num, field-name anchors. Chunk bit extraction is C16's.",
  design="DESIGN.md §2 C13"),
}

NA = {
 "C09": "relational invariant between decoder output and encoder input, and equality of runtime values after a second pass: no structural clause that is not already claimed under C01/C02/C05 (DESIGN.md §2 C09)",
 "C14": "IEEE-754 float32 arithmetic over 2^24 wire pairs / 2^31 floats: no sound integer/bit abstract domain in reach; its two shape clauses are decided under C08 and C01/C07 (DESIGN.md §2 C14)",
}
PENDING = "checker for this property not built yet (implementation in progress, see DESIGN.md)"

def main():
    here = os.path.dirname(os.path.dirname(os.path.abspath(__file__)))
    props = [json.loads(l) for l in open(os.path.join(here, "properties.jsonl"))]
    checks, na = [], []
    for p in props:
        pid = p["id"]
        if pid in CLAIMED:
            c = CLAIMED[pid]
            checks.append({
                "property_id": pid,
                "quick_cmd": f"bin/rtcpcheck -prop {pid} -tier quick",
                "thorough_cmd": f"tools/thorough.sh {pid}",
                "evidence_file": f"/verif/evidence/{pid}.json",
                "replay_cmd_template": f"bin/rtcpcheck -prop {pid} -tier quick  # static: re-run on the same tree; {{path}} lists file:line, rule, construct",
                "engine": "rtcpcheck",
                "level_claimed": {"category": c["level"], "text": c["text"], "design_ref": c["design"]},
                "level_note": c["note"],
                "technique": c["technique"],
            })
        else:
            na.append({"property_id": pid, "reason": NA.get(pid, PENDING)})
    m = {
        "version": 1,
        "setup_cmd": f"cd /verif/checker && {ENV} go build -o ../bin/rtcpcheck ./cmd/rtcpcheck",
        "hooks": {
            "guard": "verif",
            "enable": "none: the checks are static analyses that read /repo's working tree as is (no instrumentation, no build tag needed)",
            "baseline_off_cmd": f"cd /repo && {ENV} go test -vet=off -count=1 ./...",
            "source_commits": [],
            "add_only": True,
        },
        "engines": [{
            "name": "rtcpcheck",
            "path": "/verif/checker",
            "serves_properties": sorted(CLAIMED),
            "kind_free_text": "one Go binary (golang.org/x/tools v0.29.0: go/packages, go/types, go/ssa, VTA call graph) with repository-specific static analyses; loads /repo on every run, executes nothing from it",
        }],
        "checks": checks,
        "not_applicable": na,
        "notes": "All checks are static analyses of /repo's current working tree. Genuine defects repaired by 'fix:' commits in /repo and open known findings are listed in /verif/known_findings.json.",
    }
    json.dump(m, open(os.path.join(here, "MANIFEST.json"), "w"), indent=1)
    print("claimed:", sorted(CLAIMED), "n/a:", [x["property_id"] for x in na])

if __name__ == "__main__":
    main()
