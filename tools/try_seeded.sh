#!/bin/bash
# usage: try_seeded.sh <seeded-id> <prop> [<prop>...]
# Applies /verif/seeded/<id>/patch.diff to /repo, runs the quick checks, reverts. Prints one line per check.
id=$1; shift
cd /repo || exit 2
[ -z "$(git status --porcelain)" ] || { echo "/repo not clean"; exit 2; }
git apply /verif/seeded/$id/patch.diff || { echo "$id: patch does not apply"; exit 2; }
trap 'git -C /repo checkout -- . ' EXIT
cd /verif
for p in "$@"; do
  out=$(bin/rtcpcheck -prop $p -tier quick -out /tmp/try_seeded_$p.json 2>&1); rc=$?
  v=$(echo "$out" | grep -E "^  (VIOLATED|UNDECIDED|FATAL)" | head -3 | cut -c1-260)
  if [ $rc -eq 0 ]; then echo "$id $p: silent"; else echo "$id $p: CAUGHT rc=$rc"; echo "$v" | sed 's/^/      /'; fi
done
