#!/usr/bin/env python3
"""Derives seeded/EXPECT.tsv (seed <TAB> property) from seeded/MATRIX.tsv: the pairs where the property's
check caught the seeded change. tools/thorough.sh replays exactly these."""
import os
here = os.path.dirname(os.path.dirname(os.path.abspath(__file__)))
rows = []
for line in open(os.path.join(here, "seeded", "MATRIX.tsv")):
    parts = line.rstrip("\n").split("\t")
    if len(parts) >= 3 and parts[2].startswith("CAUGHT"):
        rows.append((parts[0], parts[1]))
rows.sort()
with open(os.path.join(here, "seeded", "EXPECT.tsv"), "w") as f:
    for s, p in rows:
        f.write(f"{s}\t{p}\n")
print(len(rows), "expected catches")
