#!/bin/bash
# usage: tools/thorough.sh <property-id>
# Thorough tier of one property:
#   1. replay: every seeded change that seeded/EXPECT.tsv lists for this property is applied to a scratch
#      copy of /repo's current working tree (under ${TMPDIR:-/tmp}, removed afterwards) and the property's
#      quick check must report a violation on it (regression test of the checker itself);
#   1b. false-alarm guard: if the tree passes the quick check, so must every refactoring of /verif/refactors applied to it;
#   2. the check itself with -tier thorough on /repo (larger parameters), which writes the evidence file.
# Exit: the exit code of step 2 (1 + VIOLATION line if the property fails on the tree); 3 if the tree is
# fine but a replay was missed (the checker lost a rule).
set -u
id=$1
V=/verif
REPO=${VERIF_REPO:-/repo}
scratch=$(mktemp -d "${TMPDIR:-/tmp}/vp-thorough-$id.XXXXXX")
trap 'rm -rf "$scratch"' EXIT
summary="$scratch/replay.txt"
: > "$summary"
missed=0
# one scratch copy per job; jobs run four at a time (each check uses several cores itself)
replay_one() {
  s=$1; wt="$scratch/wt-$s"
  mkdir -p "$wt"
  (cd "$REPO" && tar --exclude=.git -cf - .) | (cd "$wt" && tar -xf -)
  if ! (cd "$wt" && git apply --unsafe-paths "$V/seeded/$s/patch.diff" 2>/dev/null || patch -s -p1 < "$V/seeded/$s/patch.diff" >/dev/null 2>&1); then
    echo "replay $s: skipped (patch does not apply to the current tree)"
  else
    $V/bin/rtcpcheck -prop $id -tier quick -repo "$wt" -out "$wt/.ev.json" > "$wt/.out.txt" 2>&1
    rc=$?
    if [ $rc -eq 1 ] && grep -q "^VIOLATION property=$id" "$wt/.out.txt"; then
      echo "replay $s: caught ($(grep -E '^  (VIOLATED|UNDECIDED)' "$wt/.out.txt" | head -1 | cut -c3-140))"
    else
      echo "replay $s: MISSED (exit $rc)"
    fi
  fi
  rm -rf "$wt"
}
guard_one() {
  d=$1; n=$(echo $d | sed "s#$V/refactors/##" | tr / -); wt="$scratch/wt-$n"
  mkdir -p "$wt"
  (cd "$REPO" && tar --exclude=.git -cf - .) | (cd "$wt" && tar -xf -)
  if ! (cd "$wt" && git apply --unsafe-paths "$d/patch.diff" 2>/dev/null || patch -s -p1 < "$d/patch.diff" >/dev/null 2>&1); then
    echo "refactoring $n: skipped (patch does not apply to the current tree)"
  elif $V/bin/rtcpcheck -prop $id -tier quick -repo "$wt" -out "$wt/.ev.json" > "$wt/.out.txt" 2>&1; then
    echo "refactoring $n: silent"
  else
    echo "refactoring $n: ALARM ($(grep -E '^  (VIOLATED|UNDECIDED|FATAL)' "$wt/.out.txt" | head -1 | cut -c3-140))"
  fi
  rm -rf "$wt"
}
export -f replay_one guard_one
export id V REPO scratch
if [ -f $V/seeded/EXPECT.tsv ]; then
  awk -v p="$id" '$2==p {print $1}' $V/seeded/EXPECT.tsv | xargs -r -P 4 -I{} bash -c 'replay_one {}' | sort >> "$summary"
  missed=$(grep -c ": MISSED" "$summary")
fi
# 1b. false-alarm guard: when the current tree passes the quick check, every behaviour-preserving refactoring of
#     /verif/refactors applied on top of it must pass as well (reported in the evidence; a miss here is a
#     warning about the checker, not a statement about the tree, and does not change the exit code)
alarms=0
if [ "${VERIF_SKIP_GUARD:-}" = "" ] && $V/bin/rtcpcheck -prop $id -tier quick -repo "$REPO" -out "$scratch/ev0.json" > "$scratch/out0.txt" 2>&1; then
  find $V/refactors -name patch.diff | sort | xargs -n1 dirname | xargs -r -P 4 -I{} bash -c 'guard_one {}' | sort > "$scratch/guard.txt"
  cat "$scratch/guard.txt" >> "$summary"
  alarms=$(grep -c ": ALARM" "$scratch/guard.txt")
fi
export VERIF_REPLAY_SUMMARY="$summary"
$V/bin/rtcpcheck -prop $id -tier thorough -repo "$REPO"
rc=$?
cat "$summary"
if [ $rc -ne 0 ]; then exit $rc; fi
if [ $alarms -gt 0 ]; then echo "SELFTEST-WARNING property=$id: the check fires on $alarms behaviour-preserving refactoring(s) of the current tree"; fi
if [ $missed -gt 0 ]; then echo "SELFTEST-FAILED property=$id: $missed seeded change(s) that this check used to catch are no longer caught"; exit 3; fi
exit 0
