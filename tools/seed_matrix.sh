#!/bin/bash
# usage: seed_matrix.sh [seed-id ...]   (default: all seeds)
# Applies every seeded change in its own scratch worktree under /tmp, runs every claimed quick check
# against it (rtcpcheck -repo <worktree>) and writes /verif/seeded/MATRIX.tsv (seed, property, result).
# The scratch worktrees are removed afterwards. Nothing in /repo is touched.
set -u
cd /verif
PROPS=${MATRIX_PROPS:-$(python3 -c "import json;print(' '.join(c['property_id'] for c in json.load(open('MANIFEST.json'))['checks']))")}
OUT=${MATRIX_OUT:-/verif/seeded/MATRIX.tsv}
SEEDS="$@"
[ -z "$SEEDS" ] && SEEDS=$(cd seeded && ls -d */ | tr -d /)
mkdir -p /tmp/mx
one() {
  s=$1
  wt=/tmp/mx/wt_$s
  rm -rf $wt
  git -C /repo worktree add --detach -q $wt HEAD 2>/dev/null || { echo "$s	-	worktree-failed"; return; }
  if ! git -C $wt apply /verif/seeded/$s/patch.diff 2>/dev/null; then
    echo "$s	-	patch-does-not-apply"
  else
    for p in $PROPS; do
      out=$(/verif/bin/rtcpcheck -prop $p -tier quick -repo $wt -out /tmp/mx/ev_${s}_$p.json 2>&1); rc=$?
      if [ $rc -eq 0 ]; then res=silent; else res="CAUGHT: $(echo "$out" | grep -E '^  (VIOLATED|UNDECIDED|FATAL)' | head -1 | cut -c3-200)"; fi
      echo "$s	$p	$res"
    done
  fi
  git -C /repo worktree remove --force $wt 2>/dev/null
  rm -rf $wt /tmp/mx/ev_${s}_*.json /tmp/mx/ev_${s}_*.violations.json
}
export -f one
export PROPS
echo $SEEDS | tr ' ' '\n' | xargs -P 3 -I{} bash -c 'one {}' > $OUT.new
sort $OUT.new > $OUT
rm -f $OUT.new
git -C /repo worktree prune
echo done: $(wc -l < $OUT) rows
