#!/bin/bash
# Validate seeded defects produced by the independent sub-agents:
#  (a) patch applies + existing suite passes, (b) demo fails with the patch, (c) demo passes without.
# usage: validate_seeded.sh <srcdir> <P> <N>   (reads <srcdir>/mN.patch.diff etc., writes /verif/seeded/<P>-mN/)
export GOFLAGS=-mod=mod GOPROXY=off GOSUMDB=off GOTOOLCHAIN=local GOWORK=off
src=$1; P=$2; N=$3
wt=$(mktemp -d /tmp/seedval.XXXXXX)
rmdir $wt
git -C /repo worktree add -q --detach $wt HEAD || exit 2
trap 'git -C /repo worktree remove --force '$wt' >/dev/null 2>&1' EXIT
cd $wt
patch=$src/m$N.patch.diff; demo=$src/m${N}_demo_test.go; meta=$src/m$N.meta.json
[ -f $patch ] && [ -f $demo ] || { echo "$P-m$N: MISSING files"; exit 1; }
tn=TestSeeded_${P}_m$N
cp $demo ./seeded_${P}_m${N}_test.go
c=$(go test -vet=off -count=1 -run "^$tn\$" . 2>&1 | tail -1)
case "$c" in ok*) ;; *) echo "$P-m$N: (c) demo does not pass on clean tree: $c"; exit 1;; esac
rm ./seeded_${P}_m${N}_test.go
git apply $patch || { echo "$P-m$N: patch does not apply"; exit 1; }
a=$(go test -vet=off -count=1 ./... 2>&1 | tail -1)
case "$a" in ok*) ;; *) echo "$P-m$N: (a) suite fails with patch: $a"; exit 1;; esac
cp $demo ./seeded_${P}_m${N}_test.go
b=$(go test -vet=off -count=1 -run "^$tn\$" . 2>&1 | tail -1)
case "$b" in ok*) echo "$P-m$N: (b) demo passes WITH patch (no effect)"; exit 1;; esac
out=/verif/seeded/$P-m$N
mkdir -p $out
cp $patch $out/patch.diff; cp $demo $out/demo_test.go
python3 - "$meta" "$out/meta.json" "$P" "$N" <<'PY'
import json,sys
try: m=json.load(open(sys.argv[1]))
except Exception: m={}
m['property']=sys.argv[3]
m['origin']='independent sub-agent, given only the property text and a scratch worktree'
m['validated']={'a_suite_passes_with_patch':True,'b_demo_fails_with_patch':True,'c_demo_passes_without':True,
  'commands':['git apply patch.diff && go test -vet=off -count=1 ./...','go test -vet=off -count=1 -run TestSeeded_%s_m%s .'%(sys.argv[3],sys.argv[4])]}
json.dump(m,open(sys.argv[2],'w'),indent=1)
PY
echo "$P-m$N: OK"
