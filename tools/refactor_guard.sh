#!/bin/bash
# Applies every patch.diff below /verif/refactors (set1..3 are bundles, set4/r1..r12 are single refactorings written by a fresh sub-agent) to a scratch copy of /repo and runs all claimed quick
# checks on it; every check must stay silent (exit 0). Prints one line per (set, property).
set -u
V=/verif
REPO=${VERIF_REPO:-/repo}
PROPS=${GUARD_PROPS:-$(python3 -c "import json;print(' '.join(c['property_id'] for c in json.load(open('$V/MANIFEST.json'))['checks']))")}
fail=0
for d in $(find $V/refactors -name patch.diff | sort | xargs -n1 dirname); do
  s=$(echo $d | sed "s#$V/refactors/##" | tr / -)
  scratch=$(mktemp -d "${TMPDIR:-/tmp}/vp-refactor-$s.XXXXXX")
  (cd "$REPO" && tar --exclude=.git -cf - .) | (cd "$scratch" && tar -xf -)
  if ! (cd "$scratch" && git apply --unsafe-paths "$d/patch.diff" 2>/dev/null || patch -s -p1 < "$d/patch.diff" >/dev/null 2>&1); then
    echo "$s: patch does not apply to the current tree (skipped)"; rm -rf "$scratch"; continue
  fi
  for p in $PROPS; do
    $V/bin/rtcpcheck -prop $p -tier quick -repo "$scratch" -out "$scratch/ev.json" > "$scratch/out.txt" 2>&1; rc=$?
    if [ $rc -eq 0 ]; then echo "$s $p: silent"; else echo "$s $p: FALSE ALARM rc=$rc $(grep -E '^  (VIOLATED|UNDECIDED|FATAL)' "$scratch/out.txt" | head -1 | cut -c1-200)"; fail=1; fi
  done
  rm -rf "$scratch"
done
exit $fail
