// Demonstrations that the defects repaired by the "fix:" commits in /repo are
// genuine: each test fails on the pinned commit fadacd1 and passes on the
// repaired tree. Triage aid only - NOT part of any registered check (the checks
// are static). Run: copy into a scratch worktree of /repo, `go test -run Finding`.
package rtcp

import (
	"testing"
)

func noPanic(t *testing.T, name string, f func()) {
	t.Helper()
	defer func() {
		if r := recover(); r != nil {
			t.Errorf("%s: panic: %v", name, r)
		}
	}()
	f()
}

func TestFindingF1_FIRShort(t *testing.T) {
	noPanic(t, "FIR", func() {
		var p FullIntraRequest
		_ = p.Unmarshal([]byte{0x84, 206, 0, 0, 1, 2, 3, 4})
	})
}

func TestFindingF2_SLIShort(t *testing.T) {
	noPanic(t, "SLI", func() {
		var p SliceLossIndication
		_ = p.Unmarshal([]byte{0x82, 205, 0, 1, 1, 2, 3, 4})
	})
}

func TestFindingF3_TWCCAmplification(t *testing.T) {
	// PacketStatusCount = 65535; eight run-length chunks of 8191 reach 65528,
	// then a 14-symbol vector chunk wraps the uint16 counter to 6 and the
	// cycle repeats.
	raw := []byte{0x8f, 205, 0, 0, 0, 0, 0, 1, 0, 0, 0, 2, 0, 0, 0xff, 0xff, 0, 0, 0, 0}
	for len(raw) < 1200 {
		for i := 0; i < 8; i++ {
			raw = append(raw, 0x3f, 0xff) // run length, small delta, 8191 (x8 = 65528)
		}
		raw = append(raw, 0xbf, 0xff) // 1-bit vector, 14 received: 65542 wraps to 6
	}
	for len(raw)%4 != 0 {
		raw = append(raw, 0)
	}
	raw = append(raw, make([]byte, 4)...)
	l := len(raw)/4 - 1
	raw[2], raw[3] = byte(l>>8), byte(l)
	var p TransportLayerCC
	_ = p.Unmarshal(raw)
	if len(p.RecvDeltas) > 65535+14*len(raw) {
		t.Errorf("%d-byte packet produced %d RecvDelta placeholders", len(raw), len(p.RecvDeltas))
	}
}

func TestFindingF4_REMBString(t *testing.T) {
	noPanic(t, "REMB.String", func() {
		p := ReceiverEstimatedMaximumBitrate{Bitrate: 1e22}
		_ = p.String()
	})
}

func TestFindingF5_XRSize(t *testing.T) {
	x := ExtendedReport{}
	b, err := x.Marshal()
	if err != nil || len(b) != x.MarshalSize() {
		t.Errorf("len(Marshal())=%d MarshalSize()=%d err=%v", len(b), x.MarshalSize(), err)
	}
}

func TestFindingF6_RRExtensions(t *testing.T) {
	r := ReceiverReport{SSRC: 1, ProfileExtensions: []byte{1, 2, 3, 4, 5, 6, 7, 8}}
	b, err := r.Marshal()
	if err != nil {
		t.Fatal(err)
	}
	if len(b) != r.MarshalSize() {
		t.Errorf("len=%d MarshalSize=%d", len(b), r.MarshalSize())
	}
	if got := int(b[2])<<8 | int(b[3]); got != len(b)/4-1 {
		t.Errorf("length field %d, want %d", got, len(b)/4-1)
	}
}

func TestFindingF7_SRUnalignedExtensions(t *testing.T) {
	r := SenderReport{SSRC: 1, ProfileExtensions: []byte{1, 2, 3}}
	b, err := r.Marshal()
	if err != nil {
		t.Fatal(err)
	}
	if len(b)%4 != 0 || len(b) != r.MarshalSize() {
		t.Errorf("len=%d MarshalSize=%d", len(b), r.MarshalSize())
	}
}

func TestFindingF8_APPForeignType(t *testing.T) {
	pli, _ := PictureLossIndication{SenderSSRC: 1, MediaSSRC: 2}.Marshal()
	var a ApplicationDefined
	if err := a.Unmarshal(pli); err == nil {
		t.Errorf("APP decoder accepted a PLI packet: %+v", a)
	}
}

func TestFindingF11_TotalLost(t *testing.T) {
	r := ReceptionReport{TotalLost: 1 << 24}
	if _, err := r.Marshal(); err == nil {
		t.Errorf("TotalLost 2^24 accepted (24-bit field)")
	}
}

func TestFindingF12_REMBCount(t *testing.T) {
	p := ReceiverEstimatedMaximumBitrate{SSRCs: make([]uint32, 256)}
	if b, err := p.Marshal(); err == nil {
		t.Errorf("256 SSRCs accepted, count octet = %d", b[16])
	}
}

func TestFindingF13_TWCCDeltaDropped(t *testing.T) {
	p := TransportLayerCC{
		Header:            Header{Count: FormatTCC, Type: TypeTransportSpecificFeedback, Length: 5},
		PacketStatusCount: 2,
		PacketChunks:      []PacketStatusChunk{&RunLengthChunk{PacketStatusSymbol: TypeTCCPacketReceivedSmallDelta, RunLength: 2}},
		RecvDeltas: []*RecvDelta{
			{Type: TypeTCCPacketReceivedSmallDelta, Delta: 250 * 300}, // does not fit one octet
			{Type: TypeTCCPacketReceivedSmallDelta, Delta: 250},
		},
	}
	if _, err := p.Marshal(); err == nil {
		t.Errorf("out-of-range receive delta silently dropped")
	}
}

// Known findings that are NOT repaired (the unit tests pin the behaviour).
func TestFindingF10_SLIDispatch(t *testing.T) {
	b, _ := SliceLossIndication{SenderSSRC: 1, MediaSSRC: 2, SLI: []SLIEntry{{1, 2, 3}}}.Marshal()
	ps, err := Unmarshal(b)
	if err != nil {
		t.Fatal(err)
	}
	if _, ok := ps[0].(*SliceLossIndication); !ok {
		t.Errorf("marshalled SLI (PT %d) comes back as %T", b[1], ps[0])
	}
}

func TestFindingF9_CCFBForeignFMT(t *testing.T) {
	rrr, _ := RapidResynchronizationRequest{SenderSSRC: 1, MediaSSRC: 2}.Marshal()
	var c CCFeedbackReport
	if err := c.Unmarshal(rrr); err == nil {
		t.Errorf("CCFB decoder accepted an RRR packet")
	}
}

// F14 (open): XR report blocks whose elements are not multiples of four bytes.
func TestFindingF14_XRUnalignedBlocks(t *testing.T) {
	for name, rb := range map[string]ReportBlock{
		"LossRLE 1 chunk":      &LossRLEReportBlock{XRHeader: XRHeader{BlockType: LossRLEReportBlockType}, Chunks: []Chunk{0x4006}},
		"DuplicateRLE 3 chunk": &DuplicateRLEReportBlock{XRHeader: XRHeader{BlockType: DuplicateRLEReportBlockType}, Chunks: []Chunk{1, 2, 3}},
		"Unknown 5 bytes":      &UnknownReportBlock{XRHeader: XRHeader{BlockType: 99}, Bytes: []byte{1, 2, 3, 4, 5}},
	} {
		x := ExtendedReport{SenderSSRC: 1, Reports: []ReportBlock{rb}}
		b, err := x.Marshal()
		if err != nil {
			continue // rejecting the value would be fine
		}
		if len(b)%4 != 0 || int(b[2])<<8|int(b[3]) != len(b)/4-1 {
			t.Errorf("%s: Marshal succeeded with %d bytes (not a multiple of 4), header length field %d", name, len(b), int(b[2])<<8|int(b[3]))
		}
	}
}

// F15 (open): bounded fields that the encoders cut to their wire width instead of rejecting.
func TestFindingF15_SilentMasking(t *testing.T) {
	type tc struct {
		name string
		enc  func() ([]byte, error)
		want string // what a faithful encoding would need
	}
	cases := []tc{
		{"SLI First=0x3FFF (13 bits)", func() ([]byte, error) {
			return SliceLossIndication{SLI: []SLIEntry{{First: 0x3FFF}}}.Marshal()
		}, ""},
		{"SLI Number=0x2000 (13 bits)", func() ([]byte, error) {
			return SliceLossIndication{SLI: []SLIEntry{{Number: 0x2000}}}.Marshal()
		}, ""},
		{"SLI Picture=0x40 (6 bits)", func() ([]byte, error) {
			return SliceLossIndication{SLI: []SLIEntry{{Picture: 0x40}}}.Marshal()
		}, ""},
		{"RunLengthChunk PacketStatusSymbol=5 (2 bits)", func() ([]byte, error) {
			return RunLengthChunk{PacketStatusSymbol: 5, RunLength: 1}.Marshal()
		}, ""},
		{"RunLengthChunk RunLength=0x2001 (13 bits)", func() ([]byte, error) {
			return RunLengthChunk{PacketStatusSymbol: 1, RunLength: 0x2001}.Marshal()
		}, ""},
		{"StatusVectorChunk SymbolSize=2 (1 bit)", func() ([]byte, error) {
			return StatusVectorChunk{SymbolSize: 2, SymbolList: []uint16{1, 1}}.Marshal()
		}, ""},
		{"StatusVectorChunk symbol=2 with one-bit symbols", func() ([]byte, error) {
			return StatusVectorChunk{SymbolSize: 0, SymbolList: []uint16{2}}.Marshal()
		}, ""},
		{"CCFB ECN=7 (2 bits)", func() ([]byte, error) {
			return CCFeedbackMetricBlock{Received: true, ECN: 7}.marshal()
		}, ""},
		{"CCFB ArrivalTimeOffset=0x2000 (13 bits)", func() ([]byte, error) {
			return CCFeedbackMetricBlock{Received: true, ArrivalTimeOffset: 0x2000}.marshal()
		}, ""},
		{"TWCC ReferenceTime=1<<24 (24 bits)", func() ([]byte, error) {
			return TransportLayerCC{Header: Header{Count: FormatTCC, Type: TypeTransportSpecificFeedback, Length: 4}, ReferenceTime: 1 << 24}.Marshal()
		}, ""},
		{"XR LossRLE T=16 (4 bits)", func() ([]byte, error) {
			return ExtendedReport{Reports: []ReportBlock{&LossRLEReportBlock{XRHeader: XRHeader{BlockType: LossRLEReportBlockType}, T: 16}}}.Marshal()
		}, ""},
		{"XR DuplicateRLE T=16 (4 bits)", func() ([]byte, error) {
			return ExtendedReport{Reports: []ReportBlock{&DuplicateRLEReportBlock{XRHeader: XRHeader{BlockType: DuplicateRLEReportBlockType}, T: 16}}}.Marshal()
		}, ""},
		{"XR PacketReceiptTimes T=16 (4 bits)", func() ([]byte, error) {
			return ExtendedReport{Reports: []ReportBlock{&PacketReceiptTimesReportBlock{XRHeader: XRHeader{BlockType: PacketReceiptTimesReportBlockType}, T: 16}}}.Marshal()
		}, ""},
		{"XR StatisticsSummary TTLorHopLimit=4 (2 bits)", func() ([]byte, error) {
			return ExtendedReport{Reports: []ReportBlock{&StatisticsSummaryReportBlock{XRHeader: XRHeader{BlockType: StatisticsSummaryReportBlockType}, TTLorHopLimit: 4}}}.Marshal()
		}, ""},
	}
	for _, c := range cases {
		b, err := c.enc()
		if err != nil {
			continue // rejecting the value is what the property asks for
		}
		t.Errorf("%s: Marshal succeeded (%x): the out-of-range value was cut to the field width", c.name, b)
	}
}

// F16 (open): a CCFB report block with exactly one metric block cannot be decoded from its own encoding
// (fails on the pinned tree for n = 1 only).
func TestFindingF16_CCFBSingleMetricBlock(t *testing.T) {
	for n := 0; n <= 3; n++ {
		in := CCFeedbackReport{SenderSSRC: 1, ReportTimestamp: 7, ReportBlocks: []CCFeedbackReportBlock{{
			MediaSSRC: 2, BeginSequence: 10, MetricBlocks: make([]CCFeedbackMetricBlock, n),
		}}}
		for i := range in.ReportBlocks[0].MetricBlocks {
			in.ReportBlocks[0].MetricBlocks[i] = CCFeedbackMetricBlock{Received: true, ECN: ECNECT1, ArrivalTimeOffset: uint16(i + 1)}
		}
		raw, err := in.Marshal()
		if err != nil {
			t.Fatalf("n=%d: Marshal: %v", n, err)
		}
		var out CCFeedbackReport
		err = out.Unmarshal(raw)
		got := -1
		if err == nil && len(out.ReportBlocks) == 1 {
			got = len(out.ReportBlocks[0].MetricBlocks)
		}
		if err != nil || got != n {
			t.Errorf("a block with %d metric block(s) encodes to % x and decodes with err=%v to %d metric block(s)", n, raw, err, got)
		}
	}
}

// F17 (open): a REMB with a zero mantissa decodes to 2^(exp+23) instead of 0.
func TestFindingF17_REMBZeroMantissa(t *testing.T) {
	in := ReceiverEstimatedMaximumBitrate{Bitrate: 0}
	raw, err := in.Marshal()
	if err != nil {
		t.Fatal(err)
	}
	var out ReceiverEstimatedMaximumBitrate
	if err := out.Unmarshal(raw); err != nil {
		t.Fatal(err)
	}
	if out.Bitrate != 0 {
		t.Errorf("Bitrate 0 encodes to % x (exponent 0, mantissa 0) and decodes to %g", raw[17:20], out.Bitrate)
	}
	for _, e := range []byte{1, 47, 63} {
		raw[17] = e << 2
		if err := out.Unmarshal(raw); err != nil {
			t.Fatal(err)
		}
		if out.Bitrate != 0 {
			t.Errorf("exponent %d with mantissa 0 decodes to %g instead of 0", e, out.Bitrate)
		}
	}
}
