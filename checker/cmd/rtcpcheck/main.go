// rtcpcheck decides the properties of /verif/properties.jsonl on the current
// working tree of pion/rtcp by static analysis only (see /verif/DESIGN.md).
package main

import (
	"runtime/pprof"
	"flag"
	"fmt"
	"os"
	"path/filepath"
	"runtime/debug"
	"strings"

	"rtcpverif/core"
	"rtcpverif/props"
)

func main() {
	prop := flag.String("prop", "", "property id (C01..C18)")
	tier := flag.String("tier", "quick", "quick|thorough")
	repo := flag.String("repo", "/repo", "path of pion/rtcp working tree")
	out := flag.String("out", "", "evidence file (default /verif/evidence/<id>.json)")
	known := flag.String("known", "", "known findings file (default <verif>/known_findings.json)")
	cpuprof := flag.String("cpuprofile", "", "write a CPU profile (debugging)")
	flag.Parse()
	debug.SetGCPercent(800)
	if *cpuprof != "" {
		pf, err := os.Create(*cpuprof)
		if err == nil {
			pprof.StartCPUProfile(pf)
			defer pprof.StopCPUProfile()
		}
	}
	if t := os.Getenv("VERIF_TIER"); t != "" && *tier == "" {
		*tier = t
	}
	exe, _ := os.Executable()
	verif := filepath.Dir(filepath.Dir(exe))
	if *out == "" {
		*out = filepath.Join(verif, "evidence", *prop+".json")
	}
	if *known == "" {
		*known = filepath.Join(verif, "known_findings.json")
	}
	os.Unsetenv("GOWORK")
	cmdline := "bin/rtcpcheck " + strings.Join(os.Args[1:], " ")

	fn, level, ok := props.Lookup(*prop)
	if !ok {
		fmt.Fprintf(os.Stderr, "unknown property %q\n", *prop)
		os.Exit(2)
	}
	rep := core.NewReport(*prop, level, *tier)
	kf, err := core.LoadKnown(*known)
	if err != nil {
		rep.Fatalf("known findings file unreadable: %v", err)
	}
	func() {
		defer func() {
			if r := recover(); r != nil {
				rep.Fatalf("analysis panic: %v\n%s", r, debug.Stack())
			}
		}()
		prog, err := core.Load(*repo, "", nil)
		if err != nil {
			rep.Fatalf("load: %v", err)
			return
		}
		fn(&props.Ctx{Prog: prog, Rep: rep, Tier: *tier, Repo: *repo, Verif: verif})
	}()
	if sf := os.Getenv("VERIF_REPLAY_SUMMARY"); sf != "" {
		if b, err := os.ReadFile(sf); err == nil {
			for _, line := range strings.Split(strings.TrimSpace(string(b)), "\n") {
				if line != "" {
					rep.Infof("%s", line)
				}
			}
		}
	}
	code := rep.Finish(*out, kf, cmdline)
	pprof.StopCPUProfile()
	os.Exit(code)
}
