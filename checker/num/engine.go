package num

import (
	"fmt"
	"go/constant"
	"go/token"
	"go/types"
	"sort"
	"strings"

	"golang.org/x/tools/go/callgraph"
	"golang.org/x/tools/go/ssa"
)

const lenMax = int64(1) << 50 // assumption: no slice/string is longer than 2^50 elements

type atomInfo struct {
	name string
	rng  Range
}

// Obl is one obligation instance aggregated over all calling contexts.
type Obl struct {
	Rule, Fn, Key string
	Pos           token.Pos
	Seen          int
	Failed        int
	Detail        string // what is required
	FailCtx       string // first failing context
	Note          string // what discharged it (first context)
	In            ssa.Instruction
}

type Engine struct {
	Pkg       *ssa.Package
	CG        *callgraph.Graph
	atoms     []atomInfo
	valAtom   map[ssa.Value]Atom
	lenAtoms  map[ssa.Value]Atom
	cellAtom  map[string]Atom
	tupAtom   map[string]Atom
	temps     map[int]Atom
	vids      map[ssa.Value]int
	ver       int64
	Obls      map[string]*Obl
	oblOrder  []string
	stack     []*frame
	MaxDepth  int
	callees   map[ssa.CallInstruction][]*ssa.Function
	Steps     int
	MaxSteps  int
	Exceeded  bool
	Trace     func(string)
	TraceJoin bool
	TraceFn   string
	// ZeroReceiver: decoder receivers are zero values (DESIGN §3 assumption)
	ZeroReceiver bool
	Externals    map[string]int // external callees met (for the evidence)
	Universe     map[*ssa.Function]bool
	ordinals     map[*ssa.Function]map[ssa.Instruction]int
	// Hooks for property-specific obligations
	OnLoop    func(e *Engine, fr *frame, l *loopInfo)
	Unknown   []string // constructs the engine does not model (reported as undecided)
	wrapAtoms map[string]Atom
	// Wraps: fixed-width arithmetic instructions -> [times evaluated in checking mode, times a wrap-around could not be excluded]
	Wraps map[ssa.Instruction][2]int
	// Masks: x & (2^k-1) instructions -> [times evaluated in checking mode, times x <= mask could not be established]
	Masks map[ssa.Instruction][2]int
	// AccessHook is called (checking mode) for every read extent on a slice: index+1, slice high bound, or low+N for binary.BigEndian reads.
	AccessHook func(e *Engine, st *State, in ssa.Instruction, base ssa.Value, extent Lin)
	// Opaque functions are not evaluated: results unconstrained, memory untouched (client-verified purity).
	Opaque map[*ssa.Function]bool
	// WrapLCong: record w ≡ e (mod 2^width) for every wrapped result w of expression e.
	WrapLCong bool
	// AssumeNoWrap: functions whose fixed-width arithmetic is assumed not to wrap (a domain assumption stated by the client).
	AssumeNoWrap  map[*ssa.Function]bool
	AssumedNoWrap map[ssa.Instruction]int
	// NarrowCtx: per (instruction, immediate call site) -> [evaluated, lossy] for Wraps and Masks.
	NarrowCtx map[string]*NarrowRec
	// AssumeAfterCheck: after an index operation the index is assumed in range (a failed check panics).
	AssumeAfterCheck bool
	// LoadGVN: integer loads through the same unresolved field address with no store/call in between are equal.
	LoadGVN bool
	// ErrDiscipline: generate E-ERR obligations (no callee error is dropped on a success return).
	ErrDiscipline bool
	// Defer: ghost atoms holding the pre-conversion value of narrowing instructions (assigned at every execution).
	Defer map[string]Atom // key: NarrowRec.Key
	// RootInit is applied to the entry state of the root.
	RootInit func(st *State)
	// DynCallHook is called for calls of function values; returning true means the hook has applied the call's effect itself.
	DynCallHook func(e *Engine, st *State, in *ssa.Call) bool
	// StoreHook is called (checking mode) before a store is applied.
	StoreHook func(e *Engine, st *State, x *ssa.Store)
	// ConvertHook is called (checking mode) before an integer conversion is evaluated.
	ConvertHook func(e *Engine, st *State, x *ssa.Convert)
	// BinOpHook is called (checking mode) before an integer binary operation is evaluated.
	BinOpHook func(e *Engine, st *State, x *ssa.BinOp)
	// HooksAlways: CallHook/ExternalHook also fire during fixpoint iteration (for hooks that bind ghost atoms).
	HooksAlways bool
	// ExternalHook is called (checking mode) before the model of an external call is applied.
	ExternalHook func(e *Engine, st *State, in *ssa.Call, name string, args []ssa.Value)
	// PostCallHook is called on every state in which a package-local call returns (result already bound to the call value).
	PostCallHook func(e *Engine, st *State, in *ssa.Call, callee *ssa.Function)
	// CallHook is called (checking mode) before a package-local call is evaluated.
	CallHook func(e *Engine, st *State, in *ssa.Call, callee *ssa.Function)
	dynThr    map[*ssa.Function]map[int64]bool
	selfRec   map[*ssa.Function]bool
	SummarisedRecursive map[string]int // self-recursive functions summarised at call sites (they must be analysed as roots)
	cellKeys  []string
	noThresholds    bool
	extraThresholds []int64
	mergedCache     []int64
	mergedFor       *int64
	ownerCache      map[Atom]ssa.Value
	ownerCacheLen   int
	vidRev          map[string]ssa.Value
	vidRevLen       int
	resliceCache  map[string]bool
	RecursionCuts map[string]int // functions whose recursive calls were summarised conservatively
	rankCache map[Atom]int
	rankLen   int
	thrCache  map[*ssa.Function][]int64
	// Summaries of decoder roots, used instead of inlining at interface call sites
	Summaries map[*ssa.Function]*FnSummary
	isCell    map[Atom]bool
	snapAtoms map[string]Atom
	objType   map[string]string // abstract object -> named type of its content
	pureSeen  map[string]bool
	// SpareOnReflectSet: type names whose objects a reflect setter cannot modify (justified by the caller)
	SpareOnReflectSet map[string]bool
	ReflectSets       int
	wrapDeps          map[Atom][]Atom // base atom -> wrap atoms whose defining expression mentions it
	wrapOf            map[Atom][]Atom // wrap atom -> atoms of its defining expression
	ReflectRule       func(e *Engine, fr *frame, st *State, in *ssa.Call, name string)
}

func NewEngine(pkg *ssa.Package, cg *callgraph.Graph) *Engine {
	e := &Engine{Pkg: pkg, CG: cg, valAtom: map[ssa.Value]Atom{}, lenAtoms: map[ssa.Value]Atom{}, cellAtom: map[string]Atom{},
		tupAtom: map[string]Atom{}, temps: map[int]Atom{}, vids: map[ssa.Value]int{}, Obls: map[string]*Obl{}, MaxDepth: 6,
		callees: map[ssa.CallInstruction][]*ssa.Function{}, MaxSteps: 40000000, Externals: map[string]int{}, Universe: map[*ssa.Function]bool{},
		ordinals: map[*ssa.Function]map[ssa.Instruction]int{}, objType: map[string]string{}, SpareOnReflectSet: map[string]bool{}, isCell: map[Atom]bool{}, snapAtoms: map[string]Atom{}, Summaries: map[*ssa.Function]*FnSummary{}, RecursionCuts: map[string]int{}, SummarisedRecursive: map[string]int{}, Wraps: map[ssa.Instruction][2]int{}, Masks: map[ssa.Instruction][2]int{}, AssumedNoWrap: map[ssa.Instruction]int{}, NarrowCtx: map[string]*NarrowRec{}}
	if cg != nil {
		for _, n := range cg.Nodes {
			for _, ed := range n.Out {
				if ed.Site != nil {
					e.callees[ed.Site] = append(e.callees[ed.Site], ed.Callee.Func)
				}
			}
		}
		for k, v := range e.callees {
			sort.Slice(v, func(i, j int) bool { return v[i].String() < v[j].String() })
			e.callees[k] = uniqFns(v)
		}
	}
	return e
}

func uniqFns(v []*ssa.Function) []*ssa.Function {
	var out []*ssa.Function
	for i, f := range v {
		if i == 0 || f != v[i-1] {
			out = append(out, f)
		}
	}
	return out
}

// wrapAtomOf returns the hash-consed atom for a wrapped arithmetic result.
func (e *Engine) wrapAtomOf(key string, r Range, sv Lin) Atom {
	if e.wrapAtoms == nil {
		e.wrapAtoms = map[string]Atom{}
		e.wrapDeps = map[Atom][]Atom{}
		e.wrapOf = map[Atom][]Atom{}
		e.wrapOf = map[Atom][]Atom{}
	}
	if a, ok := e.wrapAtoms[key]; ok {
		return a
	}
	a := e.newAtom("wrap("+e.linStr(sv)+")", r)
	e.wrapAtoms[key] = a
	for _, t := range sv.T {
		e.wrapDeps[t.A] = append(e.wrapDeps[t.A], a)
		e.wrapOf[a] = append(e.wrapOf[a], t.A)
		e.wrapOf[a] = append(e.wrapOf[a], t.A)
	}
	return a
}

// atomRank orders atoms by expected lifetime: 0 temporaries and SSA registers,
// 1 ghost snapshots / hash-consed values, 2 memory cells, 3 parameters.
func (e *Engine) atomRank(a Atom) int {
	if e.rankCache == nil {
		e.rankCache = map[Atom]int{}
	}
	if r, ok := e.rankCache[a]; ok && e.rankLen == len(e.atoms) {
		return r
	}
	if e.rankLen != len(e.atoms) {
		e.rankCache = map[Atom]int{}
		e.rankLen = len(e.atoms)
		owner := e.atomOwner()
		for at, v := range owner {
			if _, isParam := v.(*ssa.Parameter); isParam {
				e.rankCache[at] = 3
			} else {
				e.rankCache[at] = 0
			}
		}
		for _, at := range e.cellAtom {
			e.rankCache[at] = 2
		}
		for _, at := range e.snapAtoms {
			e.rankCache[at] = 1
		}
		for _, at := range e.wrapAtoms {
			e.rankCache[at] = 1
		}
		for _, at := range e.tupAtom {
			e.rankCache[at] = 0
		}
	}
	return e.rankCache[a]
}

// sortedCellKeys returns the memory cell keys in a stable order.
func (e *Engine) sortedCellKeys() []string {
	if len(e.cellKeys) != len(e.cellAtom) {
		e.cellKeys = e.cellKeys[:0]
		for k := range e.cellAtom {
			e.cellKeys = append(e.cellKeys, k)
		}
		sort.Strings(e.cellKeys)
	}
	return e.cellKeys
}

func (e *Engine) nextVer() int64 { e.ver++; return e.ver }

func (e *Engine) newAtom(name string, r Range) Atom {
	e.atoms = append(e.atoms, atomInfo{name, r})
	return Atom(len(e.atoms) - 1)
}

func (e *Engine) tempAtom(i int, r Range) Atom {
	a, ok := e.temps[i]
	if !ok {
		a = e.newAtom(fmt.Sprintf("tmp%d", i), r)
		e.temps[i] = a
	}
	e.atoms[a].rng = r
	return a
}

func (e *Engine) atomName(a Atom) string { return e.atoms[a].name }

func (e *Engine) linStr(l Lin) string {
	if l.Bad {
		return "BAD"
	}
	var parts []string
	for _, t := range l.T {
		switch t.K {
		case 1:
			parts = append(parts, e.atomName(t.A))
		case -1:
			parts = append(parts, "-"+e.atomName(t.A))
		default:
			parts = append(parts, fmt.Sprintf("%d*%s", t.K, e.atomName(t.A)))
		}
	}
	if l.C != 0 || len(parts) == 0 {
		parts = append(parts, fmt.Sprint(l.C))
	}
	return strings.Join(parts, " + ")
}

func (e *Engine) vid(v ssa.Value) string {
	id, ok := e.vids[v]
	if !ok {
		id = len(e.vids) + 1
		e.vids[v] = id
	}
	return fmt.Sprintf("v%d", id)
}

func typeRange(t types.Type) Range {
	b, ok := t.Underlying().(*types.Basic)
	if !ok {
		return Range{}
	}
	switch b.Kind() {
	case types.Uint8:
		return Range{0, 255, true, true}
	case types.Uint16:
		return Range{0, 65535, true, true}
	case types.Uint32:
		return Range{0, 1<<32 - 1, true, true}
	case types.Uint64, types.Uint, types.Uintptr:
		return Range{Lo: 0, HasLo: true}
	case types.Int8:
		return Range{-128, 127, true, true}
	case types.Int16:
		return Range{-32768, 32767, true, true}
	case types.Int32:
		return Range{-(1 << 31), 1<<31 - 1, true, true}
	case types.Bool:
		return Range{0, 1, true, true}
	}
	return Range{}
}

func isInt(t types.Type) bool {
	b, ok := t.Underlying().(*types.Basic)
	return ok && b.Info()&types.IsInteger != 0
}

func isSliceLike(t types.Type) bool {
	switch u := t.Underlying().(type) {
	case *types.Slice:
		return true
	case *types.Basic:
		return u.Info()&types.IsString != 0
	}
	return false
}

func isPointerLike(t types.Type) bool {
	switch t.Underlying().(type) {
	case *types.Pointer, *types.Interface, *types.Map, *types.Signature, *types.Chan:
		return true
	}
	return false
}

func (e *Engine) atomOf(v ssa.Value) Atom {
	if a, ok := e.valAtom[v]; ok {
		return a
	}
	name := v.Name()
	if v.Parent() != nil {
		name = shortFn(v.Parent()) + ":" + name
	}
	a := e.newAtom(name, typeRange(v.Type()))
	e.valAtom[v] = a
	return a
}

func (e *Engine) lenAtomOf(v ssa.Value) Atom {
	if a, ok := e.lenAtoms[v]; ok {
		return a
	}
	name := "len(" + v.Name() + ")"
	if v.Parent() != nil {
		name = shortFn(v.Parent()) + ":" + name
	}
	a := e.newAtom(name, Range{0, lenMax, true, true})
	e.lenAtoms[v] = a
	return a
}

func (e *Engine) cellAtomOf(key string, r Range) Atom {
	if a, ok := e.cellAtom[key]; ok {
		return a
	}
	a := e.newAtom("["+key+"]", r)
	e.cellAtom[key] = a
	if !strings.HasPrefix(key, "pure:") {
		e.isCell[a] = true
	}
	return a
}

func shortFn(f *ssa.Function) string {
	s := f.String()
	s = strings.ReplaceAll(s, "github.com/pion/rtcp.", "")
	return s
}

// ---- expressions

// expr: the linear expression of an integer-typed SSA value in st.
func (e *Engine) expr(st *State, v ssa.Value) Lin {
	if c, ok := v.(*ssa.Const); ok {
		if c.Value == nil {
			return Const(0)
		}
		switch c.Value.Kind() {
		case constant.Int:
			if i, ok := constant.Int64Val(c.Value); ok {
				return Const(i)
			}
			return Lin{Bad: true}
		case constant.Bool:
			if constant.BoolVal(c.Value) {
				return Const(1)
			}
			return Const(0)
		}
		return Lin{Bad: true}
	}
	return st.Expr(e.atomOf(v))
}

// lenExpr: length of a slice/string-typed value.
func (e *Engine) lenExpr(st *State, v ssa.Value) Lin {
	if c, ok := v.(*ssa.Const); ok {
		if c.Value == nil {
			return Const(0)
		}
		if c.Value.Kind() == constant.String {
			return Const(int64(len(constant.StringVal(c.Value))))
		}
		return Lin{Bad: true}
	}
	return st.Expr(e.lenAtomOf(v))
}

// ---- obligations

func (e *Engine) ordinal(in ssa.Instruction) int {
	fn := in.Parent()
	m := e.ordinals[fn]
	if m == nil {
		m = map[ssa.Instruction]int{}
		counts := map[string]int{}
		for _, b := range fn.Blocks {
			for _, i := range b.Instrs {
				k := fmt.Sprintf("%T", i)
				counts[k]++
				m[i] = counts[k]
			}
		}
		e.ordinals[fn] = m
	}
	return m[in]
}

func instrKind(in ssa.Instruction) string {
	s := fmt.Sprintf("%T", in)
	return strings.TrimPrefix(s, "*ssa.")
}

func (e *Engine) ctx() string {
	var parts []string
	for _, f := range e.stack {
		parts = append(parts, shortFn(f.fn))
	}
	return strings.Join(parts, " > ")
}

// oblige records the outcome of one obligation instance in the current context.
func (e *Engine) oblige(fr *frame, rule string, in ssa.Instruction, what string, ok bool, detail string) {
	if !fr.check {
		return
	}
	fn := in.Parent()
	key := fmt.Sprintf("%s/%s/%s#%d/%s", rule, shortFn(fn), instrKind(in), e.ordinal(in), what)
	o := e.Obls[key]
	if o == nil {
		o = &Obl{Rule: rule, Fn: shortFn(fn), Key: key, Pos: posOf(in), Detail: detail, In: in}
		e.Obls[key] = o
		e.oblOrder = append(e.oblOrder, key)
	}
	o.Seen++
	if !ok {
		o.Failed++
		if o.FailCtx == "" {
			o.FailCtx = e.ctx() + ": " + detail
		}
	}
}

func posOf(in ssa.Instruction) token.Pos {
	if in.Pos().IsValid() {
		return in.Pos()
	}
	var ops []*ssa.Value
	for _, op := range in.Operands(ops) {
		if *op != nil && (*op).Pos().IsValid() {
			return (*op).Pos()
		}
	}
	if b := in.Block(); b != nil {
		for _, i2 := range b.Instrs {
			if i2.Pos().IsValid() {
				return i2.Pos()
			}
		}
	}
	return in.Parent().Pos()
}

// SortedObls returns the obligations in first-seen order.
func (e *Engine) SortedObls() []*Obl {
	var out []*Obl
	for _, k := range e.oblOrder {
		out = append(out, e.Obls[k])
	}
	return out
}

// FnSummary is the conditional summary of a decoder analysed as a root with an
// unconstrained input and a zero receiver: "returns nil => len(param k) >= MinLenOnNil".
type FnSummary struct {
	Fn          *ssa.Function
	SliceParam  int   // index in Params of the []byte parameter
	MinLenOnNil int64 // -1: may return nil for any length; else proven lower bound
	NilPossible bool  // some return may yield a nil error
}

// Exported helpers for property-specific hooks.
func (e *Engine) ExprOf(st *State, v ssa.Value) Lin    { return e.expr(st, v) }
func (e *Engine) LenExprOf(st *State, v ssa.Value) Lin { return e.lenExpr(st, v) }
func (e *Engine) LinString(l Lin) string               { return e.linStr(l) }
func (e *Engine) Checking() bool {
	return len(e.stack) > 0 && e.stack[len(e.stack)-1].check
}
func (e *Engine) Context() string { return e.ctx() }
func (e *Engine) CurrentFn() *ssa.Function {
	if len(e.stack) == 0 {
		return nil
	}
	return e.stack[len(e.stack)-1].fn
}

// RootReturn is one return of the root function with its final state.
type RootReturn struct {
	St  *State
	Ret *ssa.Return
}

// EvalMethodOn evaluates method fn in (a clone of) st with its receiver bound
// to the value held by src (a by-value struct parameter/value, a pointer, or a
// slice). It returns the callee's return states with the result expressions.
type MethodRet struct {
	St      *State
	Ints    []Lin // integer results (Bad for others)
	Results []ssa.Value
}

func (e *Engine) EvalMethodOn(st *State, fn *ssa.Function, src ssa.Value) []MethodRet {
	s := st.Clone()
	if len(fn.Params) == 0 {
		return nil
	}
	p := fn.Params[0]
	_, srcIsStruct := src.Type().Underlying().(*types.Struct)
	if pt, ok := p.Type().Underlying().(*types.Pointer); ok && srcIsStruct {
		// pointer receiver, value source: materialise a temporary object holding the value
		obj := e.TempObject(src)
		e.copyLeaves(s, obj, e.aggKey(src), pt.Elem(), true)
		e.fresh(s, p)
		s.nonnil[e.vid(p)] = true
		s.ptr[e.vid(p)] = Address{Obj: obj}
	} else {
		e.copyValue(s, p, src)
		if _, isPtr := p.Type().Underlying().(*types.Pointer); isPtr {
			s.nonnil[e.vid(p)] = true
		}
	}
	rets, _ := e.Eval(fn, s, false, nil)
	var out []MethodRet
	for _, r := range rets {
		mr := MethodRet{St: r.st, Results: r.ret.Results}
		for _, v := range r.ret.Results {
			if isInt(v.Type()) {
				mr.Ints = append(mr.Ints, e.expr(r.st, v))
			} else {
				mr.Ints = append(mr.Ints, Lin{Bad: true})
			}
		}
		out = append(out, mr)
	}
	return out
}

// IsNilResult / IsNonNilResult classify a result value in a return state.
func (e *Engine) IsNilResult(st *State, v ssa.Value) bool    { return e.isNil(st, v) }
func (e *Engine) IsNonNilResult(st *State, v ssa.Value) bool { return e.isNonNil(st, v) }
func (e *Engine) AtomOfValue(v ssa.Value) Atom               { return e.atomOf(v) }
func (e *Engine) NewGhost(name string, lo, hi int64) Atom {
	return e.newAtom(name, Range{lo, hi, true, true})
}

// AddrOfValue resolves a pointer value to its abstract address.
func (e *Engine) AddrOfValue(st *State, v ssa.Value) (Address, bool) { return e.addrOf(st, v) }

// AllocObject is the abstract object of an allocation site.
func (e *Engine) AllocObject(a *ssa.Alloc) string { return e.allocObj(a) }

// StructFieldExpr is the integer value of field idx of the struct value v.
func (e *Engine) StructFieldExpr(st *State, v ssa.Value, idx int) Lin {
	stt, ok := v.Type().Underlying().(*types.Struct)
	if !ok || idx >= stt.NumFields() || !(isInt(stt.Field(idx).Type()) || isBool(stt.Field(idx).Type())) {
		return Lin{Bad: true}
	}
	key := fmt.Sprintf("%s.f%d", e.aggKey(v), idx)
	return st.Subst(Var(e.cellInt(key, stt.Field(idx).Type())))
}

// TempObject is the abstract object EvalMethodOn uses to hold the by-value receiver src.
func (e *Engine) TempObject(src ssa.Value) string { return "Q" + e.vid(src)[1:] }

// AggObject is the pseudo-object holding the aggregate (struct) value v.
func (e *Engine) AggObject(v ssa.Value) string { return e.aggKey(v) }

// StructFieldLenExpr is the length of the slice/string field idx of the struct value v.
func (e *Engine) StructFieldLenExpr(st *State, v ssa.Value, idx int) Lin {
	stt, ok := v.Type().Underlying().(*types.Struct)
	if !ok || idx >= stt.NumFields() || !isSliceLike(stt.Field(idx).Type()) {
		return Lin{Bad: true}
	}
	key := fmt.Sprintf("%s.f%d", e.aggKey(v), idx)
	return st.Subst(Var(e.cellLen(key)))
}

// InstrKey identifies an instruction by function, kind and ordinal (never by line).
func (e *Engine) InstrKey(in ssa.Instruction) string {
	return fmt.Sprintf("%s/%s#%d", shortFn(in.Parent()), instrKind(in), e.ordinal(in))
}

// NewGhostUnbounded creates a ghost atom without a static range.
func (e *Engine) NewGhostUnbounded(name string) Atom { return e.newAtom(name, Range{}) }

// TypeRangeOf is the value range of an integer type (HasHi false for 64-bit types).
func TypeRangeOf(t types.Type) Range { return typeRange(t) }

// NarrowRec: a narrowing instruction in one calling context (full call string).
type NarrowRec struct {
	Key       string // InstrKey @ call string
	In        ssa.Instruction
	Ctx       string
	Call      ssa.CallInstruction // immediate call site (nil in the root frame)
	Seen, Bad int
	Mask      int64 // for masks: the smallest mask value seen (0 otherwise)
}

func (e *Engine) narrowKey(in ssa.Instruction) string { return e.InstrKey(in) + " @ " + e.callString() }

// callString: the call-site sensitive call string of the current frame.
func (e *Engine) callString() string {
	var parts []string
	for _, f := range e.stack {
		p := shortFn(f.fn)
		if f.call != nil {
			p = fmt.Sprintf("call#%d:%s", e.ordinal(f.call), p)
		}
		parts = append(parts, p)
	}
	return strings.Join(parts, " > ")
}

func (e *Engine) noteCtx(in ssa.Instruction, fits bool, mask int64) {
	k := e.narrowKey(in)
	w := e.NarrowCtx[k]
	if w == nil {
		w = &NarrowRec{Key: k, In: in, Ctx: e.callString()}
		if n := len(e.stack); n > 0 {
			w.Call = e.stack[n-1].call
		}
		e.NarrowCtx[k] = w
	}
	w.Seen++
	if !fits {
		w.Bad++
	}
	if mask > 0 && (w.Mask == 0 || mask < w.Mask) && w.Mask >= 0 {
		w.Mask = mask
	}
	if mask < 0 {
		w.Mask = -1 // variable-width mask
	}
}

// NarrowKeyOf / CallString expose the context keys used by NarrowCtx and Defer.
func (e *Engine) NarrowKeyOf(in ssa.Instruction) string { return e.narrowKey(in) }
func (e *Engine) CallString() string                    { return e.callString() }

// AllocFieldExpr is the current integer value of field idx of the struct held by the local allocation a.
func (e *Engine) AllocFieldExpr(st *State, a *ssa.Alloc, idx int) Lin {
	pt, ok := a.Type().Underlying().(*types.Pointer)
	if !ok {
		return Lin{Bad: true}
	}
	stt, ok := pt.Elem().Underlying().(*types.Struct)
	if !ok || idx >= stt.NumFields() || !(isInt(stt.Field(idx).Type()) || isBool(stt.Field(idx).Type())) {
		return Lin{Bad: true}
	}
	key := fmt.Sprintf("%s.f%d", e.allocObj(a), idx)
	return st.Subst(Var(e.cellInt(key, stt.Field(idx).Type())))
}

// HavocAllMemory / FreshCallResult: building blocks for DynCallHook clients.
func (e *Engine) HavocAllMemory(st *State)                { e.havocAllMemory(st) }
func (e *Engine) FreshCallResult(st *State, c *ssa.Call) { e.freshCallResult(st, c) }

// PtrFieldExpr: current integer value of field idx of the struct the pointer value p points to.
func (e *Engine) PtrFieldExpr(st *State, p ssa.Value, idx int) Lin {
	ad, ok := e.addrOf(st, p)
	if !ok {
		return Lin{Bad: true}
	}
	pt, ok := p.Type().Underlying().(*types.Pointer)
	if !ok {
		return Lin{Bad: true}
	}
	stt, ok := pt.Elem().Underlying().(*types.Struct)
	if !ok || idx >= stt.NumFields() || !isInt(stt.Field(idx).Type()) {
		return Lin{Bad: true}
	}
	key := fmt.Sprintf("%s%s.f%d", ad.Obj, ad.Path, idx)
	return st.Subst(Var(e.cellInt(key, stt.Field(idx).Type())))
}

// PtrPathExpr: current integer value of the nested field path (field indices) of the struct p points to.
func (e *Engine) PtrPathExpr(st *State, p ssa.Value, path []int) Lin {
	ad, ok := e.addrOf(st, p)
	if !ok {
		return Lin{Bad: true}
	}
	pt, ok := p.Type().Underlying().(*types.Pointer)
	if !ok {
		return Lin{Bad: true}
	}
	t := pt.Elem()
	key := ad.Obj + ad.Path
	for _, idx := range path {
		stt, ok := t.Underlying().(*types.Struct)
		if !ok || idx >= stt.NumFields() {
			return Lin{Bad: true}
		}
		key += fmt.Sprintf(".f%d", idx)
		t = stt.Field(idx).Type()
	}
	if !isInt(t) {
		return Lin{Bad: true}
	}
	return st.Subst(Var(e.cellInt(key, t)))
}

// PtrFieldLenExpr: current length of the slice field idx of the struct the pointer value p points to.
func (e *Engine) PtrFieldLenExpr(st *State, p ssa.Value, idx int) Lin {
	ad, ok := e.addrOf(st, p)
	if !ok {
		return Lin{Bad: true}
	}
	pt, ok := p.Type().Underlying().(*types.Pointer)
	if !ok {
		return Lin{Bad: true}
	}
	stt, ok := pt.Elem().Underlying().(*types.Struct)
	if !ok || idx >= stt.NumFields() || !isSliceLike(stt.Field(idx).Type()) {
		return Lin{Bad: true}
	}
	key := fmt.Sprintf("%s%s.f%d", ad.Obj, ad.Path, idx)
	return st.Subst(Var(e.cellLen(key)))
}

// ActualOf resolves a parameter of the activation being evaluated (and of its callers) to the
// argument expression the caller passed, looking through the inlined call stack.
func (e *Engine) ActualOf(v ssa.Value) ssa.Value {
	strip := func(v ssa.Value) ssa.Value {
		for {
			ci, ok := v.(*ssa.ChangeInterface)
			if !ok {
				return v
			}
			v = ci.X
		}
	}
	for i := len(e.stack) - 1; i >= 0; i-- {
		v = strip(v)
		p, ok := v.(*ssa.Parameter)
		if !ok {
			return v
		}
		f := e.stack[i]
		if p.Parent() != f.fn || f.call == nil {
			return v
		}
		k := -1
		for j, q := range f.fn.Params {
			if q == p {
				k = j
			}
		}
		cc := f.call.Common()
		if k < 0 || cc.IsInvoke() || k >= len(cc.Args) {
			return v
		}
		v = cc.Args[k]
	}
	return strip(v)
}

// RootCall is the call instruction in the root function through which the activation being evaluated was
// entered (nil while the root itself is evaluated).
func (e *Engine) RootCall() ssa.CallInstruction {
	if len(e.stack) < 2 {
		return nil
	}
	return e.stack[1].call
}
