package num

import (
	"math"
	"fmt"
	"sync"
	"go/token"
	"go/types"
	"strings"

	"golang.org/x/tools/go/ssa"
)

// ---- nil-ness and addresses

func (e *Engine) isNonNil(st *State, v ssa.Value) bool {
	switch x := v.(type) {
	case *ssa.Alloc, *ssa.FieldAddr, *ssa.IndexAddr, *ssa.MakeInterface, *ssa.MakeClosure, *ssa.MakeMap, *ssa.MakeChan, *ssa.Function, *ssa.Global, *ssa.MakeSlice:
		return true
	case *ssa.Const:
		return false
	case *ssa.ChangeType:
		return e.isNonNil(st, x.X)
	case *ssa.ChangeInterface:
		return e.isNonNil(st, x.X)
	}
	return st.nonnil[e.vid(v)]
}

// isDeepNN: an interface value that is non-nil and, if it holds a pointer, holds a non-nil pointer.
func (e *Engine) isDeepNN(st *State, v ssa.Value) bool {
	switch x := v.(type) {
	case *ssa.MakeInterface:
		if _, isPtr := x.X.Type().Underlying().(*types.Pointer); isPtr {
			return e.isNonNil(st, x.X)
		}
		return true
	case *ssa.ChangeType:
		return e.isDeepNN(st, x.X)
	case *ssa.ChangeInterface:
		return e.isDeepNN(st, x.X)
	case *ssa.Const:
		return false
	}
	return st.nonnil["D"+e.vid(v)]
}

// elemsDeepNN: all elements of a slice of interfaces are deeply non-nil.
func (e *Engine) elemsDeepNN(st *State, v ssa.Value) bool {
	if c, ok := v.(*ssa.Const); ok && c.Value == nil {
		return true
	}
	return st.elemsNN["D"+e.vid(v)]
}

func (e *Engine) isNil(st *State, v ssa.Value) bool {
	if c, ok := v.(*ssa.Const); ok {
		return c.Value == nil && isPointerLike(c.Type())
	}
	return st.isnil[e.vid(v)]
}

func (e *Engine) elemsNonNil(st *State, v ssa.Value) bool {
	if c, ok := v.(*ssa.Const); ok && c.Value == nil {
		return true // nil slice: no elements
	}
	return st.elemsNN[e.vid(v)]
}

// addrOf: abstract address of a pointer-typed value.
func (e *Engine) addrOf(st *State, v ssa.Value) (Address, bool) {
	switch x := v.(type) {
	case *ssa.Alloc:
		return Address{Obj: e.allocObj(x)}, true
	case *ssa.ChangeType:
		return e.addrOf(st, x.X)
	}
	a, ok := st.ptr[e.vid(v)]
	return a, ok && a.Known()
}

func (e *Engine) allocObj(a *ssa.Alloc) string { return "A" + e.vid(a)[1:] }

// ---- memory cells

type leaf struct {
	path string
	typ  types.Type
	kind int // 0 int/bool, 1 slice-like (len), 2 pointer-like
}

var leafCache sync.Map // types.Type -> []leaf

// leavesOf enumerates the scalar leaves of a type (struct fields recursively).
func leavesOf(t types.Type) []leaf {
	if l, ok := leafCache.Load(t); ok {
		return l.([]leaf)
	}
	var out []leaf
	var walk func(t types.Type, path string, depth int)
	walk = func(t types.Type, path string, depth int) {
		if depth > 6 {
			return
		}
		switch u := t.Underlying().(type) {
		case *types.Struct:
			for i := 0; i < u.NumFields(); i++ {
				walk(u.Field(i).Type(), fmt.Sprintf("%s.f%d", path, i), depth+1)
			}
		case *types.Basic:
			if u.Info()&(types.IsInteger|types.IsBoolean) != 0 {
				out = append(out, leaf{path, t, 0})
			} else if u.Info()&types.IsString != 0 {
				out = append(out, leaf{path, t, 1})
			}
		case *types.Slice:
			out = append(out, leaf{path, t, 1})
		case *types.Pointer, *types.Interface, *types.Map, *types.Signature, *types.Chan:
			out = append(out, leaf{path, t, 2})
		}
	}
	walk(t, "", 0)
	leafCache.Store(t, out)
	return out
}

func (e *Engine) cellInt(key string, t types.Type) Atom { return e.cellAtomOf(key, typeRange(t)) }
func (e *Engine) cellLen(key string) Atom {
	return e.cellAtomOf(key+"#len", Range{0, lenMax, true, true})
}

// zeroObject initialises all leaves of an object to the zero value.
func (e *Engine) zeroObject(st *State, obj string, t types.Type) {
	for _, lf := range leavesOf(t) {
		key := obj + lf.path
		switch lf.kind {
		case 0:
			st.Bind(e.cellInt(key, lf.typ), Const(0))
		case 1:
			st.Bind(e.cellLen(key), Const(0))
			st.elemsNN[key] = true
			st.elemsNN["D"+key] = true
			delete(st.ptr, key)
		case 2:
			st.isnil[key] = true
			delete(st.nonnil, key)
			delete(st.ptr, key)
		}
	}
}

// havocObject forgets all leaves of an object.
func (e *Engine) havocObject(st *State, obj string) {
	for _, key := range e.sortedCellKeys() {
		a := e.cellAtom[key]
		if strings.HasPrefix(key, obj) && (len(key) == len(obj) || key[len(obj)] == '.' || key[len(obj)] == '#' || key[len(obj)] == '[') {
			if mentionsAtom(st, a) {
				st.Forget(a)
			}
		}
	}
	for _, m := range []map[string]bool{st.nonnil, st.isnil, st.elemsNN} {
		for k := range m {
			b := strings.TrimPrefix(k, "D")
			if strings.HasPrefix(b, obj) && (len(b) == len(obj) || b[len(obj)] == '.' || b[len(obj)] == '[') {
				delete(m, k)
			}
		}
	}
	for k := range st.ptr {
		if strings.HasPrefix(k, obj) && (len(k) == len(obj) || k[len(obj)] == '.') {
			delete(st.ptr, k)
		}
	}
}

func mentionsAtom(st *State, a Atom) bool {
	if _, ok := st.def[a]; ok {
		return true
	}
	if _, ok := st.cong[a]; ok {
		return true
	}
	for _, d := range st.def {
		if d.Coef(a) != 0 {
			return true
		}
	}
	for _, c := range st.ineq {
		if c.Coef(a) != 0 {
			return true
		}
	}
	return false
}

// havocAllMemory forgets every memory cell that unknown code could reach:
// cells of objects whose address never escapes (it is only used for field
// access, loads, stores into it, and as receiver/argument of package functions
// that treat their parameter the same way) are kept.
func (e *Engine) havocAllMemory(st *State) {
	e.havocMemoryExcept(st, nil)
}

var escapeMu sync.Mutex
var escapeCache = map[ssa.Value]bool{}

// addressEscapes reports whether pointer value v (an Alloc or a parameter) may
// be retained or reached by code the analysis does not follow.
func addressEscapes(v ssa.Value, pkg *ssa.Package, depth int) bool {
	if depth == 0 {
		escapeMu.Lock()
		defer escapeMu.Unlock()
	}
	if r, ok := escapeCache[v]; ok {
		return r
	}
	if depth > 5 {
		return true
	}
	escapeCache[v] = false // cycles (recursive functions): coinductive — no escaping use found on the cycle means no escape
	res := false
	refs := v.Referrers()
	if refs == nil {
		escapeCache[v] = true
		return true
	}
	for _, ref := range *refs {
		switch r := ref.(type) {
		case *ssa.FieldAddr:
			// address of a field: same object; the field address itself must not escape either
			if addressEscapes(r, pkg, depth+1) {
				res = true
			}
		case *ssa.IndexAddr:
			if r.X == v && addressEscapes(r, pkg, depth+1) {
				res = true
			}
		case *ssa.UnOp:
			if r.Op != token.MUL {
				res = true
			}
		case *ssa.Store:
			if r.Val == v {
				res = true
			}
		case *ssa.DebugRef:
		case *ssa.Call:
			c := r.Common()
			f, ok := c.Value.(*ssa.Function)
			if !ok || c.IsInvoke() || f.Pkg != pkg || len(f.Blocks) == 0 {
				res = true
				break
			}
			for i, a := range c.Args {
				if a == v {
					if i >= len(f.Params) || addressEscapes(f.Params[i], pkg, depth+1) {
						res = true
					}
				}
			}
		default:
			res = true
		}
		if res {
			break
		}
	}
	escapeCache[v] = res
	return res
}

// copyLeaves copies the leaves under srcKey to dstKey (struct assignment / load / store).
func (e *Engine) copyLeaves(st *State, dstKey, srcKey string, t types.Type, srcKnown bool) {
	for _, lf := range leavesOf(t) {
		d, s := dstKey+lf.path, srcKey+lf.path
		switch lf.kind {
		case 0:
			if srcKnown {
				st.Bind(e.cellInt(d, lf.typ), st.Expr(e.cellInt(s, lf.typ)))
			} else {
				st.Forget(e.cellInt(d, lf.typ))
			}
		case 1:
			if srcKnown {
				st.Bind(e.cellLen(d), st.Expr(e.cellLen(s)))
				setBool(st.elemsNN, d, st.elemsNN[s])
				setBool(st.elemsNN, "D"+d, st.elemsNN["D"+s])
			} else {
				st.Forget(e.cellLen(d))
				delete(st.elemsNN, d)
				delete(st.elemsNN, "D"+d)
			}
		case 2:
			if srcKnown {
				setBool(st.nonnil, d, st.nonnil[s])
				setBool(st.nonnil, "D"+d, st.nonnil["D"+s])
				setBool(st.isnil, d, st.isnil[s])
				if p, ok := st.ptr[s]; ok {
					st.ptr[d] = p
				} else {
					delete(st.ptr, d)
				}
			} else {
				delete(st.nonnil, d)
				delete(st.nonnil, "D"+d)
				delete(st.isnil, d)
				delete(st.ptr, d)
			}
		}
	}
}

func setBool(m map[string]bool, k string, v bool) {
	if v {
		m[k] = true
	} else {
		delete(m, k)
	}
}

// aggKey: pseudo-object holding an aggregate (struct) SSA value.
func (e *Engine) aggKey(v ssa.Value) string { return "G" + e.vid(v)[1:] }

// ---- instruction semantics

func (e *Engine) exec(fr *frame, st *State, in ssa.Instruction) {
	switch x := in.(type) {
	case *ssa.Alloc:
		obj := e.allocObj(x)
		t := x.Type().(*types.Pointer).Elem()
		if n, ok := t.(*types.Named); ok {
			e.objType[obj] = n.Obj().Name()
		}
		e.zeroObject(st, obj, t)
		if x.Heap {
			e.countAlloc(st, Const(1))
		}
	case *ssa.FieldAddr:
		e.needNonNil(fr, st, x, x.X, "FieldAddr")
		if a, ok := e.addrOf(st, x.X); ok {
			st.ptr[e.vid(x)] = Address{a.Obj, fmt.Sprintf("%s.f%d", a.Path, x.Field)}
		} else {
			delete(st.ptr, e.vid(x))
		}
	case *ssa.IndexAddr:
		e.indexObligation(fr, st, x, x.X, x.Index)
		delete(st.ptr, e.vid(x))
		if _, isPtr := x.X.Type().Underlying().(*types.Pointer); isPtr {
			// element of a local array (composite literals, varargs): a cell of the array object
			if a, ok := e.addrOf(st, x.X); ok {
				if i := st.Subst(e.expr(st, x.Index)); i.IsConst() {
					st.ptr[e.vid(x)] = Address{a.Obj, fmt.Sprintf("%s[%d]", a.Path, i.C)}
				} else {
					st.ptr[e.vid(x)] = Address{a.Obj, a.Path + "[*]"}
				}
			}
		}
		if isSliceLike(x.X.Type()) {
			st.ptr[e.vid(x)] = Address{Obj: "", Path: ""}
			setBool(st.elemsNN, "E"+e.vid(x), e.elemsNonNil(st, x.X)) // element address of an all-non-nil slice
			setBool(st.elemsNN, "DE"+e.vid(x), e.elemsDeepNN(st, x.X))
		}
	case *ssa.Index:
		e.indexObligation(fr, st, x, x.X, x.Index)
		e.fresh(st, x)
	case *ssa.Field:
		// extract from an aggregate value
		src := e.aggKey(x.X) + fmt.Sprintf(".f%d", x.Field)
		e.loadFromKey(st, x, src, true)
	case *ssa.Slice:
		e.sliceInstr(fr, st, x)
	case *ssa.MakeSlice:
		l := e.expr(st, x.Len)
		e.oblige(fr, "B-MAKE", x, "len>=0", st.Entails(l), "make: length must be non-negative")
		e.allocObligation(fr, st, x, l)
		st.Bind(e.lenAtomOf(x), l)
		// make zero-fills: pointer-like elements are nil unless the slice is empty
		empty := st.Subst(l).IsConst() && st.Subst(l).C == 0
		st.elemsNN[e.vid(x)] = empty || !isPointerLike(x.Type().Underlying().(*types.Slice).Elem())
		st.elemsNN["D"+e.vid(x)] = st.elemsNN[e.vid(x)]
	case *ssa.UnOp:
		e.unop(fr, st, x)
	case *ssa.BinOp:
		e.binop(fr, st, x)
	case *ssa.Convert:
		e.convert(fr, st, x)
	case *ssa.ChangeType:
		e.copyValue(st, x, x.X)
	case *ssa.ChangeInterface:
		e.copyValue(st, x, x.X)
	case *ssa.MakeInterface:
		st.nonnil[e.vid(x)] = true
		setBool(st.nonnil, "D"+e.vid(x), e.isDeepNN(st, x))
	case *ssa.TypeAssert:
		if !x.CommaOk {
			e.oblige(fr, "B-TAS", x, "assert", false, "type assertion without comma-ok may panic")
		}
		delete(st.nonnil, e.vid(x))
		// the asserted value (component 0 of the comma-ok form) is a non-nil
		// pointer when the interface operand was deeply non-nil
		if x.CommaOk {
			setBool(st.nonnil, e.vid(x)+"#0", e.isDeepNN(st, x.X))
			setBool(st.nonnil, "D"+e.vid(x)+"#0", e.isDeepNN(st, x.X))
		} else {
			setBool(st.nonnil, e.vid(x), e.isDeepNN(st, x.X))
			setBool(st.nonnil, "D"+e.vid(x), e.isDeepNN(st, x.X))
		}
	case *ssa.Extract:
		e.extract(st, x)
	case *ssa.Store:
		e.store(fr, st, x)
	case *ssa.MapUpdate:
		e.oblige(fr, "B-NIL", x, "map", e.isNonNil(st, x.Map), "assignment to entry in possibly nil map")
	case *ssa.Lookup:
		e.fresh(st, x)
	case *ssa.MakeMap, *ssa.MakeChan, *ssa.MakeClosure:
		st.nonnil[e.vid(x.(ssa.Value))] = true
	case *ssa.Range, *ssa.Next:
		e.fresh(st, x.(ssa.Value))
	case *ssa.Defer:
		e.unknownConstruct(fr, x, "defer")
	case *ssa.Go:
		e.unknownConstruct(fr, x, "go")
	case *ssa.Send, *ssa.Select:
		e.unknownConstruct(fr, x, "channel operation")
	case *ssa.RunDefers, *ssa.DebugRef:
	case *ssa.SliceToArrayPointer:
		e.unknownConstruct(fr, x, "slice to array pointer conversion")
	default:
		if v, ok := in.(ssa.Value); ok {
			e.fresh(st, v)
		}
	}
}

func (e *Engine) unknownConstruct(fr *frame, in ssa.Instruction, what string) {
	e.oblige(fr, "B-CNV", in, what, false, what+" is not modelled by the analysis")
}

// fresh: the value is unknown (only its type range).
func (e *Engine) fresh(st *State, v ssa.Value) {
	switch {
	case isInt(v.Type()) || isBool(v.Type()):
		st.Forget(e.atomOf(v))
	case isSliceLike(v.Type()):
		st.Forget(e.lenAtomOf(v))
		delete(st.elemsNN, e.vid(v))
		delete(st.elemsNN, "D"+e.vid(v))
	default:
		k := e.vid(v)
		delete(st.nonnil, k)
		delete(st.nonnil, "D"+k)
		delete(st.isnil, k)
		delete(st.ptr, k)
		if _, ok := v.Type().Underlying().(*types.Struct); ok {
			e.copyLeaves(st, e.aggKey(v), "", v.Type(), false)
		}
	}
}

func (e *Engine) copyValue(st *State, dst, src ssa.Value) {
	switch {
	case isInt(dst.Type()) || isBool(dst.Type()):
		st.Bind(e.atomOf(dst), e.expr(st, src))
	case isSliceLike(dst.Type()):
		st.Bind(e.lenAtomOf(dst), e.lenExpr(st, src))
		setBool(st.elemsNN, e.vid(dst), e.elemsNonNil(st, src))
		setBool(st.elemsNN, "D"+e.vid(dst), e.elemsDeepNN(st, src))
	default:
		k := e.vid(dst)
		setBool(st.nonnil, k, e.isNonNil(st, src))
		setBool(st.nonnil, "D"+k, e.isDeepNN(st, src))
		setBool(st.isnil, k, e.isNil(st, src))
		if a, ok := e.addrOf(st, src); ok {
			st.ptr[k] = a
		} else {
			delete(st.ptr, k)
		}
		if _, ok := dst.Type().Underlying().(*types.Struct); ok {
			e.copyLeaves(st, e.aggKey(dst), e.aggKey(src), dst.Type(), true)
		}
	}
}

func (e *Engine) needNonNil(fr *frame, st *State, in ssa.Instruction, p ssa.Value, what string) {
	if _, ok := p.Type().Underlying().(*types.Pointer); !ok {
		if _, ok := p.Type().Underlying().(*types.Interface); !ok {
			return
		}
	}
	ok := e.isNonNil(st, p)
	if !ok {
		if _, isElem := st.ptr[e.vid(p)]; isElem && false {
			ok = true
		}
	}
	e.oblige(fr, "B-NIL", in, what, ok, "dereference of a possibly nil "+p.Type().String())
}

func (e *Engine) indexObligation(fr *frame, st *State, in ssa.Instruction, x, idx ssa.Value) {
	i := e.expr(st, idx)
	var n Lin
	switch t := x.Type().Underlying().(type) {
	case *types.Pointer: // *array
		e.needNonNil(fr, st, in, x, "IndexAddr")
		if at, ok := t.Elem().Underlying().(*types.Array); ok {
			n = Const(at.Len())
		} else {
			n = Lin{Bad: true}
		}
	case *types.Array:
		n = Const(t.Len())
	default:
		n = e.lenExpr(st, x)
	}
	lo := st.Entails(i)
	hi := st.Entails(n.Sub(i).AddConst(-1))
	if !hi && fr.check && !n.Bad && !i.Bad && len(st.lc) > 0 {
		// second chance: relate remainders computed at different places
		st.SaturateCong()
		hi = st.Entails(n.Sub(i).AddConst(-1))
	}
	if e.AccessHook != nil && fr.check {
		e.AccessHook(e, st, in, x, i.AddConst(1))
	}
	e.oblige(fr, "B-IDX", in, "0<=i", lo, "index must be non-negative")
	e.oblige(fr, "B-IDX", in, "i<len", hi, fmt.Sprintf("index %s must be < length %s", e.linStr(st.Subst(i)), e.linStr(st.Subst(n))))
	if e.AssumeAfterCheck && !i.Bad {
		// execution continues only if the index was in range
		if !lo {
			st.Assume(i)
		}
		if !hi && !n.Bad {
			st.Assume(n.Sub(i).AddConst(-1))
		}
	}
}

func (e *Engine) sliceInstr(fr *frame, st *State, x *ssa.Slice) {
	var n Lin
	isArr := false
	switch t := x.X.Type().Underlying().(type) {
	case *types.Pointer:
		e.needNonNil(fr, st, x, x.X, "Slice")
		if at, ok := t.Elem().Underlying().(*types.Array); ok {
			n = Const(at.Len())
			isArr = true
		}
	default:
		n = e.lenExpr(st, x.X)
	}
	lo := Const(0)
	if x.Low != nil {
		lo = e.expr(st, x.Low)
	}
	hi := n
	if x.High != nil {
		hi = e.expr(st, x.High)
	}
	if x.Low != nil {
		e.oblige(fr, "B-SLC", x, "0<=low", st.Entails(lo), "slice low bound must be non-negative")
	}
	e.oblige(fr, "B-SLC", x, "low<=high", st.Entails(hi.Sub(lo)), fmt.Sprintf("slice bounds: low %s must be <= high %s", e.linStr(st.Subst(lo)), e.linStr(st.Subst(hi))))
	if x.High != nil && e.AccessHook != nil && fr.check {
		e.AccessHook(e, st, x, x.X, hi)
	}
	if x.High != nil {
		// against the LENGTH (not the capacity): the analysis never lets a decoder look past the slice it was given
		e.oblige(fr, "B-SLC", x, "high<=len", st.Entails(n.Sub(hi)), fmt.Sprintf("slice high bound %s must be <= length %s", e.linStr(st.Subst(hi)), e.linStr(st.Subst(n))))
	}
	if x.Max != nil {
		e.oblige(fr, "B-SLC", x, "3-index", false, "3-index slice expressions are not modelled")
	}
	_ = isArr
	st.Bind(e.lenAtomOf(x), hi.Sub(lo))
	if isSliceLike(x.X.Type()) {
		setBool(st.elemsNN, e.vid(x), e.elemsNonNil(st, x.X))
		setBool(st.elemsNN, "D"+e.vid(x), e.elemsDeepNN(st, x.X))
	} else {
		// slice of a (zero-filled or literal) array: elements are not tracked; an
		// empty slice or a slice of non-pointer elements is vacuously all-non-nil
		l := st.Subst(hi.Sub(lo))
		nn := l.IsConst() && l.C == 0
		if at, ok := x.Type().Underlying().(*types.Slice); ok && !isPointerLike(at.Elem()) {
			nn = true
		}
		setBool(st.elemsNN, e.vid(x), nn)
		setBool(st.elemsNN, "D"+e.vid(x), nn)
	}
}

func (e *Engine) extract(st *State, x *ssa.Extract) {
	src := fmt.Sprintf("%s#%d", e.vid(x.Tuple), x.Index)
	switch {
	case isInt(x.Type()) || isBool(x.Type()):
		if a, ok := e.tupAtom[src]; ok {
			st.Bind(e.atomOf(x), st.Expr(a))
		} else {
			st.Forget(e.atomOf(x))
		}
	case isSliceLike(x.Type()):
		if a, ok := e.tupAtom[src+"#len"]; ok {
			st.Bind(e.lenAtomOf(x), st.Expr(a))
		} else {
			st.Forget(e.lenAtomOf(x))
		}
		setBool(st.elemsNN, e.vid(x), st.elemsNN[src])
		setBool(st.elemsNN, "D"+e.vid(x), st.elemsNN["D"+src])
	default:
		k := e.vid(x)
		setBool(st.nonnil, k, st.nonnil[src])
		setBool(st.nonnil, "D"+k, st.nonnil["D"+src])
		setBool(st.isnil, k, st.isnil[src])
		if p, ok := st.ptr[src]; ok {
			st.ptr[k] = p
		} else {
			delete(st.ptr, k)
		}
		if c, ok := st.corr[src]; ok {
			st.corr[k] = c
		} else {
			delete(st.corr, k)
		}
		if _, ok := x.Type().Underlying().(*types.Struct); ok {
			e.copyLeaves(st, e.aggKey(x), "T"+src, x.Type(), true)
		}
	}
}

// loadFromKey sets value v from the memory cells under key.
func (e *Engine) loadFromKey(st *State, v ssa.Value, key string, known bool) {
	t := v.Type()
	switch {
	case isInt(t) || isBool(t):
		if known {
			st.Bind(e.atomOf(v), st.Expr(e.cellInt(key, t)))
		} else {
			st.Forget(e.atomOf(v))
		}
	case isSliceLike(t):
		if known {
			st.Bind(e.lenAtomOf(v), st.Expr(e.cellLen(key)))
			setBool(st.elemsNN, e.vid(v), st.elemsNN[key])
			setBool(st.elemsNN, "D"+e.vid(v), st.elemsNN["D"+key])
		} else {
			st.Forget(e.lenAtomOf(v))
			delete(st.elemsNN, e.vid(v))
			delete(st.elemsNN, "D"+e.vid(v))
		}
	default:
		k := e.vid(v)
		if known {
			setBool(st.nonnil, k, st.nonnil[key])
			setBool(st.nonnil, "D"+k, st.nonnil["D"+key])
			setBool(st.isnil, k, st.isnil[key])
			if p, ok := st.ptr[key]; ok {
				st.ptr[k] = p
			} else {
				delete(st.ptr, k)
			}
		} else {
			delete(st.nonnil, k)
			delete(st.nonnil, "D"+k)
			delete(st.isnil, k)
			delete(st.ptr, k)
		}
		if _, ok := t.Underlying().(*types.Struct); ok {
			e.copyLeaves(st, e.aggKey(v), key, t, known)
		}
	}
}

// addrExprKey: a syntactic key for field addresses over an SSA base pointer ("" if not of that form).
func (e *Engine) addrExprKey(v ssa.Value) string {
	switch x := v.(type) {
	case *ssa.FieldAddr:
		base := e.addrExprKey(x.X)
		if base == "" {
			base = e.vid(x.X)
		}
		return fmt.Sprintf("%s.f%d", base, x.Field)
	case *ssa.IndexAddr:
		// element of a slice that is itself loaded through a keyed address; same index register
		var base string
		if ld, ok := x.X.(*ssa.UnOp); ok && ld.Op == token.MUL {
			if k := e.addrExprKey(ld.X); k != "" {
				base = "*(" + k + ")"
			}
		}
		if base == "" {
			base = e.vid(x.X)
		}
		if _, isConst := x.Index.(*ssa.Const); isConst {
			return fmt.Sprintf("%s[%s]", base, x.Index.String())
		}
		return fmt.Sprintf("%s[%s]", base, e.vid(x.Index))
	}
	return ""
}

func (e *Engine) unop(fr *frame, st *State, x *ssa.UnOp) {
	switch x.Op {
	case token.MUL: // load
		if g, ok := x.X.(*ssa.Global); ok {
			// package-level variables: error values are non-nil (C18-GLOB: written only by init)
			e.fresh(st, x)
			if types.Identical(g.Type().(*types.Pointer).Elem(), types.Universe.Lookup("error").Type()) {
				st.nonnil[e.vid(x)] = true
			}
			return
		}
		if _, isAddr := x.X.(*ssa.FieldAddr); !isAddr {
			if _, isIdx := x.X.(*ssa.IndexAddr); !isIdx {
				if _, isAl := x.X.(*ssa.Alloc); !isAl {
					e.needNonNil(fr, st, x, x.X, "load")
				}
			}
		}
		if a, ok := e.addrOf(st, x.X); ok {
			e.loadFromKey(st, x, a.Key(), true)
			return
		}
		e.loadFromKey(st, x, "", false)
		if e.LoadGVN && isInt(x.Type()) {
			// two loads through the same (unresolved) address with no store or call in between read the same value
			if k := e.addrExprKey(x.X); k != "" {
				if a, ok := st.loadMemo[k]; ok && a != e.atomOf(x) {
					st.Bind(e.atomOf(x), Var(a))
				} else {
					if st.loadMemo == nil {
						st.loadMemo = map[string]Atom{}
					}
					st.loadMemo[k] = e.atomOf(x)
				}
			}
		}
		if e.LoadGVN && isSliceLike(x.Type()) {
			// the same holds for the length of a slice or string loaded twice
			if k := e.addrExprKey(x.X); k != "" {
				k = "len:" + k
				if a, ok := st.loadMemo[k]; ok && a != e.lenAtomOf(x) {
					st.Bind(e.lenAtomOf(x), Var(a))
				} else {
					if st.loadMemo == nil {
						st.loadMemo = map[string]Atom{}
					}
					st.loadMemo[k] = e.lenAtomOf(x)
				}
			}
		}
		// element of an all-non-nil slice
		if st.elemsNN["E"+e.vid(x.X)] && isPointerLike(x.Type()) {
			st.nonnil[e.vid(x)] = true
		}
		if st.elemsNN["DE"+e.vid(x.X)] && isPointerLike(x.Type()) {
			st.nonnil["D"+e.vid(x)] = true
		}
	case token.NOT:
		st.Bind(e.atomOf(x), Const(1).Sub(e.expr(st, x.X)))
	case token.SUB:
		v := e.expr(st, x.X).Neg()
		e.bindChecked(st, x, v)
	default:
		e.fresh(st, x)
	}
}

// bindChecked binds x := v if v provably fits the type of x (no wrap-around);
// otherwise x is an unknown of its type, keeping only a congruence that
// survives the modulus.
func (e *Engine) bindChecked(st *State, x ssa.Value, v Lin) bool {
	a := e.atomOf(x)
	r := typeRange(x.Type())
	if in, ok := x.(ssa.Instruction); ok && e.Defer != nil {
		if g, ok := e.Defer[e.narrowKey(in)]; ok {
			if v.Bad {
				st.Forget(g)
			} else {
				st.Bind(g, v)
			}
		}
	}
	fits := !v.Bad
	if fits && r.HasLo && !st.Entails(v.AddConst(-r.Lo)) {
		fits = false
	}
	if fits && r.HasHi && !st.Entails(Const(r.Hi).Sub(v)) {
		fits = false
	}
	// 64-bit types (no HasHi): the analysis assumes that arithmetic on values
	// derived from lengths and small counters does not overflow 2^63 (stated
	// in every evidence file); only the unsigned lower bound is checked.
	if in, ok := x.(ssa.Instruction); ok && !fits && !v.Bad && r.HasHi && r.Hi-r.Lo >= 65535 && e.AssumeNoWrap[in.Parent()] {
		// (only 16-bit and wider arithmetic: the size-domain assumption bounds sizes by 65532, it says nothing about 8-bit arithmetic)
		// client-stated domain assumption: arithmetic of this function does not wrap
		if r.HasLo {
			st.Assume(v.AddConst(-r.Lo))
		}
		st.Assume(Const(r.Hi).Sub(v))
		fits = true
		if e.Checking() {
			e.AssumedNoWrap[in]++
		}
	}
	if in, ok := x.(ssa.Instruction); ok && e.Checking() && r.HasHi {
		w := e.Wraps[in]
		w[0]++
		if !fits {
			w[1]++
		}
		e.Wraps[in] = w
		e.noteCtx(in, fits, 0)
	}
	if fits {
		st.Bind(a, v)
		return true
	}
	c := Cong{}
	if !v.Bad {
		c = st.CongOfExpr(v)
	}
	st.Forget(a)
	var cg Cong
	if c.ok() && r.HasHi {
		// wrap modulus 2^w: keep the part of the congruence dividing it
		w := r.Hi - r.Lo + 1
		m := gcd(c.M, w)
		if m > 1 {
			cg = Cong{m, modpos(c.R, m)}
		}
	}
	// global value numbering of wrapped results: the same (type, unwrapped
	// expression over base atoms) denotes the same value, because go/ssa does
	// no common-subexpression elimination (4*h.Length occurs three times in a
	// typical decoder).
	if sv := st.Subst(v); !sv.Bad && r.HasHi {
		key := fmt.Sprintf("%s|%d|%s", x.Type().String(), sv.C, sv.Key())
		w := e.wrapAtomOf(key, r, sv)
		if cg.ok() {
			st.addCong(w, cg)
		}
		if e.WrapLCong {
			// w ≡ sv (mod 2^width): lets a later bound on sv recover w = sv
			st.AddLCong(Var(w).Sub(sv), r.Hi-r.Lo+1)
		}
		st.Bind(a, Var(w))
		return false
	}
	if cg.ok() {
		st.addCong(a, cg)
	}
	return false
}

func (e *Engine) binop(fr *frame, st *State, x *ssa.BinOp) {
	if !isInt(x.Type()) {
		if isBool(x.Type()) {
			e.boolBinop(st, x)
		} else {
			e.fresh(st, x)
		}
		return
	}
	if e.BinOpHook != nil && fr != nil && fr.check {
		e.BinOpHook(e, st, x)
	}
	a, b := e.expr(st, x.X), e.expr(st, x.Y)
	switch x.Op {
	case token.ADD:
		e.bindChecked(st, x, a.Add(b))
	case token.SUB:
		e.bindChecked(st, x, a.Sub(b))
	case token.MUL:
		sa, sb := st.Subst(a), st.Subst(b)
		switch {
		case sb.IsConst():
			e.bindChecked(st, x, a.Scale(sb.C))
		case sa.IsConst():
			e.bindChecked(st, x, b.Scale(sa.C))
		default:
			e.freshBounded(st, x, mulRange(st.Bounds(a), st.Bounds(b)))
		}
	case token.QUO, token.REM:
		sb := st.Subst(b)
		nz := st.Entails(b.AddConst(-1)) || st.Entails(b.Neg().AddConst(-1))
		e.oblige(fr, "B-DIV", x, "divisor!=0", nz, "integer division by a possibly zero divisor")
		if sb.IsConst() && sb.C > 0 && st.Entails(a) {
			e.divmod(st, x, a, sb.C, x.Op == token.REM)
		} else {
			e.fresh(st, x)
		}
	case token.SHL:
		sb := st.Subst(b)
		if shlOnlyFeedsSameShr(x) {
			// first half of the mask idiom (v << k) >> k: the bits shifted out are cut on purpose; the loss is
			// accounted for at the right shift, which is modelled as v & (2^(W-k)-1)
			e.fresh(st, x)
		} else if sb.IsConst() && sb.C >= 0 && sb.C < 62 {
			e.bindChecked(st, x, a.Scale(int64(1)<<uint(sb.C)))
		} else {
			e.fresh(st, x)
		}
	case token.SHR:
		sb := st.Subst(b)
		if shl, ok := x.X.(*ssa.BinOp); ok && shl.Op == token.SHL && shlOnlyFeedsSameShr(shl) && sb.IsConst() {
			tr := typeRange(x.Type())
			if tr.HasHi && tr.Lo == 0 {
				w := int64(0)
				for v := tr.Hi + 1; v > 1; v >>= 1 {
					w++
				}
				if sb.C >= 0 && sb.C < w {
					inner := e.expr(st, shl.X)
					if !inner.Bad && st.Entails(inner) {
						e.andConst(st, x, inner, int64(1)<<uint(w-sb.C)-1)
						break
					}
				}
			}
		}
		if sb.IsConst() && sb.C >= 0 && sb.C < 62 && st.Entails(a) {
			e.divmod(st, x, a, int64(1)<<uint(sb.C), false)
		} else {
			e.freshBounded(st, x, Range{Lo: 0, HasLo: st.Entails(a)})
		}
	case token.AND:
		sa, sb := st.Subst(a), st.Subst(b)
		switch {
		case sb.IsConst() && sb.C >= 0:
			e.andConst(st, x, a, sb.C)
		case sa.IsConst() && sa.C >= 0:
			e.andConst(st, x, b, sa.C)
		default:
			if e.Checking() {
				// a mask whose width is not a constant here: lossy unless one side is entailed below the other
				e.noteCtx(x, st.Entails(b.Sub(a)) || st.Entails(a.Sub(b)), -1)
			}
			ra, rb := st.Bounds(a), st.Bounds(b)
			r := Range{Lo: 0, HasLo: ra.HasLo && ra.Lo >= 0 || rb.HasLo && rb.Lo >= 0}
			if ra.HasLo && ra.Lo >= 0 && ra.HasHi {
				r.Hi, r.HasHi = ra.Hi, true
			}
			if rb.HasLo && rb.Lo >= 0 && rb.HasHi && (!r.HasHi || rb.Hi < r.Hi) {
				r.Hi, r.HasHi = rb.Hi, true
			}
			e.freshBounded(st, x, r)
		}
	case token.OR, token.XOR:
		ra, rb := st.Bounds(a), st.Bounds(b)
		r := Range{}
		if ra.HasLo && ra.Lo >= 0 && rb.HasLo && rb.Lo >= 0 {
			r.Lo, r.HasLo = 0, true
			if x.Op == token.OR {
				r.Lo = max64(ra.Lo, rb.Lo)
			}
			if ra.HasHi && rb.HasHi {
				r.Hi, r.HasHi = pow2ceil(max64(ra.Hi, rb.Hi))-1, true
			}
		}
		e.freshBounded(st, x, r)
	case token.AND_NOT:
		ra := st.Bounds(a)
		r := Range{}
		if ra.HasLo && ra.Lo >= 0 {
			r = Range{0, ra.Hi, true, ra.HasHi}
		}
		e.freshBounded(st, x, r)
		// a &^ m for a >= 0 and a constant m >= 0 clears bits worth at most m: a - m <= result <= a;
		// for m = 2^k - 1 the result is a multiple of 2^k
		if sb := st.Subst(b); sb.IsConst() && sb.C >= 0 && ra.HasLo && ra.Lo >= 0 && !a.Bad {
			v := Var(e.atomOf(x))
			st.Assume(a.Sub(v))
			st.Assume(v.Sub(a).AddConst(sb.C))
			if m := sb.C + 1; m&(m-1) == 0 && m > 1 {
				st.addCong(e.atomOf(x), Cong{m, 0})
			}
		}
	default:
		e.fresh(st, x)
	}
}

func max64(a, b int64) int64 {
	if a > b {
		return a
	}
	return b
}

func pow2ceil(v int64) int64 {
	p := int64(1)
	for p <= v && p < 1<<61 {
		p <<= 1
	}
	return p
}

func mulRange(a, b Range) Range {
	if a.HasLo && a.HasHi && b.HasLo && b.HasHi && a.Lo >= 0 && b.Lo >= 0 {
		lo, ok1 := mulOv(a.Lo, b.Lo)
		hi, ok2 := mulOv(a.Hi, b.Hi)
		if ok1 && ok2 {
			return Range{lo, hi, true, true}
		}
	}
	return Range{}
}

// freshBounded: unknown value within r (intersected with the type range; if r exceeds the type range the value may have wrapped: only the type range is kept).
func (e *Engine) freshBounded(st *State, x ssa.Value, r Range) {
	a := e.atomOf(x)
	st.Forget(a)
	tr := typeRange(x.Type())
	if tr.HasHi && (!r.HasHi || r.Hi > tr.Hi) {
		return
	}
	if tr.HasLo && (!r.HasLo || r.Lo < tr.Lo) {
		return
	}
	if r.HasLo {
		st.Assume(Var(a).AddConst(-r.Lo))
	}
	if r.HasHi {
		st.Assume(Const(r.Hi).Sub(Var(a)))
	}
}

// divmod: x = a / c (rem=false) or a % c (rem=true) for a >= 0, c > 0.
func (e *Engine) divmod(st *State, x ssa.Value, a Lin, c int64, rem bool) {
	v := e.atomOf(x)
	st.Forget(v)
	if sa := st.Subst(a); sa.IsConst() && sa.C >= 0 && c > 0 {
		// constant folding (non-negative dividend: Go's truncated division = floor)
		if rem {
			st.Bind(v, Const(sa.C%c))
		} else {
			st.Bind(v, Const(sa.C/c))
		}
		return
	}
	if c == 1 {
		if rem {
			st.Bind(v, Const(0))
		} else {
			st.Bind(v, a)
		}
		return
	}
	if rem {
		// 0 <= v <= c-1, and v ≡ a (mod c) when a's congruence is known
		st.Assume(Var(v))
		st.Assume(Const(c - 1).Sub(Var(v)))
		if ca := st.CongOfExpr(a); ca.ok() && ca.M%c == 0 {
			st.Forget(v)
			st.Bind(v, Const(modpos(ca.R, c)))
		} else {
			st.Assume(a.Sub(Var(v))) // v <= a
			st.AddLCong(a.Sub(Var(v)), c) // a ≡ v (mod c)
		}
		return
	}
	// c*v <= a <= c*v + c-1
	st.Assume(a.Sub(Var(v).Scale(c)))
	st.Assume(Var(v).Scale(c).AddConst(c - 1).Sub(a))
	if ca := st.CongOfExpr(a); ca.ok() && ca.M%c == 0 && ca.R%c == 0 {
		// exact division: a = c*v
		st.Assume(Var(v).Scale(c).Sub(a))
	}
}

// shlOnlyFeedsSameShr: every use of the left shift v << k is a right shift of it by the same amount (the same
// SSA value or the same constant), on an unsigned fixed-width type: the pair is a low-bit mask.
func shlOnlyFeedsSameShr(shl *ssa.BinOp) bool {
	if shl.Op != token.SHL {
		return false
	}
	tr := typeRange(shl.Type())
	if !tr.HasHi || tr.Lo != 0 {
		return false
	}
	refs := shl.Referrers()
	if refs == nil {
		return false
	}
	n := 0
	for _, r := range *refs {
		if _, ok := r.(*ssa.DebugRef); ok {
			continue
		}
		shr, ok := r.(*ssa.BinOp)
		if !ok || shr.Op != token.SHR || shr.X != ssa.Value(shl) {
			return false
		}
		if shr.Y != shl.Y {
			c1, ok1 := shr.Y.(*ssa.Const)
			c2, ok2 := shl.Y.(*ssa.Const)
			if !ok1 || !ok2 || c1.Value == nil || c2.Value == nil || c1.Int64() != c2.Int64() {
				return false
			}
		}
		n++
	}
	return n > 0
}

func (e *Engine) andConst(st *State, x ssa.Value, a Lin, mask int64) {
	if mask+1 > 0 && (mask+1)&mask == 0 && st.Entails(a) { // low-bit mask on a non-negative value = a % (mask+1)
		fits := st.Entails(Const(mask).Sub(a))
		if in, ok := x.(ssa.Instruction); ok && e.Defer != nil {
			if g, ok := e.Defer[e.narrowKey(in)]; ok {
				st.Bind(g, a)
			}
		}
		if in, ok := x.(ssa.Instruction); ok && e.Checking() {
			m := e.Masks[in]
			m[0]++
			if !fits {
				m[1]++
			}
			e.Masks[in] = m
			e.noteCtx(in, fits, mask)
		}
		if fits {
			e.bindChecked(st, x, a)
			return
		}
		e.divmod(st, x, a, mask+1, true)
		return
	}
	e.freshBounded(st, x, Range{0, mask, true, true})
}

func (e *Engine) boolBinop(st *State, x *ssa.BinOp) {
	// comparison results as 0/1 when decidable
	a := e.atomOf(x)
	switch x.Op {
	case token.EQL, token.NEQ, token.LSS, token.LEQ, token.GTR, token.GEQ:
		if isInt(x.X.Type()) {
			t, f := st.Clone(), st.Clone()
			e.assumeCond(t, x, true)
			e.assumeCond(f, x, false)
			t.Feasible()
			f.Feasible()
			switch {
			case t.dead && !f.dead:
				st.Bind(a, Const(0))
				return
			case f.dead && !t.dead:
				st.Bind(a, Const(1))
				return
			}
		}
	}
	st.Forget(a)
}

func (e *Engine) convert(fr *frame, st *State, x *ssa.Convert) {
	// float upper bounds travel through float conversions and into integers
	if isFloat(x.X.Type()) {
		if b, ok := st.fub[e.vid(x.X)]; ok {
			if isFloat(x.Type()) {
				if st.fub == nil {
					st.fub = map[string]FBound{}
				}
				st.fub[e.vid(x)] = b
			} else if isInt(x.Type()) {
				e.fresh(st, x)
				hi := math.Floor(b.Val)
				if b.Strict && hi == b.Val {
					hi--
				}
				if hi >= 0 && hi < 1<<52 {
					st.Assume(Const(int64(hi)).Sub(Var(e.atomOf(x))))
				}
				return
			}
		}
	}
	switch {
	case isInt(x.Type()) && isInt(x.X.Type()):
		if e.ConvertHook != nil && fr != nil && fr.check {
			e.ConvertHook(e, st, x)
		}
		e.bindChecked(st, x, e.expr(st, x.X))
	case isSliceLike(x.Type()) && isSliceLike(x.X.Type()):
		// string <-> []byte: same length, fresh memory
		if b, ok := x.X.Type().Underlying().(*types.Basic); ok && b.Info()&types.IsString != 0 || isStringType(x.Type()) {
			l := e.lenExpr(st, x.X)
			e.oblige(fr, "M-ALLOC", x, "size", true, "copy of an existing string/slice: size = its length")
			if !onlyUsedByLen(x) { // len([]byte(s)) does not allocate
				e.countAlloc(st, l)
			}
			st.Bind(e.lenAtomOf(x), l)
			st.elemsNN[e.vid(x)] = true
			return
		}
		e.copyValue(st, x, x.X)
	case isStringType(x.Type()) && isInt(x.X.Type()):
		// string(rune): 1..4 bytes
		a := e.lenAtomOf(x)
		st.Forget(a)
		st.Assume(Var(a).AddConst(-1))
		st.Assume(Const(4).Sub(Var(a)))
	default:
		if b, ok := x.Type().Underlying().(*types.Basic); ok && b.Kind() == types.UnsafePointer {
			e.unsafeUse(fr, x)
		}
		e.fresh(st, x)
	}
}

func isStringType(t types.Type) bool {
	b, ok := t.Underlying().(*types.Basic)
	return ok && b.Info()&types.IsString != 0
}

func (e *Engine) unsafeUse(fr *frame, x *ssa.Convert) {
	// the one named exception: uintptr -> unsafe.Pointer feeding reflect.NewAt in packetBuffer.read
	ok := false
	if refs := x.Referrers(); refs != nil && len(*refs) > 0 {
		ok = true
		for _, r := range *refs {
			c, isCall := r.(*ssa.Call)
			if !isCall {
				ok = false
				break
			}
			f, isFn := c.Common().Value.(*ssa.Function)
			if !isFn || f.String() != "reflect.NewAt" {
				ok = false
			}
		}
	}
	e.oblige(fr, "B-CNV", x, "unsafe.Pointer", ok, "unsafe.Pointer conversion (allowed only as the argument of reflect.NewAt)")
}

func (e *Engine) store(fr *frame, st *State, x *ssa.Store) {
	st.loadMemo = nil
	if e.StoreHook != nil && fr != nil && fr.check {
		e.StoreHook(e, st, x)
	}
	if _, isAddr := x.Addr.(*ssa.FieldAddr); !isAddr {
		if _, isIdx := x.Addr.(*ssa.IndexAddr); !isIdx {
			if _, isAl := x.Addr.(*ssa.Alloc); !isAl {
				e.needNonNil(fr, st, x, x.Addr, "store")
			}
		}
	}
	a, ok := e.addrOf(st, x.Addr)
	t := x.Val.Type()
	if !ok {
		// element store into a slice: maintain the all-non-nil flag of that slice (weakly)
		if ia, isIdx := x.Addr.(*ssa.IndexAddr); isIdx && isSliceLike(ia.X.Type()) {
			if isPointerLike(t) && !e.isDeepNN(st, x.Val) {
				delete(st.elemsNN, "D"+e.vid(ia.X))
				for k := range st.elemsNN {
					if strings.HasPrefix(k, "D") && !strings.HasPrefix(k, "Dv") && !strings.HasPrefix(k, "DE") {
						delete(st.elemsNN, k)
					}
				}
			}
			if isPointerLike(t) && !e.isNonNil(st, x.Val) {
				delete(st.elemsNN, e.vid(ia.X))
				// the slice may be stored in a cell: conservatively clear all flags of that element type
				for k := range st.elemsNN {
					if !strings.HasPrefix(k, "v") && !strings.HasPrefix(k, "E") {
						delete(st.elemsNN, k)
					}
				}
			}
			return
		}
		// store through an unknown pointer: all cells may change
		e.havocAllMemory(st)
		return
	}
	key := a.Key()
	switch {
	case isInt(t) || isBool(t):
		st.Bind(e.cellInt(key, t), e.expr(st, x.Val))
	case isSliceLike(t):
		st.Bind(e.cellLen(key), e.lenExpr(st, x.Val))
		setBool(st.elemsNN, key, e.elemsNonNil(st, x.Val))
		setBool(st.elemsNN, "D"+key, e.elemsDeepNN(st, x.Val))
	default:
		if _, isStruct := t.Underlying().(*types.Struct); isStruct {
			if c, isConst := x.Val.(*ssa.Const); isConst && c.Value == nil {
				e.zeroObject(st, key, t)
			} else {
				e.copyLeaves(st, key, e.aggKey(x.Val), t, true)
			}
			return
		}
		setBool(st.nonnil, key, e.isNonNil(st, x.Val))
		setBool(st.nonnil, "D"+key, e.isDeepNN(st, x.Val))
		setBool(st.isnil, key, e.isNil(st, x.Val))
		if p, ok := e.addrOf(st, x.Val); ok {
			st.ptr[key] = p
		} else {
			delete(st.ptr, key)
		}
	}
}

// allocObligation (M-ALLOC M1): a single allocation of n elements is bounded
// by a constant <= 2^16+16 or by the length of a slice (input-derived).
func (e *Engine) allocObligation(fr *frame, st *State, in ssa.Instruction, n Lin) {
	ok := st.Entails(Const(1<<16 + 16).Sub(n))
	if !ok && fr.check {
		// bounded by (a small multiple of) the length of some slice-typed parameter
		for v, la := range e.lenAtoms {
			if _, isParam := v.(*ssa.Parameter); !isParam {
				continue
			}
			if st.Entails(Var(la).Scale(4).AddConst(64).Sub(n)) {
				ok = true
				break
			}
		}
	}
	e.oblige(fr, "M-ALLOC", in, "size", ok, "allocation size "+e.linStr(st.Subst(n))+" must be bounded by a constant <= 65552 or by the input length")
	e.countAlloc(st, n)
}

// AllocCounter is the ghost cell that accumulates the number of elements /
// objects allocated so far (M-ALLOC M2/M3).
const allocCounterKey = "ghost:allocs"

func (e *Engine) allocAtom() Atom {
	return e.cellAtomOf(allocCounterKey, Range{0, 1 << 60, true, true})
}

func (e *Engine) countAlloc(st *State, n Lin) {
	// The ghost allocation counter (amortised M3 accounting) is disabled: it
	// entangled every state with a 2^60-range atom and made results fragile.
	// M-ALLOC is decided as M1 (single allocation bounded) + M2 (every loop that
	// may allocate has a bounded trip count); see DESIGN.md.
}

func onlyUsedByLen(v ssa.Value) bool {
	refs := v.Referrers()
	if refs == nil || len(*refs) == 0 {
		return false
	}
	for _, r := range *refs {
		if _, ok := r.(*ssa.DebugRef); ok {
			continue
		}
		c, ok := r.(*ssa.Call)
		if !ok {
			return false
		}
		b, ok := c.Common().Value.(*ssa.Builtin)
		if !ok || b.Name() != "len" {
			return false
		}
	}
	return true
}
