package num

import (
	"fmt"
	"os"
	"runtime/debug"
	"strings"
	"testing"
	"time"

	"rtcpverif/core"
)

func TestRoots(t *testing.T) {
	debug.SetGCPercent(800)
	prog, err := core.Load("/repo", "", nil)
	if err != nil {
		t.Fatal(err)
	}
	specs := strings.Fields(os.Getenv("ROOTS"))
	if len(specs) == 0 {
		specs = []string{"*Header.Unmarshal"}
	}
	shared := NewEngine(prog.SPkg, prog.CallGraph())
	for _, spec := range specs {
		fn := prog.Func(spec)
		if fn == nil {
			t.Fatalf("no func %s", spec)
		}
		e := NewEngine(prog.SPkg, prog.CallGraph())
		e.Summaries = shared.Summaries
		e.SpareOnReflectSet["packetBuffer"] = true
		if os.Getenv("TRACE") != "" {
			e.Trace = func(s string) { fmt.Println("TRACE", s) }
			e.TraceFn = os.Getenv("TRACEFN")
		}
		if pat := os.Getenv("DEBUGFORGET"); pat != "" {
			DebugForget = func(name string) {
				if strings.Contains(name, pat) {
					fmt.Printf("FORGET %s in %s\n%s\n", name, e.ctx(), debug.Stack()[:1800])
				}
			}
		}
		st := time.Now()
		e.AnalyzeRoot(fn, RootOptions{ZeroReceiver: os.Getenv("NOZERO") == "", ElemsNonNil: os.Getenv("ELEMSNN") != ""})
		fails := 0
		for _, o := range e.SortedObls() {
			if o.Failed > 0 {
				fails++
				fmt.Printf("  FAIL %s @%s seen=%d failed=%d: %s\n", o.Key, prog.Pos(o.Pos), o.Seen, o.Failed, o.FailCtx)
			} else if os.Getenv("VERBOSE") != "" {
				fmt.Printf("  ok   %s @%s seen=%d\n", o.Key, prog.Pos(o.Pos), o.Seen)
			}
		}
		if sm := e.Summaries[fn]; sm != nil {
			fmt.Printf("   summary: nilPossible=%v minLenOnNil=%d\n", sm.NilPossible, sm.MinLenOnNil)
		}
		fmt.Printf("%-45s obligations=%d failed=%d steps=%d exceeded=%v %v\n", spec, len(e.Obls), fails, e.Steps, e.Exceeded, time.Since(st))
	}
}
