package num

import (
	"fmt"
	"sort"
	"strings"
)

// State is one abstract state: a conjunction of linear constraints.
//
//	def:  solved equalities  atom = Lin over base atoms
//	ineq: Lin >= 0 over base atoms
//	cong: congruences of base atoms
//
// An atom without a def entry is a base atom (constrained only by ineq, cong
// and its static range).
type State struct {
	eng  *Engine
	def  map[Atom]Lin
	ineq []Lin
	cong map[Atom]Cong
	lc   []LinCong // linear congruences: E ≡ 0 (mod M)
	dead bool
	// non-numeric facts
	nonnil    map[string]bool    // key of SSA value / cell -> known non-nil
	isnil     map[string]bool    // known nil
	ptr       map[string]Address // pointer-typed values / cells -> abstract address
	elemsNN   map[string]bool    // slice values / cells: all elements are non-nil
	corr      map[string]*Corr   // error values -> correlated states
	ver       int64
	dirty     map[Atom]int64   // memory cell atoms -> version of their last write
	loopEnter map[string]int64 // loop id -> version when the loop was entered from outside
	inSaturate bool
	fub        map[string]FBound // float-typed SSA values: known upper bound
	loadMemo  map[string]Atom  // (opt-in) unresolved address -> atom of the last integer load, valid until the next store/call
}

// LinCong: E ≡ 0 (mod M), E over base atoms.
type LinCong struct {
	E Lin
	M int64
}

// Corr: states correlated with the nil-ness of an error value returned by a callee.
type Corr struct {
	WhenNil, WhenNonNil *State
	Ver                 int64
}

// Address is an abstract pointer: object + field path. Unknown if Obj == "".
type Address struct {
	Obj  string
	Path string
}

func (a Address) Known() bool { return a.Obj != "" }
func (a Address) Key() string { return a.Obj + a.Path }

func NewState(e *Engine) *State {
	return &State{eng: e, def: map[Atom]Lin{}, cong: map[Atom]Cong{}, nonnil: map[string]bool{}, isnil: map[string]bool{},
		ptr: map[string]Address{}, elemsNN: map[string]bool{}, corr: map[string]*Corr{}, dirty: map[Atom]int64{}, loopEnter: map[string]int64{}}
}

func (s *State) Clone() *State {
	n := &State{eng: s.eng, def: make(map[Atom]Lin, len(s.def)), ineq: append([]Lin(nil), s.ineq...), cong: make(map[Atom]Cong, len(s.cong)),
		dead: s.dead, nonnil: make(map[string]bool, len(s.nonnil)), isnil: make(map[string]bool, len(s.isnil)),
		ptr: make(map[string]Address, len(s.ptr)), elemsNN: make(map[string]bool, len(s.elemsNN)), corr: make(map[string]*Corr, len(s.corr)), ver: s.ver}
	n.lc = append([]LinCong(nil), s.lc...)
	for k, v := range s.def {
		n.def[k] = v
	}
	for k, v := range s.cong {
		n.cong[k] = v
	}
	for k, v := range s.nonnil {
		n.nonnil[k] = v
	}
	for k, v := range s.isnil {
		n.isnil[k] = v
	}
	for k, v := range s.ptr {
		n.ptr[k] = v
	}
	for k, v := range s.elemsNN {
		n.elemsNN[k] = v
	}
	for k, v := range s.corr {
		n.corr[k] = v
	}
	n.dirty = make(map[Atom]int64, len(s.dirty))
	for k, v := range s.dirty {
		n.dirty[k] = v
	}
	n.loopEnter = make(map[string]int64, len(s.loopEnter))
	for k, v := range s.loopEnter {
		n.loopEnter[k] = v
	}
	if len(s.fub) > 0 {
		n.fub = make(map[string]FBound, len(s.fub))
		for k, v := range s.fub {
			n.fub[k] = v
		}
	}
	if len(s.loadMemo) > 0 {
		n.loadMemo = make(map[string]Atom, len(s.loadMemo))
		for k, v := range s.loadMemo {
			n.loadMemo[k] = v
		}
	}
	return n
}

func (s *State) touch() { s.ver = s.eng.nextVer() }

// ---- Env

func (s *State) RangeOf(a Atom) Range { return s.eng.atoms[a].rng }
func (s *State) CongOf(a Atom) Cong   { return s.cong[a] }

// Subst expresses e over base atoms.
func (s *State) Subst(e Lin) Lin {
	if e.Bad {
		return e
	}
	out := Lin{C: e.C}
	for _, t := range e.T {
		if d, ok := s.def[t.A]; ok {
			out = out.AddMul(d, t.K)
		} else {
			out = out.AddMul(Var(t.A), t.K)
		}
	}
	return out
}

// Entails: s |= e >= 0.
func (s *State) Entails(e Lin) bool {
	if s.dead {
		return true
	}
	e = s.Subst(e)
	if e.Bad {
		return false
	}
	if len(e.T) == 0 {
		return e.C >= 0
	}
	// quick interval check
	if lo, ok := s.quickLo(e); ok && lo >= 0 {
		return true
	}
	return Entails(s.ineq, e, s)
}

// EntailsEq: s |= e == 0.
func (s *State) EntailsEq(e Lin) bool {
	if s.Entails(e) && s.Entails(e.Neg()) {
		return true
	}
	// |e| < M and e ≡ 0 (mod M)  =>  e = 0
	cg := s.CongOfExpr(s.Subst(e))
	if cg.M > 1 && cg.R == 0 {
		return s.Entails(e.AddConst(cg.M-1)) && s.Entails(e.Neg().AddConst(cg.M-1))
	}
	return false
}

// quickLo: lower bound of e from static ranges and single-atom inequalities.
func (s *State) quickLo(e Lin) (int64, bool) {
	lo := e.C
	for _, t := range e.T {
		r := s.boundsOf(t.A)
		var term int64
		var ok bool
		if t.K > 0 {
			if !r.HasLo {
				return 0, false
			}
			term, ok = mulOv(t.K, r.Lo)
		} else {
			if !r.HasHi {
				return 0, false
			}
			term, ok = mulOv(t.K, r.Hi)
		}
		if !ok {
			return 0, false
		}
		lo, ok = addOv(lo, term)
		if !ok {
			return 0, false
		}
	}
	return lo, true
}

// boundsOf: static range of a base atom intersected with single-atom ineqs.
func (s *State) boundsOf(a Atom) Range {
	r := s.eng.atoms[a].rng
	for _, c := range s.ineq {
		if len(c.T) != 1 || c.T[0].A != a {
			continue
		}
		k := c.T[0].K
		if k > 0 { // k*a + C >= 0 => a >= ceil(-C/k)
			b := -floorDiv(c.C, k)
			if !r.HasLo || b > r.Lo {
				r.Lo, r.HasLo = b, true
			}
		} else { // a <= floor(C/(-k))
			b := floorDiv(c.C, -k)
			if !r.HasHi || b < r.Hi {
				r.Hi, r.HasHi = b, true
			}
		}
	}
	return r
}

// Bounds of an arbitrary expression (interval only).
func (s *State) Bounds(e Lin) Range {
	e = s.Subst(e)
	var r Range
	if e.Bad {
		return r
	}
	if lo, ok := s.quickLo(e); ok {
		r.Lo, r.HasLo = lo, true
	}
	if nlo, ok := s.quickLo(e.Neg()); ok {
		r.Hi, r.HasHi = -nlo, true
	}
	return r
}

// UpperBound searches an upper bound of e among candidates (ascending).
func (s *State) UpperBound(e Lin, cands []int64) (int64, bool) {
	for _, c := range cands {
		if s.Entails(Const(c).Sub(e)) {
			return c, true
		}
	}
	return 0, false
}

// Assume adds e >= 0.
func (s *State) Assume(e Lin) {
	if s.dead {
		return
	}
	e = s.Subst(e)
	if e.Bad {
		return
	}
	s.touch()
	if len(e.T) == 0 {
		if e.C < 0 {
			s.dead = true
		}
		return
	}
	e = tighten(e, s)
	s.ineq = append(s.ineq, e)
	if len(s.ineq) > 8 && len(s.ineq)%8 == 0 {
		s.ineq = dedup(s.ineq)
	}
}

// AssumeEq adds e == 0, solving for a unit-coefficient base atom if possible.
func (s *State) AssumeEq(e Lin) {
	if s.dead {
		return
	}
	e = s.Subst(e)
	if e.Bad {
		return
	}
	s.touch()
	if len(e.T) == 0 {
		if e.C != 0 {
			s.dead = true
		}
		return
	}
	// prefer to eliminate a short-lived atom (SSA register) over long-lived ones
	// (memory cells, parameters): constraints about the latter must stay readable
	// after the registers of a callee are discarded
	pick := -1
	for i, t := range e.T {
		if t.K == 1 || t.K == -1 {
			if pick < 0 {
				pick = i
				continue
			}
			ri, rp := s.eng.atomRank(t.A), s.eng.atomRank(e.T[pick].A)
			if ri < rp || (ri == rp && t.A > e.T[pick].A) {
				pick = i
			}
		}
	}
	if pick < 0 {
		s.ineq = append(s.ineq, tighten(e, s), tighten(e.Neg(), s))
		return
	}
	a, k := e.T[pick].A, e.T[pick].K
	// k*a + rest = 0 => a = -rest/k
	rest := e.Subst(a, Const(0))
	val := rest.Scale(-k) // k=1: -rest ; k=-1: rest
	s.solveBase(a, val)
}

// solveBase makes base atom a defined as val (over other base atoms) and
// substitutes it everywhere.
func (s *State) solveBase(a Atom, val Lin) {
	// congruence transfer: a ≡ r (mod m) and a = val: if val is a single atom b with unit coef, transfer to b
	if c, ok := s.cong[a]; ok && c.ok() && len(val.T) == 1 && (val.T[0].K == 1 || val.T[0].K == -1) {
		b := val.T[0].A
		// a = k*b + C  => b = k*(a - C)
		r := modpos(val.T[0].K*(c.R-val.C), c.M)
		s.addCong(b, Cong{c.M, r})
	}
	delete(s.cong, a)
	for k, d := range s.def {
		if d.Coef(a) != 0 {
			s.def[k] = d.Subst(a, val)
		}
	}
	for i, c := range s.ineq {
		if c.Coef(a) != 0 {
			s.ineq[i] = tighten(c.Subst(a, val), s)
		}
	}
	for i, l := range s.lc {
		if l.E.Coef(a) != 0 {
			s.lc[i].E = l.E.Subst(a, val)
		}
	}
	s.def[a] = val
	s.checkConst()
}

func (s *State) checkConst() {
	out := s.ineq[:0]
	for _, c := range s.ineq {
		if c.Bad {
			continue
		}
		if len(c.T) == 0 {
			if c.C < 0 {
				s.dead = true
			}
			continue
		}
		out = append(out, c)
	}
	s.ineq = out
}

func (s *State) addCong(a Atom, c Cong) {
	if !c.ok() {
		return
	}
	if d, isDef := s.def[a]; isDef {
		// a = k*b + C with a single base atom: transfer
		if len(d.T) == 1 && (d.T[0].K == 1 || d.T[0].K == -1) {
			r := modpos(d.T[0].K*(c.R-d.C), c.M)
			s.addCong(d.T[0].A, Cong{c.M, r})
		}
		return
	}
	old := s.cong[a]
	if !old.ok() {
		s.cong[a] = Cong{c.M, modpos(c.R, c.M)}
		return
	}
	// combine when one modulus divides the other (all our moduli are small)
	if c.M%old.M == 0 {
		if modpos(c.R, old.M) != old.R {
			s.dead = true
			return
		}
		s.cong[a] = Cong{c.M, modpos(c.R, c.M)}
	} else if old.M%c.M == 0 {
		if modpos(old.R, c.M) != modpos(c.R, c.M) {
			s.dead = true
		}
	}
}

// CongOfExpr derives a congruence for e (M<=1 if none).
func (s *State) CongOfExpr(e Lin) Cong {
	best := s.congBase(e)
	if len(s.lc) == 0 {
		return best
	}
	se := s.Subst(e)
	if se.Bad {
		return best
	}
	try := func(x Lin, mod int64, depth int) {}
	try = func(x Lin, mod int64, depth int) {
		c := s.congBase(x)
		if c.ok() {
			m := c.M
			if mod > 0 {
				m = gcd(m, mod)
			}
			if m > 1 && (!best.ok() || m > best.M) {
				best = Cong{m, modpos(c.R, m)}
			}
		}
		if depth == 0 {
			return
		}
		for _, l := range s.lc {
			for _, t := range l.E.T {
				if t.K != 1 && t.K != -1 {
					continue
				}
				k := x.Coef(t.A)
				if k == 0 {
					continue
				}
				// x - k*t.K*E eliminates t.A ; x ≡ that (mod l.M)
				y := x.AddMul(l.E, -k*t.K)
				if y.Bad {
					continue
				}
				// k*E ≡ 0 (mod |k|*M)
				ak := k
				if ak < 0 {
					ak = -ak
				}
				nm, okm := mulOv(ak, l.M)
				if !okm {
					nm = l.M
				}
				if mod > 0 {
					nm = gcd(mod, nm)
				}
				if nm > 1 {
					try(y, nm, depth-1)
				}
			}
		}
	}
	try(se, 0, 2)
	return best
}

func (s *State) congBase(e Lin) Cong {
	e = s.Subst(e)
	if e.Bad {
		return Cong{}
	}
	if len(e.T) == 0 {
		return Cong{M: 1 << 30, R: modpos(e.C, 1<<30)}
	}
	var M int64
	r := e.C
	for _, t := range e.T {
		c := s.cong[t.A]
		if c.ok() {
			km, ok := mulOv(t.K, c.M)
			if !ok {
				return Cong{}
			}
			M = gcd(M, km)
			kr, ok := mulOv(t.K, c.R)
			if !ok {
				return Cong{}
			}
			r, ok = addOv(r, kr)
			if !ok {
				return Cong{}
			}
		} else {
			M = gcd(M, t.K)
		}
	}
	if M <= 1 {
		return Cong{}
	}
	return Cong{M, modpos(r, M)}
}

// Bind defines atom a := e (a gets a new value; old information about a is forgotten first).
func (s *State) Bind(a Atom, e Lin) {
	if s.dead {
		return
	}
	if s.eng.isCell[a] {
		s.dirty[a] = s.eng.nextVer()
	}
	e = s.Subst(e)
	if !e.Bad && e.Coef(a) != 0 {
		// the new value depends on the old one (x := x - k on a base atom)
		s.AssignParallel([]Atom{a}, []Lin{e})
		return
	}
	s.Forget(a)
	if e.Bad {
		return
	}
	s.touch()
	s.def[a] = e
}

// Forget removes all information about atom a (a becomes an unconstrained base atom).
var DebugForget func(name string)

func (s *State) Forget(a Atom) {
	if s.eng.isCell[a] {
		s.dirty[a] = s.eng.nextVer()
	}
	if DebugForget != nil {
		DebugForget(s.eng.atomName(a))
	}
	s.touch()
	if _, ok := s.def[a]; ok {
		delete(s.def, a)
		return
	}
	// a base atom gets a new meaning: hash-consed wrapped values computed from it are stale
	for _, w := range s.eng.wrapDeps[a] {
		if mentionsAtomIn(s, w) {
			s.Forget(w)
		}
	}
	used := false
	for _, c := range s.ineq {
		if c.Coef(a) != 0 {
			used = true
			break
		}
	}
	// other definitions that mention a: try to re-base one of them
	var users []Atom
	for k, d := range s.def {
		if d.Coef(a) != 0 {
			users = append(users, k)
		}
	}
	if len(users) > 0 {
		sort.Slice(users, func(i, j int) bool { return users[i] < users[j] })
		// the static range of a is about to be lost with a: make it explicit so
		// that it transfers to the atom that takes over
		if r := s.eng.atoms[a].rng; r.HasLo || r.HasHi {
			if r.HasLo {
				s.ineq = append(s.ineq, Var(a).AddConst(-r.Lo))
			}
			if r.HasHi && r.Hi < lenMax {
				s.ineq = append(s.ineq, Var(a).Neg().AddConst(r.Hi))
			}
			used = true
		}
		// pick a user with unit coefficient on a: it becomes base, a gets defined through it, then dropped
		for _, u := range users {
			d := s.def[u]
			if k := d.Coef(a); k == 1 || k == -1 {
				// u = k*a + rest => a = k*(u - rest)
				rest := d.Subst(a, Const(0))
				val := Var(u).Sub(rest).Scale(k)
				delete(s.def, u)
				s.solveBase(a, val)
				delete(s.def, a)
				return
			}
		}
		// no unit-coefficient user: turn the definitions into inequalities so that
		// eliminating a still transfers its bounds (u = 2*a, a <= c  =>  u <= 2c)
		for _, u := range users {
			d := s.def[u]
			delete(s.def, u)
			e := Var(u).Sub(d)
			if !e.Bad {
				s.ineq = append(s.ineq, e, e.Neg())
				used = true
				if c := s.CongOfExpr(d); c.ok() {
					s.cong[u] = c
				}
			}
		}
	}
	delete(s.cong, a)
	if used {
		s.ineq = Eliminate(s.ineq, a, s)
	}
	s.dropLC(a)
}

func (s *State) dropLC(a Atom) {
	// before the congruences that mention a disappear, eliminate a between pairs of them
	// (E1 ≡ 0 mod M1, E2 ≡ 0 mod M2, unit coefficients of a  =>  E1 -/+ E2 ≡ 0 mod gcd(M1,M2))
	var with []LinCong
	for _, l := range s.lc {
		if k := l.E.Coef(a); k == 1 || k == -1 {
			with = append(with, l)
		}
	}
	var derived []LinCong
	if len(with) >= 2 && len(with) <= 6 {
		for i := 0; i < len(with); i++ {
			for j := i + 1; j < len(with); j++ {
				ki, kj := with[i].E.Coef(a), with[j].E.Coef(a)
				e := with[i].E.AddMul(with[j].E, -ki*kj)
				m := gcd(with[i].M, with[j].M)
				if !e.Bad && m > 1 && len(e.T) > 0 && e.Coef(a) == 0 {
					derived = append(derived, LinCong{Lin{C: modpos(e.C, m), T: e.T}, m})
				}
			}
		}
	}
	out := s.lc[:0]
	for _, l := range s.lc {
		if l.E.Coef(a) == 0 && !l.E.Bad {
			out = append(out, l)
		}
	}
	s.lc = out
	for _, d := range derived {
		dup := false
		for _, l := range s.lc {
			if l.M == d.M && l.E.Equal(d.E) {
				dup = true
			}
		}
		if !dup && len(s.lc) < 32 {
			if len(d.E.T) == 1 && (d.E.T[0].K == 1 || d.E.T[0].K == -1) {
				s.addCong(d.E.T[0].A, Cong{d.M, modpos(-d.E.T[0].K*d.E.C, d.M)})
			} else {
				s.lc = append(s.lc, d)
			}
		}
	}
}

// AddLCong records e ≡ 0 (mod m).
func (s *State) AddLCong(e Lin, m int64) {
	e = s.Subst(e)
	if e.Bad || m <= 1 || len(e.T) == 0 {
		return
	}
	e = Lin{C: modpos(e.C, m), T: e.T}
	if len(e.T) == 1 && (e.T[0].K == 1 || e.T[0].K == -1) {
		// K*x + C ≡ 0  =>  x ≡ -K*C
		s.addCong(e.T[0].A, Cong{m, modpos(-e.T[0].K*e.C, m)})
		return
	}
	for _, l := range s.lc {
		if l.M == m && l.E.Equal(e) {
			return
		}
	}
	if len(s.lc) > 24 {
		s.lc = s.lc[1:]
	}
	s.lc = append(s.lc, LinCong{e, m})
	s.saturateLC(LinCong{e, m})
}

// saturateLC: E ≡ 0 (mod M) with -M < E < M entailed gives E = 0; the same for the difference of the new
// congruence with each older one of the same modulus (two remainders of the same value are equal).
func (s *State) saturateLC(n LinCong) {
	if s.dead || s.inSaturate {
		return
	}
	s.inSaturate = true
	defer func() { s.inSaturate = false }()
	try := func(e Lin, m int64) {
		if e.Bad || len(e.T) == 0 || len(e.T) > 3 {
			return
		}
		b := s.Bounds(e)
		if b.HasLo && b.HasHi && b.Lo > -m && b.Hi < m {
			s.AssumeEq(e)
		}
	}
	try(n.E, n.M)
	for _, l := range s.lc {
		if l.M != n.M || l.E.Equal(n.E) {
			continue
		}
		try(n.E.Sub(l.E), n.M)
		try(n.E.Add(l.E), n.M)
	}
}

// Rename substitutes atom from by atom to everywhere (to must be unused).
func (s *State) Rename(from, to Atom) {
	s.touch()
	ren := func(l Lin) Lin {
		if l.Coef(from) == 0 {
			return l
		}
		return l.Subst(from, Var(to))
	}
	if d, ok := s.def[from]; ok {
		delete(s.def, from)
		s.def[to] = d
	}
	for k, d := range s.def {
		s.def[k] = ren(d)
	}
	for i, c := range s.ineq {
		s.ineq[i] = ren(c)
	}
	for i, l := range s.lc {
		s.lc[i].E = ren(l.E)
	}
	if c, ok := s.cong[from]; ok {
		delete(s.cong, from)
		s.cong[to] = c
	}
}

// Expr returns the current expression of atom a.
func (s *State) Expr(a Atom) Lin {
	if d, ok := s.def[a]; ok {
		return d
	}
	return Var(a)
}

func (s *State) String() string {
	if s.dead {
		return "DEAD"
	}
	var parts []string
	var keys []Atom
	for k := range s.def {
		keys = append(keys, k)
	}
	sort.Slice(keys, func(i, j int) bool { return keys[i] < keys[j] })
	for _, k := range keys {
		parts = append(parts, fmt.Sprintf("%s = %s", s.eng.atomName(k), s.eng.linStr(s.def[k])))
	}
	for _, c := range s.ineq {
		parts = append(parts, s.eng.linStr(c)+" >= 0")
	}
	for a, c := range s.cong {
		parts = append(parts, fmt.Sprintf("%s ≡ %d mod %d", s.eng.atomName(a), c.R, c.M))
	}
	for _, l := range s.lc {
		parts = append(parts, fmt.Sprintf("%s ≡ 0 mod %d", s.eng.linStr(l.E), l.M))
	}
	var nn, en []string
	for k := range s.nonnil {
		nn = append(nn, k)
	}
	for k := range s.elemsNN {
		en = append(en, k)
	}
	sort.Strings(nn)
	sort.Strings(en)
	parts = append(parts, "NONNIL{"+strings.Join(nn, ",")+"}", "ELEMSNN{"+strings.Join(en, ",")+"}")
	return strings.Join(parts, "; ")
}

// Canonicalize turns pairs of opposite inequalities (e >= 0 and -e >= 0) into
// solved equalities, so that values that are implied to be equal or constant
// become syntactically so (needed by the join's lockstep candidates).
func (s *State) Canonicalize() {
	if s.dead {
		return
	}
	for iter := 0; iter < 8; iter++ {
		found := false
		idx := map[uint64][]int{}
		for i, c := range s.ineq {
			idx[c.Hash()] = append(idx[c.Hash()], i)
		}
		for i, c := range s.ineq {
			n := c.Neg()
			if n.Bad {
				continue
			}
			for _, j := range idx[n.Hash()] {
				if j != i && s.ineq[j].SameTerms(n) && s.ineq[j].C == n.C {
					// c >= 0 and -c >= 0
					e := c
					s.ineq[i] = Lin{}
					s.ineq[j] = Lin{}
					s.checkConst0()
					s.AssumeEq(e)
					found = true
					break
				}
			}
			if found {
				break
			}
		}
		if !found {
			return
		}
	}
}

func (s *State) checkConst0() {
	out := s.ineq[:0]
	for _, c := range s.ineq {
		if c.Bad || (len(c.T) == 0 && c.C >= 0) {
			continue
		}
		out = append(out, c)
	}
	s.ineq = out
}

// Feasible re-checks satisfiability (used to prune branches). Only the
// constraints connected to the most recently added one are examined.
func (s *State) Feasible() bool {
	if s.dead {
		return false
	}
	if len(s.ineq) == 0 {
		return true
	}
	last := s.ineq[len(s.ineq)-1]
	if !feasible(coneOf(s.ineq, last), s) {
		s.dead = true
		return false
	}
	return true
}

func mentionsAtomIn(st *State, a Atom) bool {
	if _, ok := st.def[a]; ok {
		return true
	}
	if _, ok := st.cong[a]; ok {
		return true
	}
	for _, d := range st.def {
		if d.Coef(a) != 0 {
			return true
		}
	}
	for _, c := range st.ineq {
		if c.Coef(a) != 0 {
			return true
		}
	}
	return false
}

// Slim returns a weaker copy of s that keeps only the inequalities and linear
// congruences all of whose atoms satisfy keep (definitions, which are
// substitutions, are kept). Dropping constraints is sound.
func (s *State) Slim(keep func(a Atom, name string) bool) *State {
	o := s.Clone()
	ok := func(l Lin) bool {
		for _, t := range l.T {
			if !keep(t.A, s.eng.atoms[t.A].name) {
				return false
			}
		}
		return true
	}
	var in []Lin
	for _, c := range o.ineq {
		if ok(c) {
			in = append(in, c)
		}
	}
	o.ineq = in
	var lc []LinCong
	for _, l := range o.lc {
		if ok(l.E) {
			lc = append(lc, l)
		}
	}
	o.lc = lc
	o.corr = map[string]*Corr{}
	o.touch()
	return o
}

// AtomsOf lists the base atoms of e after substitution.
func (s *State) AtomsOf(e Lin) []Atom {
	var out []Atom
	for _, t := range s.Subst(e).T {
		out = append(out, t.A)
	}
	return out
}

// ModularValues lists expressions v with e ≡ v (mod m), obtained from e itself
// and from the linear congruences of the state (moduli that are multiples of m).
func (s *State) ModularValues(e Lin, m int64) []Lin {
	se := s.Subst(e)
	if se.Bad {
		return nil
	}
	out := []Lin{se}
	for depth := 0; depth < 2; depth++ {
		n := len(out)
		for _, x := range out[:n] {
			for _, l := range s.lc {
				if l.M%m != 0 {
					continue
				}
				for _, t := range l.E.T {
					if t.K != 1 && t.K != -1 {
						continue
					}
					k := x.Coef(t.A)
					if k == 0 {
						continue
					}
					y := x.AddMul(l.E, -k*t.K)
					if y.Bad {
						continue
					}
					dup := false
					for _, o := range out {
						if o.Equal(y) {
							dup = true
						}
					}
					if !dup {
						out = append(out, y)
					}
				}
			}
		}
	}
	return out
}

// SaturateCong combines unit congruences x ≡ r (mod m) with the linear congruences of the same modulus:
// x -/+ E is determined modulo m; if its entailed range is narrower than m... more precisely, if exactly one
// constant c of the right residue puts x -/+ E - c strictly inside (-m, m), then x -/+ E = c.
// (Two remainders of related values computed at different places are recognised as equal this way.)
func (s *State) SaturateCong() {
	if s.dead || s.inSaturate {
		return
	}
	s.inSaturate = true
	defer func() { s.inSaturate = false }()
	var atoms []Atom
	for a := range s.cong {
		atoms = append(atoms, a)
	}
	sort.Slice(atoms, func(i, j int) bool { return atoms[i] < atoms[j] })
	lcs := append([]LinCong(nil), s.lc...)
	for _, x := range atoms {
		cg := s.cong[x]
		if !cg.ok() || cg.M > 1<<20 {
			continue
		}
		for _, l := range lcs {
			if l.M%cg.M != 0 || l.E.Coef(x) != 0 {
				continue
			}
			m := cg.M
			for _, sign := range []int64{1, -1} {
				e0 := Var(x).AddMul(l.E, -sign) // x - sign*E ; E ≡ 0  =>  e0 ≡ r (mod m)
				if e0.Bad || len(e0.T) > 4 {
					continue
				}
				b := s.Bounds(e0)
				if !b.HasLo || !b.HasHi || b.Hi-b.Lo >= 2*m {
					continue
				}
				// candidates c ≡ r (mod m) with hi-m < c < lo+m
				lo, hi := b.Hi-m+1, b.Lo+m-1
				first := lo + modpos(cg.R-lo, m)
				if first > hi {
					continue
				}
				if first+m <= hi {
					continue // ambiguous
				}
				s.AssumeEq(e0.AddConst(-first))
			}
		}
	}
}

// FBound: an upper bound of a floating-point SSA value (x < Val if Strict, else x <= Val).
type FBound struct {
	Val    float64
	Strict bool
}
