package num

import (
	"sort"
)

// AssignParallel performs the simultaneous assignment targets[i] := vals[i]
// (vals are evaluated in the current state), preserving relations between new
// and old values where a unit-coefficient inversion exists (i' = i + 24).
func (s *State) AssignParallel(targets []Atom, vals []Lin) {
	if s.dead || len(targets) == 0 {
		return
	}
	temps := make([]Atom, len(targets))
	congs := make([]Cong, len(targets))
	for i := range targets {
		congs[i] = s.CongOfExpr(vals[i])
		temps[i] = s.eng.tempAtom(i, s.eng.atoms[targets[i]].rng)
		s.Forget(temps[i])
		v := s.Subst(vals[i])
		if !v.Bad {
			s.def[temps[i]] = v
		}
		// carry the congruence of the value
		if c := s.CongOfExpr(vals[i]); c.ok() && v.Bad {
			s.cong[temps[i]] = c
		}
	}
	for _, t := range targets {
		s.Forget(t)
	}
	for i, t := range targets {
		s.Rename(temps[i], t)
	}
	// the congruence of the assigned value survives even when its definition
	// did not (the old value of a target occurred in it)
	for i, t := range targets {
		if _, isDef := s.def[t]; !isDef && congs[i].ok() && congs[i].M < 1<<30 {
			s.addCong(t, congs[i])
		}
	}
}

// projectOnto eliminates every atom except keep and returns the constraints on keep.
func projectOnto(sys []Lin, keep Atom, env Env) ([]Lin, bool) {
	atoms := map[Atom]bool{}
	for _, c := range sys {
		for _, t := range c.T {
			if t.A != keep {
				atoms[t.A] = true
			}
		}
	}
	if env != nil {
		for a := range atoms {
			r := env.RangeOf(a)
			if r.HasLo {
				sys = append(sys, Var(a).AddConst(-r.Lo))
			}
			if r.HasHi {
				sys = append(sys, Var(a).Neg().AddConst(r.Hi))
			}
		}
	}
	for len(atoms) > 0 {
		// cheapest atom first
		var best Atom
		bestCost := -1
		var keys []Atom
		for a := range atoms {
			keys = append(keys, a)
		}
		sort.Slice(keys, func(i, j int) bool { return keys[i] < keys[j] })
		for _, a := range keys {
			p, n := 0, 0
			for _, c := range sys {
				if k := c.Coef(a); k > 0 {
					p++
				} else if k < 0 {
					n++
				}
			}
			cost := p*n - p - n
			if bestCost == -1 || cost < bestCost {
				best, bestCost = a, cost
			}
		}
		delete(atoms, best)
		var pos, neg, rest []Lin
		for _, c := range sys {
			k := c.Coef(best)
			switch {
			case k > 0:
				pos = append(pos, c)
			case k < 0:
				neg = append(neg, c)
			default:
				rest = append(rest, c)
			}
		}
		if len(pos)*len(neg) > 400 {
			return nil, false
		}
		for _, p := range pos {
			for _, n := range neg {
				kp, kn := p.Coef(best), -n.Coef(best)
				g := gcd(kp, kn)
				c := p.Scale(kn/g).AddMul(n, kp/g)
				if c.Bad {
					continue
				}
				c = tighten(c, env)
				if len(c.T) == 0 {
					if c.C < 0 {
						return nil, false // infeasible system: anything holds; caller treats as no bound
					}
					continue
				}
				rest = append(rest, c)
			}
		}
		sys = dedup(rest)
		if len(sys) > fmCap {
			return nil, false
		}
	}
	return sys, true
}

// MinOf returns the greatest provable lower bound of e over cons.
func MinOf(cons []Lin, e Lin, env Env, z Atom) (int64, bool) {
	if e.Bad {
		return 0, false
	}
	if len(e.T) == 0 {
		return e.C, true
	}
	sys := append(coneOf(cons, e), Var(z).Sub(e), e.Sub(Var(z)))
	out, ok := projectOnto(sys, z, env)
	if !ok {
		return 0, false
	}
	have := false
	var best int64
	for _, c := range out {
		k := c.Coef(z)
		if k <= 0 || len(c.T) != 1 {
			continue
		}
		// k*z + C >= 0 => z >= ceil(-C/k)
		b := -floorDiv(c.C, k)
		if !have || b > best {
			best, have = b, true
		}
	}
	return best, have
}

type sideSys struct {
	st   *State
	cons []Lin
}

func (ss *sideSys) entails(e Lin) bool {
	if e.Bad {
		return false
	}
	if len(e.T) == 0 {
		return e.C >= 0
	}
	if len(e.T) == 1 {
		// interval shortcut
		if lo, ok := ss.st.quickLo(ss.st.Subst(e)); ok && lo >= 0 {
			return true
		}
	}
	return Entails(ss.cons, e, ss.st)
}

// impliedByStaticRange: a single-atom bound that the atom's type range already gives.
func impliedByStaticRange(eng *Engine, c Lin) bool {
	if len(c.T) != 1 {
		return false
	}
	r := eng.atoms[c.T[0].A].rng
	k := c.T[0].K
	if k > 0 && r.HasLo {
		// k*x + C >= 0 holds for all x >= Lo if k*Lo + C >= 0
		if v, ok := mulOv(k, r.Lo); ok && v+c.C >= 0 {
			return true
		}
	}
	if k < 0 && r.HasHi {
		if v, ok := mulOv(k, r.Hi); ok && v+c.C >= 0 {
			return true
		}
	}
	return false
}

// Join computes an upper bound of A and B. live tells which atoms matter after
// the join (others are dropped). With widen set, only constraints of A that
// hold in B are kept (no relaxation, no new relations).
func Join(A, B *State, live func(Atom) bool, widen bool) *State {
	if A == nil || A.dead {
		if B == nil {
			return nil
		}
		return B.Clone()
	}
	if B == nil || B.dead {
		return A.Clone()
	}
	eng := A.eng
	J := NewState(eng)
	atomSet := map[Atom]bool{}
	for x := range A.def {
		atomSet[x] = true
	}
	for x := range B.def {
		atomSet[x] = true
	}
	var atoms []Atom
	for x := range atomSet {
		if live == nil || live(x) {
			atoms = append(atoms, x)
		}
	}
	sort.Slice(atoms, func(i, j int) bool { return atoms[i] < atoms[j] })

	sa := &sideSys{st: A, cons: append([]Lin(nil), A.ineq...)}
	sb := &sideSys{st: B, cons: append([]Lin(nil), B.ineq...)}
	var knew []Atom
	var cands []Lin // candidate constraints (>= 0)
	liveLin := func(l Lin) bool {
		if live == nil {
			return true
		}
		for _, t := range l.T {
			if !live(t.A) {
				return false
			}
		}
		return true
	}
	for _, x := range atoms {
		dA, hasA := A.def[x]
		dB, hasB := B.def[x]
		if hasA && hasB && dA.Equal(dB) && liveLin(dA) {
			J.def[x] = dA
			continue
		}
		knew = append(knew, x)
		if hasA {
			e := Var(x).Sub(dA)
			sa.cons = append(sa.cons, e, e.Neg())
		}
		if hasB {
			e := Var(x).Sub(dB)
			sb.cons = append(sb.cons, e, e.Neg())
		}
	}
	// candidates
	addCand := func(c Lin) {
		if !c.Bad && len(c.T) > 0 && liveLin(c) && !impliedByStaticRange(eng, c) {
			cands = append(cands, c)
		}
	}
	for _, c := range A.ineq {
		addCand(c)
	}
	if !widen {
		for _, c := range B.ineq {
			addCand(c)
		}
	}
	for _, x := range knew {
		dA, hasA := A.def[x]
		dB, hasB := B.def[x]
		if hasA {
			e := Var(x).Sub(dA)
			addCand(e)
			addCand(e.Neg())
		}
		if hasB && !widen {
			e := Var(x).Sub(dB)
			addCand(e)
			addCand(e.Neg())
		}
		if widen {
			continue
		}
		// substitution candidates: x = ±a + rest on one side => rewrite that side's ineqs on a
		for _, side := range []struct {
			d    Lin
			has  bool
			ineq []Lin
		}{{dA, hasA, A.ineq}, {dB, hasB, B.ineq}} {
			if !side.has {
				continue
			}
			for _, t := range side.d.T {
				if t.K != 1 && t.K != -1 {
					continue
				}
				// x = k*a + rest => a = k*(x - rest)
				rest := side.d.Subst(t.A, Const(0))
				val := Var(x).Sub(rest).Scale(t.K)
				for _, c := range side.ineq {
					if c.Coef(t.A) != 0 {
						addCand(c.Subst(t.A, val))
					}
				}
			}
		}
	}
	if !widen {
		// interval candidates for the changed atoms
		for _, x := range knew {
			ra, rb := A.Bounds(Var(x)), B.Bounds(Var(x))
			if ra.HasLo && rb.HasLo {
				lo := ra.Lo
				if rb.Lo < lo {
					lo = rb.Lo
				}
				addCand(Var(x).AddConst(-lo))
			}
			if ra.HasHi && rb.HasHi {
				hi := ra.Hi
				if rb.Hi > hi {
					hi = rb.Hi
				}
				addCand(Const(hi).Sub(Var(x)))
			}
		}
	}
	if !widen {
		// lockstep candidates for pairs of changed atoms with constant values/steps
		for i := 0; i < len(knew); i++ {
			for j := i + 1; j < len(knew); j++ {
				x, y := knew[i], knew[j]
				ax, okx := A.def[x]
				ay, oky := A.def[y]
				bx, okbx := B.def[x]
				by, okby := B.def[y]
				if !okx || !oky || !okbx || !okby {
					continue
				}
				dx, dy := bx.Sub(ax), by.Sub(ay)
				if !dx.Bad && !dy.Bad && !dx.IsConst() && dx.Sub(dy).IsConst() {
					// same symbolic step (up to a constant): the difference x - y changes by a constant
					// candidate: (x - y) - (ax - ay) compared with 0 in both directions (relaxed by the join)
					e := Var(x).Sub(Var(y)).Sub(ax.Sub(ay))
					addCand(e)
					addCand(e.Neg())
					continue
				}
				if !dx.IsConst() || !dy.IsConst() || dx.C == 0 || dy.C == 0 {
					continue
				}
				// dy*(x - ax) - dx*(y - ay) = 0
				e := Var(x).Sub(ax).Scale(dy.C).Sub(Var(y).Sub(ay).Scale(dx.C))
				addCand(e)
				addCand(e.Neg())
			}
		}
	}
	// test candidates on both sides
	z := eng.tempAtom(63, Range{})
	seen := map[string]bool{}
	for _, c := range cands {
		c = tighten(c, nil)
		hk := c.Key() + "#" + itoa(c.C)
		if seen[hk] {
			if eng.TraceJoin {
				eng.trace("  join cand %s >= 0: DUP", eng.linStr(c))
			}
			continue
		}
		seen[hk] = true
		okA, okB := sa.entails(c), sb.entails(c)
		if eng.TraceJoin {
			eng.trace("  join cand %s >= 0: A=%v B=%v", eng.linStr(c), okA, okB)
		}
		if okA && okB {
			J.ineq = append(J.ineq, c)
			continue
		}
		// thresholds: a single-atom bound that does not hold on both sides is
		// replaced by the next threshold that does (in widening mode this is the
		// only relaxation, which guarantees termination: the threshold set is finite)
		if len(c.T) == 1 && (c.T[0].K == 1 || c.T[0].K == -1) && (!widen || okA) && !(widen && eng.noThresholds) {
			done := false
			for _, th := range eng.mergedThresholds() {
				if th <= c.C {
					continue
				}
				w := Lin{C: th, T: c.T}
				if sa.entails(w) && sb.entails(w) {
					J.ineq = append(J.ineq, w)
					done = true
					break
				}
			}
			if done || widen {
				continue
			}
		}
		if widen || len(c.T) > 3 {
			continue
		}
		// relax: c + d >= 0 with d = -(min of c over the failing side(s))
		slack := int64(0)
		fail := false
		for _, side := range []*sideSys{sa, sb} {
			if side.entails(c) {
				continue
			}
			m, ok := MinOf(side.cons, c, side.st, z)
			if !ok {
				fail = true
				break
			}
			if -m > slack {
				slack = -m
			}
		}
		if fail || slack <= 0 || slack > 1<<20 {
			continue
		}
		J.ineq = append(J.ineq, c.AddConst(slack))
	}
	J.ineq = dedup(J.ineq)
	// congruences
	congAtoms := map[Atom]bool{}
	for a := range A.cong {
		congAtoms[a] = true
	}
	for a := range B.cong {
		congAtoms[a] = true
	}
	for _, x := range knew {
		congAtoms[x] = true
	}
	for a := range congAtoms {
		if live != nil && !live(a) {
			continue
		}
		if _, isDef := J.def[a]; isDef {
			continue
		}
		ca, cb := A.CongOfExpr(Var(a)), B.CongOfExpr(Var(a))
		if !ca.ok() || !cb.ok() {
			continue
		}
		m := gcd(ca.M, cb.M)
		d := ca.R - cb.R
		if d < 0 {
			d = -d
		}
		m = gcd(m, d)
		if m > 1 {
			J.cong[a] = Cong{m, modpos(ca.R, m)}
		}
	}
	// linear congruences: candidates from both sides (and rewritten through the
	// definitions of changed atoms), kept when they hold on both sides
	if !widen || true {
		var lcc []LinCong
		addLC := func(l LinCong) {
			if l.E.Bad || len(l.E.T) == 0 || !liveLin(l.E) {
				return
			}
			for _, o := range lcc {
				if o.M == l.M && o.E.Equal(l.E) {
					return
				}
			}
			lcc = append(lcc, l)
		}
		for _, side := range []*State{A, B} {
			for _, l := range side.lc {
				addLC(l)
				if widen {
					continue
				}
				for _, x := range knew {
					d, has := side.def[x]
					if !has {
						continue
					}
					for _, t := range d.T {
						if (t.K == 1 || t.K == -1) && l.E.Coef(t.A) != 0 {
							rest := d.Subst(t.A, Const(0))
							val := Var(x).Sub(rest).Scale(t.K)
							addLC(LinCong{l.E.Subst(t.A, val), l.M})
						}
					}
				}
			}
		}
		holds := func(side *State, l LinCong) bool {
			c := side.CongOfExpr(l.E)
			return c.ok() && c.M%l.M == 0 && c.R%l.M == 0
		}
		for _, l := range lcc {
			if len(J.lc) < 24 && holds(A, l) && holds(B, l) {
				J.lc = append(J.lc, l)
			}
		}
	}
	for k, a := range A.fub {
		if b, ok := B.fub[k]; ok {
			w := a
			if b.Val > a.Val || b.Val == a.Val && !b.Strict {
				w = b
			}
			if J.fub == nil {
				J.fub = map[string]FBound{}
			}
			J.fub[k] = w
		}
	}
	for k, v := range A.loadMemo {
		if w, ok := B.loadMemo[k]; ok && w == v {
			if J.loadMemo == nil {
				J.loadMemo = map[string]Atom{}
			}
			J.loadMemo[k] = v
		}
	}
	// non-numeric facts
	for k, v := range A.nonnil {
		if v && B.nonnil[k] {
			J.nonnil[k] = true
		}
	}
	for k, v := range A.isnil {
		if v && B.isnil[k] {
			J.isnil[k] = true
		}
	}
	for k, v := range A.ptr {
		if w, ok := B.ptr[k]; ok && w == v {
			J.ptr[k] = v
		}
	}
	for k, v := range A.elemsNN {
		if v && B.elemsNN[k] {
			J.elemsNN[k] = true
		}
	}
	for k, v := range A.corr {
		if w, ok := B.corr[k]; ok && w == v {
			J.corr[k] = v
		}
	}
	for k, v := range A.dirty {
		J.dirty[k] = v
	}
	for k, v := range B.dirty {
		if v > J.dirty[k] {
			J.dirty[k] = v
		}
	}
	for k, v := range A.loopEnter {
		J.loopEnter[k] = v
	}
	for k, v := range B.loopEnter {
		if w, ok := J.loopEnter[k]; !ok || v < w {
			J.loopEnter[k] = v
		}
	}
	J.touch()
	J.Canonicalize()
	return J
}

func itoa(i int64) string {
	neg := i < 0
	if neg {
		i = -i
	}
	var b [24]byte
	p := len(b)
	for {
		p--
		b[p] = byte('0' + i%10)
		i /= 10
		if i == 0 {
			break
		}
	}
	if neg {
		p--
		b[p] = '-'
	}
	return string(b[p:])
}

// SameAs reports whether two states carry the same numeric information
// (syntactically, after dedup) — used for fixpoint detection.
func (s *State) SameAs(o *State) bool {
	if s == nil || o == nil {
		return s == o
	}
	if s.dead != o.dead || len(s.def) != len(o.def) || len(s.cong) != len(o.cong) {
		return false
	}
	for k, v := range s.def {
		if w, ok := o.def[k]; !ok || !v.Equal(w) {
			return false
		}
	}
	for k, v := range s.cong {
		if w, ok := o.cong[k]; !ok || v != w {
			return false
		}
	}
	// every ineq of each is entailed by the other (syntactic check first)
	syn := true
	for _, c := range s.ineq {
		if !impliedSyntactically(o.ineq, c) {
			syn = false
			break
		}
	}
	if syn {
		for _, c := range o.ineq {
			if !impliedSyntactically(s.ineq, c) {
				syn = false
				break
			}
		}
	}
	if !syn {
		for _, c := range s.ineq {
			if !Entails(o.ineq, c, o) {
				return false
			}
		}
		for _, c := range o.ineq {
			if !Entails(s.ineq, c, s) {
				return false
			}
		}
	}
	for k := range s.nonnil {
		if !o.nonnil[k] {
			return false
		}
	}
	for k := range o.nonnil {
		if !s.nonnil[k] {
			return false
		}
	}
	for k, v := range s.ptr {
		if o.ptr[k] != v {
			return false
		}
	}
	for k, v := range o.ptr {
		if s.ptr[k] != v {
			return false
		}
	}
	for k := range s.elemsNN {
		if !o.elemsNN[k] {
			return false
		}
	}
	for k := range o.elemsNN {
		if !s.elemsNN[k] {
			return false
		}
	}
	return true
}

// thresholds for widening: 2^k-1, 2^k and a few protocol constants.
var thresholds = func() []int64 {
	set := map[int64]bool{0: true, 3: true, 4: true, 14: true, 16: true, 17: true, 31: true, 255: true, 256: true,
		65535: true, 65536: true, 1 << 24: true, 1<<32 - 1: true}
	for k := uint(1); k <= 24; k++ {
		set[int64(1)<<k-1] = true
	}
	var out []int64
	for v := range set {
		out = append(out, v)
	}
	sort.Slice(out, func(i, j int) bool { return out[i] < out[j] })
	return out
}()

func (e *Engine) mergedThresholds() []int64 {
	if len(e.extraThresholds) == 0 {
		return thresholds
	}
	if e.mergedFor == &e.extraThresholds[0] {
		return e.mergedCache
	}
	set := map[int64]bool{}
	for _, t := range thresholds {
		set[t] = true
	}
	for _, t := range e.extraThresholds {
		set[t] = true
	}
	out := make([]int64, 0, len(set))
	for v := range set {
		out = append(out, v)
	}
	sort.Slice(out, func(i, j int) bool { return out[i] < out[j] })
	e.mergedCache, e.mergedFor = out, &e.extraThresholds[0]
	return out
}
