package num

import (
	"sort"
)

// Range of an atom (static type range or derived interval).
type Range struct {
	Lo, Hi       int64
	HasLo, HasHi bool
}

// Cong: x ≡ R (mod M); M <= 1 means no information.
type Cong struct{ M, R int64 }

func (c Cong) ok() bool { return c.M > 1 }

func modpos(a, m int64) int64 {
	r := a % m
	if r < 0 {
		r += m
	}
	return r
}

// Env supplies static facts about atoms.
type Env interface {
	RangeOf(a Atom) Range
	CongOf(a Atom) Cong
}

// tighten normalises e >= 0 using integrality and congruences.
func tighten(e Lin, env Env) Lin {
	if e.Bad || len(e.T) == 0 {
		return e
	}
	var M int64
	rho := e.C
	for _, t := range e.T {
		c := Cong{}
		if env != nil {
			c = env.CongOf(t.A)
		}
		if c.ok() {
			km, ok := mulOv(t.K, c.M)
			if !ok {
				return e.NormGE()
			}
			M = gcd(M, km)
			kr, ok := mulOv(t.K, c.R)
			if !ok {
				return e.NormGE()
			}
			rho, ok = addOv(rho, kr)
			if !ok {
				return e.NormGE()
			}
		} else {
			M = gcd(M, t.K)
		}
	}
	if M <= 1 {
		return e
	}
	// e ≡ rho (mod M) and e >= 0  =>  e >= rho mod M
	r := modpos(rho, M)
	out := Lin{C: e.C - r, T: e.T}
	// now out ≡ 0 (mod M) as a value; dividing the *constraint* is only valid if all
	// coefficients are divisible by M; otherwise keep as is.
	div := true
	for _, t := range out.T {
		if t.K%M != 0 {
			div = false
		}
	}
	if div && out.C%M == 0 {
		o2 := Lin{C: out.C / M}
		for _, t := range out.T {
			o2.T = append(o2.T, Term{t.A, t.K / M})
		}
		return o2
	}
	return out
}

const fmCap = 600

// feasible reports false only if cons (each >= 0) together with the atoms'
// ranges is infeasible over the rationals after integer tightening.
func feasible(cons []Lin, env Env) bool {
	// collect atoms, add range constraints
	atoms := map[Atom]bool{}
	var sys []Lin
	for _, c := range cons {
		if c.Bad {
			continue
		}
		sys = append(sys, c)
		for _, t := range c.T {
			atoms[t.A] = true
		}
	}
	if env != nil {
		for a := range atoms {
			r := env.RangeOf(a)
			if r.HasLo {
				sys = append(sys, Var(a).AddConst(-r.Lo))
			}
			if r.HasHi {
				sys = append(sys, Var(a).Neg().AddConst(r.Hi))
			}
		}
	}
	for i := range sys {
		sys[i] = tighten(sys[i], env)
	}
	sys = dedup(sys)
	for {
		// constant contradictions
		for _, c := range sys {
			if len(c.T) == 0 && c.C < 0 {
				return false
			}
		}
		// pick variable
		type cnt struct{ pos, neg int }
		counts := map[Atom]*cnt{}
		for _, c := range sys {
			for _, t := range c.T {
				x := counts[t.A]
				if x == nil {
					x = &cnt{}
					counts[t.A] = x
				}
				if t.K > 0 {
					x.pos++
				} else {
					x.neg++
				}
			}
		}
		if len(counts) == 0 {
			return true
		}
		var best Atom
		bestCost := -1
		var keys []Atom
		for a := range counts {
			keys = append(keys, a)
		}
		sort.Slice(keys, func(i, j int) bool { return keys[i] < keys[j] })
		for _, a := range keys {
			x := counts[a]
			cost := x.pos*x.neg - x.pos - x.neg
			if bestCost == -1 || cost < bestCost {
				best, bestCost = a, cost
			}
		}
		var pos, neg, rest []Lin
		for _, c := range sys {
			k := c.Coef(best)
			switch {
			case k > 0:
				pos = append(pos, c)
			case k < 0:
				neg = append(neg, c)
			default:
				rest = append(rest, c)
			}
		}
		for _, p := range pos {
			for _, n := range neg {
				kp, kn := p.Coef(best), -n.Coef(best)
				g := gcd(kp, kn)
				// (kn/g)*p + (kp/g)*n eliminates best
				c := p.Scale(kn/g).AddMul(n, kp/g)
				if c.Bad {
					continue // drop: weaker system, still sound for "feasible => not entailed"
				}
				c = tighten(c, env)
				if len(c.T) == 0 {
					if c.C < 0 {
						return false
					}
					continue
				}
				rest = append(rest, c)
			}
		}
		sys = dedup(rest)
		if len(sys) > fmCap {
			return true // give up: assume feasible
		}
	}
}

// dedup keeps, for each linear part, the tightest constant.
func dedup(sys []Lin) []Lin {
	best := make(map[uint64][]int, len(sys))
	out := make([]Lin, 0, len(sys))
	for _, c := range sys {
		if c.Bad {
			continue
		}
		h := c.Hash()
		found := false
		for _, i := range best[h] {
			if out[i].SameTerms(c) {
				if c.C < out[i].C {
					out[i] = c
				}
				found = true
				break
			}
		}
		if found {
			continue
		}
		best[h] = append(best[h], len(out))
		out = append(out, c)
	}
	return out
}

// impliedSyntactically: some constraint of cons has the same linear part and a constant <= goal's.
func impliedSyntactically(cons []Lin, goal Lin) bool {
	for _, c := range cons {
		if c.C <= goal.C && c.SameTerms(goal) {
			return true
		}
	}
	return false
}

// coneOf restricts cons to those transitively sharing atoms with seed.
func coneOf(cons []Lin, seed Lin) []Lin {
	in := map[Atom]bool{}
	for _, t := range seed.T {
		in[t.A] = true
	}
	used := make([]bool, len(cons))
	for changed := true; changed; {
		changed = false
		for i, c := range cons {
			if used[i] {
				continue
			}
			touch := false
			for _, t := range c.T {
				if in[t.A] {
					touch = true
					break
				}
			}
			if touch {
				used[i] = true
				changed = true
				for _, t := range c.T {
					in[t.A] = true
				}
			}
		}
	}
	var out []Lin
	for i, c := range cons {
		if used[i] {
			out = append(out, c)
		}
	}
	return out
}

// Entails: cons |= goal >= 0 (over the integers; sound, incomplete).
func Entails(cons []Lin, goal Lin, env Env) bool {
	if goal.Bad {
		return false
	}
	if len(goal.T) == 0 {
		return goal.C >= 0
	}
	if impliedSyntactically(cons, goal) {
		return true
	}
	neg := goal.Neg().AddConst(-1) // -goal - 1 >= 0
	if neg.Bad {
		return false
	}
	// small neighbourhoods first: fewer constraints are weaker (still sound) and
	// keep Fourier-Motzkin away from its size cap
	for _, depth := range []int{1, 2, 4} {
		sys := append(coneDepth(cons, goal, depth), neg)
		if !feasible(sys, env) {
			return true
		}
	}
	sys := append(coneOf(cons, goal), neg)
	return !feasible(sys, env)
}

// coneDepth: constraints within `depth` hops of the atoms of seed.
func coneDepth(cons []Lin, seed Lin, depth int) []Lin {
	in := map[Atom]bool{}
	for _, t := range seed.T {
		in[t.A] = true
	}
	used := make([]bool, len(cons))
	for d := 0; d < depth; d++ {
		var add []Atom
		for i, c := range cons {
			if used[i] {
				continue
			}
			touch := false
			for _, t := range c.T {
				if in[t.A] {
					touch = true
					break
				}
			}
			if touch {
				used[i] = true
				for _, t := range c.T {
					if !in[t.A] {
						add = append(add, t.A)
					}
				}
			}
		}
		if len(add) == 0 {
			break
		}
		for _, a := range add {
			in[a] = true
		}
	}
	var out []Lin
	for i, c := range cons {
		if used[i] {
			out = append(out, c)
		}
	}
	return out
}

// LowerBound computes a lower bound of e over cons by bisection on entailment
// within [lo, hi] candidates; returns ok=false if none of the candidates holds.
// (Used by the join to relax constraints.)
func LowerBound(cons []Lin, e Lin, env Env, candidates []int64) (int64, bool) {
	// candidates sorted descending: the first c with cons |= e - c >= 0
	for _, c := range candidates {
		if Entails(cons, e.AddConst(-c), env) {
			return c, true
		}
	}
	return 0, false
}

// Eliminate projects atom a out of cons (each >= 0). Equalities must have been
// substituted before. The result is implied by cons.
func Eliminate(cons []Lin, a Atom, env Env) []Lin {
	var pos, neg, rest []Lin
	for _, c := range cons {
		k := c.Coef(a)
		switch {
		case k > 0:
			pos = append(pos, c)
		case k < 0:
			neg = append(neg, c)
		default:
			rest = append(rest, c)
		}
	}
	if env != nil {
		r := env.RangeOf(a)
		if r.HasLo {
			pos = append(pos, Var(a).AddConst(-r.Lo))
		}
		if r.HasHi {
			neg = append(neg, Var(a).Neg().AddConst(r.Hi))
		}
	}
	pos, neg = dedup(pos), dedup(neg)
	if len(pos)*len(neg) > 400 {
		// keep the sparsest constraints of each side (single-atom bounds first)
		sort.SliceStable(pos, func(i, j int) bool { return len(pos[i].T) < len(pos[j].T) })
		sort.SliceStable(neg, func(i, j int) bool { return len(neg[i].T) < len(neg[j].T) })
		for len(pos)*len(neg) > 400 {
			if len(pos) >= len(neg) {
				pos = pos[:len(pos)-1]
			} else {
				neg = neg[:len(neg)-1]
			}
		}
	}
	for _, p := range pos {
		for _, n := range neg {
			kp, kn := p.Coef(a), -n.Coef(a)
			g := gcd(kp, kn)
			c := p.Scale(kn/g).AddMul(n, kp/g)
			if c.Bad || len(c.T) > 4 {
				continue // wide combinations are rarely useful and make later eliminations explode
			}
			c = tighten(c, env)
			if len(c.T) == 0 {
				continue
			}
			rest = append(rest, c)
		}
	}
	return dedup(rest)
}
