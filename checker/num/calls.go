package num

import (
	"fmt"
	"sort"
	"go/types"
	"strings"

	"golang.org/x/tools/go/ssa"
)

func (e *Engine) onStack(fn *ssa.Function) bool {
	for _, f := range e.stack {
		if f.fn == fn {
			return true
		}
	}
	return false
}

func (e *Engine) inPkg(fn *ssa.Function) bool {
	for fn.Parent() != nil {
		fn = fn.Parent()
	}
	if fn.Pkg == e.Pkg {
		return true
	}
	// synthetic wrappers of the package's methods
	if fn.Synthetic != "" && fn.Signature.Recv() != nil {
		t := fn.Signature.Recv().Type()
		if p, ok := t.(*types.Pointer); ok {
			t = p.Elem()
		}
		if n, ok := t.(*types.Named); ok && n.Obj().Pkg() == e.Pkg.Pkg {
			return true
		}
	}
	return false
}

// call evaluates a call instruction; it returns the state after the call, or
// nil if no callee returns normally.
func (e *Engine) call(fr *frame, st *State, in *ssa.Call) *State {
	c := in.Common()
	if b, ok := c.Value.(*ssa.Builtin); ok {
		e.builtin(fr, st, in, b)
		return st
	}
	var callees []*ssa.Function
	var args []ssa.Value
	if c.IsInvoke() {
		if e.Trace != nil && fr.check && !e.isNonNil(st, c.Value) {
			e.trace("INVOKE-NIL %s recv=%s vid=%s state=%s", in, c.Value, e.vid(c.Value), st.String())
		}
		e.oblige(fr, "B-NIL", in, "invoke", e.isNonNil(st, c.Value), "method call on a possibly nil interface value")
		callees = e.callees[in]
		args = append([]ssa.Value{c.Value}, c.Args...)
	} else if f, ok := c.Value.(*ssa.Function); ok {
		callees = []*ssa.Function{f}
		args = c.Args
	} else {
		if e.DynCallHook != nil && e.DynCallHook(e, st, in) {
			return st
		}
		callees = e.callees[in]
		args = c.Args
		if len(callees) == 0 {
			e.oblige(fr, "B-CALL", in, "dynamic", false, "call of an unresolved function value")
			e.havocAllMemory(st)
			e.freshCallResult(st, in)
			return st
		}
	}
	var outs []*State
	var classes []int // 0 nil error, 1 non-nil, 2 unknown / no error result
	for _, f := range callees {
		if !e.inPkg(f) || len(f.Blocks) == 0 {
			s := st.Clone()
			e.external(fr, s, in, f, args)
			outs = append(outs, s)
			classes = append(classes, 2)
			continue
		}
		if e.Opaque[f] {
			// the client has established that f has no effect on caller-visible
			// memory; its results are left unconstrained
			s := st.Clone()
			e.freshCallResult(s, in)
			outs = append(outs, s)
			classes = append(classes, 2)
			continue
		}
		if sum := e.Summaries[f]; sum != nil && c.IsInvoke() {
			// modular treatment of the packet decoders at the datagram level: their
			// own obligations are discharged by their root analysis (any input, zero
			// receiver); here only the conditional summary is used.
			wn := st.Clone()
			e.summaryCall(fr, wn, in, f, args)
			we := wn.Clone()
			if sum.MinLenOnNil > 0 && sum.SliceParam < len(args) {
				wn.Assume(e.lenExpr(wn, args[sum.SliceParam]).AddConst(-sum.MinLenOnNil))
			}
			key := e.vid(in)
			wn.isnil[key] = true
			we.nonnil[key] = true
			if sum.NilPossible && !wn.dead {
				outs = append(outs, wn)
				classes = append(classes, 0)
			}
			outs = append(outs, we)
			classes = append(classes, 1)
			continue
		}
		if e.selfRecursive(f) && !e.onStack(f) {
			// self-recursive functions are analysed as roots of their own (any
			// receiver, any argument); at call sites only their conservative
			// summary (plus the monotone-field lemma) is used
			s := st.Clone()
			e.SummarisedRecursive[shortFn(f)]++
			e.conservativeCall(nil, s, in, f, args)
			if e.PostCallHook != nil {
				e.PostCallHook(e, s, in, f)
			}
			outs = append(outs, s)
			classes = append(classes, 2)
			continue
		}
		if e.onStack(f) || len(e.stack) >= e.MaxDepth {
			s := st.Clone()
			e.trace("recursion/depth cut at %s", shortFn(f))
			e.conservativeCall(fr, s, in, f, args)
			outs = append(outs, s)
			classes = append(classes, 2)
			continue
		}
		if e.CallHook != nil && (fr.check || e.HooksAlways) {
			e.CallHook(e, st, in, f)
		}
		s := st.Clone()
		e.bindParams(s, f, args, c.IsInvoke(), c.Value)
		rets, _ := e.Eval(f, s, fr.check, in)
		if e.Exceeded {
			return st
		}
		for _, r := range rets {
			rs := r.st
			cls := e.bindResults(rs, in, f, r.ret)
			if e.PostCallHook != nil {
				e.PostCallHook(e, rs, in, f)
			}
			if e.Trace != nil && e.TraceFn != "" && strings.Contains(shortFn(f), e.TraceFn) {
				e.trace("RET %s before cleanup: %s", shortFn(f), rs.String())
			}
			e.cleanupCallee(rs, f)
			if e.Trace != nil && e.TraceFn != "" && strings.Contains(shortFn(f), e.TraceFn) {
				e.trace("RET %s after cleanup: %s", shortFn(f), rs.String())
			}
			outs = append(outs, rs)
			classes = append(classes, cls)
		}
	}
	if len(outs) == 0 {
		return nil
	}
	after := outs[0]
	for _, o := range outs[1:] {
		after = Join(after, o, nil, false)
	}
	if len(outs) > 1 {
		after = after.Clone()
	}
	// error / state correlation
	sig := in.Call.Signature()
	n := sig.Results().Len()
	if n > 0 && isErrorType(sig.Results().At(n-1).Type()) {
		var wn, we *State
		rkey := e.vid(in)
		if n > 1 {
			rkey = fmt.Sprintf("%s#%d", e.vid(in), n-1)
		}
		for i, o := range outs {
			// an outcome of unknown class whose state already knows the nil-ness of the result
			// (modelled externals such as errors.New / fmt.Errorf)
			if classes[i] == 2 {
				if o.nonnil[rkey] {
					classes[i] = 1
				} else if o.isnil[rkey] {
					classes[i] = 0
				}
			}
			if classes[i] == 0 || classes[i] == 2 {
				wn = joinOrClone(wn, o)
			}
			if classes[i] == 1 || classes[i] == 2 {
				we = joinOrClone(we, o)
			}
		}
		key := e.vid(in)
		if n > 1 {
			key = fmt.Sprintf("%s#%d", e.vid(in), n-1)
		}
		if wn != nil && we != nil {
			after.corr[key] = &Corr{WhenNil: wn, WhenNonNil: we}
		} else {
			delete(after.corr, key)
			// all outcomes in one class: the nil-ness is known
			if wn == nil {
				after.nonnil[key] = true
			} else {
				after.isnil[key] = true
			}
		}
	}
	return after
}

func joinOrClone(acc, s *State) *State {
	if acc == nil {
		return s.Clone()
	}
	return Join(acc, s, nil, false)
}

func isErrorType(t types.Type) bool {
	return types.Identical(t, types.Universe.Lookup("error").Type())
}

// bindParams binds the callee's parameters to the actual arguments in s.
func (e *Engine) bindParams(s *State, f *ssa.Function, args []ssa.Value, invoke bool, recv ssa.Value) {
	for i, p := range f.Params {
		if i >= len(args) {
			e.fresh(s, p)
			continue
		}
		a := args[i]
		if i == 0 && invoke {
			// interface receiver: the concrete pointer inside the interface is unknown to us,
			// except that it is non-nil when it came from new(T)
			e.fresh(s, p)
			s.nonnil[e.vid(p)] = true
			if src, ok := e.ifaceSource(s, recv, p.Type()); ok {
				e.copyValue(s, p, src)
				s.nonnil[e.vid(p)] = true
			}
			continue
		}
		e.copyValue(s, p, a)
	}
}

// ifaceSource looks through MakeInterface (and phis of them) for the concrete
// value of dynamic type t.
func (e *Engine) ifaceSource(s *State, v ssa.Value, t types.Type) (ssa.Value, bool) {
	seen := map[ssa.Value]bool{}
	var found ssa.Value
	var walk func(v ssa.Value) bool
	walk = func(v ssa.Value) bool {
		if seen[v] {
			return true
		}
		seen[v] = true
		switch x := v.(type) {
		case *ssa.MakeInterface:
			if types.Identical(x.X.Type(), t) {
				if found != nil && found != x.X {
					return false
				}
				found = x.X
			}
			return true
		case *ssa.Phi:
			for _, ed := range x.Edges {
				if !walk(ed) {
					return false
				}
			}
			return true
		case *ssa.Const:
			return true
		}
		return false
	}
	if !walk(v) || found == nil {
		return nil, false
	}
	return found, true
}

// bindResults copies the returned values into the call's result slots and
// classifies the error result: 0 nil, 1 non-nil, 2 unknown / none.
func (e *Engine) bindResults(rs *State, call *ssa.Call, f *ssa.Function, ret *ssa.Return) int {
	n := len(ret.Results)
	cls := 2
	if n == 0 {
		return cls
	}
	if n == 1 {
		e.copyValue(rs, call, ret.Results[0])
	} else {
		for i, r := range ret.Results {
			slot := fmt.Sprintf("%s#%d", e.vid(call), i)
			switch {
			case isInt(r.Type()) || isBool(r.Type()):
				a := e.tupSlot(slot, typeRange(r.Type()))
				rs.Bind(a, e.expr(rs, r))
			case isSliceLike(r.Type()):
				a := e.tupSlot(slot+"#len", Range{0, lenMax, true, true})
				rs.Bind(a, e.lenExpr(rs, r))
				setBool(rs.elemsNN, slot, e.elemsNonNil(rs, r))
				setBool(rs.elemsNN, "D"+slot, e.elemsDeepNN(rs, r))
			default:
				setBool(rs.nonnil, slot, e.isNonNil(rs, r))
				setBool(rs.nonnil, "D"+slot, e.isDeepNN(rs, r))
				setBool(rs.isnil, slot, e.isNil(rs, r))
				if p, ok := e.addrOf(rs, r); ok {
					rs.ptr[slot] = p
				} else {
					delete(rs.ptr, slot)
				}
				if _, ok := r.Type().Underlying().(*types.Struct); ok {
					e.copyLeaves(rs, "T"+slot, e.aggKey(r), r.Type(), true)
				}
			}
		}
	}
	last := ret.Results[n-1]
	if isErrorType(last.Type()) {
		switch {
		case e.isNil(rs, last):
			cls = 0
		case e.isNonNil(rs, last):
			cls = 1
		}
	}
	return cls
}

func (e *Engine) tupSlot(key string, r Range) Atom {
	if a, ok := e.tupAtom[key]; ok {
		return a
	}
	a := e.newAtom("res:"+key, r)
	e.tupAtom[key] = a
	return a
}

// cleanupCallee removes everything that belongs to the callee's activation:
// atoms of its values, cells of its allocations, facts keyed by its values.
func (e *Engine) cleanupCallee(rs *State, f *ssa.Function) {
	owned := func(v ssa.Value) bool {
		if v.Parent() == nil {
			return false
		}
		p := v.Parent()
		for p != nil {
			if p == f {
				return true
			}
			p = p.Parent()
		}
		return false
	}
	var atoms []Atom
	used := map[Atom]bool{}
	for a := range rs.def {
		used[a] = true
	}
	for _, d := range rs.def {
		for _, t := range d.T {
			used[t.A] = true
		}
	}
	for _, c := range rs.ineq {
		for _, t := range c.T {
			used[t.A] = true
		}
	}
	for a := range rs.cong {
		used[a] = true
	}
	owner := e.atomOwner()
	allocs := map[string]bool{}
	for a := range used {
		if v, ok := owner[a]; ok && owned(v) {
			atoms = append(atoms, a)
		}
	}
	for _, b := range f.Blocks {
		for _, in := range b.Instrs {
			if al, ok := in.(*ssa.Alloc); ok {
				// heap objects of a returned callee are reachable only through the
				// returned pointers; their contents are not needed by callers
				allocs[e.allocObj(al)] = true
			}
		}
	}
	dead := map[Atom]bool{}
	for _, a := range atoms {
		dead[a] = true
	}
	for key, a := range e.cellAtom {
		obj := key
		if i := strings.IndexAny(key, ".#["); i >= 0 {
			obj = key[:i]
		}
		isDead := allocs[obj] || strings.HasPrefix(obj, "G") && e.aggOwned(obj, f)
		if strings.HasPrefix(key, "pure:") {
			if v, ok := e.vidOwner(key[strings.LastIndex(key, ":")+1:]); ok && owned(v) {
				isDead = true
			}
		}
		if isDead {
			dead[a] = true
			if used[a] {
				atoms = append(atoms, a)
			}
		}
	}
	// hash-consed wrapped values that depend on dead atoms are dead too
	for changed := true; changed; {
		changed = false
		for w, deps := range e.wrapOf {
			if dead[w] {
				continue
			}
			for _, d := range deps {
				if dead[d] {
					dead[w] = true
					changed = true
					if used[w] {
						atoms = append(atoms, w)
					}
					break
				}
			}
		}
	}
	// deterministic order (map iteration above is random and the order of
	// elimination influences precision)
	sort.Slice(atoms, func(i, j int) bool { return atoms[i] < atoms[j] })
	atoms = uniqAtoms(atoms)
	// non-base first (cheap), then base atoms
	for _, a := range atoms {
		if _, ok := rs.def[a]; ok {
			delete(rs.def, a)
		}
	}
	for _, a := range atoms {
		if mentionsAtom(rs, a) {
			rs.Forget(a)
		}
	}
	// facts keyed by callee values
	dropKey := func(k string) bool {
		base := k
		if i := strings.IndexAny(k, ".#["); i >= 0 {
			base = k[:i]
		}
		base = strings.TrimPrefix(base, "D")
		if strings.HasPrefix(base, "E") {
			base = base[1:]
		}
		if strings.HasPrefix(base, "v") {
			if v, ok := e.vidOwner(base); ok {
				return owned(v)
			}
		}
		if strings.HasPrefix(base, "A") || strings.HasPrefix(base, "G") {
			if allocs[base] {
				return true
			}
			if v, ok := e.vidOwner("v" + base[1:]); ok && strings.HasPrefix(base, "G") {
				return owned(v)
			}
		}
		return false
	}
	for _, m := range []map[string]bool{rs.nonnil, rs.isnil, rs.elemsNN} {
		for k := range m {
			if dropKey(k) {
				delete(m, k)
			}
		}
	}
	for k := range rs.ptr {
		if dropKey(k) {
			delete(rs.ptr, k)
		}
	}
	for k := range rs.corr {
		if dropKey(k) {
			delete(rs.corr, k)
		}
	}
}

func uniqAtoms(a []Atom) []Atom {
	out := a[:0]
	for i, x := range a {
		if i == 0 || x != a[i-1] {
			out = append(out, x)
		}
	}
	return out
}

func (e *Engine) aggOwned(obj string, f *ssa.Function) bool {
	v, ok := e.vidOwner("v" + obj[1:])
	if !ok || v.Parent() == nil {
		return false
	}
	for p := v.Parent(); p != nil; p = p.Parent() {
		if p == f {
			return true
		}
	}
	return false
}

func (e *Engine) vidOwner(id string) (ssa.Value, bool) {
	if e.vidRev == nil || e.vidRevLen != len(e.vids) {
		e.vidRev = make(map[string]ssa.Value, len(e.vids))
		for v, n := range e.vids {
			e.vidRev[fmt.Sprintf("v%d", n)] = v
		}
		e.vidRevLen = len(e.vids)
	}
	v, ok := e.vidRev[id]
	return v, ok
}

func (e *Engine) freshCallResult(st *State, call *ssa.Call) {
	if tup, ok := call.Type().(*types.Tuple); ok {
		for i := 0; i < tup.Len(); i++ {
			slot := fmt.Sprintf("%s#%d", e.vid(call), i)
			t := tup.At(i).Type()
			switch {
			case isInt(t) || isBool(t):
				st.Forget(e.tupSlot(slot, typeRange(t)))
			case isSliceLike(t):
				st.Forget(e.tupSlot(slot+"#len", Range{0, lenMax, true, true}))
				delete(st.elemsNN, slot)
			default:
				delete(st.nonnil, slot)
				delete(st.isnil, slot)
				delete(st.ptr, slot)
				delete(st.corr, slot)
			}
		}
		return
	}
	e.fresh(st, call)
	delete(st.corr, e.vid(call))
}

// conservativeCall: the callee is not evaluated (recursion / depth): all memory
// reachable may change, results are unknown.
func (e *Engine) conservativeCall(fr *frame, st *State, call *ssa.Call, f *ssa.Function, args []ssa.Value) {
	if fr != nil {
		e.RecursionCuts[shortFn(f)]++
		fr.recCut = true
	}
	for i, a := range args {
		ad, ok := e.addrOf(st, a)
		if !ok {
			continue
		}
		// monotone-field lemma: slice fields of the receiver that the callee (and
		// everything it can reach) only ever re-slices cannot grow
		type keep struct {
			cell Atom
			old  Lin
		}
		var keeps []keep
		if i == 0 && len(f.Params) > 0 {
			if pt, ok := f.Params[0].Type().Underlying().(*types.Pointer); ok {
				if stt, ok := pt.Elem().Underlying().(*types.Struct); ok {
					for fi := 0; fi < stt.NumFields(); fi++ {
						if _, isSlice := stt.Field(fi).Type().Underlying().(*types.Slice); isSlice && e.fieldOnlyResliced(f, pt.Elem(), fi) {
							c := e.cellLen(ad.Key() + fmt.Sprintf(".f%d", fi))
							tmp := e.tempAtom(40+len(keeps), e.atoms[c].rng)
							st.Forget(tmp)
							st.def[tmp] = st.Expr(c) // tmp holds the value before the call
							keeps = append(keeps, keep{c, Var(tmp)})
						}
					}
				}
			}
		}
		e.havocObject(st, ad.Obj)
		for _, k := range keeps {
			st.Assume(k.old.Sub(Var(k.cell))) // new length <= old length
			st.Forget(k.old.T[0].A)
		}
	}
	e.havocAllMemory(st)
	e.freshCallResult(st, call)
}

// selfRecursive: f contains a static call of itself.
func (e *Engine) selfRecursive(f *ssa.Function) bool {
	if v, ok := e.selfRec[f]; ok {
		return v
	}
	res := false
	for _, b := range f.Blocks {
		for _, in := range b.Instrs {
			if c, ok := in.(*ssa.Call); ok {
				if g, ok := c.Common().Value.(*ssa.Function); ok && g == f {
					res = true
				}
			}
		}
	}
	if e.selfRec == nil {
		e.selfRec = map[*ssa.Function]bool{}
	}
	e.selfRec[f] = res
	return res
}

// fieldOnlyResliced: in f and every package function reachable from it, each
// store into field fi of a value of struct type t stores a re-slice of the
// same field of the same pointer (x.F = x.F[a:b]); such a field never grows.
func (e *Engine) fieldOnlyResliced(f *ssa.Function, t types.Type, fi int) bool {
	key := fmt.Sprintf("%p/%s/%d", f, t.String(), fi)
	if v, ok := e.resliceCache[key]; ok {
		return v
	}
	seen := map[*ssa.Function]bool{}
	var work []*ssa.Function
	work = append(work, f)
	ok := true
	for len(work) > 0 && ok {
		g := work[len(work)-1]
		work = work[:len(work)-1]
		if seen[g] || !e.inPkg(g) {
			continue
		}
		seen[g] = true
		for _, b := range g.Blocks {
			for _, in := range b.Instrs {
				switch x := in.(type) {
				case *ssa.Store:
					fa, isFA := x.Addr.(*ssa.FieldAddr)
					if !isFA || fa.Field != fi {
						continue
					}
					pt, isPtr := fa.X.Type().Underlying().(*types.Pointer)
					if !isPtr || !types.Identical(pt.Elem(), t) {
						continue
					}
					sl, isSlice := x.Val.(*ssa.Slice)
					if !isSlice {
						ok = false
						break
					}
					ld, isLoad := sl.X.(*ssa.UnOp)
					if !isLoad {
						ok = false
						break
					}
					fa2, isFA2 := ld.X.(*ssa.FieldAddr)
					if !isFA2 || fa2.Field != fi || fa2.X != fa.X {
						ok = false
					}
				case *ssa.Call:
					c := x.Common()
					if g2, isFn := c.Value.(*ssa.Function); isFn && !c.IsInvoke() {
						work = append(work, g2)
					} else {
						work = append(work, e.callees[x]...)
					}
				}
			}
		}
	}
	if e.resliceCache == nil {
		e.resliceCache = map[string]bool{}
	}
	e.resliceCache[key] = ok
	return ok
}

// summaryCall: effects of a summarised decoder: it may write the object its
// receiver points to (and nothing else the caller tracks); results are unknown.
func (e *Engine) summaryCall(fr *frame, st *State, call *ssa.Call, f *ssa.Function, args []ssa.Value) {
	// the decoder's allocations are accounted by its own root analysis (every
	// loop of every decoder carries its own M-ALLOC obligation for any input)
	if len(args) > 0 {
		if ad, ok := e.addrOf(st, args[0]); ok {
			e.havocObject(st, ad.Obj)
		}
	}
	e.freshCallResult(st, call)
}

// ---- builtins and external functions (trusted model, DESIGN §1.1)

func (e *Engine) builtin(fr *frame, st *State, in *ssa.Call, b *ssa.Builtin) {
	c := in.Common()
	switch b.Name() {
	case "len":
		if isSliceLike(c.Args[0].Type()) {
			st.Bind(e.atomOf(in), e.lenExpr(st, c.Args[0]))
			return
		}
		if at, ok := c.Args[0].Type().Underlying().(*types.Array); ok {
			st.Bind(e.atomOf(in), Const(at.Len()))
			return
		}
		e.freshBounded(st, in, Range{0, lenMax, true, true})
	case "cap":
		a := e.atomOf(in)
		st.Forget(a)
		if isSliceLike(c.Args[0].Type()) {
			st.Assume(Var(a).Sub(e.lenExpr(st, c.Args[0])))
		}
	case "append":
		base := e.lenExpr(st, c.Args[0])
		add := Const(0)
		nn := e.elemsNonNil(st, c.Args[0])
		if len(c.Args) > 1 {
			add = e.lenExpr(st, c.Args[1])
			nn = nn && e.appendedNonNil(st, c.Args[1])
		}
		e.appendObligation(fr, st, in, add)
		st.Bind(e.lenAtomOf(in), base.Add(add))
		setBool(st.elemsNN, e.vid(in), nn)
		dn := e.elemsDeepNN(st, c.Args[0])
		if len(c.Args) > 1 {
			dn = dn && e.appendedDeepNN(st, c.Args[1])
		}
		setBool(st.elemsNN, "D"+e.vid(in), dn)
	case "copy":
		a := e.atomOf(in)
		st.Forget(a)
		st.Assume(Var(a))
		st.Assume(e.lenExpr(st, c.Args[0]).Sub(Var(a)))
		st.Assume(e.lenExpr(st, c.Args[1]).Sub(Var(a)))
	case "min", "max":
		e.fresh(st, in)
	case "panic":
		e.oblige(fr, "B-PANIC", in, "panic", false, "explicit panic")
	case "ssa:wrapnilchk":
		// wrapper methods check their receiver: the result is the (non-nil) receiver
		e.oblige(fr, "B-NIL", in, "wrapnilchk", e.isNonNil(st, c.Args[0]), "value method called through a possibly nil pointer")
		e.copyValue(st, in, c.Args[0])
		st.nonnil[e.vid(in)] = true
	case "recover", "print", "println", "delete", "clear":
	default:
		e.fresh(st, in)
	}
}

// appendedNonNil: the variadic slice passed to append holds only non-nil values.
func (e *Engine) appendedNonNil(st *State, v ssa.Value) bool {
	if !isPointerLike(elemType(v.Type())) {
		return true
	}
	// pattern: slice of a fresh [n]T array whose elements were stored just before
	sl, ok := v.(*ssa.Slice)
	if !ok {
		return e.elemsNonNil(st, v)
	}
	al, ok := sl.X.(*ssa.Alloc)
	if !ok || al.Referrers() == nil {
		return false
	}
	all := true
	n := 0
	for _, ref := range *al.Referrers() {
		ia, ok := ref.(*ssa.IndexAddr)
		if !ok {
			continue
		}
		for _, r2 := range *ia.Referrers() {
			if s, ok := r2.(*ssa.Store); ok {
				n++
				if !e.isNonNil(st, s.Val) {
					all = false
				}
			}
		}
	}
	return all && n > 0
}

// appendedDeepNN: like appendedNonNil for the deep flag.
func (e *Engine) appendedDeepNN(st *State, v ssa.Value) bool {
	if !isPointerLike(elemType(v.Type())) {
		return true
	}
	sl, ok := v.(*ssa.Slice)
	if !ok {
		return e.elemsDeepNN(st, v)
	}
	al, ok := sl.X.(*ssa.Alloc)
	if !ok || al.Referrers() == nil {
		return false
	}
	all := true
	n := 0
	for _, ref := range *al.Referrers() {
		ia, ok := ref.(*ssa.IndexAddr)
		if !ok {
			continue
		}
		for _, r2 := range *ia.Referrers() {
			if s, ok := r2.(*ssa.Store); ok {
				n++
				if !e.isDeepNN(st, s.Val) {
					all = false
				}
			}
		}
	}
	return all && n > 0
}

func elemType(t types.Type) types.Type {
	switch u := t.Underlying().(type) {
	case *types.Slice:
		return u.Elem()
	case *types.Array:
		return u.Elem()
	}
	return t
}

// appendObligation: allocation inside loops is accounted by the M-ALLOC rules
// (see alloc.go); here only the single-step size.
func (e *Engine) appendObligation(fr *frame, st *State, in ssa.Instruction, add Lin) {
	e.allocObligation(fr, st, in, add)
}

// external models calls of functions outside the package.
func (e *Engine) external(fr *frame, st *State, in *ssa.Call, f *ssa.Function, args []ssa.Value) {
	name := f.String()
	e.Externals[name]++
	if e.ExternalHook != nil && (fr.check || e.HooksAlways) {
		e.ExternalHook(e, st, in, name, args)
	}
	need := func(i int, n int64, what string) {
		if i < len(args) && e.AccessHook != nil && fr.check {
			// read extent relative to the slice the argument was cut from: low + n
			if sl, ok := args[i].(*ssa.Slice); ok && sl.High == nil {
				lo := Const(0)
				if sl.Low != nil {
					lo = e.expr(st, sl.Low)
				}
				e.AccessHook(e, st, in, sl.X, lo.AddConst(n))
			} else if _, ok := args[i].(*ssa.Slice); !ok {
				e.AccessHook(e, st, in, args[i], Const(n))
			}
		}
		if i < len(args) {
			l := e.lenExpr(st, args[i])
			e.oblige(fr, "B-BIN", in, what, st.Entails(l.AddConst(-n)), fmt.Sprintf("%s needs len(arg) >= %d, have %s", what, n, e.linStr(st.Subst(l))))
		}
	}
	switch name {
	case "(encoding/binary.bigEndian).Uint16":
		need(1, 2, "Uint16")
		e.fresh(st, in)
	case "(encoding/binary.bigEndian).Uint32":
		need(1, 4, "Uint32")
		e.fresh(st, in)
	case "(encoding/binary.bigEndian).Uint64":
		need(1, 8, "Uint64")
		e.fresh(st, in)
	case "(encoding/binary.bigEndian).PutUint16":
		need(1, 2, "PutUint16")
	case "(encoding/binary.bigEndian).PutUint32":
		need(1, 4, "PutUint32")
	case "(encoding/binary.bigEndian).PutUint64":
		need(1, 8, "PutUint64")
	case "math.Floor":
		e.fresh(st, in)
		if len(args) == 1 { // floor(x) <= x
			if b, ok := st.fub[e.vid(args[0])]; ok {
				if st.fub == nil {
					st.fub = map[string]FBound{}
				}
				st.fub[e.vid(in)] = b
			}
		}
	case "bytes.Equal", "math.Float32frombits", "math.Float32bits":
		e.fresh(st, in)
	case "errors.New", "fmt.Errorf":
		e.fresh(st, in)
		st.nonnil[e.vid(in)] = true
	case "fmt.Sprintf", "fmt.Sprint", "fmt.Sprintln", "strings.TrimSuffix", "strings.ReplaceAll",
		"strconv.Itoa", "strconv.FormatInt", "strconv.FormatUint", "strconv.Quote":
		e.fresh(st, in) // total; result length unknown
	case "(*strings.Builder).WriteString", "(*strings.Builder).WriteByte", "(*strings.Builder).WriteRune", "(*strings.Builder).Write",
		"(*strings.Builder).String", "(*strings.Builder).Len", "(*strings.Builder).Reset",
		"(*bytes.Buffer).WriteString", "(*bytes.Buffer).WriteByte", "(*bytes.Buffer).WriteRune", "(*bytes.Buffer).Write",
		"(*bytes.Buffer).String", "(*bytes.Buffer).Len", "(*bytes.Buffer).Reset":
		// total on a non-nil buffer; the buffer's own memory is not modelled
		if len(args) > 0 {
			e.oblige(fr, "B-NIL", in, "buffer", e.isNonNil(st, args[0]), "method of a library buffer needs a non-nil receiver")
		}
		e.freshCallResult(st, in)
	case "fmt.Fprintf", "fmt.Fprint", "fmt.Fprintln":
		// total when the writer is an in-memory buffer (its Write cannot fail or call back)
		okW := false
		if len(args) > 0 {
			if mi, isMI := args[0].(*ssa.MakeInterface); isMI {
				switch mi.X.Type().String() {
				case "*strings.Builder", "*bytes.Buffer":
					okW = e.isNonNil(st, mi.X)
				}
			}
		}
		if !okW {
			e.oblige(fr, "B-EXT", in, name, false, "call of "+name+" on a writer that is not a non-nil *strings.Builder / *bytes.Buffer: not in the trusted model table")
			e.havocAllMemory(st)
		}
		e.freshCallResult(st, in)
	default:
		if strings.HasPrefix(name, "reflect.") || strings.HasPrefix(name, "(reflect.") || strings.HasPrefix(name, "(*reflect.") {
			e.reflectCall(fr, st, in, name, args)
			return
		}
		e.oblige(fr, "B-EXT", in, name, false, "call of "+name+": not in the trusted model table")
		e.havocAllMemory(st)
		e.freshCallResult(st, in)
	}
}

// reflectCall: reflection is discharged by the guarded-call table of the XR
// codec rules (C15-SIB / B-RFL); numerically results are unknown and reflect
// setters may modify any memory cell.
func (e *Engine) reflectCall(fr *frame, st *State, in *ssa.Call, name string, args []ssa.Value) {
	switch {
	case strings.HasPrefix(name, "(reflect.Value).Set"), name == "(reflect.Value).Call":
		// A reflect setter writes the memory its Value designates (the pointee
		// graph of read's argument, or memory made by reflect.New). The XR codec
		// rule B-RFL/type-graph (checked by the property code with go/types)
		// shows that this graph contains no packetBuffer, so objects of that type
		// keep their cells.
		e.havocMemoryExcept(st, e.SpareOnReflectSet)
		e.ReflectSets++
	}
	e.freshCallResult(st, in)
	switch name {
	case "(reflect.Value).Len", "(reflect.Value).NumField":
		st.Assume(Var(e.atomOf(in)))
	}
	if name == "(reflect.Value).NumField" && len(args) > 0 {
		// NumField depends only on the type of the Value: calls on the same SSA value agree
		key := "pure:NumField:" + e.vid(args[0])
		a := e.cellAtomOf(key, Range{0, 1 << 16, true, true})
		if _, seen := e.pureSeen[key]; !seen {
			if e.pureSeen == nil {
				e.pureSeen = map[string]bool{}
			}
			e.pureSeen[key] = true
		}
		st.Bind(e.atomOf(in), Var(a))
	}
	// functions returning a reflect.Type return a non-nil one (or panic; see B-RFL)
	if t, ok := in.Type().(*types.Named); ok && t.Obj().Pkg() != nil && t.Obj().Pkg().Path() == "reflect" && t.Obj().Name() == "Type" {
		st.nonnil[e.vid(in)] = true
	}
	if e.ReflectRule != nil {
		e.ReflectRule(e, fr, st, in, name)
	}
}

// havocMemoryExcept forgets every memory cell except those of objects whose
// type name is in spare.
func (e *Engine) havocMemoryExcept(st *State, spare map[string]bool) {
	keep := func(key string) bool {
		obj := key
		if i := strings.IndexAny(key, ".#["); i >= 0 {
			obj = key[:i]
		}
		if spare != nil && spare[e.objType[obj]] {
			return true
		}
		// objects whose address never escapes cannot be reached by unknown code
		if strings.HasPrefix(obj, "A") {
			if v, ok := e.vidOwner("v" + obj[1:]); ok {
				if al, ok := v.(*ssa.Alloc); ok && !addressEscapes(al, e.Pkg, 0) {
					return true
				}
			}
		}
		return false
	}
	for _, key := range e.sortedCellKeys() {
		a := e.cellAtom[key]
		if strings.HasPrefix(key, "pure:") || keep(key) {
			continue
		}
		if mentionsAtom(st, a) {
			st.Forget(a)
		}
	}
	for _, m := range []map[string]bool{st.nonnil, st.isnil, st.elemsNN} {
		for k := range m {
			b := strings.TrimPrefix(k, "D") // deep-non-nil variant of the same key
			if !strings.HasPrefix(b, "v") && !strings.HasPrefix(b, "E") && !keep(b) {
				delete(m, k)
			}
		}
	}
	for k := range st.ptr {
		if !strings.HasPrefix(k, "v") && !keep(k) {
			delete(st.ptr, k)
		}
	}
}
