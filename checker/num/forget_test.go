package num

import (
	"fmt"
	"testing"
)

func TestForgetScaled(t *testing.T) {
	e := NewEngine(nil, nil)
	n := e.newAtom("n", Range{0, lenMax, true, true})
	p := e.newAtom("p", Range{})
	res := e.newAtom("res", Range{})
	st := NewState(e)
	st.Assume(Var(p).Sub(Var(n)))
	st.Assume(Var(n).AddConst(1).Sub(Var(p)))
	st.Bind(res, Var(p).Scale(2).AddConst(8))
	fmt.Println("before:", st.String())
	st.Forget(p)
	fmt.Println("after: ", st.String())
	if !st.Entails(Var(res).Sub(Var(n).Scale(2)).AddConst(-8)) {
		t.Errorf("lost res >= 2n+8")
	}
}
