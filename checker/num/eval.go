package num

import (
	"os"
	"math"
	"fmt"
	"go/constant"
	"go/token"
	"go/types"
	"sort"
	"strings"

	"golang.org/x/tools/go/ssa"
)

type retInfo struct {
	st  *State
	ret *ssa.Return
}

type edgeKey struct{ from, to int }

type frame struct {
	fn     *ssa.Function
	in     map[int]*State
	edges  map[edgeKey]*State
	visits map[int]int
	check  bool
	rets   []retInfo
	panics bool
	call   ssa.CallInstruction
	// atoms and fact keys created for this activation (cleaned at return)
	rpo   []*ssa.BasicBlock
	loops map[int]*loopInfo
	cur   *ssa.BasicBlock
	snap  map[int][]Atom // loop header -> memory cells snapshotted at loop entry (variants over memory)
	recCut bool          // a recursive call was cut while evaluating the current block
	recBlocks map[int]bool // blocks containing a recursion cut
}

type loopInfo struct {
	header *ssa.BasicBlock
	blocks map[int]bool
}

const widenDelay = 3

func rpoOf(fn *ssa.Function) []*ssa.BasicBlock {
	seen := map[int]bool{}
	var post []*ssa.BasicBlock
	var dfs func(b *ssa.BasicBlock)
	dfs = func(b *ssa.BasicBlock) {
		seen[b.Index] = true
		for _, s := range b.Succs {
			if !seen[s.Index] {
				dfs(s)
			}
		}
		post = append(post, b)
	}
	dfs(fn.Blocks[0])
	for i, j := 0, len(post)-1; i < j; i, j = i+1, j-1 {
		post[i], post[j] = post[j], post[i]
	}
	return post
}

func findLoops(fn *ssa.Function) map[int]*loopInfo {
	loops := map[int]*loopInfo{}
	for _, b := range fn.Blocks {
		for _, p := range b.Preds {
			if b.Dominates(p) { // back edge p -> b
				l := loops[b.Index]
				if l == nil {
					l = &loopInfo{header: b, blocks: map[int]bool{b.Index: true}}
					loops[b.Index] = l
				}
				// natural loop: nodes that reach p without passing b
				stack := []*ssa.BasicBlock{p}
				for len(stack) > 0 {
					x := stack[len(stack)-1]
					stack = stack[:len(stack)-1]
					if l.blocks[x.Index] {
						continue
					}
					l.blocks[x.Index] = true
					stack = append(stack, x.Preds...)
				}
			}
		}
	}
	return loops
}

// Eval analyses fn starting from st (parameters already bound). It returns the
// states at the reachable return instructions.
func (e *Engine) Eval(fn *ssa.Function, st *State, check bool, call ssa.CallInstruction) (rets []retInfo, panics bool) {
	if len(fn.Blocks) == 0 {
		return nil, false
	}
	e.Universe[fn] = true
	fr := &frame{fn: fn, in: map[int]*State{}, edges: map[edgeKey]*State{}, visits: map[int]int{}, call: call,
		rpo: rpoOf(fn), loops: findLoops(fn), snap: map[int][]Atom{}}
	e.stack = append(e.stack, fr)
	defer func() { e.stack = e.stack[:len(e.stack)-1] }()

	if e.Trace != nil {
		e.trace("ENTER %s: %s", shortFn(fn), st.String())
	}
	if e.ErrDiscipline {
		// ghost reading of error-typed call results: "the error of the last execution, nil if
		// the call has not been executed yet"
		for _, v := range errorResultsOf(fn) {
			k := e.vid(v)
			st.isnil[k] = true
			delete(st.nonnil, k)
		}
	}
	fr.in = map[int]*State{0: st}
	e.fixpoint(fr)
	if e.Exceeded {
		return nil, false
	}
	// final pass: obligations + returns
	fr.check = check
	fr.rets = nil
	// The final pass propagates states forward once more (loop headers start
	// from their invariant), so that ghost snapshots bound at loop headers reach
	// the back edges.
	fix := fr.in
	fixEdges := fr.edges
	fr.in = map[int]*State{0: fix[0]}
	fr.edges = map[edgeKey]*State{}
	for _, b := range fr.rpo {
		if fix[b.Index] == nil || fix[b.Index].dead {
			continue
		}
		if b.Index != 0 {
			if _, isLoop := fr.loops[b.Index]; isLoop {
				fr.in[b.Index] = fix[b.Index]
			} else {
				in := e.entryState(fr, b)
				if in == nil {
					continue
				}
				fr.in[b.Index] = in
			}
		}
		e.runBlock(fr, b, true)
	}
	_ = fixEdges
	if check {
		e.checkLoops(fr)
	}
	return fr.rets, fr.panics
}

// fnThresholds: integer constants compared against in fn (and +-1), used as widening thresholds.
func (e *Engine) fnThresholds(fn *ssa.Function) []int64 {
	if t, ok := e.thrCache[fn]; ok {
		return t
	}
	set := map[int64]bool{}
	for _, b := range fn.Blocks {
		for _, in := range b.Instrs {
			bo, ok := in.(*ssa.BinOp)
			if !ok {
				continue
			}
			switch bo.Op {
			case token.LSS, token.LEQ, token.GTR, token.GEQ, token.EQL, token.NEQ:
				for _, op := range []ssa.Value{bo.X, bo.Y} {
					if c, ok := op.(*ssa.Const); ok && c.Value != nil && isInt(c.Type()) {
						if v, ok := constant.Int64Val(c.Value); ok && v >= 0 && v < 1<<40 {
							set[v] = true
							set[v+1] = true
							if v > 0 {
								set[v-1] = true
							}
						}
					}
				}
			}
		}
	}
	for v := range e.dynThr[fn] {
		set[v] = true
	}
	var out []int64
	for v := range set {
		out = append(out, v)
	}
	sort.Slice(out, func(i, j int) bool { return out[i] < out[j] })
	if e.thrCache == nil {
		e.thrCache = map[*ssa.Function][]int64{}
	}
	e.thrCache[fn] = out
	return out
}

func (e *Engine) noteThreshold(fn *ssa.Function, v int64) {
	if fn == nil {
		return
	}
	if e.dynThr == nil {
		e.dynThr = map[*ssa.Function]map[int64]bool{}
	}
	m := e.dynThr[fn]
	if m == nil {
		m = map[int64]bool{}
		e.dynThr[fn] = m
	}
	if !m[v] {
		m[v] = true
		if v > 0 {
			m[v-1] = true
		}
		m[v+1] = true
		delete(e.thrCache, fn)
	}
}

func (e *Engine) fixpoint(fr *frame) {
	fn := fr.fn
	dirty := map[int]bool{0: true}
	for iter := 0; len(dirty) > 0 && iter < 200; iter++ {
		if e.Steps > e.MaxSteps {
			e.Exceeded = true
			return
		}
		progressed := false
		for _, b := range fr.rpo {
			if !dirty[b.Index] {
				continue
			}
			delete(dirty, b.Index)
			if b.Index != 0 {
				newIn := e.entryState(fr, b)
				if newIn == nil {
					continue
				}
				old := fr.in[b.Index]
				_, isLoop := fr.loops[b.Index]
				if isLoop && old != nil {
					fr.visits[b.Index]++
					if fr.visits[b.Index] > widenDelay {
						e.noThresholds = fr.visits[b.Index] > widenDelay+8
						e.extraThresholds = e.fnThresholds(fn)
						newIn = Join(old, newIn, e.liveAt(b), true)
						e.noThresholds = false
						e.extraThresholds = nil
					}
				}
				if old != nil && newIn.SameAs(old) {
					continue
				}
				fr.in[b.Index] = newIn
				if e.Trace != nil && isLoop {
					e.trace("%s loop head b%d visit %d: %s", shortFn(fn), b.Index, fr.visits[b.Index], newIn.String())
				}
			}
			progressed = true
			e.runBlock(fr, b, false)
			for _, s := range b.Succs {
				dirty[s.Index] = true
			}
		}
		if !progressed {
			break
		}
	}
}

// snapAtom: ghost atom holding the value of memory cell a at the entry of the current iteration of loop h.
func (e *Engine) snapAtom(fr *frame, h int, a Atom) Atom {
	key := fmt.Sprintf("%p/%d/%d", fr.fn, h, a)
	if s, ok := e.snapAtoms[key]; ok {
		return s
	}
	s := e.newAtom(fmt.Sprintf("snap%d(%s)", h, e.atomName(a)), e.atoms[a].rng)
	e.snapAtoms[key] = s
	return s
}

// liveAt: atoms that can still matter at block b: values whose definition
// dominates b, phis of b, parameters, memory cells, atoms of enclosing frames.
func (e *Engine) liveAt(b *ssa.BasicBlock) func(Atom) bool {
	fn := b.Parent()
	cache := map[Atom]bool{}
	rev := e.atomOwner()
	return func(a Atom) bool {
		if v, ok := cache[a]; ok {
			return v
		}
		res := true
		if val, ok := rev[a]; ok {
			if in, ok := val.(ssa.Instruction); ok && in.Parent() == fn {
				db := in.Block()
				res = db == b && isPhi(in) || db != b && db.Dominates(b)
			}
		}
		cache[a] = res
		return res
	}
}

func isPhi(in ssa.Instruction) bool { _, ok := in.(*ssa.Phi); return ok }

func (e *Engine) atomOwner() map[Atom]ssa.Value {
	if e.ownerCache != nil && e.ownerCacheLen == len(e.valAtom)+len(e.lenAtoms) {
		return e.ownerCache
	}
	m := make(map[Atom]ssa.Value, len(e.valAtom)+len(e.lenAtoms))
	for v, a := range e.valAtom {
		m[a] = v
	}
	for v, a := range e.lenAtoms {
		m[a] = v
	}
	e.ownerCache, e.ownerCacheLen = m, len(e.valAtom)+len(e.lenAtoms)
	return m
}

// entryState joins the states of the executable incoming edges of b after the
// phi assignments of each edge.
func (e *Engine) entryState(fr *frame, b *ssa.BasicBlock) *State {
	var acc *State
	live := e.liveAt(b)
	for idx, p := range b.Preds {
		es := fr.edges[edgeKey{p.Index, b.Index}]
		if es == nil || es.dead {
			continue
		}
		s := es.Clone()
		e.assignPhis(fr, s, b, idx)
		if acc == nil {
			acc = s
		} else {
			if e.Trace != nil && e.TraceFn != "" && strings.Contains(shortFn(fr.fn), e.TraceFn) {
				e.TraceJoin = true
				e.trace("JOIN at %s b%d\n   A: %s\n   B: %s", shortFn(fr.fn), b.Index, acc.String(), s.String())
			}
			acc = Join(acc, s, live, false)
			e.TraceJoin = false
		}
	}
	if acc != nil {
		acc.Canonicalize()
	}
	return acc
}

func (e *Engine) assignPhis(fr *frame, s *State, b *ssa.BasicBlock, predIdx int) {
	var targets []Atom
	var vals []Lin
	type fact struct {
		key            string
		nonnil, isnil  bool
		ptr            Address
		hasPtr, elemNN bool
		corr           *Corr
	}
	var facts []fact
	for _, in := range b.Instrs {
		phi, ok := in.(*ssa.Phi)
		if !ok {
			break
		}
		src := phi.Edges[predIdx]
		switch {
		case isInt(phi.Type()) || isBool(phi.Type()):
			targets = append(targets, e.atomOf(phi))
			vals = append(vals, e.expr(s, src))
		case isSliceLike(phi.Type()):
			targets = append(targets, e.lenAtomOf(phi))
			vals = append(vals, e.lenExpr(s, src))
			facts = append(facts, fact{key: e.vid(phi), elemNN: e.elemsNonNil(s, src), nonnil: false})
			facts = append(facts, fact{key: "D" + e.vid(phi), elemNN: e.elemsDeepNN(s, src)})
		default:
			f := fact{key: e.vid(phi)}
			f.nonnil = e.isNonNil(s, src)
			f.isnil = e.isNil(s, src)
			if a, ok := e.addrOf(s, src); ok {
				f.ptr, f.hasPtr = a, true
			}
			facts = append(facts, f)
			facts = append(facts, fact{key: "D" + e.vid(phi), nonnil: e.isDeepNN(s, src)})
		}
	}
	if len(targets) > 0 || len(facts) > 0 {
		// registers are re-assigned here: memo keys that mention them (index registers, base pointers) go stale
		s.loadMemo = nil
	}
	s.AssignParallel(targets, vals)
	for _, f := range facts {
		delete(s.nonnil, f.key)
		delete(s.isnil, f.key)
		delete(s.ptr, f.key)
		delete(s.elemsNN, f.key)
		delete(s.corr, f.key)
		if f.nonnil {
			s.nonnil[f.key] = true
		}
		if f.isnil {
			s.isnil[f.key] = true
		}
		if f.hasPtr {
			s.ptr[f.key] = f.ptr
		}
		if f.elemNN {
			s.elemsNN[f.key] = true
		}
	}
}

func isBool(t types.Type) bool {
	b, ok := t.Underlying().(*types.Basic)
	return ok && b.Info()&types.IsBoolean != 0
}

// runBlock executes the instructions of b from its entry state and records the
// edge states of its successors.
func (e *Engine) runBlock(fr *frame, b *ssa.BasicBlock, final bool) {
	st := fr.in[b.Index].Clone()
	fr.cur = b
	if _, isLoop := fr.loops[b.Index]; isLoop {
		lk := fmt.Sprintf("%p/%d", fr.fn, b.Index)
		if _, ok := st.loopEnter[lk]; !ok {
			st.loopEnter[lk] = e.nextVer()
		}
		if final && fr.check {
			// ghost snapshots of the memory cells at the loop head: termination
			// variants over memory compare them with the values on the back edges
			var cells []Atom
			for _, a := range e.cellAtom {
				if e.isCell[a] && mentionsAtom(st, a) {
					cells = append(cells, a)
				}
			}
			sort.Slice(cells, func(i, j int) bool { return cells[i] < cells[j] })
			fr.snap[b.Index] = cells
			for _, a := range cells {
				sa := e.snapAtom(fr, b.Index, a)
				st.Forget(sa)
				if v := st.Expr(a); !v.Bad {
					st.def[sa] = v
				}
			}
		}
	}
	saveCheck := fr.check
	if !final {
		fr.check = false
	}
	defer func() { fr.check = saveCheck }()
	var corrCall *ssa.Call
	for _, in := range b.Instrs {
		e.Steps++
		if st.dead {
			break
		}
		switch in := in.(type) {
		case *ssa.Phi:
			continue
		case *ssa.If:
			e.branch(fr, st, b, in, corrCall)
			return
		case *ssa.Jump:
			fr.edges[edgeKey{b.Index, b.Succs[0].Index}] = st
			return
		case *ssa.Return:
			if final {
				// keep the error/state correlation of a callee result that is returned as is
				if n := len(in.Results); n > 0 && corrCall != nil && isErrorType(in.Results[n-1].Type()) {
					if c := st.corr[e.vid(in.Results[n-1])]; c != nil && c.WhenNil != nil && c.WhenNonNil != nil {
						wn, we := c.WhenNil.Clone(), c.WhenNonNil.Clone()
						for _, i2 := range b.Instrs {
							if ex, ok := i2.(*ssa.Extract); ok && ex.Tuple == ssa.Value(corrCall) {
								e.exec(fr, wn, ex)
								e.exec(fr, we, ex)
							}
						}
						k := e.vid(in.Results[n-1])
						wn.isnil[k] = true
						delete(wn.nonnil, k)
						we.nonnil[k] = true
						delete(we.isnil, k)
						if fr.check && e.ErrDiscipline {
							e.checkErrDiscipline(fr, wn, in)
						}
						fr.rets = append(fr.rets, retInfo{wn, in}, retInfo{we, in})
						return
					}
				}
				if fr.check && e.ErrDiscipline {
					e.checkErrDiscipline(fr, st, in)
				}
				fr.rets = append(fr.rets, retInfo{st, in})
			}
			return
		case *ssa.Panic:
			if final {
				fr.panics = true
				e.oblige(fr, "B-PANIC", in, "explicit-panic", false, "an explicit panic is reachable")
			}
			return
		case *ssa.Call:
			fr.recCut = false
			// len/cap/append cannot write into an existing object of another type: the load memo survives them
			keepMemo := false
			if b, ok := in.Common().Value.(*ssa.Builtin); ok && (b.Name() == "len" || b.Name() == "cap" || b.Name() == "append") {
				keepMemo = true
			}
			memo := st.loadMemo
			st.loadMemo = nil
			ns := e.call(fr, st, in)
			if ns != nil {
				ns.loadMemo = nil
				if keepMemo {
					ns.loadMemo = memo
				}
			}
			if fr.recCut {
				if fr.recBlocks == nil {
					fr.recBlocks = map[int]bool{}
				}
				fr.recBlocks[b.Index] = true
			}
			if ns == nil {
				// callee never returns normally on this state
				for _, s := range b.Succs {
					delete(fr.edges, edgeKey{b.Index, s.Index})
				}
				return
			}
			st = ns
			corrCall = in
			continue
		case *ssa.Extract:
			e.exec(fr, st, in)
			if c, ok := in.Tuple.(*ssa.Call); !ok || c != corrCall {
				corrCall = nil
			}
			continue
		case *ssa.BinOp:
			e.exec(fr, st, in)
			if in.Op != token.EQL && in.Op != token.NEQ {
				corrCall = nil
			}
			continue
		}
		e.exec(fr, st, in)
		corrCall = nil
	}
	// block without terminator (should not happen)
	for _, s := range b.Succs {
		fr.edges[edgeKey{b.Index, s.Index}] = st
	}
}

// branch computes the two edge states of an If.
func (e *Engine) branch(fr *frame, st *State, b *ssa.BasicBlock, in *ssa.If, corrCall *ssa.Call) {
	t, f := st, st.Clone()
	// error/state correlation from an evaluated callee
	if bo, ok := in.Cond.(*ssa.BinOp); ok && corrCall != nil && (bo.Op == token.EQL || bo.Op == token.NEQ) {
		var x ssa.Value
		if isNilConst(bo.Y) {
			x = bo.X
		} else if isNilConst(bo.X) {
			x = bo.Y
		}
		if x != nil {
			if c := st.corr[e.vid(x)]; c != nil && c.WhenNil != nil && c.WhenNonNil != nil {
				wn, we := c.WhenNil.Clone(), c.WhenNonNil.Clone()
				// replay the extracts of the call executed after the snapshot
				for _, i2 := range b.Instrs {
					if ex, ok := i2.(*ssa.Extract); ok && ex.Tuple == ssa.Value(corrCall) {
						e.exec(fr, wn, ex)
						e.exec(fr, we, ex)
					}
				}
				if bo.Op == token.EQL {
					t, f = wn, we
				} else {
					t, f = we, wn
				}
			}
		}
	}
	e.assumeCond(t, in.Cond, true)
	e.assumeCond(f, in.Cond, false)
	if !t.dead {
		t.Feasible()
	}
	if !f.dead {
		f.Feasible()
	}
	set := func(to *ssa.BasicBlock, s *State) {
		k := edgeKey{b.Index, to.Index}
		if s.dead {
			delete(fr.edges, k)
			return
		}
		// both successors the same block: join
		if prev, ok := fr.edges[k]; ok && b.Succs[0] == b.Succs[1] && prev != nil && to == b.Succs[1] && s != prev {
			fr.edges[k] = Join(prev, s, nil, false)
			return
		}
		fr.edges[k] = s
	}
	if b.Succs[0] == b.Succs[1] {
		delete(fr.edges, edgeKey{b.Index, b.Succs[0].Index})
	}
	set(b.Succs[0], t)
	set(b.Succs[1], f)
}

func isNilConst(v ssa.Value) bool {
	c, ok := v.(*ssa.Const)
	return ok && c.Value == nil && !isInt(c.Type()) && !isBool(c.Type())
}

// assumeCond refines st with cond == outcome.
func (e *Engine) assumeCond(st *State, cond ssa.Value, outcome bool) {
	if st.dead {
		return
	}
	switch c := cond.(type) {
	case *ssa.Const:
		if e.expr(st, c).C != 0 != outcome {
			st.dead = true
		}
		return
	case *ssa.UnOp:
		if c.Op == token.NOT {
			e.assumeCond(st, c.X, !outcome)
			return
		}
	case *ssa.BinOp:
		if isFloat(c.X.Type()) {
			e.assumeFloatCond(st, c, outcome)
			return
		}
		if isInt(c.X.Type()) || isBool(c.X.Type()) {
			x, y := e.expr(st, c.X), e.expr(st, c.Y)
			op := c.Op
			if !outcome {
				op = negateOp(op)
			}
			// comparison against a value that is constant in this state: remember it as a widening threshold
			for _, v := range []Lin{st.Subst(x), st.Subst(y)} {
				if v.IsConst() && v.C >= 0 && v.C < 1<<40 {
					e.noteThreshold(c.Parent(), v.C)
				}
			}
			switch op {
			case token.LSS: // x < y
				st.Assume(y.Sub(x).AddConst(-1))
			case token.LEQ:
				st.Assume(y.Sub(x))
			case token.GTR:
				st.Assume(x.Sub(y).AddConst(-1))
			case token.GEQ:
				st.Assume(x.Sub(y))
			case token.EQL:
				st.AssumeEq(x.Sub(y))
				e.congFromRem(st, c, true)
				e.bitClearRefine(st, c)
			case token.NEQ:
				// x != y: usable only at interval ends
				e.assumeNeq(st, x.Sub(y))
				e.bitTestRefine(st, c)
				e.shrinkRefine(st, c)
			}
			if op == token.GTR {
				e.shrinkRefine(st, c)
			}
			return
		}
		// string compared with the empty string: a fact about its length
		if (c.Op == token.EQL || c.Op == token.NEQ) && isSliceLike(c.X.Type()) {
			var sv ssa.Value
			if k, ok := c.Y.(*ssa.Const); ok && k.Value != nil && k.Value.Kind() == constant.String && constant.StringVal(k.Value) == "" {
				sv = c.X
			} else if k, ok := c.X.(*ssa.Const); ok && k.Value != nil && k.Value.Kind() == constant.String && constant.StringVal(k.Value) == "" {
				sv = c.Y
			}
			if sv != nil {
				l := e.lenExpr(st, sv)
				if (c.Op == token.EQL) == outcome {
					st.AssumeEq(l)
				} else {
					st.Assume(l.AddConst(-1))
				}
				return
			}
		}
		// pointer / interface comparisons with nil
		if c.Op == token.EQL || c.Op == token.NEQ {
			var x ssa.Value
			if isNilConst(c.Y) {
				x = c.X
			} else if isNilConst(c.X) {
				x = c.Y
			}
			if x != nil && !isSliceLike(x.Type()) {
				eq := (c.Op == token.EQL) == outcome
				k := e.vid(x)
				if eq {
					if e.isNonNil(st, x) {
						st.dead = true
					}
					st.isnil[k] = true
					delete(st.nonnil, k)
				} else {
					if e.isNil(st, x) {
						st.dead = true
					}
					st.nonnil[k] = true
					delete(st.isnil, k)
				}
			}
		}
		return
	}
	// bool-typed SSA value used directly as condition (phi of bools, loaded flag)
	if isBool(cond.Type()) {
		x := e.expr(st, cond)
		if outcome {
			st.AssumeEq(x.AddConst(-1))
		} else {
			st.AssumeEq(x)
		}
	}
}

func negateOp(op token.Token) token.Token {
	switch op {
	case token.LSS:
		return token.GEQ
	case token.LEQ:
		return token.GTR
	case token.GTR:
		return token.LEQ
	case token.GEQ:
		return token.LSS
	case token.EQL:
		return token.NEQ
	case token.NEQ:
		return token.EQL
	}
	return op
}

// assumeNeq: d != 0. If d >= 0 is known then d >= 1; if d <= 0 then d <= -1.
func (e *Engine) assumeNeq(st *State, d Lin) {
	if d.Bad {
		return
	}
	if st.Entails(d) {
		st.Assume(d.AddConst(-1))
	} else if st.Entails(d.Neg()) {
		st.Assume(d.Neg().AddConst(-1))
	}
}

// congFromRem: (x % c) == k on the equal side gives x ≡ k (mod c); also x&(2^n-1).
func (e *Engine) congFromRem(st *State, cmp *ssa.BinOp, equal bool) {
	if !equal {
		return
	}
	rem, ok := cmp.X.(*ssa.BinOp)
	kc, ok2 := cmp.Y.(*ssa.Const)
	if !ok || !ok2 {
		return
	}
	mc, ok := rem.Y.(*ssa.Const)
	if !ok {
		return
	}
	m := e.expr(st, mc).C
	k := e.expr(st, kc).C
	switch rem.Op {
	case token.REM:
	case token.AND:
		m = m + 1
		if m&(m-1) != 0 {
			return
		}
	default:
		return
	}
	if m <= 1 {
		return
	}
	x := st.Subst(e.expr(st, rem.X))
	// the modulus must divide the wrap modulus of the type (powers of two) or the value must not wrap; we only
	// use it for unsigned/int values that are non-negative
	if !st.Entails(x) {
		return
	}
	if len(x.T) == 1 && (x.T[0].K == 1 || x.T[0].K == -1) {
		r := modpos(x.T[0].K*(k-x.C), m)
		st.addCong(x.T[0].A, Cong{m, r})
	}
}

// shrinkRefine: the loop condition `b != 0` (or `b > 0`) on an unsigned w-bit header phi b whose every back
// edge carries b >> c (c >= 1 constant) holds in iteration k (counted from 0) only if k*c < w. A header phi
// of the same loop that starts at the constant a and is advanced by exactly 1 on every back edge equals a + k,
// so inside the body it is at most a + (w-1)/c.
func (e *Engine) shrinkRefine(st *State, cmp *ssa.BinOp) {
	phi, ok := cmp.X.(*ssa.Phi)
	if !ok || !isConstZero(cmp.Y) {
		return
	}
	h := phi.Block()
	if cmp.Block() != h {
		return
	}
	tr := typeRange(phi.Type())
	if !tr.HasHi || !tr.HasLo || tr.Lo != 0 {
		return
	}
	w := int64(0)
	for x := tr.Hi + 1; x > 1; x >>= 1 {
		w++
	}
	minShift := int64(0)
	nBack := 0
	for i, p := range h.Preds {
		if !h.Dominates(p) {
			continue
		}
		nBack++
		sh, ok := phi.Edges[i].(*ssa.BinOp)
		if !ok || sh.Op != token.SHR || sh.X != ssa.Value(phi) {
			return
		}
		k, ok := sh.Y.(*ssa.Const)
		if !ok || k.Value == nil {
			return
		}
		c := k.Int64()
		if c < 1 {
			return
		}
		if minShift == 0 || c < minShift {
			minShift = c
		}
	}
	if nBack == 0 || minShift == 0 {
		return
	}
	maxIter := (w - 1) / minShift
	for _, in := range h.Instrs {
		q, ok := in.(*ssa.Phi)
		if !ok {
			break
		}
		if q == phi || !isInt(q.Type()) {
			continue
		}
		init, okc := int64(0), true
		for i, p := range h.Preds {
			if h.Dominates(p) {
				add, ok := q.Edges[i].(*ssa.BinOp)
				if !ok || add.Op != token.ADD || add.X != ssa.Value(q) || !isConstVal(add.Y, 1) {
					okc = false
				}
			} else {
				k, ok := q.Edges[i].(*ssa.Const)
				if !ok || k.Value == nil {
					okc = false
				} else {
					init = k.Int64()
				}
			}
		}
		if okc {
			st.Assume(Const(init + maxIter).Sub(Var(e.atomOf(q))))
		}
	}
}

func isConstZero(v ssa.Value) bool { return isConstVal(v, 0) }

func isConstVal(v ssa.Value, want int64) bool {
	k, ok := v.(*ssa.Const)
	if !ok || k.Value == nil || k.Value.Kind() != constant.Int {
		return false
	}
	x, exact := constant.Int64Val(k.Value)
	return exact && x == want
}

// bitClearRefine: (x & 2^k) == 0 together with 0 <= x < 2^(k+1) gives x < 2^k.
func (e *Engine) bitClearRefine(st *State, cmp *ssa.BinOp) {
	and, ok := cmp.X.(*ssa.BinOp)
	zero, ok2 := cmp.Y.(*ssa.Const)
	if !ok || !ok2 || and.Op != token.AND || e.expr(st, zero).C != 0 {
		return
	}
	mc, ok := and.Y.(*ssa.Const)
	x := and.X
	if !ok {
		mc, ok = and.X.(*ssa.Const)
		x = and.Y
		if !ok {
			return
		}
	}
	m := e.expr(st, mc).C
	if m <= 0 || m&(m-1) != 0 {
		return
	}
	xe := e.expr(st, x)
	if st.Entails(xe) && st.Entails(Const(2*m-1).Sub(xe)) {
		st.Assume(Const(m - 1).Sub(xe))
	}
}

// bitTestRefine: (x & 2^k) != 0 with x < 2^(k+1) gives x >= 2^k; the == 0 side is handled in assumeCond via EQL.
func (e *Engine) bitTestRefine(st *State, cmp *ssa.BinOp) {
	// (x & (c << i)) != 0 with a non-zero constant c implies that c << i is not zero in its
	// type: the shift count is below the width
	and, ok := cmp.X.(*ssa.BinOp)
	zero, ok2 := cmp.Y.(*ssa.Const)
	if !ok || !ok2 || and.Op != token.AND || e.expr(st, zero).C != 0 {
		return
	}
	for _, o := range []ssa.Value{and.X, and.Y} {
		sh, ok := o.(*ssa.BinOp)
		if !ok || sh.Op != token.SHL {
			continue
		}
		if _, isConst := sh.X.(*ssa.Const); !isConst {
			continue
		}
		r := typeRange(sh.Type())
		if !r.HasHi {
			continue
		}
		w := int64(0)
		for x := r.Hi - r.Lo + 1; x > 1; x >>= 1 {
			w++
		}
		i := e.expr(st, sh.Y)
		if !i.Bad && st.Entails(i) {
			st.Assume(Const(w - 1).Sub(i))
		}
	}
}

func (e *Engine) trace(format string, a ...any) {
	if e.Trace != nil {
		e.Trace(fmt.Sprintf(format, a...))
	}
}

// checkLoops emits the termination obligations of the frame's loops.
func (e *Engine) checkLoops(fr *frame) {
	var hdrs []int
	for h := range fr.loops {
		hdrs = append(hdrs, h)
	}
	sort.Ints(hdrs)
	for _, h := range hdrs {
		l := fr.loops[h]
		if fr.in[h] == nil || fr.in[h].dead {
			continue
		}
		ok, why := e.loopTerminates(fr, l)
		in := l.header.Instrs[len(l.header.Instrs)-1]
		aok, awhy := e.loopAllocation(fr, l)
		rec := false
		for bi := range l.blocks {
			if fr.recBlocks[bi] {
				rec = true
			}
		}
		if rec && (!ok || !aok) {
			// progress of this loop depends on a recursive call that the engine
			// summarises conservatively: it is decided by the type-shape rule T-REC
			// of the property code (never waived here)
			e.oblige(fr, "T-REC", in, "loop-over-recursion", false, "loop whose progress depends on a recursive call: "+why+"; "+awhy)
		} else {
			e.oblige(fr, "T-LOOP", in, "variant", ok, why)
			e.oblige(fr, "M-ALLOC", in, "loop", aok, awhy)
		}
		if e.OnLoop != nil {
			e.OnLoop(e, fr, l)
		}
	}
}

// loopTerminates looks for a variant: a header phi (integer, or length of a
// slice phi) or a memory cell that every executable back edge strictly
// increases (resp. decreases) and that is bounded above (resp. below) on the
// back edge by a loop-invariant expression or constant.
func (e *Engine) loopTerminates(fr *frame, l *loopInfo) (bool, string) {
	h := l.header
	_ = fr.in[h.Index]
	type cand struct {
		name string
		atom Atom
		next func(s *State, predIdx int) Lin
	}
	var cands []cand
	for _, in := range h.Instrs {
		phi, ok := in.(*ssa.Phi)
		if !ok {
			break
		}
		switch {
		case isInt(phi.Type()):
			cands = append(cands, cand{phi.Name(), e.atomOf(phi), func(s *State, i int) Lin { return e.expr(s, phi.Edges[i]) }})
		case isSliceLike(phi.Type()):
			cands = append(cands, cand{"len(" + phi.Name() + ")", e.lenAtomOf(phi), func(s *State, i int) Lin { return e.lenExpr(s, phi.Edges[i]) }})
		}
	}
	// memory cells written in the loop: compare with their snapshot taken at the loop head
	for _, a := range fr.snap[h.Index] {
		a := a
		sa := e.snapAtom(fr, h.Index, a)
		cands = append(cands, cand{e.atomName(a), sa, func(s *State, i int) Lin { return s.Expr(a) }})
	}
	sort.SliceStable(cands, func(i, j int) bool { return cands[i].atom < cands[j].atom })
	var tried []string
	for _, c := range cands {
		for _, dir := range []int64{1, -1} {
			okAll, any := true, false
			for idx, p := range h.Preds {
				if !h.Dominates(p) {
					continue
				}
				es := fr.edges[edgeKey{p.Index, h.Index}]
				if es == nil || es.dead {
					continue
				}
				any = true
				// on the back edge, before the phi assignment, the atom still holds the value at loop entry of this iteration
				cur := es.Expr(c.atom)
				nxt := c.next(es, idx)
				if e.Trace != nil {
					e.trace("T-LOOP %s b%d cand %s dir %d: cur=%s next=%s", shortFn(fr.fn), h.Index, c.name, dir, e.linStr(cur), e.linStr(es.Subst(nxt)))
				}
				// strict progress
				if !es.Entails(nxt.Sub(cur).Scale(dir).AddConst(-1)) {
					okAll = false
					break
				}
				// bounded: the current value (dir=+1: from above) by something loop-invariant
				if !e.boundedOnEdge(fr, l, es, cur, dir) {
					okAll = false
					break
				}
			}
			if any && okAll {
				d := "increases"
				if dir < 0 {
					d = "decreases"
				}
				return true, fmt.Sprintf("variant %s strictly %s on every back edge and is bounded", c.name, d)
			}
		}
		tried = append(tried, c.name)
	}
	if ok, why := e.floatGeometric(fr, l); ok {
		return true, why
	}
	return false, "no strictly monotone bounded variant found among {" + strings.Join(tried, ",") + "}"
}

// floatGeometric recognises `for x >= C { x /= c }` on a floating-point variable: the header continues
// exactly while a float phi compares >= (or >) a positive constant C, every back edge carries phi / c with
// a constant c >= 2, and the value entering the loop has a finite upper bound K unless it is a NaN (a NaN
// fails the comparison at once). The loop then runs at most log_c(K/C) + 1 times.
func (e *Engine) floatGeometric(fr *frame, l *loopInfo) (bool, string) {
	h := l.header
	iff, ok := h.Instrs[len(h.Instrs)-1].(*ssa.If)
	if !ok || !l.blocks[h.Succs[0].Index] || l.blocks[h.Succs[1].Index] {
		return false, e.dbg("FG1", fr.fn.Name())
	}
	cmp, ok := iff.Cond.(*ssa.BinOp)
	if !ok || (cmp.Op != token.GEQ && cmp.Op != token.GTR) {
		return false, e.dbg("FG2", fr.fn.Name())
	}
	phi, ok := cmp.X.(*ssa.Phi)
	k, ok2 := cmp.Y.(*ssa.Const)
	if !ok || !ok2 || phi.Block() != h || k.Value == nil {
		return false, e.dbg("FG3", fr.fn.Name())
	}
	if b, isB := phi.Type().Underlying().(*types.Basic); !isB || b.Info()&types.IsFloat == 0 {
		return false, e.dbg("FG4", fr.fn.Name())
	}
	cv, _ := constant.Float64Val(constant.ToFloat(k.Value))
	if !(cv > 0) {
		return false, e.dbg("FG5", fr.fn.Name())
	}
	var bound *FBound
	div := 0.0
	for i, p := range h.Preds {
		if h.Dominates(p) {
			q, ok := phi.Edges[i].(*ssa.BinOp)
			if !ok || (q.Op != token.QUO && q.Op != token.MUL) {
				return false, ""
			}
			other := q.Y
			if q.X != ssa.Value(phi) {
				if q.Op != token.MUL || q.Y != ssa.Value(phi) {
					return false, ""
				}
				other = q.X
			}
			c, ok := other.(*ssa.Const)
			if !ok || c.Value == nil {
				return false, ""
			}
			d, _ := constant.Float64Val(constant.ToFloat(c.Value))
			if q.Op == token.MUL {
				if !(d > 0 && d <= 0.5) {
					return false, ""
				}
				d = 1 / d
			}
			if !(d >= 2) {
				return false, ""
			}
			if div == 0 || d < div {
				div = d
			}
			continue
		}
		es := fr.edges[edgeKey{p.Index, h.Index}]
		if es == nil || es.dead {
			continue
		}
		b, has := e.floatUB(fr, phi.Edges[i], es, 0)
		if !has {
			return false, e.dbg("FG9", fr.fn.Name())
		}
		if bound == nil || b.Val > bound.Val {
			bb := b
			bound = &bb
		}
	}
	if bound == nil || div == 0 || math.IsInf(bound.Val, 0) || math.IsNaN(bound.Val) {
		return false, e.dbg("FG10", fr.fn.Name())
	}
	n := 1
	for v := bound.Val; v >= cv && n < 4096; v /= div {
		n++
	}
	return true, fmt.Sprintf("floating-point loop `for x %s %g { x /= %g }`: the value entering the loop is a NaN (the comparison fails at once) or at most %g, so the loop runs at most %d times", cmp.Op, cv, div, bound.Val, n)
}

func mentions(s *State, a Atom) bool {
	if _, ok := s.def[a]; ok {
		return true
	}
	for _, c := range s.ineq {
		if c.Coef(a) != 0 {
			return true
		}
	}
	return false
}

// boundedOnEdge: on the back-edge state es, dir*cur <= U for some U that is a
// constant or built from atoms not modified in the loop.
func (e *Engine) boundedOnEdge(fr *frame, l *loopInfo, es *State, cur Lin, dir int64) bool {
	c := es.Subst(cur).Scale(dir)
	// constant bound via intervals (the artificial 2^50 range of lengths does not count)
	if r := es.Bounds(c); r.HasHi && r.Hi < lenMax/2 {
		return true
	}
	inv := e.loopInvariantAtoms(fr, l)
	// search an inequality  U - c' >= 0 whose other atoms are loop-invariant
	for _, q := range es.ineq {
		// q = -k*(c-atoms) + rest >= 0 ...: test directly: candidates are q's restricted forms
		// Build U = c + q/k when q contains -k*c's leading atom. Simpler: for every q, check entailment of (q_inv - c) pattern:
		// take the atoms of q not in c as bound atoms; require them all invariant.
		okInv := true
		for _, t := range q.T {
			if c.Coef(t.A) == 0 && !inv[t.A] {
				okInv = false
				break
			}
		}
		if !okInv {
			continue
		}
		// q must bound c from above: every atom of c appears in q with opposite sign ratio
		if len(c.T) == 0 {
			return true
		}
		ratio := int64(0)
		match := true
		for _, t := range c.T {
			k := q.Coef(t.A)
			if k == 0 || (k > 0) == (t.K > 0) {
				match = false
				break
			}
			r := -k / t.K
			if -k%t.K != 0 || r <= 0 || (ratio != 0 && r != ratio) {
				match = false
				break
			}
			ratio = r
		}
		if match {
			return true
		}
	}
	return false
}

func (e *Engine) loopInvariantAtoms(fr *frame, l *loopInfo) map[Atom]bool {
	inv := map[Atom]bool{}
	owner := e.atomOwner()
	for a := range e.atoms {
		at := Atom(a)
		if v, ok := owner[at]; ok {
			if in, ok := v.(ssa.Instruction); ok && in.Parent() == fr.fn && l.blocks[in.Block().Index] {
				continue
			}
			inv[at] = true
			continue
		}
		// cells and temps: invariant if identical at head and on every back edge
		inv[at] = true
		head := fr.in[l.header.Index]
		for _, p := range l.header.Preds {
			if !l.header.Dominates(p) {
				continue
			}
			if es := fr.edges[edgeKey{p.Index, l.header.Index}]; es != nil && !es.dead {
				if !es.Expr(at).Equal(head.Expr(at)) {
					inv[at] = false
				}
			}
		}
	}
	return inv
}

// loopAllocation (M-ALLOC M2/M3): on every back edge the number of elements
// allocated during the iteration (ghost counter minus its snapshot at the loop
// head) is bounded by a constant <= 64, or amortised: <= k*(c' - c) + 64 for a
// cursor c (header phi or memory cell) that never decreases and is bounded
// above by 2^16+64 or 4*len(input)+64; and a loop that allocates has a trip
// count bounded the same way (its variant has such a bound).
func (e *Engine) loopAllocation(fr *frame, l *loopInfo) (bool, string) {
	if !e.loopMayAllocate(fr, l) {
		return true, "no allocation site in the loop (transitively)"
	}
	if e.tripBounded(fr, l, nil) {
		return true, "loop may allocate; its trip count is bounded by 2^16+64 or by 4*len(input)+64"
	}
	return false, "the loop may allocate on every iteration but no bound on its trip count by 2^16 or by the input length was found"
}

// loopMayAllocate: some block of the loop contains make/new(heap)/append/string
// conversion, or calls a function that may (transitively, by the call graph).
func (e *Engine) loopMayAllocate(fr *frame, l *loopInfo) bool {
	for _, b := range fr.fn.Blocks {
		if !l.blocks[b.Index] {
			continue
		}
		if e.blockMayAllocate(b, map[*ssa.Function]bool{}) {
			return true
		}
	}
	return false
}

func (e *Engine) blockMayAllocate(b *ssa.BasicBlock, seen map[*ssa.Function]bool) bool {
	for _, in := range b.Instrs {
		switch x := in.(type) {
		case *ssa.MakeSlice, *ssa.MakeMap, *ssa.MakeChan, *ssa.MakeClosure:
			return true
		case *ssa.Alloc:
			if x.Heap {
				return true
			}
		case *ssa.Convert:
			if isSliceLike(x.Type()) && isSliceLike(x.X.Type()) && !onlyUsedByLen(x) {
				return true
			}
		case *ssa.Call:
			c := x.Common()
			if bi, ok := c.Value.(*ssa.Builtin); ok {
				if bi.Name() == "append" {
					return true
				}
				continue
			}
			var fs []*ssa.Function
			if f, ok := c.Value.(*ssa.Function); ok && !c.IsInvoke() {
				fs = []*ssa.Function{f}
			} else {
				fs = e.callees[x]
			}
			for _, f := range fs {
				if e.fnMayAllocate(f, seen) {
					return true
				}
			}
		}
	}
	return false
}

func (e *Engine) fnMayAllocate(f *ssa.Function, seen map[*ssa.Function]bool) bool {
	if seen[f] {
		return false
	}
	seen[f] = true
	if !e.inPkg(f) || len(f.Blocks) == 0 {
		// external: error constructors and formatting allocate a bounded amount; reflect.New/Append allocate
		n := f.String()
		return n == "reflect.New" || n == "reflect.Append" || n == "reflect.NewAt"
	}
	for _, b := range f.Blocks {
		if e.blockMayAllocate(b, seen) {
			return true
		}
	}
	return false
}

// boundedAbove: v <= 2^16+64 or v <= 4*len(P)+64 for a slice parameter P of some active frame.
func (e *Engine) boundedAbove(st *State, v Lin) bool {
	if st.Entails(Const(1<<16 + 64).Sub(v)) {
		return true
	}
	for val, la := range e.lenAtoms {
		if _, isParam := val.(*ssa.Parameter); !isParam {
			continue
		}
		if st.Entails(Var(la).Scale(4).AddConst(64).Sub(v)) {
			return true
		}
	}
	return false
}

// tripBounded: some header phi / cell strictly increases on every back edge and
// is bounded above (boundedAbove), or strictly decreases, is >= 0 and bounded above.
func (e *Engine) tripBounded(fr *frame, l *loopInfo, _ *State) bool {
	h := l.header
	type cand struct {
		atom Atom
		next func(s *State, predIdx int) Lin
	}
	var cands []cand
	for _, in := range h.Instrs {
		phi, ok := in.(*ssa.Phi)
		if !ok {
			break
		}
		switch {
		case isInt(phi.Type()):
			cands = append(cands, cand{e.atomOf(phi), func(s *State, i int) Lin { return e.expr(s, phi.Edges[i]) }})
		case isSliceLike(phi.Type()):
			cands = append(cands, cand{e.lenAtomOf(phi), func(s *State, i int) Lin { return e.lenExpr(s, phi.Edges[i]) }})
		}
	}
	for _, a := range fr.snap[h.Index] {
		a := a
		cands = append(cands, cand{e.snapAtom(fr, h.Index, a), func(s *State, i int) Lin { return s.Expr(a) }})
	}
	for _, c := range cands {
		for _, dir := range []int64{1, -1} {
			ok, any := true, false
			for idx, p := range h.Preds {
				if !h.Dominates(p) {
					continue
				}
				es := fr.edges[edgeKey{p.Index, h.Index}]
				if es == nil || es.dead {
					continue
				}
				any = true
				cv := es.Expr(c.atom)
				nv := c.next(es, idx)
				if e.Trace != nil {
					e.trace("TRIP %s b%d cand %s dir %d: cur=%s next=%s progress=%v nonneg=%v boundedAbove=%v", shortFn(fr.fn), h.Index, e.atomName(c.atom), dir,
						e.linStr(cv), e.linStr(es.Subst(nv)), es.Entails(nv.Sub(cv).Scale(dir).AddConst(-1)), es.Entails(nv), e.boundedAbove(es, cv))
				}
				if !es.Entails(nv.Sub(cv).Scale(dir).AddConst(-1)) {
					ok = false
					break
				}
				if dir > 0 {
					if !e.boundedAbove(es, cv) || !es.Entails(cv.AddConst(1<<16)) {
						ok = false
						break
					}
				} else {
					if !es.Entails(nv) || !e.boundedAbove(es, cv) {
						ok = false
						break
					}
				}
			}
			if any && ok {
				return true
			}
		}
	}
	return false
}

// errorResultsOf lists the error-typed results of the calls of fn (the call
// value itself, or the Extract of an error-typed tuple component).
func errorResultsOf(fn *ssa.Function) []ssa.Value {
	var out []ssa.Value
	for _, b := range fn.Blocks {
		for _, in := range b.Instrs {
			switch x := in.(type) {
			case *ssa.Call:
				if isErrorType(x.Type()) {
					out = append(out, x)
				}
			case *ssa.Extract:
				if _, ok := x.Tuple.(*ssa.Call); ok && isErrorType(x.Type()) {
					out = append(out, x)
				}
			}
		}
	}
	return out
}

// checkErrDiscipline: at a return of fr.fn whose own error result is nil, every
// error produced by a call of fr.fn must be nil (E-ERR).
func (e *Engine) checkErrDiscipline(fr *frame, st *State, ret *ssa.Return) {
	n := len(ret.Results)
	if n == 0 || !isErrorType(ret.Results[n-1].Type()) || !e.isNil(st, ret.Results[n-1]) {
		return
	}
	for _, v := range errorResultsOf(fr.fn) {
		in := v.(ssa.Instruction)
		if ex, ok := v.(*ssa.Extract); ok {
			in = ex.Tuple.(*ssa.Call)
		}
		e.oblige(fr, "E-ERR", in, "error-observed", e.isNil(st, v), "the function returns a nil error although the error of this call may be non-nil (dropped error)")
	}
}

func isFloat(t types.Type) bool {
	b, ok := t.Underlying().(*types.Basic)
	return ok && b.Info()&types.IsFloat != 0
}

// assumeFloatCond records an upper bound of a float value compared with a constant.
func (e *Engine) assumeFloatCond(st *State, c *ssa.BinOp, outcome bool) {
	k, ok := c.Y.(*ssa.Const)
	x := c.X
	op := c.Op
	if !ok {
		k, ok = c.X.(*ssa.Const)
		x = c.Y
		// swap sides
		switch op {
		case token.LSS:
			op = token.GTR
		case token.LEQ:
			op = token.GEQ
		case token.GTR:
			op = token.LSS
		case token.GEQ:
			op = token.LEQ
		}
		if !ok {
			return
		}
	}
	if k.Value == nil {
		return
	}
	kv, _ := constant.Float64Val(constant.ToFloat(k.Value))
	if !outcome {
		op = negateOp(op)
	}
	var b FBound
	switch op {
	case token.LSS:
		b = FBound{kv, true}
	case token.LEQ:
		b = FBound{kv, false}
	default:
		return
	}
	// note: a NaN fails every ordered comparison; `!(x >= K)` therefore does not imply x < K for a NaN.
	// The bound is recorded for non-NaN values; conversions of NaN to integers are outside the model.
	if st.fub == nil {
		st.fub = map[string]FBound{}
	}
	id := e.vid(x)
	if old, ok := st.fub[id]; !ok || b.Val < old.Val || b.Val == old.Val && b.Strict {
		st.fub[id] = b
	}
}

// floatUB: an upper bound of the floating-point value v in state st that holds unless v is a NaN: a constant,
// a bound recorded from a dominating comparison, or the largest bound over the edges of a merge phi.
func (e *Engine) floatUB(fr *frame, v ssa.Value, st *State, depth int) (FBound, bool) {
	if depth > 4 {
		return FBound{}, false
	}
	if c, isC := v.(*ssa.Const); isC && c.Value != nil {
		f, _ := constant.Float64Val(constant.ToFloat(c.Value))
		return FBound{f, false}, true
	}
	if fb, ok := st.fub[e.vid(v)]; ok {
		return fb, true
	}
	if phi, isPhi := v.(*ssa.Phi); isPhi {
		b := phi.Block()
		if _, isHeader := fr.loops[b.Index]; isHeader {
			return FBound{}, false
		}
		var out *FBound
		for i, p := range b.Preds {
			es := fr.edges[edgeKey{p.Index, b.Index}]
			if es == nil || es.dead {
				continue
			}
			fb, ok := e.floatUB(fr, phi.Edges[i], es, depth+1)
			if !ok {
				return FBound{}, false
			}
			if out == nil || fb.Val > out.Val {
				x := fb
				out = &x
			}
		}
		if out != nil {
			return *out, true
		}
	}
	return FBound{}, false
}

func (e *Engine) dbg(tag, fn string) string {
	if os.Getenv("NUMDEBUG") != "" {
		fmt.Fprintln(os.Stderr, "dbg", tag, fn)
	}
	return ""
}
