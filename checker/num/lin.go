// Package num is the numeric abstract interpreter (engine E1 of DESIGN.md):
// linear constraints over SSA atoms (a constraint-based polyhedra domain with
// Fourier–Motzkin entailment, integer and congruence tightening), a small
// abstract memory, context-sensitive evaluation of package-local callees and
// obligation generation for bounds / nil / termination / allocation rules.
package num

import (
	"math/bits"
	"sort"
	"strconv"
)

// Atom identifies a symbolic integer variable.
type Atom int32

type Term struct {
	A Atom
	K int64
}

// Lin is C + sum K_i * A_i, terms sorted by atom, no zero coefficients.
// Bad marks an arithmetic overflow during construction (treated as unknown).
type Lin struct {
	C   int64
	T   []Term
	Bad bool
}

func Const(c int64) Lin     { return Lin{C: c} }
func Var(a Atom) Lin        { return Lin{T: []Term{{a, 1}}} }
func (l Lin) IsConst() bool { return len(l.T) == 0 && !l.Bad }
func (l Lin) Coef(a Atom) int64 {
	for _, t := range l.T {
		if t.A == a {
			return t.K
		}
	}
	return 0
}

func addOv(a, b int64) (int64, bool) {
	s := a + b
	if (a > 0 && b > 0 && s < 0) || (a < 0 && b < 0 && s >= 0) {
		return 0, false
	}
	return s, true
}

func mulOv(a, b int64) (int64, bool) {
	if a == 0 || b == 0 {
		return 0, true
	}
	neg := (a < 0) != (b < 0)
	ua, ub := uint64(a), uint64(b)
	if a < 0 {
		ua = uint64(-a)
	}
	if b < 0 {
		ub = uint64(-b)
	}
	hi, lo := bits.Mul64(ua, ub)
	if hi != 0 || lo > 1<<62 {
		return 0, false
	}
	if neg {
		return -int64(lo), true
	}
	return int64(lo), true
}

// Add returns l + k*m.
func (l Lin) AddMul(m Lin, k int64) Lin {
	if l.Bad || m.Bad {
		return Lin{Bad: true}
	}
	out := Lin{}
	kc, ok := mulOv(m.C, k)
	if !ok {
		return Lin{Bad: true}
	}
	out.C, ok = addOv(l.C, kc)
	if !ok {
		return Lin{Bad: true}
	}
	i, j := 0, 0
	for i < len(l.T) || j < len(m.T) {
		switch {
		case j >= len(m.T) || (i < len(l.T) && l.T[i].A < m.T[j].A):
			out.T = append(out.T, l.T[i])
			i++
		case i >= len(l.T) || m.T[j].A < l.T[i].A:
			kk, ok := mulOv(m.T[j].K, k)
			if !ok {
				return Lin{Bad: true}
			}
			if kk != 0 {
				out.T = append(out.T, Term{m.T[j].A, kk})
			}
			j++
		default:
			kk, ok := mulOv(m.T[j].K, k)
			if !ok {
				return Lin{Bad: true}
			}
			s, ok := addOv(l.T[i].K, kk)
			if !ok {
				return Lin{Bad: true}
			}
			if s != 0 {
				out.T = append(out.T, Term{l.T[i].A, s})
			}
			i++
			j++
		}
	}
	return out
}

func (l Lin) Add(m Lin) Lin        { return l.AddMul(m, 1) }
func (l Lin) Sub(m Lin) Lin        { return l.AddMul(m, -1) }
func (l Lin) Scale(k int64) Lin    { return Lin{}.AddMul(l, k) }
func (l Lin) AddConst(c int64) Lin { return l.Add(Const(c)) }
func (l Lin) Neg() Lin             { return l.Scale(-1) }

func (l Lin) Equal(m Lin) bool {
	if l.Bad || m.Bad || l.C != m.C || len(l.T) != len(m.T) {
		return false
	}
	for i := range l.T {
		if l.T[i] != m.T[i] {
			return false
		}
	}
	return true
}

// Subst replaces atom a by e.
func (l Lin) Subst(a Atom, e Lin) Lin {
	k := l.Coef(a)
	if k == 0 {
		return l
	}
	out := Lin{C: l.C}
	for _, t := range l.T {
		if t.A != a {
			out.T = append(out.T, t)
		}
	}
	return out.AddMul(e, k)
}

func (l Lin) Atoms() []Atom {
	out := make([]Atom, len(l.T))
	for i, t := range l.T {
		out[i] = t.A
	}
	return out
}

func (l Lin) Key() string {
	b := make([]byte, 0, 12*len(l.T))
	for _, t := range l.T {
		b = strconv.AppendInt(b, t.K, 10)
		b = append(b, '*')
		b = strconv.AppendInt(b, int64(t.A), 10)
		b = append(b, ',')
	}
	return string(b)
}

func gcd(a, b int64) int64 {
	if a < 0 {
		a = -a
	}
	if b < 0 {
		b = -b
	}
	for b != 0 {
		a, b = b, a%b
	}
	return a
}

func floorDiv(a, b int64) int64 {
	q := a / b
	if (a%b != 0) && ((a < 0) != (b < 0)) {
		q--
	}
	return q
}

// NormGE normalises the constraint l >= 0 over the integers: divides by the gcd
// of the coefficients and floors the constant.
func (l Lin) NormGE() Lin {
	if l.Bad || len(l.T) == 0 {
		return l
	}
	g := int64(0)
	for _, t := range l.T {
		g = gcd(g, t.K)
	}
	if g <= 1 {
		return l
	}
	out := Lin{C: floorDiv(l.C, g)}
	for _, t := range l.T {
		out.T = append(out.T, Term{t.A, t.K / g})
	}
	return out
}

func sortTerms(t []Term) {
	sort.Slice(t, func(i, j int) bool { return t[i].A < t[j].A })
}

// Hash of the linear part (terms only).
func (l Lin) Hash() uint64 {
	h := uint64(1469598103934665603)
	for _, t := range l.T {
		h ^= uint64(t.A)
		h *= 1099511628211
		h ^= uint64(t.K)
		h *= 1099511628211
	}
	return h
}

// SameTerms reports whether the linear parts are identical.
func (l Lin) SameTerms(m Lin) bool {
	if len(l.T) != len(m.T) {
		return false
	}
	for i := range l.T {
		if l.T[i] != m.T[i] {
			return false
		}
	}
	return true
}
