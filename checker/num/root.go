package num

import (
	"go/types"

	"golang.org/x/tools/go/ssa"
)

// RootOptions describes the assumptions on a root function's parameters.
type RootOptions struct {
	ZeroReceiver bool // pointer receiver points to a zero value
}

// AnalyzeRoot evaluates fn with unconstrained parameters (slices of any
// length, integers anywhere in their type range) and records obligations.
func (e *Engine) AnalyzeRoot(fn *ssa.Function, opt RootOptions) {
	st := NewState(e)
	for i, p := range fn.Params {
		e.fresh(st, p)
		t := p.Type()
		if ptr, ok := t.Underlying().(*types.Pointer); ok {
			st.nonnil[e.vid(p)] = true
			if i == 0 && fn.Signature.Recv() != nil {
				obj := "R" + e.vid(p)[1:]
				st.ptr[e.vid(p)] = Address{Obj: obj}
				if n, ok := ptr.Elem().(*types.Named); ok {
					e.objType[obj] = n.Obj().Name()
				}
				if opt.ZeroReceiver {
					e.zeroObject(st, obj, ptr.Elem())
				}
			}
		}
		if isSliceLike(t) {
			st.elemsNN[e.vid(p)] = !isPointerLike(elemType(t))
		}
	}
	rets, _ := e.Eval(fn, st, true, nil)
	if e.Trace != nil {
		for _, r := range rets {
			e.trace("ROOT RETURN %s: %s", r.ret, r.st.String())
		}
	}
}
