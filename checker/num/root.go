package num

import (
	"go/types"

	"golang.org/x/tools/go/ssa"
)

// RootOptions describes the assumptions on a root function's parameters.
type RootOptions struct {
	ZeroReceiver bool // pointer receiver points to a zero value
	// ElemsNonNil: slices of pointers/interfaces held by the receiver contain no
	// nil element and no interface holding a nil pointer ("decoded or well-formed" values)
	ElemsNonNil bool
}

// AnalyzeRoot evaluates fn with unconstrained parameters (slices of any
// length, integers anywhere in their type range) and records obligations.
func (e *Engine) AnalyzeRoot(fn *ssa.Function, opt RootOptions) []RootReturn {
	var out []RootReturn
	st := NewState(e)
	for i, p := range fn.Params {
		e.fresh(st, p)
		t := p.Type()
		if ptr, ok := t.Underlying().(*types.Pointer); ok {
			st.nonnil[e.vid(p)] = true
			if i == 0 && fn.Signature.Recv() != nil {
				obj := "R" + e.vid(p)[1:]
				st.ptr[e.vid(p)] = Address{Obj: obj}
				if n, ok := ptr.Elem().(*types.Named); ok {
					e.objType[obj] = n.Obj().Name()
				}
				if opt.ZeroReceiver {
					e.zeroObject(st, obj, ptr.Elem())
				}
			}
		}
		if isSliceLike(t) {
			st.elemsNN[e.vid(p)] = !isPointerLike(elemType(t))
			if opt.ElemsNonNil && i == 0 {
				st.elemsNN[e.vid(p)] = true
				st.elemsNN["D"+e.vid(p)] = true
			}
		}
		if opt.ElemsNonNil && i == 0 && fn.Signature.Recv() != nil {
			var obj string
			var et types.Type
			if ptr, ok := t.Underlying().(*types.Pointer); ok {
				obj, et = "R"+e.vid(p)[1:], ptr.Elem()
			} else if _, ok := t.Underlying().(*types.Struct); ok {
				obj, et = e.aggKey(p), t
			}
			if obj != "" {
				for _, lf := range leavesOf(et) {
					if lf.kind == 1 {
						st.elemsNN[obj+lf.path] = true
						st.elemsNN["D"+obj+lf.path] = true
					}
				}
			}
		}
	}
	if e.RootInit != nil {
		e.RootInit(st)
	}
	rets, _ := e.Eval(fn, st, true, nil)
	for _, r := range rets {
		out = append(out, RootReturn{r.st, r.ret})
	}
	if e.Trace != nil {
		for _, r := range rets {
			e.trace("ROOT RETURN %s: %s", r.ret, r.st.String())
		}
	}
	// conditional summary: error == nil  =>  len(slice parameter) >= k
	n := fn.Signature.Results().Len()
	if n == 0 || !isErrorType(fn.Signature.Results().At(n-1).Type()) {
		return out
	}
	sp := -1
	for i, p := range fn.Params {
		if isSliceLike(p.Type()) {
			sp = i
		}
	}
	if sp < 0 {
		return out
	}
	sum := &FnSummary{Fn: fn, SliceParam: sp, MinLenOnNil: -1}
	first := true
	for _, r := range rets {
		last := r.ret.Results[n-1]
		if e.isNonNil(r.st, last) {
			continue
		}
		sum.NilPossible = true
		b := r.st.Bounds(e.lenExpr(r.st, fn.Params[sp]))
		lo := int64(0)
		if b.HasLo {
			lo = b.Lo
		}
		// try a few stronger candidates through full entailment
		for _, c := range []int64{4, 8, 12, 16, 20, 24, 28} {
			if c > lo && r.st.Entails(e.lenExpr(r.st, fn.Params[sp]).AddConst(-c)) {
				lo = c
			}
		}
		if first || lo < sum.MinLenOnNil {
			sum.MinLenOnNil = lo
		}
		first = false
	}
	e.Summaries[fn] = sum
	return out
}
