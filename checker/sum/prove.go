package sum

import (
	"fmt"
	"go/types"

	"golang.org/x/tools/go/ssa"
)

// ResultLin gives the symbolic value (integers) or length (slices, strings) of result i over the
// returns whose error may be nil.
func (r *FuncResult) ResultLin(i int) (Lin, bool) {
	if r == nil || i >= len(r.Nil) {
		return Lin{}, false
	}
	switch x := r.Nil[i].(type) {
	case IntV:
		return x.L, true
	case SliceV:
		return x.Len, true
	case StrV:
		return x.Len, true
	}
	return Lin{}, false
}

// ival is an interval with optional ends.
type ival struct {
	lo, hi       int64
	hasLo, hasHi bool
}

func (e *Engine) atomBounds(a Atom) ival {
	nn := ival{lo: 0, hasLo: true}
	switch x := a.(type) {
	case LenOf, Idx:
		return nn
	case FieldVal:
		if x.Unsigned {
			return nn
		}
	case Prefix:
		if e.NonNegLin(x.Body) {
			return nn
		}
	case Sum:
		if e.NonNegLin(x.Body) {
			return nn
		}
	case Op:
		if len(x.Args) != 2 || !x.Args[1].IsConst() {
			return ival{}
		}
		m := x.Args[1].C
		d := e.linBounds(x.Args[0])
		switch x.Name {
		case "%":
			if m > 0 {
				if d.hasLo && d.lo >= 0 {
					return ival{0, m - 1, true, true}
				}
				return ival{-(m - 1), m - 1, true, true}
			}
		case "&":
			if m >= 0 {
				return ival{0, m, true, true}
			}
		case "/", ">>":
			if m > 0 && d.hasLo && d.lo >= 0 {
				return nn
			}
		}
	case Ite:
		a, b := e.linBounds(x.Then), e.linBounds(x.Else)
		out := ival{hasLo: a.hasLo && b.hasLo, hasHi: a.hasHi && b.hasHi}
		if out.hasLo {
			out.lo = a.lo
			if b.lo < out.lo {
				out.lo = b.lo
			}
		}
		if out.hasHi {
			out.hi = a.hi
			if b.hi > out.hi {
				out.hi = b.hi
			}
		}
		return out
	case App:
		if v, ok := e.NonNeg[x.Fn]; ok && v {
			return nn
		}
		if e.NonNegOracle != nil && x.Res == 0 {
			argsNN := true
			for _, a := range x.Args {
				if !a.IsPath && !e.NonNegLin(a.L) {
					argsNN = false
				}
			}
			k := oracleKey{x.Fn, argsNN}
			v, ok := e.oracleMemo[k]
			if !ok {
				v = e.NonNegOracle(x.Fn, argsNN)
				e.oracleMemo[k] = v
			}
			if v {
				return nn
			}
		}
	}
	return ival{}
}

func (e *Engine) linBounds(l Lin) ival {
	out := ival{l.C, l.C, true, true}
	for _, t := range l.T {
		b := e.atomBounds(t.A)
		if t.K < 0 {
			b = ival{-b.hi, -b.lo, b.hasHi, b.hasLo}
		}
		k := t.K
		if k < 0 {
			k = -k
		}
		out.hasLo = out.hasLo && b.hasLo
		out.hasHi = out.hasHi && b.hasHi
		out.lo += k * b.lo
		out.hi += k * b.hi
	}
	if !out.hasLo {
		out.lo = 0
	}
	if !out.hasHi {
		out.hi = 0
	}
	return out
}

// NonNegLin: interval evaluation of l over the ranges of its atoms gives a lower end >= 0.
func (e *Engine) NonNegLin(l Lin) bool {
	b := e.linBounds(l)
	return b.hasLo && b.lo >= 0
}

// ProveGE0 decides d >= 0 with the prefix-sum lemma: for a non-negative per-element term Δ,
// Σ_{j<i} Δ[j] <= Σ_{j<n} Δ[j] while the loop index i of a loop with trip count n is in range.
func (e *Engine) ProveGE0(d Lin) (bool, string) {
	return e.proveGE0(d, 0)
}

// classes of an integer field: the constants it is compared with (==, !=) inside l, plus one other value.
func fieldClasses(l Lin) (key string, atom FieldVal, vals []int64) {
	consts := map[int64]bool{}
	l.mapAtoms(func(a Atom) Lin {
		if it, ok := a.(Ite); ok && (it.Op == "==" || it.Op == "!=") && it.Y.IsConst() && it.X.C == 0 && len(it.X.T) == 1 {
			for k, t := range it.X.T {
				if fv, isF := t.A.(FieldVal); isF && t.K == 1 && (key == "" || key == k) {
					key, atom = k, fv
					consts[it.Y.C] = true
				}
			}
		}
		return AtomLin(a)
	})
	if key == "" {
		return
	}
	other := int64(0)
	for consts[other] {
		other++
	}
	for v := range consts {
		vals = append(vals, v)
	}
	vals = append(vals, other)
	return
}

// substField evaluates l with the integer at the given field atom fixed to v (folding the comparisons).
func substField(l Lin, key string, v int64) Lin {
	var rec func(l Lin) Lin
	rec = func(l Lin) Lin {
		r := Const(l.C)
		for _, k := range l.sorted() {
			t := l.T[k]
			var repl Lin
			switch x := t.A.(type) {
			case FieldVal:
				if k == key {
					repl = Const(v)
				} else {
					repl = AtomLin(x)
				}
			case Ite:
				cx, cy := rec(x.X), rec(x.Y)
				if cx.IsConst() && cy.IsConst() {
					var c bool
					switch x.Op {
					case "==":
						c = cx.C == cy.C
					case "!=":
						c = cx.C != cy.C
					case "<":
						c = cx.C < cy.C
					case "<=":
						c = cx.C <= cy.C
					case ">":
						c = cx.C > cy.C
					case ">=":
						c = cx.C >= cy.C
					}
					if c {
						repl = rec(x.Then)
					} else {
						repl = rec(x.Else)
					}
				} else {
					repl = AtomLin(Ite{x.Op, cx, cy, rec(x.Then), rec(x.Else)})
				}
			case Op:
				args := make([]Lin, len(x.Args))
				for i, a := range x.Args {
					args[i] = rec(a)
				}
				repl = AtomLin(Op{x.Name, args})
			default:
				repl = AtomLin(t.A)
			}
			r = r.Add(repl.Scale(t.K))
		}
		return r
	}
	return rec(l)
}

// pointwiseGE0: l >= 0 for every value of the one integer field its conditions test (case split over the
// field's value classes), or by interval evaluation when it tests none.
func (e *Engine) pointwiseGE0(l Lin) bool {
	if e.NonNegLin(l) {
		return true
	}
	key, _, vals := fieldClasses(l)
	if key == "" {
		return false
	}
	for _, v := range vals {
		if !e.NonNegLin(substField(l, key, v)) {
			return false
		}
	}
	return true
}

func (e *Engine) proveGE0(d Lin, depth int) (bool, string) {
	if depth > 6 {
		return false, "case split too deep"
	}
	// a top-level if-then-else with a positive or negative coefficient: both cases
	for _, k := range d.sorted() {
		t := d.T[k]
		it, isIte := t.A.(Ite)
		if !isIte {
			continue
		}
		rest := d.Sub(AtomLin(it).Scale(t.K))
		okT, whyT := e.proveGE0(rest.Add(it.Then.Scale(t.K)), depth+1)
		if !okT {
			return false, whyT
		}
		return e.proveGE0(rest.Add(it.Else.Scale(t.K)), depth+1)
	}
	// c * (X / c) >= X - (c-1) for X >= 0, c > 0
	for _, k := range d.sorted() {
		t, ok := d.T[k]
		if !ok || t.K <= 0 {
			continue
		}
		op, isOp := t.A.(Op)
		if !isOp || op.Name != "/" || len(op.Args) != 2 || !op.Args[1].IsConst() {
			continue
		}
		c := op.Args[1].C
		if c <= 0 || t.K%c != 0 || !e.NonNegLin(op.Args[0]) {
			continue
		}
		m := t.K / c
		d = d.Sub(AtomLin(op).Scale(t.K)).Add(op.Args[0].Scale(m)).Add(Const(-m * (c - 1)))
	}
	// prefix of a smaller term against the full sum of a larger one over the same list
	for _, k := range d.sorted() {
		t, ok := d.T[k]
		if !ok || t.K >= 0 {
			continue
		}
		pre, isPre := t.A.(Prefix)
		if !isPre {
			continue
		}
		li := e.loops[pre.ID]
		if li == nil || !li.ok {
			continue
		}
		for _, k2 := range d.sorted() {
			s, ok := d.T[k2]
			if !ok || s.K < -t.K {
				continue
			}
			sm, isSum := s.A.(Sum)
			if !isSum || sm.Count.Key() != li.count.Key() {
				continue
			}
			body := renameID(sm.Body, sm.ID, pre.ID)
			if !e.pointwiseGE0(pre.Body) || !e.pointwiseGE0(body.Sub(pre.Body)) {
				continue
			}
			// d = d' + |K|*(sum(B) - prefix(A)), with sum(B) >= prefix(B) >= prefix(A) >= 0
			d = d.Sub(AtomLin(pre).Scale(t.K)).Sub(AtomLin(sm).Scale(-t.K))
			break
		}
	}
	for _, k := range d.sorted() {
		t, ok := d.T[k]
		if !ok || t.K >= 0 {
			continue
		}
		pre, isPre := t.A.(Prefix)
		if !isPre {
			continue
		}
		li := e.loops[pre.ID]
		if li == nil || !li.ok || !e.NonNegLin(pre.Body) {
			continue
		}
		full := Sum{li.count, pre.ID, pre.Body}
		fk := full.key(nil)
		s, ok := d.T[fk]
		if !ok || s.K < -t.K {
			continue
		}
		// d = d' + |K|*(full - pre) with full - pre >= 0
		d = d.Add(AtomLin(full).Scale(t.K)).Add(AtomLin(pre).Scale(-t.K))
	}
	if e.NonNegLin(d) {
		return true, ""
	}
	return false, fmt.Sprintf("cannot show %s >= 0", d.Key())
}

// proveAt decides d >= 0 at a program point in block b: in the body of a loop (after the loop condition
// held) the element index is at most the trip count minus one.
func (e *Engine) proveAt(d Lin, b *ssa.BasicBlock) (bool, string) {
	for _, k := range d.sorted() {
		t, ok := d.T[k]
		if !ok || t.K >= 0 {
			continue
		}
		ix, isIdx := t.A.(Idx)
		if !isIdx {
			continue
		}
		li := e.loops[ix.ID]
		if li == nil || !li.ok || !li.blocks[b] || b == li.header {
			continue
		}
		// d = d0 - |K|*idx >= d0 - |K|*(count-1)
		d = d.Add(AtomLin(ix).Scale(-t.K)).Add(li.count.Add(Const(-1)).Scale(t.K))
	}
	return e.ProveGE0(d)
}

// ProveSlice decides 0 <= low <= high <= len(x) for a slice expression of the root frame.
func (f *Frame) ProveSlice(in *ssa.Slice) (bool, string) {
	b := in.Block()
	var ln Lin
	switch x := f.at(f.resolve(f.eval(in.X)), b).(type) {
	case SliceV:
		ln = x.Len
	case StrV:
		ln = x.Len
	case ArrV:
		ln = Const(x.N)
	default:
		return false, "the length of the sliced operand is not a symbolic size"
	}
	lo := Const(0)
	if in.Low != nil {
		iv, ok := f.at(f.resolve(f.eval(in.Low)), b).(IntV)
		if !ok {
			return false, "the low bound is not a symbolic size"
		}
		lo = iv.L
	}
	hi := ln
	if in.High != nil {
		iv, ok := f.at(f.resolve(f.eval(in.High)), b).(IntV)
		if !ok {
			return false, "the high bound is not a symbolic size"
		}
		hi = iv.L
	}
	if ok, why := f.e.proveAt(lo, b); !ok {
		return false, "low bound: " + why
	}
	if ok, why := f.e.proveAt(hi.Sub(lo), b); !ok {
		return false, "high - low: " + why
	}
	if ok, why := f.e.proveAt(ln.Sub(hi), b); !ok {
		return false, "len - high: " + why
	}
	return true, fmt.Sprintf("low = %s, high = %s, len = %s", lo.Key(), hi.Key(), ln.Key())
}

// ProveMinLen decides len(v) >= n at instruction `at` of the root frame.
func (f *Frame) ProveMinLen(v ssa.Value, at ssa.Instruction, n int64) (bool, string) {
	b := at.Block()
	var ln Lin
	switch x := f.at(f.resolve(f.eval(v)), b).(type) {
	case SliceV:
		ln = x.Len
	case StrV:
		ln = x.Len
	default:
		return false, "the length of the operand is not a symbolic size"
	}
	if ok, why := f.e.proveAt(ln.Sub(Const(n)), b); !ok {
		return false, why
	}
	return true, fmt.Sprintf("len = %s", ln.Key())
}

// LenAt gives the symbolic length of v at instruction `at`.
func (f *Frame) LenAt(v ssa.Value, at ssa.Instruction) (Lin, bool) {
	switch x := f.at(f.resolve(f.eval(v)), at.Block()).(type) {
	case SliceV:
		return x.Len, true
	case StrV:
		return x.Len, true
	case IntV:
		return x.L, true
	}
	return Lin{}, false
}

// SizeOf gives the symbolic value of result 0 of a size function of its receiver: its evaluation, or —
// when the function branches on its data but is effect-free — the uninterpreted application to the
// receiver (the form a call of it takes inside other evaluations).
func (e *Engine) SizeOf(fn *ssa.Function) (Lin, bool) {
	if l, ok := e.EvalRoot(fn).ResultLin(0); ok {
		return l, true
	}
	if e.Pure != nil && e.Pure(fn) && fn.Signature.Recv() != nil && len(fn.Params) == 1 {
		if _, isInt := intType(fn.Signature.Results().At(0).Type()); isInt && fn.Signature.Results().Len() == 1 {
			return AtomLin(App{Fn: fn, Res: 0, Args: []Arg{{IsPath: true, P: Path{{S: "r"}}}}}), true
		}
	}
	return Lin{}, false
}

// ProveIndex decides 0 <= index < len(x) for an element address of the root frame.
func (f *Frame) ProveIndex(in *ssa.IndexAddr) (bool, string) {
	b := in.Block()
	var ln Lin
	switch x := f.at(f.resolve(f.eval(in.X)), b).(type) {
	case SliceV:
		ln = x.Len
	case ArrV:
		ln = Const(x.N)
	default:
		return false, "the length of the indexed operand is not a symbolic size"
	}
	iv, ok := f.at(f.resolve(f.eval(in.Index)), b).(IntV)
	if !ok {
		return false, "the index is not a symbolic size"
	}
	if ok, why := f.e.proveAt(iv.L, b); !ok {
		return false, "index: " + why
	}
	if ok, why := f.e.proveAt(ln.Sub(iv.L).Add(Const(-1)), b); !ok {
		return false, "len - index - 1: " + why
	}
	return true, fmt.Sprintf("index = %s, len = %s", iv.L.Key(), ln.Key())
}

// LoopStep describes one accumulator of a recognised loop of the root frame.
type LoopStep struct {
	Var   string // source name of the accumulated variable
	Count Lin    // trip count of the loop
	Delta Lin    // what one iteration adds
}

// LoopSteps lists the accumulators (integers and slice lengths) of the loops of the evaluated function
// whose trip count has the given canonical key (e.g. "1*len(r.RecvDeltas)").
func (r *FuncResult) LoopSteps(countKey string) []LoopStep {
	var out []LoopStep
	f := r.Frame
	if f == nil {
		return nil
	}
	for _, b := range f.fn.Blocks {
		li := f.byHead[b]
		if li == nil {
			continue
		}
		f.shape(li)
		if !li.ok || li.count.Key() != countKey {
			continue
		}
		for _, in := range b.Instrs {
			phi, ok := in.(*ssa.Phi)
			if !ok {
				break
			}
			if phi == li.ind {
				continue
			}
			if _, isInt := intType(phi.Type()); !isInt {
				if _, isSl := phi.Type().Underlying().(*types.Slice); !isSl {
					continue
				}
			}
			if _, ok := f.solve(phi); !ok {
				out = append(out, LoopStep{Var: phi.Comment, Count: li.count, Delta: AtomLin(Op{"unknown", nil})})
				continue
			}
			out = append(out, LoopStep{Var: phi.Comment, Count: li.count, Delta: f.delta[phi]})
		}
	}
	return out
}
