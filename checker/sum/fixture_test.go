package sum

import (
	"strings"
	"testing"

	"golang.org/x/tools/go/ssa"

	"rtcpverif/core"
	"rtcpverif/effects"
)

func fixEngine(t *testing.T) (*core.Prog, *Engine) {
	p, err := core.Load("../testdata/sumfix", "", nil)
	if err != nil {
		t.Fatal(err)
	}
	an := effects.New(p.SPkg, p.Funcs, p.CallGraph(), nil)
	e := New(p.SPkg)
	e.Pure = pureOf(an)
	e.NonNeg[p.Func("pad")] = true
	return p, e
}

func TestFixtureSizes(t *testing.T) {
	p, e := fixEngine(t)
	size, ok := e.SizeOf(p.Func("Chunk.size"))
	if !ok {
		t.Fatal("Chunk.size not evaluated")
	}
	good, ok := e.EvalRoot(p.Func("Chunk.Marshal")).ResultLin(0)
	if !ok || !good.Equal(size) {
		t.Errorf("Chunk.Marshal: len = %s, size = %s: expected equal", good.Key(), size.Key())
	}
	short, ok := e.EvalRoot(p.Func("Chunk.MarshalShort")).ResultLin(0)
	if !ok || short.Equal(size) {
		t.Errorf("Chunk.MarshalShort: len = %s must be evaluated and differ from size = %s", short.Key(), size.Key())
	}
	il, _ := e.EvalRoot(p.Func("Item.Marshal")).ResultLin(0)
	is, _ := e.SizeOf(p.Func("Item.Len"))
	if !il.Equal(is) || il.Key() != "1*len(r.Text)+2" {
		t.Errorf("Item: %s vs %s", il.Key(), is.Key())
	}
	if !strings.Contains(size.Key(), "1*sum(1*len(r.Items);1*len(r.Items[@0].Text))") || !strings.Contains(size.Key(), "+2*len(r.Items)+5") {
		t.Errorf("unexpected normal form %s", size.Key())
	}
}

func slices(fn *ssa.Function) []*ssa.Slice {
	var out []*ssa.Slice
	for _, b := range fn.Blocks {
		for _, in := range b.Instrs {
			if s, ok := in.(*ssa.Slice); ok {
				out = append(out, s)
			}
		}
	}
	return out
}

func TestFixtureCursor(t *testing.T) {
	p, e := fixEngine(t)
	fn := p.Func("Packet.Marshal")
	res := e.EvalRoot(fn)
	n := 0
	for _, s := range slices(fn) {
		n++
		if ok, why := res.Frame.ProveSlice(s); !ok {
			t.Errorf("Packet.Marshal: slice at %s not proved: %s", p.Pos(s.Pos()), why)
		}
	}
	if n == 0 {
		t.Fatal("no slice expression found")
	}
	ln, ok := res.ResultLin(0)
	sz, _ := e.SizeOf(p.Func("*Packet.Size"))
	if !ok || !ln.Equal(sz) {
		t.Errorf("len(Packet.Marshal()) = %s, Size() = %s", ln.Key(), sz.Key())
	}
	over := p.Func("Packet.MarshalOver")
	ro := e.EvalRoot(over)
	proved := 0
	for _, s := range slices(over) {
		if ok, _ := ro.Frame.ProveSlice(s); ok {
			proved++
		}
	}
	if proved != 0 {
		t.Errorf("Packet.MarshalOver: an overshooting cursor was proved in bounds")
	}
}

func TestFixtureUnsound(t *testing.T) {
	p, e := fixEngine(t)
	if l, ok := e.EvalRoot(p.Func("Packet.MarshalBreak")).ResultLin(0); ok {
		t.Errorf("a loop left by break must not be summed: got %s", l.Key())
	}
	if l, ok := e.EvalRoot(p.Func("Packet.Narrow")).ResultLin(0); ok && strings.Contains(l.Key(), "sum(") {
		t.Errorf("16-bit accumulation must stay uninterpreted: got %s", l.Key())
	}
	l, ok := e.EvalRoot(p.Func("Packet.Wide")).ResultLin(0)
	if !ok || l.Key() != "2*len(r.Small)" {
		t.Errorf("Wide: got %s", l.Key())
	}
}
