package sum

import (
	"fmt"
	"os"
	"strings"
	"testing"

	"golang.org/x/tools/go/ssa"

	"rtcpverif/core"
	"rtcpverif/effects"
)

func pureOf(an *effects.Analysis) func(*ssa.Function) bool {
	return func(fn *ssa.Function) bool {
		s := an.Sum[fn]
		if s == nil || len(s.Undecided) > 0 || len(s.Forbidden) > 0 {
			return false
		}
		for k := 0; k < s.NRoots; k++ {
			if s.WritesThrough(k) {
				return false
			}
		}
		return true
	}
}

func TestDump(t *testing.T) {
	dir := os.Getenv("REPO")
	if dir == "" {
		dir = "/repo"
	}
	prog, err := core.Load(dir, "", nil)
	if err != nil {
		t.Fatal(err)
	}
	an := effects.New(prog.SPkg, prog.Funcs, prog.CallGraph(), nil)
	for _, spec := range strings.Fields(os.Getenv("FN")) {
		fn := prog.Func(spec)
		if fn == nil {
			t.Fatalf("no func %s", spec)
		}
		e := New(prog.SPkg)
		e.Pure = pureOf(an)
		if a := os.Getenv("ASSUME"); a != "" {
			e.AssumeField = map[string]int64{}
			for _, kv := range strings.Fields(a) {
				var v int64
				i := strings.Index(kv, "=")
				fmt.Sscanf(kv[i+1:], "%d", &v)
				e.AssumeField[kv[:i]] = v
			}
		}
		if os.Getenv("NOWRAP") != "" {
			e.NoWrap = map[*ssa.Function]bool{fn: true}
		}
		res := e.EvalRoot(fn)
		if ck := os.Getenv("COUNT"); ck != "" {
			for _, st := range res.LoopSteps(ck) {
				fmt.Printf("   loop step %s += %s\n", st.Var, st.Delta.Key())
			}
		}
		fmt.Printf("== %s: returns=%d nil-returns=%d mutates=%q\n", spec, res.NRet, res.NRetNil, res.Mutates)
		for i := range res.Nil {
			fmt.Printf("   result %d (nil error): %s\n   result %d (all):       %s\n", i, valKey(res.Nil[i]), i, valKey(res.All[i]))
		}
		for _, b := range fn.Blocks {
			for _, in := range b.Instrs {
				if sl, ok := in.(*ssa.Slice); ok {
					ok, why := res.Frame.ProveSlice(sl)
					fmt.Printf("   slice %s: %v %s\n", prog.Pos(sl.Pos()), ok, why)
				}
			}
		}
		for _, n := range e.Notes {
			fmt.Println("   note:", n)
		}
	}
}
