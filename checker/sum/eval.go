package sum

import (
	"fmt"
	"go/constant"
	"go/token"
	"go/types"
	"strings"

	"golang.org/x/tools/go/ssa"
)

// ---------------------------------------------------------------- values

type Val interface{}

type (
	// IntV is an integer.
	IntV struct{ L Lin }
	// SliceV is a slice (or array-backed slice) of known symbolic length; P is set when it is the list at a path.
	SliceV struct {
		Len  Lin
		P    Path
		HasP bool
	}
	// LocV is the (unmodified) struct value at path P, or a pointer to it.
	LocV struct {
		P Path
		T types.Type
		// Fix: the integer stored here is assumed to be this constant (Engine.AssumeField)
		Fix *int64
	}
	// RefV is a pointer to a local holding V.
	RefV struct{ V Val }
	// ArrV is a pointer to a local array of N elements.
	ArrV struct{ N int64 }
	// StrV is a string of known symbolic length.
	StrV struct{ Len Lin }
	// TupleV is a call result: the values given a nil error, and the values over all returns.
	TupleV struct {
		Nil, All []Val
		ErrIdx   int // -1: no error result
		ErrNil   int // join of the error results: 1 nil, 2 non-nil, 0 unknown
	}
	// TopV is unknown.
	TopV struct{}
)

func valKey(v Val) string {
	switch x := v.(type) {
	case IntV:
		return "int:" + x.L.Key()
	case SliceV:
		if x.HasP {
			return "slice:" + x.Len.Key() + "@" + x.P.key(nil)
		}
		return "slice:" + x.Len.Key()
	case LocV:
		return "loc:" + x.P.key(nil)
	case RefV:
		return "ref:" + valKey(x.V)
	case ArrV:
		return fmt.Sprintf("arr:%d", x.N)
	case StrV:
		return "str:" + x.Len.Key()
	}
	return "top"
}

func isTop(v Val) bool { _, ok := v.(TopV); return ok || v == nil }

// ---------------------------------------------------------------- engine

type Engine struct {
	// Pure reports that a function writes nothing (through parameters or to package state) and has no
	// undecided effects; only such functions are abstracted as App atoms.
	Pure func(*ssa.Function) bool
	// AddrWritten reports a construct that may write the local a other than its initialising store.
	AddrWritten func(a *ssa.Alloc, init *ssa.Store) string
	// LenOverride gives the length of the slice made by a MakeSlice instruction (an identity
	// established elsewhere, e.g. by the numeric engine).
	LenOverride map[*ssa.MakeSlice]Lin
	// NonNeg lists effect-free functions whose integer result is known to be non-negative.
	NonNeg map[*ssa.Function]bool
	// NonNegOracle decides (once per function) whether result 0 of an effect-free function is never negative.
	// The flag says that every integer argument of the application is known to be non-negative.
	NonNegOracle func(fn *ssa.Function, intArgsNonNeg bool) bool
	oracleMemo   map[oracleKey]bool
	Pkg    *ssa.Package
	// AssumeField fixes an integer field of every value of a named struct type ("Type.Field") to a
	// constant: the evaluation is then valid for the values having that field value only.
	AssumeField map[string]int64
	// NoWrap lists functions whose fixed-width arithmetic is assumed not to wrap (size-domain assumption).
	NoWrap map[*ssa.Function]bool

	MaxDepth int
	nextID   int
	loops    map[int]*loopInfo
	cache    map[string]*FuncResult
	Notes    []string
}

func New(pkg *ssa.Package) *Engine {
	return &Engine{Pkg: pkg, MaxDepth: 6, loops: map[int]*loopInfo{}, cache: map[string]*FuncResult{}, NonNeg: map[*ssa.Function]bool{}, LenOverride: map[*ssa.MakeSlice]Lin{}, oracleMemo: map[oracleKey]bool{}}
}

func (e *Engine) note(format string, a ...any) {
	if len(e.Notes) < 200 {
		e.Notes = append(e.Notes, fmt.Sprintf(format, a...))
	}
}

type oracleKey struct {
	fn  *ssa.Function
	arg bool
}

type loopInfo struct {
	id     int
	header *ssa.BasicBlock
	blocks map[*ssa.BasicBlock]bool
	exit   *ssa.BasicBlock
	ind    *ssa.Phi  // induction phi
	x      ssa.Value // element index during the body (ind or ind+1)
	count  Lin
	ok     bool
	why    string
}

// FuncResult is the evaluation of one function on given arguments.
type FuncResult struct {
	Fn      *ssa.Function
	Nil     []Val // results joined over the returns whose error may be nil
	All     []Val // results joined over all returns
	ErrIdx  int
	ErrNil  int
	NRet    int
	NRetNil int
	Frame   *Frame
	Mutates string
}

type Frame struct {
	e       *Engine
	fn      *ssa.Function
	args    map[*ssa.Parameter]Val
	memo    map[ssa.Value]Val
	byHead  map[*ssa.BasicBlock]*loopInfo
	sol     map[*ssa.Phi]Val
	solving map[*ssa.Phi]bool
	delta   map[*ssa.Phi]Lin
	deadMem map[*ssa.BasicBlock]int
	depth   int
}

// EvalRoot evaluates fn with its receiver (first parameter) bound to the symbolic location "r"; other
// integer parameters are symbolic values, everything else is unknown.
func (e *Engine) EvalRoot(fn *ssa.Function) *FuncResult {
	args := make([]Val, len(fn.Params))
	for i, p := range fn.Params {
		if i == 0 && fn.Signature.Recv() != nil {
			t := p.Type()
			if pt, ok := t.Underlying().(*types.Pointer); ok {
				t = pt.Elem()
			}
			args[i] = LocV{P: Path{{S: "r"}}, T: t}
			continue
		}
		if b, ok := p.Type().Underlying().(*types.Basic); ok && b.Info()&types.IsInteger != 0 {
			args[i] = IntV{AtomLin(FieldVal{Path{{S: "arg." + p.Name()}}, b.Info()&types.IsUnsigned != 0})}
			continue
		}
		args[i] = TopV{}
	}
	return e.evalFunc(fn, args, 0)
}

func (e *Engine) evalFunc(fn *ssa.Function, args []Val, depth int) *FuncResult {
	ks := make([]string, len(args))
	for i, a := range args {
		ks[i] = valKey(a)
	}
	ck := fn.String() + "(" + strings.Join(ks, ";") + ")"
	if r, ok := e.cache[ck]; ok {
		return r
	}
	res := &FuncResult{Fn: fn, ErrIdx: -1}
	e.cache[ck] = res // recursion guard: a recursive call sees empty (unknown) results
	if fn.Blocks == nil || depth > e.MaxDepth {
		return res
	}
	f := &Frame{e: e, fn: fn, args: map[*ssa.Parameter]Val{}, memo: map[ssa.Value]Val{}, byHead: map[*ssa.BasicBlock]*loopInfo{}, sol: map[*ssa.Phi]Val{}, solving: map[*ssa.Phi]bool{}, delta: map[*ssa.Phi]Lin{}, deadMem: map[*ssa.BasicBlock]int{}, depth: depth}
	res.Frame = f
	for i, p := range fn.Params {
		if i < len(args) {
			f.args[p] = args[i]
		}
	}
	f.findLoops()
	sig := fn.Signature
	nres := sig.Results().Len()
	if nres > 0 && isErrorType(sig.Results().At(nres-1).Type()) {
		res.ErrIdx = nres - 1
	}
	// a store into memory reachable from a symbolic location invalidates the "unmodified" reading
	for _, b := range fn.Blocks {
		for _, in := range b.Instrs {
			st, ok := in.(*ssa.Store)
			if !ok {
				continue
			}
			if _, isAlloc := st.Addr.(*ssa.Alloc); isAlloc {
				continue
			}
			if lv, ok := f.eval(st.Addr).(LocV); ok {
				res.Mutates = "store to " + lv.P.key(nil)
			}
		}
	}
	var nilVals, allVals [][]Val
	errJoin := -1
	for _, b := range fn.Blocks {
		if len(b.Instrs) == 0 {
			continue
		}
		ret, ok := b.Instrs[len(b.Instrs)-1].(*ssa.Return)
		if !ok || f.dead(b) {
			continue
		}
		vals := make([]Val, nres)
		for i, r := range ret.Results {
			vals[i] = f.at(f.resolve(f.eval(r)), b)
		}
		en := 1
		if res.ErrIdx >= 0 {
			en = f.errAt(ret.Results[res.ErrIdx], b, 0)
		}
		if errJoin == -1 {
			errJoin = en
		} else if errJoin != en {
			errJoin = 0
		}
		res.NRet++
		allVals = append(allVals, vals)
		if en != 2 {
			res.NRetNil++
			nilVals = append(nilVals, vals)
		}
	}
	if errJoin > 0 {
		res.ErrNil = errJoin
	}
	res.Nil = joinCols(nilVals, nres)
	res.All = joinCols(allVals, nres)
	if res.Mutates != "" {
		for i := range res.Nil {
			res.Nil[i] = TopV{}
		}
		for i := range res.All {
			res.All[i] = TopV{}
		}
	}
	return res
}

func joinCols(rows [][]Val, n int) []Val {
	out := make([]Val, n)
	for i := 0; i < n; i++ {
		out[i] = TopV{}
		for j, r := range rows {
			if j == 0 {
				out[i] = r[i]
				continue
			}
			if valKey(out[i]) != valKey(r[i]) {
				out[i] = TopV{}
			}
		}
	}
	return out
}

func isErrorType(t types.Type) bool {
	n, ok := t.(*types.Named)
	return ok && n.Obj().Pkg() == nil && n.Obj().Name() == "error"
}

// ---------------------------------------------------------------- loops

func (f *Frame) findLoops() {
	fn := f.fn
	for _, b := range fn.Blocks {
		for _, s := range b.Succs {
			if !s.Dominates(b) {
				continue
			}
			// back edge b -> s
			li := f.byHead[s]
			if li == nil {
				f.e.nextID++
				li = &loopInfo{id: f.e.nextID, header: s, blocks: map[*ssa.BasicBlock]bool{s: true}}
				f.byHead[s] = li
				f.e.loops[li.id] = li
			}
			work := []*ssa.BasicBlock{b}
			for len(work) > 0 {
				x := work[len(work)-1]
				work = work[:len(work)-1]
				if li.blocks[x] {
					continue
				}
				li.blocks[x] = true
				work = append(work, x.Preds...)
			}
		}
	}
}

// shape recognises `for X := 0; X < N; X++` in its classic and range (rotated) forms.
func (f *Frame) shape(li *loopInfo) {
	if li.ok || li.why != "" {
		return
	}
	h := li.header
	fail := func(s string) { li.why = s }
	iff, ok := h.Instrs[len(h.Instrs)-1].(*ssa.If)
	if !ok {
		fail("the loop header does not end in the loop condition")
		return
	}
	cmp, ok := iff.Cond.(*ssa.BinOp)
	if !ok || (cmp.Op != token.LSS && cmp.Op != token.GTR) {
		fail("the loop condition is not index < count")
		return
	}
	x, n := cmp.X, cmp.Y
	if cmp.Op == token.GTR {
		x, n = n, x
	}
	if !li.blocks[h.Succs[0]] || li.blocks[h.Succs[1]] {
		fail("the loop condition does not continue on true / leave on false")
		return
	}
	exit := h.Succs[1]
	for _, pr := range exit.Preds {
		if pr != h && li.blocks[pr] {
			fail("the block after the loop is also reached by a break")
			return
		}
	}
	var phi *ssa.Phi
	plusOne := false
	switch v := x.(type) {
	case *ssa.Phi:
		phi = v
	case *ssa.BinOp:
		if p, ok := v.X.(*ssa.Phi); ok && v.Op == token.ADD && isConstInt(v.Y, 1) && v.Block() == h {
			phi, plusOne = p, true
		}
	}
	if phi == nil || phi.Block() != h {
		fail("the compared index is not a loop counter")
		return
	}
	for i, pred := range h.Preds {
		e := phi.Edges[i]
		if li.blocks[pred] {
			if plusOne {
				if e != x {
					fail("counter is not advanced by one")
					return
				}
			} else {
				bo, ok := e.(*ssa.BinOp)
				if !ok || bo.Op != token.ADD || bo.X != phi || !isConstInt(bo.Y, 1) {
					fail("counter is not advanced by one")
					return
				}
			}
		} else {
			want := int64(0)
			if plusOne {
				want = -1
			}
			if !isConstInt(e, want) {
				fail("counter does not start at the first element")
				return
			}
		}
	}
	li.ind, li.x, li.exit = phi, x, exit
	li.ok = true // set before evaluating the count so that a self-reference terminates
	cnt := f.resolve(f.eval(n))
	iv, isInt := cnt.(IntV)
	if !isInt {
		li.ok = false
		fail("the trip count is not a symbolic integer")
		return
	}
	ids := map[int]bool{}
	iv.L.freeIDs(ids)
	if ids[li.id] || iv.L.hasAcc() {
		li.ok = false
		fail("the trip count changes inside the loop")
		return
	}
	li.count = iv.L
}

func isConstInt(v ssa.Value, want int64) bool {
	c, ok := v.(*ssa.Const)
	if !ok || c.Value == nil || c.Value.Kind() != constant.Int {
		return false
	}
	x, exact := constant.Int64Val(c.Value)
	return exact && x == want
}

// ---------------------------------------------------------------- evaluation

func (f *Frame) eval(v ssa.Value) Val {
	if r, ok := f.memo[v]; ok {
		return r
	}
	f.memo[v] = TopV{} // cycle guard
	r := f.eval1(v)
	if r == nil {
		r = TopV{}
	}
	f.memo[v] = r
	return r
}

func intType(t types.Type) (*types.Basic, bool) {
	b, ok := t.Underlying().(*types.Basic)
	if !ok || b.Info()&types.IsInteger == 0 {
		return nil, false
	}
	return b, true
}

func load(p Path, t types.Type) Val {
	switch u := t.Underlying().(type) {
	case *types.Basic:
		if u.Info()&types.IsInteger != 0 {
			return IntV{AtomLin(FieldVal{p, u.Info()&types.IsUnsigned != 0})}
		}
		if u.Info()&types.IsString != 0 {
			return StrV{AtomLin(LenOf{p})}
		}
	case *types.Slice:
		return SliceV{Len: AtomLin(LenOf{p}), P: p, HasP: true}
	case *types.Struct:
		return LocV{P: p, T: t}
	case *types.Pointer:
		if _, ok := u.Elem().Underlying().(*types.Struct); ok {
			return LocV{P: p.with(PathElem{S: ".*"}), T: u.Elem()}
		}
	}
	return TopV{}
}

// fieldFix: the assumed constant of field fl of struct type t, if any.
func (e *Engine) fieldFix(t types.Type, fl *types.Var) *int64 {
	if e.AssumeField == nil {
		return nil
	}
	n, ok := t.(*types.Named)
	if !ok {
		return nil
	}
	if v, ok := e.AssumeField[n.Obj().Name()+"."+fl.Name()]; ok {
		return &v
	}
	return nil
}

func (f *Frame) eval1(v ssa.Value) Val {
	switch x := v.(type) {
	case *ssa.Const:
		if x.Value != nil && x.Value.Kind() == constant.Int {
			if n, ok := constant.Int64Val(x.Value); ok {
				return IntV{Const(n)}
			}
		}
		if x.Value != nil && x.Value.Kind() == constant.String {
			return StrV{Const(int64(len(constant.StringVal(x.Value))))}
		}
		if x.Value == nil {
			if _, ok := x.Type().Underlying().(*types.Slice); ok {
				return SliceV{Len: Const(0)}
			}
		}
		return TopV{}
	case *ssa.Parameter:
		if a, ok := f.args[x]; ok {
			return a
		}
		return TopV{}
	case *ssa.Alloc:
		return f.evalAlloc(x)
	case *ssa.FieldAddr:
		if lv, ok := f.eval(x.X).(LocV); ok {
			st, ok := lv.T.Underlying().(*types.Struct)
			if !ok || x.Field >= st.NumFields() {
				return TopV{}
			}
			fl := st.Field(x.Field)
			return LocV{P: lv.P.with(PathElem{S: "." + fl.Name()}), T: fl.Type(), Fix: f.e.fieldFix(lv.T, fl)}
		}
		return TopV{}
	case *ssa.Field:
		if lv, ok := f.eval(x.X).(LocV); ok {
			st, ok := lv.T.Underlying().(*types.Struct)
			if !ok || x.Field >= st.NumFields() {
				return TopV{}
			}
			fl := st.Field(x.Field)
			if fix := f.e.fieldFix(lv.T, fl); fix != nil {
				if _, isInt := intType(fl.Type()); isInt {
					return IntV{Const(*fix)}
				}
			}
			return load(lv.P.with(PathElem{S: "." + fl.Name()}), fl.Type())
		}
		return TopV{}
	case *ssa.IndexAddr:
		sv, ok := f.eval(x.X).(SliceV)
		if !ok || !sv.HasP {
			return TopV{}
		}
		id, ok := f.indexVar(x.Index)
		if !ok {
			return TopV{}
		}
		et := x.Type().Underlying().(*types.Pointer).Elem()
		return LocV{P: sv.P.with(PathElem{ID: id}), T: et}
	case *ssa.UnOp:
		switch x.Op {
		case token.MUL:
			switch p := f.eval(x.X).(type) {
			case LocV:
				if p.Fix != nil {
					if _, isInt := intType(p.T); isInt {
						return IntV{Const(*p.Fix)}
					}
				}
				return load(p.P, p.T)
			case RefV:
				return p.V
			}
			return TopV{}
		case token.SUB:
			if iv, ok := f.eval(x.X).(IntV); ok {
				return IntV{iv.L.Scale(-1)}
			}
		}
		return TopV{}
	case *ssa.BinOp:
		return f.evalBinOp(x)
	case *ssa.Phi:
		return f.evalPhi(x)
	case *ssa.MakeSlice:
		if l, ok := f.e.LenOverride[x]; ok && f.depth == 0 {
			return SliceV{Len: l}
		}
		if iv, ok := f.eval(x.Len).(IntV); ok {
			return SliceV{Len: iv.L}
		}
		return TopV{}
	case *ssa.Slice:
		return f.evalSlice(x)
	case *ssa.Convert:
		return f.evalConvert(x)
	case *ssa.ChangeType:
		return f.eval(x.X)
	case *ssa.Call:
		return f.evalCall(x)
	case *ssa.Extract:
		tv, ok := f.eval(x.Tuple).(TupleV)
		if !ok {
			return TopV{}
		}
		call, _ := x.Tuple.(*ssa.Call)
		if call != nil && tv.ErrIdx >= 0 && x.Index != tv.ErrIdx && f.usedOnlyAfterNilCheck(x, call, tv.ErrIdx) {
			return tv.Nil[x.Index]
		}
		return tv.All[x.Index]
	}
	return TopV{}
}

// indexVar: the index expression is exactly the element index of a recognised loop.
func (f *Frame) indexVar(idx ssa.Value) (int, bool) {
	iv, ok := f.eval(idx).(IntV)
	if !ok || iv.L.C != 0 || len(iv.L.T) != 1 {
		return 0, false
	}
	for _, t := range iv.L.T {
		if ix, ok := t.A.(Idx); ok && t.K == 1 {
			return ix.ID, true
		}
	}
	return 0, false
}

func (f *Frame) evalAlloc(a *ssa.Alloc) Val {
	t := a.Type().Underlying().(*types.Pointer).Elem()
	if at, ok := t.Underlying().(*types.Array); ok {
		return ArrV{at.Len()}
	}
	var stores []*ssa.Store
	for _, ref := range *a.Referrers() {
		if st, ok := ref.(*ssa.Store); ok && st.Addr == a {
			stores = append(stores, st)
		}
	}
	if len(stores) != 1 {
		return TopV{}
	}
	st := stores[0]
	for _, ref := range *a.Referrers() {
		if ref != st && ref.Block() != nil && !st.Block().Dominates(ref.Block()) {
			return TopV{}
		}
	}
	if f.e.AddrWritten != nil {
		if why := f.e.AddrWritten(a, st); why != "" {
			f.e.note("%s: local %s: %s", f.fn.Name(), a.Comment, why)
			return TopV{}
		}
	}
	v := f.eval(st.Val)
	if lv, ok := v.(LocV); ok {
		return lv
	}
	if isTop(v) {
		return TopV{}
	}
	return RefV{v}
}

func (f *Frame) evalBinOp(x *ssa.BinOp) Val {
	a, aok := f.eval(x.X).(IntV)
	b, bok := f.eval(x.Y).(IntV)
	if !aok || !bok {
		return TopV{}
	}
	bt, ok := intType(x.Type())
	if !ok {
		return TopV{} // comparisons
	}
	wraps := x.Op == token.ADD || x.Op == token.SUB || x.Op == token.MUL || x.Op == token.SHL || (x.Op == token.QUO && bt.Info()&types.IsUnsigned == 0)
	if basicBits(bt) < 64 && wraps && !(a.L.IsConst() && b.L.IsConst()) && !f.e.NoWrap[f.fn] {
		// fixed-width arithmetic below the word size may wrap: kept uninterpreted
		return IntV{AtomLin(Op{x.Op.String() + ":" + bt.Name(), []Lin{a.L, b.L}})}
	}
	switch x.Op {
	case token.ADD:
		return IntV{a.L.Add(b.L)}
	case token.SUB:
		return IntV{a.L.Sub(b.L)}
	case token.MUL:
		if a.L.IsConst() {
			return IntV{b.L.Scale(a.L.C)}
		}
		if b.L.IsConst() {
			return IntV{a.L.Scale(b.L.C)}
		}
	}
	if a.L.IsConst() && b.L.IsConst() {
		if r, ok := foldConst(x.Op, a.L.C, b.L.C); ok {
			return IntV{Const(r)}
		}
	}
	return IntV{AtomLin(Op{x.Op.String(), []Lin{a.L, b.L}})}
}

func foldConst(op token.Token, a, b int64) (int64, bool) {
	switch op {
	case token.QUO:
		if b != 0 {
			return a / b, true
		}
	case token.REM:
		if b != 0 {
			return a % b, true
		}
	case token.SHL:
		if b >= 0 && b < 62 {
			return a << uint(b), true
		}
	case token.SHR:
		if b >= 0 && b < 62 {
			return a >> uint(b), true
		}
	case token.AND:
		return a & b, true
	case token.OR:
		return a | b, true
	}
	return 0, false
}

func (f *Frame) evalSlice(x *ssa.Slice) Val {
	var ln Lin
	isStr := false
	switch b := f.eval(x.X).(type) {
	case SliceV:
		ln = b.Len
	case StrV:
		ln, isStr = b.Len, true
	case ArrV:
		ln = Const(b.N)
	default:
		return TopV{}
	}
	lo := Const(0)
	if x.Low != nil {
		iv, ok := f.eval(x.Low).(IntV)
		if !ok {
			return TopV{}
		}
		lo = iv.L
	}
	hi := ln
	if x.High != nil {
		iv, ok := f.eval(x.High).(IntV)
		if !ok {
			return TopV{}
		}
		hi = iv.L
	}
	if isStr {
		return StrV{hi.Sub(lo)}
	}
	return SliceV{Len: hi.Sub(lo)}
}

func (f *Frame) evalConvert(x *ssa.Convert) Val {
	src := f.eval(x.X)
	switch s := src.(type) {
	case StrV:
		if sl, ok := x.Type().Underlying().(*types.Slice); ok {
			if b, ok := sl.Elem().Underlying().(*types.Basic); ok && b.Kind() == types.Byte {
				return SliceV{Len: s.Len}
			}
		}
		return TopV{}
	case SliceV:
		if b, ok := x.Type().Underlying().(*types.Basic); ok && b.Info()&types.IsString != 0 {
			if sl, ok := x.X.Type().Underlying().(*types.Slice); ok {
				if eb, ok := sl.Elem().Underlying().(*types.Basic); ok && eb.Kind() == types.Byte {
					return StrV{s.Len}
				}
			}
		}
		return TopV{}
	case IntV:
		from, ok1 := intType(x.X.Type())
		to, ok2 := intType(x.Type())
		if !ok1 || !ok2 {
			return TopV{}
		}
		if s.L.IsConst() || widens(from, to) || f.e.NoWrap[f.fn] {
			return s
		}
		return IntV{AtomLin(Op{"conv:" + to.Name(), []Lin{s.L}})}
	}
	return TopV{}
}

func basicBits(b *types.Basic) int {
	switch b.Kind() {
	case types.Int8, types.Uint8:
		return 8
	case types.Int16, types.Uint16:
		return 16
	case types.Int32, types.Uint32:
		return 32
	}
	return 64
}

// widens: every value of type from is a value of type to.
func widens(from, to *types.Basic) bool {
	fu := from.Info()&types.IsUnsigned != 0
	tu := to.Info()&types.IsUnsigned != 0
	fb, tb := basicBits(from), basicBits(to)
	switch {
	case fu == tu:
		return tb >= fb
	case fu && !tu:
		return tb > fb
	}
	return false
}

// ---------------------------------------------------------------- phis

func (f *Frame) evalPhi(phi *ssa.Phi) Val {
	b := phi.Block()
	li := f.byHead[b]
	if li == nil {
		var out Val
		same := true
		first := true
		for i, e := range phi.Edges {
			if f.deadEdge(b.Preds[i], b) {
				continue // unreachable under the assumed field values
			}
			v := f.eval(e)
			if first {
				out, first = v, false
			} else if valKey(out) != valKey(v) {
				same = false
			}
		}
		if first {
			return TopV{}
		}
		if same {
			return out
		}
		return f.iteOf(phi)
	}
	f.shape(li)
	if !li.ok {
		f.e.note("%s: loop at block %d: %s", f.fn.Name(), b.Index, li.why)
		return TopV{}
	}
	if phi == li.ind {
		l := AtomLin(Idx{li.id})
		if li.x != ssa.Value(phi) {
			l = l.Add(Const(-1))
		}
		return IntV{l}
	}
	if _, ok := intType(phi.Type()); ok {
		return IntV{AtomLin(Acc{phi})}
	}
	if _, ok := phi.Type().Underlying().(*types.Slice); ok {
		return SliceV{Len: AtomLin(Acc{phi})}
	}
	return TopV{}
}

// foldCond: the outcome of a branch condition that compares two constants (possible under AssumeField).
func (f *Frame) foldCond(c ssa.Value) (bool, bool) {
	cmp, ok := c.(*ssa.BinOp)
	if !ok {
		return false, false
	}
	x, ok1 := f.eval(cmp.X).(IntV)
	y, ok2 := f.eval(cmp.Y).(IntV)
	if !ok1 || !ok2 || !x.L.IsConst() || !y.L.IsConst() {
		return false, false
	}
	a, b := x.L.C, y.L.C
	switch cmp.Op {
	case token.EQL:
		return a == b, true
	case token.NEQ:
		return a != b, true
	case token.LSS:
		return a < b, true
	case token.LEQ:
		return a <= b, true
	case token.GTR:
		return a > b, true
	case token.GEQ:
		return a >= b, true
	}
	return false, false
}

// deadEdge: the edge p -> b is never taken (its branch condition folds the other way) or p is dead.
func (f *Frame) deadEdge(p, b *ssa.BasicBlock) bool {
	if f.dead(p) {
		return true
	}
	if iff, ok := p.Instrs[len(p.Instrs)-1].(*ssa.If); ok && p.Succs[0] != p.Succs[1] {
		if v, known := f.foldCond(iff.Cond); known {
			taken := p.Succs[1]
			if v {
				taken = p.Succs[0]
			}
			return taken != b
		}
	}
	return false
}

// dead: every edge into b is dead (decided along the dominator tree; loops keep their header alive
// through the entry edge).
func (f *Frame) dead(b *ssa.BasicBlock) bool {
	if f.e.AssumeField == nil || b == f.fn.Blocks[0] {
		return false
	}
	switch f.deadMem[b] {
	case 1:
		return false
	case 2:
		return true
	}
	f.deadMem[b] = 1 // provisional (cycles): alive
	all := len(b.Preds) > 0
	for _, p := range b.Preds {
		if b.Dominates(p) {
			continue // back edge: does not make the header reachable on its own
		}
		if !f.deadEdge(p, b) {
			all = false
			break
		}
	}
	if all {
		f.deadMem[b] = 2
		return true
	}
	return false
}


// iteLin: els + ite(cond, then-els, 0), with the condition negated when that makes the variable part
// non-negative (a constant negative difference), so that sums of such terms stay sums of non-negative terms.
func iteLin(op string, x, y, then, els Lin) Lin {
	diff := then.Sub(els)
	if diff.IsConst() && diff.C == 0 {
		return els
	}
	if diff.IsConst() && diff.C < 0 {
		neg := map[string]string{"==": "!=", "!=": "==", "<": ">=", ">=": "<", "<=": ">", ">": "<="}
		if n, ok := neg[op]; ok {
			return then.Add(AtomLin(Ite{n, x, y, diff.Scale(-1), Const(0)}))
		}
	}
	return els.Add(AtomLin(Ite{op, x, y, diff, Const(0)}))
}

// mergeArms: the values va (reaching block `to` through predecessor pa) and vb (through pb) as one
// if-then-else on the comparison that separates pa from pb.
func (f *Frame) mergeArms(pa *ssa.BasicBlock, va Lin, pb *ssa.BasicBlock, vb Lin, to *ssa.BasicBlock) (Lin, bool) {
	if pa == nil || pb == nil {
		return Lin{}, false
	}
	// nearest block that dominates both predecessors
	d := pa
	for d != nil && !(d == pb || d.Dominates(pb)) {
		d = d.Idom()
	}
	if d == nil || len(d.Instrs) == 0 {
		return Lin{}, false
	}
	iff, ok := d.Instrs[len(d.Instrs)-1].(*ssa.If)
	if !ok {
		return Lin{}, false
	}
	cmp, ok := iff.Cond.(*ssa.BinOp)
	if !ok {
		return Lin{}, false
	}
	switch cmp.Op {
	case token.EQL, token.NEQ, token.LSS, token.LEQ, token.GTR, token.GEQ:
	default:
		return Lin{}, false
	}
	x, ok1 := f.eval(cmp.X).(IntV)
	y, ok2 := f.eval(cmp.Y).(IntV)
	if !ok1 || !ok2 {
		return Lin{}, false
	}
	xl, okx := f.resolveLin(x.L)
	yl, oky := f.resolveLin(y.L)
	if !okx || !oky {
		return Lin{}, false
	}
	side := func(p *ssa.BasicBlock) int {
		t, e := d.Succs[0], d.Succs[1]
		switch {
		case p == d && t == to:
			return 0
		case p == d && e == to:
			return 1
		case t != to && (t == p || t.Dominates(p)) && len(t.Preds) == 1:
			return 0
		case e != to && (e == p || e.Dominates(p)) && len(e.Preds) == 1:
			return 1
		}
		return -1
	}
	sa, sb := side(pa), side(pb)
	if sa < 0 || sb < 0 || sa == sb {
		return Lin{}, false
	}
	then, els := va, vb
	if sa == 1 {
		then, els = vb, va
	}
	return iteLin(cmp.Op.String(), xl, yl, then, els), true
}

// iteOf: a two-way merge of integers controlled by a comparison of symbolic integers.
func (f *Frame) iteOf(phi *ssa.Phi) Val {
	b := phi.Block()
	if len(phi.Edges) != 2 {
		return TopV{}
	}
	if _, ok := intType(phi.Type()); !ok {
		return TopV{}
	}
	d := b.Idom()
	if d == nil || len(d.Instrs) == 0 {
		return TopV{}
	}
	iff, ok := d.Instrs[len(d.Instrs)-1].(*ssa.If)
	if !ok {
		return TopV{}
	}
	cmp, ok := iff.Cond.(*ssa.BinOp)
	if !ok {
		return TopV{}
	}
	switch cmp.Op {
	case token.EQL, token.NEQ, token.LSS, token.LEQ, token.GTR, token.GEQ:
	default:
		return TopV{}
	}
	x, ok1 := f.eval(cmp.X).(IntV)
	y, ok2 := f.eval(cmp.Y).(IntV)
	if !ok1 || !ok2 {
		return TopV{}
	}
	t, e := d.Succs[0], d.Succs[1]
	side := func(p *ssa.BasicBlock) int {
		switch {
		case p == d && t == b:
			return 0
		case p == d && e == b:
			return 1
		case t != b && t.Dominates(p):
			return 0
		case e != b && e.Dominates(p):
			return 1
		}
		return -1
	}
	s0, s1 := side(b.Preds[0]), side(b.Preds[1])
	if s0 < 0 || s1 < 0 || s0 == s1 {
		return TopV{}
	}
	v0, okA := f.eval(phi.Edges[0]).(IntV)
	v1, okB := f.eval(phi.Edges[1]).(IntV)
	if !okA || !okB {
		return TopV{}
	}
	then, els := v0.L, v1.L
	if s0 == 1 {
		then, els = v1.L, v0.L
	}
	// normal form: the common part is pulled out, Else + ite(cond, Then-Else, 0), so that an accumulator
	// updated in both arms (n++ / n += 2) keeps a unit coefficient
	return IntV{iteLin(cmp.Op.String(), x.L, y.L, then, els)}
}

func linOf(v Val) (Lin, bool) {
	switch x := v.(type) {
	case IntV:
		return x.L, true
	case SliceV:
		return x.Len, true
	}
	return Lin{}, false
}

// solve gives the closed form of an accumulator phi inside its loop: init + Σ_{j<index} Δ[j].
func (f *Frame) solve(phi *ssa.Phi) (Lin, bool) {
	if v, ok := f.sol[phi]; ok {
		l, ok := linOf(v)
		return l, ok
	}
	if f.solving[phi] {
		return Lin{}, false
	}
	f.solving[phi] = true
	defer func() { f.solving[phi] = false }()
	fail := func() (Lin, bool) { f.sol[phi] = TopV{}; return Lin{}, false }
	li := f.byHead[phi.Block()]
	if li == nil || !li.ok {
		return fail()
	}
	var init, delta *Lin
	var deltaPred *ssa.BasicBlock
	self := Acc{phi}.key(nil)
	for i, pred := range phi.Block().Preds {
		if li.blocks[pred] && f.deadEdge(pred, phi.Block()) {
			continue // a latch that is unreachable under the assumed field values
		}
		l, ok := linOf(f.eval(phi.Edges[i]))
		if !ok {
			return fail()
		}
		if li.blocks[pred] {
			t, has := l.T[self]
			if !has || t.K != 1 {
				return fail()
			}
			d := l.Sub(AtomLin(Acc{phi}))
			d, ok = f.resolveLin(d)
			if !ok {
				return fail()
			}
			if delta != nil && !delta.Equal(d) {
				// two latches with different steps: the two arms of a branch on a comparison
				m, okm := f.mergeArms(deltaPred, *delta, pred, d, phi.Block())
				if !okm {
					return fail()
				}
				d = m
			}
			delta, deltaPred = &d, pred
		} else {
			l, ok = f.resolveLin(l)
			if !ok {
				return fail()
			}
			if init != nil && !init.Equal(l) {
				return fail()
			}
			init = &l
		}
	}
	if init == nil || delta == nil {
		return fail()
	}
	res := *init
	f.delta[phi] = *delta
	res = res.Add(mkPrefix(li.id, *delta))
	f.sol[phi] = IntV{res}
	return res, true
}

func (f *Frame) resolveLin(l Lin) (Lin, bool) {
	ok := true
	r := l.mapAtoms(func(a Atom) Lin {
		if acc, isAcc := a.(Acc); isAcc {
			s, good := f.solve(acc.Phi)
			if !good {
				ok = false
				return Lin{}
			}
			return s
		}
		return AtomLin(a)
	})
	return r, ok
}

// resolve replaces the placeholders of loop-header phis by their closed forms.
func (f *Frame) resolve(v Val) Val {
	switch x := v.(type) {
	case IntV:
		l, ok := f.resolveLin(x.L)
		if !ok {
			return TopV{}
		}
		return IntV{l}
	case SliceV:
		l, ok := f.resolveLin(x.Len)
		if !ok {
			return TopV{}
		}
		x.Len = l
		return x
	case StrV:
		l, ok := f.resolveLin(x.Len)
		if !ok {
			return TopV{}
		}
		return StrV{l}
	}
	return v
}

// mkPrefix / mkSum build Σ terms in normal form: the part of the body that does not depend on the
// bound index is multiplied out (Σ_{j<n} (c + v(j)) = c*n + Σ_{j<n} v(j)), so that a closed form and a
// loop have the same key.
func splitBody(body Lin, id int) (constPart int64, rest Lin) {
	rest = Const(0)
	constPart = body.C
	for _, k := range body.sorted() {
		t := body.T[k]
		rest = rest.Add(AtomLin(t.A).Scale(t.K))
	}
	return
}

func mkPrefix(id int, body Lin) Lin {
	c, rest := splitBody(body, id)
	out := AtomLin(Idx{id}).Scale(c)
	if len(rest.T) > 0 {
		out = out.Add(AtomLin(Prefix{id, rest}))
	}
	return out
}

func mkSum(count Lin, id int, body Lin) Lin {
	c, rest := splitBody(body, id)
	out := count.Scale(c)
	if len(rest.T) > 0 {
		out = out.Add(AtomLin(Sum{count, id, rest}))
	}
	return out
}

// exitLin rewrites l for a program point after the normal exit of loop li: a prefix sum over the
// loop becomes the full sum; any other dependency on the loop's index makes the value unknown.
func exitLin(l Lin, li *loopInfo) (Lin, bool) {
	ok := true
	var rec func(l Lin) Lin
	rec = func(l Lin) Lin {
		r := Const(l.C)
		for _, k := range l.sorted() {
			t := l.T[k]
			var repl Lin
			switch x := t.A.(type) {
			case Idx:
				if x.ID == li.id {
					repl = li.count // after the normal exit the index equals the trip count
				} else {
					repl = AtomLin(x)
				}
			case Prefix:
				if x.ID == li.id {
					repl = mkSum(li.count, li.id, x.Body)
				} else {
					repl = AtomLin(Prefix{x.ID, rec(x.Body)})
				}
			case Sum:
				if x.ID == li.id {
					repl = AtomLin(x)
				} else {
					repl = AtomLin(Sum{rec(x.Count), x.ID, rec(x.Body)})
				}
			case Op:
				args := make([]Lin, len(x.Args))
				for i, a := range x.Args {
					args[i] = rec(a)
				}
				repl = AtomLin(Op{x.Name, args})
			case App:
				args := make([]Arg, len(x.Args))
				for i, a := range x.Args {
					args[i] = a
					if !a.IsPath {
						args[i].L = rec(a.L)
					}
				}
				repl = AtomLin(App{x.Fn, x.Res, args})
			case Ite:
				repl = AtomLin(Ite{x.Op, rec(x.X), rec(x.Y), rec(x.Then), rec(x.Else)})
			default:
				repl = AtomLin(t.A)
			}
			r = r.Add(repl.Scale(t.K))
		}
		return r
	}
	out := rec(l)
	ids := map[int]bool{}
	out.freeIDs(ids)
	if ids[li.id] {
		ok = false
	}
	return out, ok
}

// at adapts a value to a use in block b: loops whose normal exit dominates b have finished.
func (f *Frame) at(v Val, b *ssa.BasicBlock) Val {
	l, ok := linOf(v)
	if !ok {
		if s, isStr := v.(StrV); isStr {
			l = s.Len
		} else {
			return v
		}
	}
	for iter := 0; iter < 8; iter++ {
		ids := map[int]bool{}
		l.freeIDs(ids)
		changed := false
		for id := range ids {
			li := f.e.loops[id]
			if li == nil || li.header.Parent() != f.fn || li.exit == nil {
				continue
			}
			if !(li.exit == b || li.exit.Dominates(b)) {
				continue
			}
			nl, good := exitLin(l, li)
			if !good {
				return TopV{}
			}
			l = nl
			changed = true
		}
		if !changed {
			break
		}
	}
	switch x := v.(type) {
	case IntV:
		return IntV{l}
	case SliceV:
		x.Len = l
		return x
	case StrV:
		return StrV{l}
	}
	return v
}

// ---------------------------------------------------------------- errors

// usedOnlyAfterNilCheck: every use of the call result x is dominated by the nil edge of a test of
// the call's error result.
func (f *Frame) usedOnlyAfterNilCheck(x *ssa.Extract, call *ssa.Call, errIdx int) bool {
	nilBlocks := f.nilEdgeBlocks(call, errIdx, true)
	if len(nilBlocks) == 0 {
		return false
	}
	dominated := func(b *ssa.BasicBlock) bool {
		for _, nb := range nilBlocks {
			if nb == b || nb.Dominates(b) {
				return true
			}
		}
		return false
	}
	for _, ref := range *x.Referrers() {
		if _, ok := ref.(*ssa.DebugRef); ok {
			continue
		}
		if phi, ok := ref.(*ssa.Phi); ok {
			for i, e := range phi.Edges {
				if e == ssa.Value(x) && !dominated(phi.Block().Preds[i]) {
					return false
				}
			}
			continue
		}
		if !dominated(ref.Block()) {
			return false
		}
	}
	return true
}

// nilEdgeBlocks: the successor blocks (with a single predecessor) entered exactly when the error
// result of call is nil (wantNil) or non-nil.
func (f *Frame) nilEdgeBlocks(call *ssa.Call, errIdx int, wantNil bool) []*ssa.BasicBlock {
	var out []*ssa.BasicBlock
	for _, ref := range *call.Referrers() {
		ex, ok := ref.(*ssa.Extract)
		if !ok || ex.Index != errIdx {
			continue
		}
		for _, r2 := range *ex.Referrers() {
			cmp, ok := r2.(*ssa.BinOp)
			if !ok || (cmp.Op != token.NEQ && cmp.Op != token.EQL) {
				continue
			}
			other := cmp.Y
			if other == ssa.Value(ex) {
				other = cmp.X
			}
			if c, ok := other.(*ssa.Const); !ok || c.Value != nil {
				continue
			}
			for _, r3 := range *cmp.Referrers() {
				iff, ok := r3.(*ssa.If)
				if !ok {
					continue
				}
				// NEQ: Succs[0] non-nil, Succs[1] nil; EQL: the reverse
				nilSucc := 1
				if cmp.Op == token.EQL {
					nilSucc = 0
				}
				s := iff.Block().Succs[nilSucc]
				if !wantNil {
					s = iff.Block().Succs[1-nilSucc]
				}
				if len(s.Preds) == 1 {
					out = append(out, s)
				}
			}
		}
	}
	return out
}

// errAt: 1 = the error value v is nil at block b, 2 = non-nil, 0 = unknown.
func (f *Frame) errAt(v ssa.Value, b *ssa.BasicBlock, depth int) int {
	if depth > 6 {
		return 0
	}
	switch x := v.(type) {
	case *ssa.Const:
		if x.Value == nil {
			return 1
		}
	case *ssa.MakeInterface:
		return 2
	case *ssa.UnOp:
		if g, ok := x.X.(*ssa.Global); ok && x.Op == token.MUL && isErrorType(x.Type()) && strings.HasPrefix(g.Name(), "err") {
			return 2 // package-level error values are initialised once with errors.New
		}
	case *ssa.Call:
		if fn := x.Common().StaticCallee(); fn != nil {
			switch fn.String() {
			case "errors.New", "fmt.Errorf":
				return 2
			}
		}
	case *ssa.Extract:
		call, ok := x.Tuple.(*ssa.Call)
		if !ok {
			return 0
		}
		for _, nb := range f.nilEdgeBlocks(call, x.Index, true) {
			if nb == b || nb.Dominates(b) {
				return 1
			}
		}
		for _, nb := range f.nilEdgeBlocks(call, x.Index, false) {
			if nb == b || nb.Dominates(b) {
				return 2
			}
		}
		if tv, ok := f.eval(call).(TupleV); ok && tv.ErrIdx == x.Index {
			return tv.ErrNil
		}
	case *ssa.Phi:
		out := -1
		for i, e := range x.Edges {
			n := f.errAt(e, x.Block().Preds[i], depth+1)
			if out == -1 {
				out = n
			} else if out != n {
				return 0
			}
		}
		if out > 0 {
			return out
		}
	}
	return 0
}

// ---------------------------------------------------------------- calls

func (f *Frame) evalCall(call *ssa.Call) Val {
	c := call.Common()
	if c.IsInvoke() {
		return TopV{}
	}
	if b, ok := c.Value.(*ssa.Builtin); ok {
		switch b.Name() {
		case "len":
			switch a := f.eval(c.Args[0]).(type) {
			case SliceV:
				return IntV{a.Len}
			case StrV:
				return IntV{a.Len}
			}
		case "append":
			a, ok1 := f.eval(c.Args[0]).(SliceV)
			if !ok1 {
				return TopV{}
			}
			if len(c.Args) == 1 {
				return SliceV{Len: a.Len}
			}
			switch s := f.eval(c.Args[1]).(type) {
			case SliceV:
				return SliceV{Len: a.Len.Add(s.Len)}
			case StrV:
				return SliceV{Len: a.Len.Add(s.Len)}
			}
		}
		return TopV{}
	}
	fn := c.StaticCallee()
	if fn == nil || fn.Blocks == nil || fn.Pkg != f.e.Pkg {
		return TopV{}
	}
	args := make([]Val, len(c.Args))
	for i, a := range c.Args {
		args[i] = f.at(f.resolve(f.eval(a)), call.Block())
		if _, isRef := args[i].(RefV); isRef {
			args[i] = TopV{} // pointer to a local scalar: not tracked across the call
		}
	}
	res := f.e.evalFunc(fn, args, f.depth+1)
	nres := fn.Signature.Results().Len()
	if nres == 0 {
		return TopV{}
	}
	nilV := make([]Val, nres)
	allV := make([]Val, nres)
	for i := 0; i < nres; i++ {
		nilV[i], allV[i] = TopV{}, TopV{}
		if i < len(res.Nil) {
			nilV[i] = res.Nil[i]
		}
		if i < len(res.All) {
			allV[i] = res.All[i]
		}
		// an effect-free function of symbolic arguments is an uninterpreted application
		if _, isInt := intType(fn.Signature.Results().At(i).Type()); isInt && (isTop(nilV[i]) || isTop(allV[i])) && f.e.Pure != nil && f.e.Pure(fn) {
			if app, ok := appOf(fn, i, args); ok {
				if isTop(nilV[i]) {
					nilV[i] = IntV{AtomLin(app)}
				}
				if isTop(allV[i]) {
					allV[i] = IntV{AtomLin(app)}
				}
			}
		}
	}
	if nres == 1 {
		return allV[0]
	}
	return TupleV{Nil: nilV, All: allV, ErrIdx: res.ErrIdx, ErrNil: res.ErrNil}
}

func appOf(fn *ssa.Function, res int, args []Val) (App, bool) {
	out := App{Fn: fn, Res: res}
	for _, a := range args {
		switch x := a.(type) {
		case IntV:
			out.Args = append(out.Args, Arg{L: x.L})
		case LocV:
			out.Args = append(out.Args, Arg{IsPath: true, P: x.P})
		default:
			return out, false
		}
	}
	return out, true
}
