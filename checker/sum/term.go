// Package sum (engine E3) is a symbolic evaluator for sizes: it evaluates the integer results and
// the lengths of the slice results of encoder functions as linear combinations of symbolic atoms —
// len(receiver.List), Σ over the elements of a list of a per-element term, prefix sums of such a
// term inside the loop, applications of effect-free functions to symbolic arguments — and decides
// identities and prefix-sum inequalities between them by normal form. Nothing is executed: the
// evaluator walks the SSA of the functions (accumulator loops are solved in closed form) and the
// comparison is a comparison of canonical keys (bound variables are renamed by nesting depth).
package sum

import (
	"fmt"
	"sort"
	"strings"

	"golang.org/x/tools/go/ssa"
)

// PathElem is a selector of an access path: a field (".Name") or an element index bound to a loop.
type PathElem struct {
	S  string
	ID int // >0: index variable of loop ID
}

// Path is an access path from a root ("r" is the receiver).
type Path []PathElem

func (p Path) with(e PathElem) Path {
	q := make(Path, len(p)+1)
	copy(q, p)
	q[len(p)] = e
	return q
}

func (p Path) key(ren map[int]string) string {
	var b strings.Builder
	for _, e := range p {
		if e.ID > 0 {
			if s, ok := ren[e.ID]; ok {
				b.WriteString("[" + s + "]")
			} else {
				fmt.Fprintf(&b, "[#%d]", e.ID)
			}
			continue
		}
		b.WriteString(e.S)
	}
	return b.String()
}

// Atom is a symbolic quantity.
type Atom interface {
	key(ren map[int]string) string
}

type (
	// LenOf is len(P) of a slice or string at path P.
	LenOf struct{ P Path }
	// FieldVal is the integer stored at path P.
	FieldVal struct {
		P        Path
		Unsigned bool
	}
	// Idx is the current element index of loop ID.
	Idx struct{ ID int }
	// Acc is the not yet solved value of a loop-header phi.
	Acc struct{ Phi *ssa.Phi }
	// Prefix is Σ_{j < current index of loop ID} Body[j].
	Prefix struct {
		ID   int
		Body Lin
	}
	// Sum is Σ_{j=0}^{Count-1} Body[j], j bound as the index variable ID.
	Sum struct {
		Count Lin
		ID    int
		Body  Lin
	}
	// Op is an uninterpreted arithmetic operation.
	Op struct {
		Name string
		Args []Lin
	}
	// Ite is a value that depends on a comparison of two symbolic integers: Then if X Op Y, else Else.
	Ite struct {
		Op         string
		X, Y       Lin
		Then, Else Lin
	}
	// App is the application of an effect-free function to symbolic arguments.
	App struct {
		Fn   *ssa.Function
		Res  int
		Args []Arg
	}
)

// Arg is an argument of App: a path (struct or pointer argument) or a number.
type Arg struct {
	IsPath bool
	P      Path
	L      Lin
}

func withRen(ren map[int]string, id int) map[int]string {
	n := make(map[int]string, len(ren)+1)
	for k, v := range ren {
		n[k] = v
	}
	n[id] = fmt.Sprintf("@%d", len(ren))
	return n
}

func (a LenOf) key(ren map[int]string) string { return "len(" + a.P.key(ren) + ")" }
func (a FieldVal) key(ren map[int]string) string { return "val(" + a.P.key(ren) + ")" }
func (a Idx) key(ren map[int]string) string {
	if s, ok := ren[a.ID]; ok {
		return "idx(" + s + ")"
	}
	return fmt.Sprintf("idx(#%d)", a.ID)
}
func (a Acc) key(ren map[int]string) string { return fmt.Sprintf("acc(%s@%p)", a.Phi.Name(), a.Phi) }
func (a Prefix) key(ren map[int]string) string {
	cur := fmt.Sprintf("#%d", a.ID)
	if s, ok := ren[a.ID]; ok {
		cur = s
	}
	return "pre(<" + cur + ";" + a.Body.key(withRen(ren, a.ID)) + ")"
}
func (a Sum) key(ren map[int]string) string {
	return "sum(" + a.Count.key(ren) + ";" + a.Body.key(withRen(ren, a.ID)) + ")"
}
func (a Op) key(ren map[int]string) string {
	s := make([]string, len(a.Args))
	for i, x := range a.Args {
		s[i] = x.key(ren)
	}
	return a.Name + "(" + strings.Join(s, ",") + ")"
}
func (a Ite) key(ren map[int]string) string {
	return "ite(" + a.X.key(ren) + a.Op + a.Y.key(ren) + "?" + a.Then.key(ren) + ":" + a.Else.key(ren) + ")"
}
func (a App) key(ren map[int]string) string {
	s := make([]string, len(a.Args))
	for i, x := range a.Args {
		if x.IsPath {
			s[i] = x.P.key(ren)
		} else {
			s[i] = x.L.key(ren)
		}
	}
	return fmt.Sprintf("%s#%d(%s)", a.Fn.String(), a.Res, strings.Join(s, ","))
}

// Term is coefficient * atom.
type Term struct {
	A Atom
	K int64
}

// Lin is C + Σ K_i * A_i.
type Lin struct {
	C int64
	T map[string]Term // by raw key
}

func Const(c int64) Lin { return Lin{C: c} }

func AtomLin(a Atom) Lin { return Lin{T: map[string]Term{a.key(nil): {a, 1}}} }

func (l Lin) IsConst() bool { return len(l.T) == 0 }

func (l Lin) Add(o Lin) Lin {
	r := Lin{C: l.C + o.C, T: map[string]Term{}}
	for k, t := range l.T {
		r.T[k] = t
	}
	for k, t := range o.T {
		if x, ok := r.T[k]; ok {
			x.K += t.K
			if x.K == 0 {
				delete(r.T, k)
			} else {
				r.T[k] = x
			}
		} else {
			r.T[k] = t
		}
	}
	return r
}

func (l Lin) Scale(k int64) Lin {
	if k == 0 {
		return Lin{}
	}
	r := Lin{C: l.C * k, T: map[string]Term{}}
	for key, t := range l.T {
		t.K *= k
		r.T[key] = t
	}
	return r
}

func (l Lin) Sub(o Lin) Lin { return l.Add(o.Scale(-1)) }

func (l Lin) sorted() []string {
	ks := make([]string, 0, len(l.T))
	for k := range l.T {
		ks = append(ks, k)
	}
	sort.Strings(ks)
	return ks
}

func (l Lin) key(ren map[int]string) string {
	parts := make([]string, 0, len(l.T)+1)
	for _, t := range l.T {
		parts = append(parts, fmt.Sprintf("%d*%s", t.K, t.A.key(ren)))
	}
	sort.Strings(parts)
	if l.C != 0 || len(parts) == 0 {
		parts = append(parts, fmt.Sprint(l.C))
	}
	return strings.Join(parts, "+")
}

// Key is the canonical form (alpha-normalised).
func (l Lin) Key() string { return l.key(nil) }

func (l Lin) String() string { return l.key(nil) }

func (l Lin) Equal(o Lin) bool { return l.key(nil) == o.key(nil) }

// mapAtoms rebuilds l with every atom (recursively, innermost first) replaced by f(atom).
func (l Lin) mapAtoms(f func(Atom) Lin) Lin {
	r := Const(l.C)
	for _, k := range l.sorted() {
		t := l.T[k]
		var a Atom
		switch x := t.A.(type) {
		case Prefix:
			a = Prefix{x.ID, x.Body.mapAtoms(f)}
		case Sum:
			a = Sum{x.Count.mapAtoms(f), x.ID, x.Body.mapAtoms(f)}
		case Op:
			args := make([]Lin, len(x.Args))
			for i, y := range x.Args {
				args[i] = y.mapAtoms(f)
			}
			a = Op{x.Name, args}
		case App:
			args := make([]Arg, len(x.Args))
			for i, y := range x.Args {
				args[i] = y
				if !y.IsPath {
					args[i].L = y.L.mapAtoms(f)
				}
			}
			a = App{x.Fn, x.Res, args}
		case Ite:
			a = Ite{x.Op, x.X.mapAtoms(f), x.Y.mapAtoms(f), x.Then.mapAtoms(f), x.Else.mapAtoms(f)}
		default:
			a = t.A
		}
		r = r.Add(f(a).Scale(t.K))
	}
	return r
}

func pathIDs(p Path, out map[int]bool) {
	for _, e := range p {
		if e.ID > 0 {
			out[e.ID] = true
		}
	}
}

// freeIDs collects the loop index variables l depends on (not bound by an enclosing Sum).
func (l Lin) freeIDs(out map[int]bool) {
	for _, t := range l.T {
		switch x := t.A.(type) {
		case LenOf:
			pathIDs(x.P, out)
		case FieldVal:
			pathIDs(x.P, out)
		case Idx:
			out[x.ID] = true
		case Prefix:
			inner := map[int]bool{}
			x.Body.freeIDs(inner)
			delete(inner, x.ID)
			for k := range inner {
				out[k] = true
			}
			out[x.ID] = true
		case Sum:
			x.Count.freeIDs(out)
			inner := map[int]bool{}
			x.Body.freeIDs(inner)
			delete(inner, x.ID)
			for k := range inner {
				out[k] = true
			}
		case Op:
			for _, a := range x.Args {
				a.freeIDs(out)
			}
		case Ite:
			x.X.freeIDs(out)
			x.Y.freeIDs(out)
			x.Then.freeIDs(out)
			x.Else.freeIDs(out)
		case App:
			for _, a := range x.Args {
				if a.IsPath {
					pathIDs(a.P, out)
				} else {
					a.L.freeIDs(out)
				}
			}
		}
	}
}

func (l Lin) hasAcc() bool {
	found := false
	l.mapAtoms(func(a Atom) Lin {
		if _, ok := a.(Acc); ok {
			found = true
		}
		return AtomLin(a)
	})
	return found
}

// renameID replaces the index variable `from` by `to` everywhere in l (free occurrences).
func renameID(l Lin, from, to int) Lin {
	rp := func(p Path) Path {
		q := make(Path, len(p))
		copy(q, p)
		for i := range q {
			if q[i].ID == from {
				q[i].ID = to
			}
		}
		return q
	}
	r := Const(l.C)
	for _, k := range l.sorted() {
		t := l.T[k]
		var a Atom
		switch x := t.A.(type) {
		case LenOf:
			a = LenOf{rp(x.P)}
		case FieldVal:
			a = FieldVal{rp(x.P), x.Unsigned}
		case Idx:
			if x.ID == from {
				a = Idx{to}
			} else {
				a = x
			}
		case Prefix:
			if x.ID == from {
				a = x
			} else {
				a = Prefix{x.ID, renameID(x.Body, from, to)}
			}
		case Sum:
			if x.ID == from {
				a = x
			} else {
				a = Sum{renameID(x.Count, from, to), x.ID, renameID(x.Body, from, to)}
			}
		case Op:
			args := make([]Lin, len(x.Args))
			for i, y := range x.Args {
				args[i] = renameID(y, from, to)
			}
			a = Op{x.Name, args}
		case Ite:
			a = Ite{x.Op, renameID(x.X, from, to), renameID(x.Y, from, to), renameID(x.Then, from, to), renameID(x.Else, from, to)}
		case App:
			args := make([]Arg, len(x.Args))
			for i, y := range x.Args {
				args[i] = y
				if y.IsPath {
					args[i].P = rp(y.P)
				} else {
					args[i].L = renameID(y.L, from, to)
				}
			}
			a = App{x.Fn, x.Res, args}
		default:
			a = t.A
		}
		r = r.Add(AtomLin(a).Scale(t.K))
	}
	return r
}
