// Package effects is a flow-insensitive alias/effect analysis over go/ssa:
// for every function and every "root" (parameter incl. receiver, free
// variable, the package's globals) it computes whether the function may write
// through memory reachable from the root, and whether its results may alias
// the root. The facts hold for every execution, schedule and call history.
package effects

import (
	"fmt"
	"go/token"
	"go/types"
	"sort"
	"strings"

	"golang.org/x/tools/go/callgraph"
	"golang.org/x/tools/go/ssa"
)

// bitset over roots and local allocations of one function.
type Bits []uint64
type bits = Bits

func (b Bits) Has(i int) bool { return b.has(i) }
func (b Bits) Empty() bool    { return b.empty() }

func (b bits) has(i int) bool { return i/64 < len(b) && b[i/64]&(1<<(uint(i)%64)) != 0 }
func (b *bits) set(i int) bool {
	for i/64 >= len(*b) {
		*b = append(*b, 0)
	}
	if (*b)[i/64]&(1<<(uint(i)%64)) != 0 {
		return false
	}
	(*b)[i/64] |= 1 << (uint(i) % 64)
	return true
}
func (b *bits) or(o bits) bool {
	ch := false
	for i, w := range o {
		for i >= len(*b) {
			*b = append(*b, 0)
		}
		if (*b)[i]|w != (*b)[i] {
			(*b)[i] |= w
			ch = true
		}
	}
	return ch
}
func (b bits) empty() bool {
	for _, w := range b {
		if w != 0 {
			return false
		}
	}
	return true
}

// Site of a write-through.
type Site struct {
	Pos    token.Pos
	Fn     *ssa.Function
	Instr  ssa.Instruction
	What   string // "store", "copy dst", "append dst", "PutUint32", "call f (param k)", ...
	Path   string // field path of a direct store relative to the pointer ("XRHeader.BlockType"), "" otherwise
	Callee *ssa.Function
}

// Summary of one function. Root numbering: 0..nparams-1 = Params (receiver
// first), then FreeVars, then GlobalRoot.
type Summary struct {
	Fn        *ssa.Function
	NParams   int
	NRoots    int      // params + freevars + 1 (globals)
	Writes    [][]Site // per root: sites that may write through it
	RetAlias  []Bits   // per result index: roots the result may alias
	RetFresh  []bool   // per result: only fresh allocations / constants flow to it
	Undecided []Site   // calls with unknown effects on tainted arguments
	Forbidden []Site   // go statements, channel ops, map range, unsafe, forbidden packages
	// Retain[k] = roots j != k such that a pointer-carrying value derived from root j may be stored
	// into memory reachable through root k (the callee makes k's memory refer to j's memory).
	Retain      []Bits
	RetainSites map[[2]int][]Site
}

// Retains reports whether memory of root k may end up referring to memory of root j.
func (s *Summary) Retains(k, j int) bool { return k < len(s.Retain) && s.Retain[k].Has(j) }

func (s *Summary) GlobalRoot() int { return s.NRoots - 1 }

// WritesThrough reports whether root k may be written through.
func (s *Summary) WritesThrough(k int) bool { return k < len(s.Writes) && len(s.Writes[k]) > 0 }

type Analysis struct {
	Pkg     *ssa.Package
	Funcs   []*ssa.Function
	Sum     map[*ssa.Function]*Summary
	callees map[ssa.CallInstruction][]*ssa.Function
	// ReflectCallTargets: if non-nil, (reflect.Value).Call is modelled as a call
	// of any of these methods on its receiver (the client has verified that the
	// only reflective call is MethodByName("String").Call(nil)).
	ReflectCallTargets []*ssa.Function
}

func hasPointers(t types.Type) bool {
	switch u := t.Underlying().(type) {
	case *types.Basic:
		return u.Kind() == types.UnsafePointer || u.Kind() == types.String && false
	case *types.Pointer, *types.Slice, *types.Map, *types.Interface, *types.Chan, *types.Signature:
		return true
	case *types.Struct:
		for i := 0; i < u.NumFields(); i++ {
			if hasPointers(u.Field(i).Type()) {
				return true
			}
		}
		return false
	case *types.Array:
		return hasPointers(u.Elem())
	case *types.Tuple:
		for i := 0; i < u.Len(); i++ {
			if hasPointers(u.At(i).Type()) {
				return true
			}
		}
		return false
	}
	return true
}

// New computes summaries for funcs to a fixpoint.
func New(pkg *ssa.Package, funcs []*ssa.Function, cg *callgraph.Graph, reflectTargets []*ssa.Function) *Analysis {
	a := &Analysis{Pkg: pkg, Sum: map[*ssa.Function]*Summary{}, callees: map[ssa.CallInstruction][]*ssa.Function{}, ReflectCallTargets: reflectTargets}
	// add the synthetic wrappers / bound-method thunks of the package's methods
	// that the call graph knows (interface calls resolve to them)
	funcs = append([]*ssa.Function(nil), funcs...) // never modify the caller's slice
	seen := map[*ssa.Function]bool{}
	for _, fn := range funcs {
		seen[fn] = true
	}
	for fn := range cg.Nodes {
		if fn == nil || seen[fn] || len(fn.Blocks) == 0 || fn.Synthetic == "" {
			continue
		}
		if recv := fn.Signature.Recv(); recv != nil {
			t := recv.Type()
			if p, ok := t.(*types.Pointer); ok {
				t = p.Elem()
			}
			if n, ok := t.(*types.Named); ok && n.Obj().Pkg() == pkg.Pkg {
				funcs = append(funcs, fn)
				seen[fn] = true
			}
		}
	}
	sort.SliceStable(funcs, func(i, j int) bool { return funcs[i].String() < funcs[j].String() })
	a.Funcs = funcs
	for _, fn := range funcs {
		if n := cg.Nodes[fn]; n != nil {
			for _, e := range n.Out {
				if e.Site != nil {
					a.callees[e.Site] = append(a.callees[e.Site], e.Callee.Func)
				}
			}
		}
	}
	for _, fn := range funcs {
		a.Sum[fn] = newSummary(fn)
	}
	for iter := 0; iter < 50; iter++ {
		changed := false
		for _, fn := range funcs {
			ns := a.analyze(fn)
			if !sameSummary(a.Sum[fn], ns) {
				changed = true
			}
			a.Sum[fn] = ns
		}
		if !changed {
			break
		}
	}
	return a
}

func newSummary(fn *ssa.Function) *Summary {
	np := len(fn.Params)
	nr := np + len(fn.FreeVars) + 1
	nres := fn.Signature.Results().Len()
	s := &Summary{Fn: fn, NParams: np, NRoots: nr, Writes: make([][]Site, nr), RetAlias: make([]bits, nres), RetFresh: make([]bool, nres),
		Retain: make([]Bits, nr), RetainSites: map[[2]int][]Site{}}
	for i := range s.RetFresh {
		s.RetFresh[i] = true
	}
	return s
}

func sameSummary(a, b *Summary) bool {
	if len(a.Undecided) != len(b.Undecided) || len(a.Forbidden) != len(b.Forbidden) {
		return false
	}
	for i := range a.Writes {
		if len(a.Writes[i]) != len(b.Writes[i]) {
			return false
		}
	}
	for i := range a.Retain {
		if fmt.Sprint(a.Retain[i]) != fmt.Sprint(b.Retain[i]) {
			return false
		}
	}
	for i := range a.RetAlias {
		if fmt.Sprint(a.RetAlias[i]) != fmt.Sprint(b.RetAlias[i]) || a.RetFresh[i] != b.RetFresh[i] {
			return false
		}
	}
	return true
}

type fnState struct {
	a       *Analysis
	fn      *ssa.Function
	sum     *Summary
	taint   map[ssa.Value]bits // roots (0..NRoots-1) then local allocation bits
	allocID map[ssa.Value]int  // Alloc / MakeSlice / MakeMap / new -> bit index
	content []bits             // per local allocation: what was stored into it
	nAlloc  int
	// unknownFresh: value may come from somewhere that is neither a root nor a local allocation (external call result)
	ext map[ssa.Value]bool
	// per-component facts of tuple-valued calls
	tup    map[ssa.Value][]bits
	tupExt map[ssa.Value][]bool
}

func (st *fnState) t(v ssa.Value) bits {
	switch c := v.(type) {
	case *ssa.Global:
		if c.Pkg == st.a.Pkg {
			var b bits
			b.set(st.sum.GlobalRoot())
			return b
		}
		return nil
	case *ssa.Const, *ssa.Function, *ssa.Builtin:
		return nil
	}
	return st.taint[v]
}

func (st *fnState) add(v ssa.Value, b bits) bool {
	cur := st.taint[v]
	ch := cur.or(b)
	st.taint[v] = cur
	return ch
}

func (a *Analysis) analyze(fn *ssa.Function) *Summary {
	sum := newSummary(fn)
	st := &fnState{a: a, fn: fn, sum: sum, taint: map[ssa.Value]bits{}, allocID: map[ssa.Value]int{}, ext: map[ssa.Value]bool{},
		tup: map[ssa.Value][]bits{}, tupExt: map[ssa.Value][]bool{}}
	if len(fn.Blocks) == 0 {
		return sum
	}
	for i, p := range fn.Params {
		if hasPointers(p.Type()) {
			var b bits
			b.set(i)
			st.taint[p] = b
		}
	}
	for i, fv := range fn.FreeVars {
		var b bits
		b.set(len(fn.Params) + i)
		st.taint[fv] = b
	}
	// number local allocation sites
	for _, blk := range fn.Blocks {
		for _, in := range blk.Instrs {
			switch v := in.(type) {
			case *ssa.Alloc, *ssa.MakeSlice, *ssa.MakeMap, *ssa.MakeChan:
				st.allocID[v.(ssa.Value)] = sum.NRoots + st.nAlloc
				st.nAlloc++
			}
		}
	}
	st.content = make([]bits, st.nAlloc)
	for it := 0; it < 100; it++ {
		changed := false
		for _, blk := range fn.Blocks {
			for _, in := range blk.Instrs {
				if st.flow(in) {
					changed = true
				}
			}
		}
		if !changed {
			break
		}
	}
	// second pass: effects
	for _, blk := range fn.Blocks {
		for _, in := range blk.Instrs {
			st.effects(in)
		}
	}
	for i := range sum.Writes {
		sort.Slice(sum.Writes[i], func(x, y int) bool { return sum.Writes[i][x].Pos < sum.Writes[i][y].Pos })
	}
	return sum
}

// contentOf returns what loads through address bits b may yield.
func (st *fnState) contentOf(b bits) bits {
	var out bits
	for i := 0; i < st.nAlloc; i++ {
		if b.has(st.sum.NRoots + i) {
			out.or(st.content[i])
		}
	}
	// loading a pointer out of shared memory yields shared memory of the same root
	for r := 0; r < st.sum.NRoots; r++ {
		if b.has(r) {
			out.set(r)
		}
	}
	return out
}

func (st *fnState) storeInto(addr bits, val bits) bool {
	ch := false
	for i := 0; i < st.nAlloc; i++ {
		if addr.has(st.sum.NRoots + i) {
			if st.content[i].or(val) {
				ch = true
			}
		}
	}
	return ch
}

func (st *fnState) flow(in ssa.Instruction) bool {
	switch v := in.(type) {
	case *ssa.Alloc, *ssa.MakeSlice, *ssa.MakeMap, *ssa.MakeChan:
		var b bits
		b.set(st.allocID[v.(ssa.Value)])
		return st.add(v.(ssa.Value), b)
	case *ssa.FieldAddr:
		return st.add(v, st.t(v.X))
	case *ssa.IndexAddr:
		return st.add(v, st.t(v.X))
	case *ssa.Field:
		if hasPointers(v.Type()) {
			return st.add(v, st.t(v.X))
		}
	case *ssa.Index:
		if hasPointers(v.Type()) {
			return st.add(v, st.t(v.X))
		}
	case *ssa.Slice:
		return st.add(v, st.t(v.X))
	case *ssa.Phi:
		ch := false
		for _, e := range v.Edges {
			if st.add(v, st.t(e)) {
				ch = true
			}
			if st.ext[e] && !st.ext[v] {
				st.ext[v] = true
				ch = true
			}
		}
		return ch
	case *ssa.ChangeType:
		return st.add(v, st.t(v.X))
	case *ssa.Convert:
		// string <-> []byte conversions copy; only pointer-to-pointer conversions alias
		if hasPointers(v.Type()) && hasPointers(v.X.Type()) {
			return st.add(v, st.t(v.X))
		}
	case *ssa.ChangeInterface:
		return st.add(v, st.t(v.X))
	case *ssa.MakeInterface:
		return st.add(v, st.t(v.X))
	case *ssa.SliceToArrayPointer:
		return st.add(v, st.t(v.X))
	case *ssa.TypeAssert:
		return st.add(v, st.t(v.X))
	case *ssa.Extract:
		if hasPointers(v.Type()) {
			if tb, ok := st.tup[v.Tuple]; ok && v.Index < len(tb) {
				ch := st.add(v, tb[v.Index])
				if st.tupExt[v.Tuple][v.Index] && !st.ext[v] {
					st.ext[v] = true
					ch = true
				}
				return ch
			}
			ch := st.add(v, st.t(v.Tuple))
			if st.ext[v.Tuple] && !st.ext[v] {
				st.ext[v] = true
				ch = true
			}
			return ch
		}
	case *ssa.Lookup:
		if hasPointers(v.Type()) {
			return st.add(v, st.contentOf(st.t(v.X)))
		}
	case *ssa.Range:
		return st.add(v, st.t(v.X))
	case *ssa.Next:
		if hasPointers(v.Type()) {
			return st.add(v, st.contentOf(st.t(v.Iter)))
		}
	case *ssa.UnOp:
		if v.Op == token.MUL {
			if hasPointers(v.Type()) {
				return st.add(v, st.contentOf(st.t(v.X)))
			}
		} else if v.Op == token.ARROW {
			st.ext[v] = true
		}
	case *ssa.Store:
		if hasPointers(v.Val.Type()) {
			return st.storeInto(st.t(v.Addr), st.t(v.Val))
		}
	case *ssa.MapUpdate:
		var b bits
		b.or(st.t(v.Key))
		b.or(st.t(v.Value))
		return st.storeInto(st.t(v.Map), b)
	case *ssa.MakeClosure:
		var b bits
		for _, bd := range v.Bindings {
			b.or(st.t(bd))
		}
		return st.add(v, b)
	case *ssa.Call:
		return st.flowCall(v, v.Common())
	}
	return false
}

func isString(t types.Type) bool {
	b, ok := t.Underlying().(*types.Basic)
	return ok && b.Info()&types.IsString != 0
}

func (st *fnState) calleesOf(call ssa.CallInstruction) (fns []*ssa.Function, unknown bool) {
	c := call.Common()
	if !c.IsInvoke() {
		if f, ok := c.Value.(*ssa.Function); ok {
			return []*ssa.Function{f}, false
		}
		if _, ok := c.Value.(*ssa.Builtin); ok {
			return nil, false
		}
	}
	fns = st.a.callees[call]
	return fns, len(fns) == 0
}

// argsOf returns the actual arguments aligned with the callee's Params.
func argsOf(c *ssa.CallCommon) []ssa.Value {
	if c.IsInvoke() {
		return append([]ssa.Value{c.Value}, c.Args...)
	}
	return c.Args
}

func (st *fnState) flowCall(v *ssa.Call, c *ssa.CallCommon) bool {
	if b, ok := c.Value.(*ssa.Builtin); ok {
		switch b.Name() {
		case "append":
			ch := st.add(v, st.t(c.Args[0]))
			// elements appended are stored into the (possibly local) backing array
			if len(c.Args) > 1 && hasPointers(elemOf(c.Args[0].Type())) {
				if st.storeInto(st.t(c.Args[0]), st.contentOrSelf(c.Args[1])) {
					ch = true
				}
				// the result may be a new array holding the same elements: model result as
				// aliasing a pseudo-allocation = arg0's taint plus the appended taints
				if st.add(v, st.contentOrSelf(c.Args[1])) {
					ch = true
				}
			}
			return ch
		case "copy":
			if hasPointers(elemOf(c.Args[0].Type())) {
				return st.storeInto(st.t(c.Args[0]), st.contentOf(st.t(c.Args[1])))
			}
		case "ssa:wrapnilchk":
			// the nil check of a synthesized pointer-receiver wrapper returns its first argument
			return st.add(v, st.t(c.Args[0]))
		}
		return false
	}
	if !hasPointers(v.Type()) {
		return false
	}
	fns, unknown := st.calleesOf(v)
	args := argsOf(c)
	ch := false
	nres := 1
	if tt, ok := v.Type().(*types.Tuple); ok {
		nres = tt.Len()
	}
	if _, ok := st.tup[v]; !ok {
		st.tup[v] = make([]bits, nres)
		st.tupExt[v] = make([]bool, nres)
	}
	addRes := func(ri int, b bits) {
		if ri >= nres {
			return
		}
		if st.tup[v][ri].or(b) {
			ch = true
		}
	}
	setExt := func(ri int) {
		if ri < nres && !st.tupExt[v][ri] {
			st.tupExt[v][ri] = true
			ch = true
		}
	}
	local := 0
	for _, f := range fns {
		s := st.a.Sum[f]
		if s == nil {
			unknown = true
			continue
		}
		local++
		for k := 0; k < s.NParams && k < len(args); k++ {
			for j := 0; j < s.NParams && j < len(args); j++ {
				if s.Retains(k, j) && st.storeInto(st.t(args[k]), st.contentOrSelf(args[j])) {
					ch = true
				}
			}
		}
		for ri := range s.RetAlias {
			for k := 0; k < s.NRoots; k++ {
				if !s.RetAlias[ri].has(k) {
					continue
				}
				switch {
				case k < s.NParams && k < len(args):
					addRes(ri, st.t(args[k]))
				case k == s.GlobalRoot():
					var b bits
					b.set(st.sum.GlobalRoot())
					addRes(ri, b)
				default: // callee free variable: bindings of the closure value
					addRes(ri, st.t(c.Value))
				}
			}
			if !s.RetFresh[ri] {
				setExt(ri)
			}
		}
	}
	if unknown || local < len(fns) {
		// external callee: result may alias any pointer argument (conservative),
		// except for the trusted fresh-result functions.
		name := calleeName(fns, c)
		if !freshExternal(name) {
			for ri := 0; ri < nres; ri++ {
				for _, x := range args {
					addRes(ri, st.t(x))
				}
				if !c.IsInvoke() {
					addRes(ri, st.t(c.Value))
				}
				if !aliasOnlyExternal(name) {
					setExt(ri)
				}
			}
		}
	}
	// the call value itself: union (used when not extracted, i.e. single result)
	for ri := 0; ri < nres; ri++ {
		if st.add(v, st.tup[v][ri]) {
			ch = true
		}
		if st.tupExt[v][ri] && !st.ext[v] {
			st.ext[v] = true
			ch = true
		}
	}
	return ch
}

func (st *fnState) contentOrSelf(v ssa.Value) bits {
	var b bits
	b.or(st.t(v))
	b.or(st.contentOf(st.t(v)))
	return b
}

func elemOf(t types.Type) types.Type {
	switch u := t.Underlying().(type) {
	case *types.Slice:
		return u.Elem()
	case *types.Array:
		return u.Elem()
	case *types.Pointer:
		return elemOf(u.Elem())
	}
	return t
}

func calleeName(fns []*ssa.Function, c *ssa.CallCommon) string {
	if len(fns) == 1 {
		return fns[0].String()
	}
	if f, ok := c.Value.(*ssa.Function); ok {
		return f.String()
	}
	if c.IsInvoke() {
		return "invoke " + c.Method.FullName()
	}
	return "dynamic call"
}

// freshExternal: trusted model — result never aliases arguments.
func freshExternal(name string) bool {
	switch name {
	case "errors.New", "fmt.Errorf", "fmt.Sprintf", "fmt.Sprint", "fmt.Sprintln",
		"strings.TrimSuffix", "strings.ReplaceAll", "strings.Join", "strings.Repeat",
		"reflect.TypeOf", "(reflect.Value).Type", "(reflect.Value).Kind", "(*reflect.rtype).String",
		"(reflect.StructTag).Get", "reflect.New":
		return true
	}
	return strings.HasPrefix(name, "math.") || strings.HasPrefix(name, "(encoding/binary.bigEndian).Uint") ||
		strings.HasPrefix(name, "strconv.")
}

// aliasOnlyExternal: result aliases arguments but comes from nowhere else.
func aliasOnlyExternal(name string) bool {
	return strings.HasPrefix(name, "reflect.") || strings.HasPrefix(name, "(reflect.Value).") ||
		strings.HasPrefix(name, "(reflect.Type).") || strings.HasPrefix(name, "invoke reflect.") || strings.HasPrefix(name, "(*reflect.rtype).")
}

// nonWritingExternal: trusted model — does not write through its arguments.
func nonWritingExternal(name string) bool {
	switch name {
	case "errors.New", "fmt.Errorf", "fmt.Sprintf", "fmt.Sprint", "fmt.Sprintln", "bytes.Equal",
		"strings.TrimSuffix", "strings.ReplaceAll", "strings.Join",
		"reflect.ValueOf", "reflect.Indirect", "reflect.TypeOf", "reflect.New", "reflect.NewAt", "reflect.Append",
		"invoke fmt.Stringer.String", "invoke (fmt.Stringer).String", "invoke reflect.Type.Implements",
		"invoke reflect.Type.Elem", "invoke reflect.Type.Kind", "invoke reflect.Type.Field", "invoke reflect.Type.Size",
		"invoke reflect.Type.String", "invoke reflect.Type.MethodByName", "invoke reflect.Type.Name":
		return true
	}
	if strings.HasPrefix(name, "(encoding/binary.bigEndian).Uint") || strings.HasPrefix(name, "math.") || strings.HasPrefix(name, "strconv.") {
		return true
	}
	switch name {
	case "(*strings.Builder).String", "(*strings.Builder).Len", "(*bytes.Buffer).String", "(*bytes.Buffer).Len", "(*bytes.Buffer).Bytes":
		return true
	}
	if strings.HasPrefix(name, "(reflect.Value).") {
		m := strings.TrimPrefix(name, "(reflect.Value).")
		if strings.HasPrefix(m, "Set") || m == "Call" || m == "Send" || m == "Grow" || m == "Clear" || m == "Slice" && false {
			return false
		}
		return true
	}
	if strings.HasPrefix(name, "(reflect.StructTag).") || strings.HasPrefix(name, "(*reflect.rtype).") {
		return true
	}
	return false
}

// writerExternal: library functions that write only into their first argument (a buffer or an
// io.Writer whose static type the numeric engine's model table restricts to strings.Builder / bytes.Buffer).
func writerExternal(name string) bool {
	switch name {
	case "fmt.Fprintf", "fmt.Fprint", "fmt.Fprintln",
		"(*strings.Builder).WriteString", "(*strings.Builder).WriteByte", "(*strings.Builder).WriteRune", "(*strings.Builder).Write", "(*strings.Builder).Reset",
		"(*bytes.Buffer).WriteString", "(*bytes.Buffer).WriteByte", "(*bytes.Buffer).WriteRune", "(*bytes.Buffer).Write", "(*bytes.Buffer).Reset":
		return true
	}
	return false
}

// reach: the roots whose memory a value with taint b may point into, directly or through
// what was stored into the local allocations it points to (transitively).
func (st *fnState) reach(b bits) bits {
	var out bits
	seen := map[int]bool{}
	var walk func(b bits)
	walk = func(b bits) {
		for r := 0; r < st.sum.NRoots; r++ {
			if b.has(r) {
				out.set(r)
			}
		}
		for i := 0; i < st.nAlloc; i++ {
			if b.has(st.sum.NRoots+i) && !seen[i] {
				seen[i] = true
				walk(st.content[i])
			}
		}
	}
	walk(b)
	return out
}

// retain records that memory of the roots in dst may come to refer to memory of the roots in src.
func (st *fnState) retain(dst, src bits, site Site) {
	g := st.sum.GlobalRoot()
	for k := 0; k < st.sum.NRoots; k++ {
		if !dst.has(k) {
			continue
		}
		for j := 0; j < st.sum.NRoots; j++ {
			if j == k || !src.has(j) || j == g {
				continue
			}
			st.sum.Retain[k].set(j)
			key := [2]int{k, j}
			if len(st.sum.RetainSites[key]) < 8 {
				st.sum.RetainSites[key] = append(st.sum.RetainSites[key], site)
			}
		}
	}
}

func (st *fnState) write(roots bits, site Site) {
	for r := 0; r < st.sum.NRoots; r++ {
		if roots.has(r) {
			st.sum.Writes[r] = append(st.sum.Writes[r], site)
		}
	}
}

func fieldPath(addr ssa.Value) string {
	var parts []string
	for {
		switch a := addr.(type) {
		case *ssa.FieldAddr:
			st := a.X.Type().Underlying().(*types.Pointer).Elem().Underlying().(*types.Struct)
			parts = append([]string{st.Field(a.Field).Name()}, parts...)
			addr = a.X
			continue
		case *ssa.IndexAddr:
			parts = append([]string{"[]"}, parts...)
			addr = a.X
			continue
		}
		break
	}
	return strings.Join(parts, ".")
}

func (st *fnState) effects(in ssa.Instruction) {
	site := func(what string) Site { return Site{Pos: posOf(in), Fn: st.fn, Instr: in, What: what} }
	switch v := in.(type) {
	case *ssa.Store:
		if r := st.t(v.Addr); !rootsOnly(r, st.sum.NRoots).empty() {
			s := site("store")
			s.Path = fieldPath(v.Addr)
			st.write(r, s)
			if hasPointers(v.Val.Type()) {
				st.retain(rootsOnly(r, st.sum.NRoots), st.reach(st.t(v.Val)), s)
			}
		}
	case *ssa.MapUpdate:
		if r := st.t(v.Map); !rootsOnly(r, st.sum.NRoots).empty() {
			st.write(r, site("map update"))
		}
	case *ssa.Go:
		st.sum.Forbidden = append(st.sum.Forbidden, site("go statement"))
		st.effectsCall(v, v.Common())
	case *ssa.Defer:
		st.effectsCall(v, v.Common())
	case *ssa.Send:
		st.sum.Forbidden = append(st.sum.Forbidden, site("channel send"))
	case *ssa.Select:
		st.sum.Forbidden = append(st.sum.Forbidden, site("select"))
	case *ssa.MakeChan:
		st.sum.Forbidden = append(st.sum.Forbidden, site("make chan"))
	case *ssa.Range:
		if _, ok := v.X.Type().Underlying().(*types.Map); ok {
			st.sum.Forbidden = append(st.sum.Forbidden, site("range over map (iteration order is not deterministic)"))
		}
	case *ssa.UnOp:
		if v.Op == token.ARROW {
			st.sum.Forbidden = append(st.sum.Forbidden, site("channel receive"))
		}
	case *ssa.Convert:
		if b, ok := v.Type().Underlying().(*types.Basic); ok && b.Kind() == types.UnsafePointer {
			st.sum.Forbidden = append(st.sum.Forbidden, site("conversion to unsafe.Pointer"))
		}
		if b, ok := v.X.Type().Underlying().(*types.Basic); ok && b.Kind() == types.UnsafePointer {
			st.sum.Forbidden = append(st.sum.Forbidden, site("conversion from unsafe.Pointer"))
		}
	case *ssa.Call:
		st.effectsCall(v, v.Common())
	case *ssa.Return:
		for i, res := range v.Results {
			if i >= len(st.sum.RetAlias) {
				break
			}
			r := rootsOnly(st.t(res), st.sum.NRoots)
			st.sum.RetAlias[i].or(r)
			if st.ext[res] {
				st.sum.RetFresh[i] = false
			}
			if !r.empty() {
				st.sum.RetFresh[i] = false
			}
		}
	}
}

func posOf(in ssa.Instruction) token.Pos {
	if in.Pos().IsValid() {
		return in.Pos()
	}
	if s, ok := in.(*ssa.Store); ok && s.Val.Pos().IsValid() {
		return s.Val.Pos()
	}
	for _, i2 := range in.Block().Instrs {
		if i2.Pos().IsValid() {
			return i2.Pos()
		}
	}
	return in.Parent().Pos()
}

func rootsOnly(b bits, nroots int) bits {
	var out bits
	for r := 0; r < nroots; r++ {
		if b.has(r) {
			out.set(r)
		}
	}
	return out
}

var forbiddenPkgs = map[string]bool{"time": true, "math/rand": true, "math/rand/v2": true, "crypto/rand": true,
	"os": true, "sync": true, "sync/atomic": true, "runtime": true, "unsafe": true, "net": true, "io": true, "syscall": true}

func (st *fnState) effectsCall(in ssa.CallInstruction, c *ssa.CallCommon) {
	site := func(what string) Site {
		return Site{Pos: posOf(in.(ssa.Instruction)), Fn: st.fn, Instr: in.(ssa.Instruction), What: what}
	}
	if b, ok := c.Value.(*ssa.Builtin); ok {
		switch b.Name() {
		case "append":
			if r := st.t(c.Args[0]); !rootsOnly(r, st.sum.NRoots).empty() {
				st.write(r, site("append: destination may share its backing array"))
			}
		case "copy":
			if r := st.t(c.Args[0]); !rootsOnly(r, st.sum.NRoots).empty() {
				st.write(r, site("copy: destination"))
			}
		case "delete", "clear":
			if r := st.t(c.Args[0]); !rootsOnly(r, st.sum.NRoots).empty() {
				st.write(r, site(b.Name()))
			}
		}
		return
	}
	fns, unknown := st.calleesOf(in)
	args := argsOf(c)
	for _, f := range fns {
		if f.Pkg != nil && f.Pkg.Pkg != nil && forbiddenPkgs[f.Pkg.Pkg.Path()] {
			st.sum.Forbidden = append(st.sum.Forbidden, site("call of "+f.String()))
		}
		s := st.a.Sum[f]
		if s == nil {
			st.externalEffects(in, c, f.String(), args)
			continue
		}
		for k := 0; k < s.NRoots; k++ {
			if !s.WritesThrough(k) {
				continue
			}
			var r bits
			switch {
			case k < s.NParams && k < len(args):
				r = st.t(args[k])
			case k == s.GlobalRoot():
				r.set(st.sum.GlobalRoot())
			default:
				r = st.t(c.Value)
			}
			if !rootsOnly(r, st.sum.NRoots).empty() {
				w := site(fmt.Sprintf("call of %s, which writes through its root %d", f.String(), k))
				w.Callee = f
				st.write(r, w)
			}
		}
		argT := func(k int) bits {
			switch {
			case k < s.NParams && k < len(args):
				return st.t(args[k])
			case k == s.GlobalRoot():
				var r bits
				r.set(st.sum.GlobalRoot())
				return r
			}
			return st.t(c.Value)
		}
		for k := 0; k < s.NRoots; k++ {
			for j := 0; j < s.NRoots; j++ {
				if !s.Retains(k, j) {
					continue
				}
				w := site(fmt.Sprintf("call of %s, which stores a reference to its root %d into its root %d", f.String(), j, k))
				w.Callee = f
				if ss := s.RetainSites[[2]int{k, j}]; len(ss) > 0 {
					w.Path = ss[0].Path
					if w.Path == "" && ss[0].Callee != nil {
						w.Path = "via " + ss[0].Callee.Name()
					}
				}
				// the reach of the destination too: a local holder (packetBuffer) passed by pointer stands for what it points to
				st.retain(rootsOnly(argT(k), st.sum.NRoots), st.reach(argT(j)), w)
			}
		}
	}
	if unknown {
		st.externalEffects(in, c, calleeName(nil, c), args)
	}
}

func (st *fnState) externalEffects(in ssa.CallInstruction, c *ssa.CallCommon, name string, args []ssa.Value) {
	site := func(what string) Site {
		return Site{Pos: posOf(in.(ssa.Instruction)), Fn: st.fn, Instr: in.(ssa.Instruction), What: what}
	}
	switch {
	case strings.HasPrefix(name, "(encoding/binary.bigEndian).PutUint"):
		if len(args) >= 2 {
			if r := st.t(args[1]); !rootsOnly(r, st.sum.NRoots).empty() {
				st.write(r, site(strings.TrimPrefix(name, "(encoding/binary.bigEndian).")+": destination"))
			}
		}
		return
	case nonWritingExternal(name):
		return
	case writerExternal(name):
		// formatted output into a buffer: only the destination (first argument) is written
		if len(args) >= 1 {
			if r := st.t(args[0]); !rootsOnly(r, st.sum.NRoots).empty() {
				st.write(r, site(name+": destination"))
			}
		}
		return
	case name == "(reflect.Value).Call" && st.a.ReflectCallTargets != nil:
		if len(args) >= 1 {
			r := rootsOnly(st.t(args[0]), st.sum.NRoots)
			for _, tgt := range st.a.ReflectCallTargets {
				if s := st.a.Sum[tgt]; s != nil && s.WritesThrough(0) && !r.empty() {
					w := site("reflective call of " + tgt.String() + ", which writes through its receiver")
					w.Callee = tgt
					st.write(r, w)
				}
			}
		}
		return
	case strings.HasPrefix(name, "(reflect.Value).Set") || name == "(reflect.Value).Call":
		if len(args) >= 2 && (name == "(reflect.Value).Set" || name == "(reflect.Value).SetBytes" || name == "(reflect.Value).SetPointer" || name == "(reflect.Value).SetMapIndex") {
			var src bits
			for _, x := range args[1:] {
				if hasPointers(x.Type()) {
					src.or(st.reach(st.t(x)))
				}
			}
			st.retain(rootsOnly(st.t(args[0]), st.sum.NRoots), src, site(name+": the value set shares memory with the argument"))
		}
		if len(args) >= 1 {
			if r := st.t(args[0]); !rootsOnly(r, st.sum.NRoots).empty() {
				st.write(r, site(name+" on a value derived from shared memory"))
			}
		}
		return
	}
	// unknown external: only a problem if some argument can reach shared memory
	var r bits
	for _, x := range args {
		r.or(rootsOnly(st.t(x), st.sum.NRoots))
	}
	if !c.IsInvoke() {
		r.or(rootsOnly(st.t(c.Value), st.sum.NRoots))
	}
	if !r.empty() {
		s := site("call of " + name + " with arguments derived from shared memory: effects unknown (not in the trusted table)")
		st.sum.Undecided = append(st.sum.Undecided, s)
		st.write(r, s)
	}
}
