// Package pe is a path-splitting constant-propagation evaluator over go/ssa
// ("partial evaluation" on a flat lattice). It never runs the program: values
// are Known constants, known addresses, interfaces of known dynamic type, or
// Unknown; a branch on an Unknown condition is explored both ways. It is used
// to extract decision tables (which (PT,FMT) reaches which allocation, which
// dynamic types pass a type switch) for *all* values of a small finite domain.
package pe

import (
	"sync"
	"sync/atomic"
	"fmt"
	"go/token"
	"go/types"
	"math/big"
	"sort"
	"strings"

	"golang.org/x/tools/go/ssa"
)

type Kind uint8

const (
	Unknown Kind = iota
	Int          // integer (I), any basic integer type
	Bool         // B
	Nil          // nil pointer / interface / slice / func
	Addr         // pointer to Obj+Path
	Iface        // interface holding dynamic type T and inner value
	Slice        // slice over Obj (byte/elem array) from Off, length Len (Int or Unknown)
	Struct       // aggregate by value
	Tuple        // multiple results
	Str          // string constant
	Func         // function value (closure or func)
	NonNil       // a non-nil pointer/interface/error of unknown identity
	IntGE        // an integer of type int known only to be >= I (no upper bound)
)

type Val struct {
	K      Kind
	I      int64
	B      bool
	S      string
	Obj    *Obj
	Path   string // cell path inside Obj for Addr; for Slice: path of the array
	Off    int64  // Slice: element offset (>=0) ; -1 unknown
	OffGE  int64  // Slice with Off == -1: lower bound of the offset
	Len    *Val   // Slice: length
	T      types.Type
	Inner  *Val  // Iface
	Fields []Val // Struct / Tuple
	Fn     *ssa.Function
	Binds  []Val
	// Corr (only on an Unknown error value returned by an evaluated callee):
	// the heap as it is when the value is nil / non-nil. Applied at a branch
	// `v ==/!= nil` if the heap has not been modified since the call.
	Corr *Corr
	// Alts (only on a Tuple returned by an evaluated callee with several return sites): the tuple of each
	// return site. A branch on one boolean component filters them (see Machine.refine).
	Alts []Val
}

type Corr struct {
	WhenNil, WhenNonNil *heap
	Version             int64
}

var versionCounter int64

func nextVersion() int64 { return atomic.AddInt64(&versionCounter, 1) }

var U = Val{K: Unknown}

func IntV(i int64) Val  { return Val{K: Int, I: i} }
func BoolV(b bool) Val  { return Val{K: Bool, B: b} }
func (v Val) Known() bool { return v.K != Unknown }

func (v Val) String() string {
	switch v.K {
	case Unknown:
		return "?"
	case Int:
		return fmt.Sprint(v.I)
	case Bool:
		return fmt.Sprint(v.B)
	case Nil:
		return "nil"
	case Addr:
		return fmt.Sprintf("&%s%s", v.Obj.Name, v.Path)
	case Iface:
		return fmt.Sprintf("iface(%s)", v.T)
	case Slice:
		return fmt.Sprintf("%s%s[%d:]", v.Obj.Name, v.Path, v.Off)
	case Struct, Tuple:
		var s []string
		for _, f := range v.Fields {
			s = append(s, f.String())
		}
		return "{" + strings.Join(s, ",") + "}"
	case Str:
		return fmt.Sprintf("%q", v.S)
	case Func:
		return "func " + v.Fn.Name()
	case NonNil:
		return "nonnil"
	case IntGE:
		return fmt.Sprintf(">=%d", v.I)
	}
	return "?"
}

// Obj is an abstract memory object. Cells are keyed by path (".f3", "[5]").
type Obj struct {
	ID    int
	Name  string
	Typ   types.Type // type of the object's content
	Cells map[string]Val
	// Def is the value of cells not present: zero-initialised objects have
	// DefZero=true (missing cell = zero value of its type), otherwise Unknown.
	DefZero bool
	Site    ssa.Instruction // allocation site (nil for synthetic)
	// Multi: the object summarises several run-time objects of the same
	// allocation site and call string; stores to it are weak.
	Multi   bool
	siteKey string
}

// Event is recorded when a hook wants to remember something on the path.
type Event struct {
	Kind string
	Data any
	Pos  token.Pos
}

type heap struct {
	objs    map[int]*Obj
	next    int
	version int64 // changes on every mutation
	// pins: flow-sensitive refinements of registers established by branches
	// (x != nil, x == c). Joined by intersection.
	pins map[ssa.Value]Val
}

func (h *heap) pin(v ssa.Value, x Val) {
	if h.pins == nil {
		h.pins = map[ssa.Value]Val{}
	}
	h.pins[v] = x
}

func (h *heap) dropPinsOf(fn *ssa.Function) {
	for v := range h.pins {
		if in, ok := v.(ssa.Instruction); ok && in.Parent() == fn {
			delete(h.pins, v)
		} else if p, ok := v.(*ssa.Parameter); ok && p.Parent() == fn {
			delete(h.pins, v)
		}
	}
}

func (h *heap) touch() { h.version = nextVersion() }

func (h *heap) clone() *heap {
	n := &heap{objs: make(map[int]*Obj, len(h.objs)), next: h.next, version: h.version}
	for id, o := range h.objs {
		c := *o
		c.Cells = make(map[string]Val, len(o.Cells))
		for k, v := range o.Cells {
			c.Cells[k] = v
		}
		n.objs[id] = &c
	}
	if len(h.pins) > 0 {
		n.pins = make(map[ssa.Value]Val, len(h.pins))
		for k, v := range h.pins {
			n.pins[k] = v
		}
	}
	return n
}

// siteObj implements allocation-site abstraction: a site that is executed
// again on the same path (same call string) re-uses its object as a summary.
func (h *heap) siteObj(name string, t types.Type, site ssa.Instruction, key string) *Obj {
	h.touch()
	for _, o := range h.objs {
		if o.siteKey == key && o.Site == site {
			if localOnly(site) {
				// no pointer to the previous instance can survive: strong reset
				o.Cells = map[string]Val{}
				o.DefZero = true
				return o
			}
			// join old contents with a zero-initialised object
			for k, v := range o.Cells {
				if !isZeroVal(v) {
					o.Cells[k] = U
				}
			}
			o.Multi = true
			return o
		}
	}
	o := h.newObj(name, t, true, site)
	o.siteKey = key
	return o
}

var localOnlyCache sync.Map

// localOnly reports whether the address produced by an Alloc is used only to
// load from / store into the object (directly or through field and index
// addresses): it is never stored, passed, captured, compared or merged in a
// phi, so when the Alloc executes again the previous instance is dead.
func localOnly(site ssa.Instruction) bool {
	al, ok := site.(*ssa.Alloc)
	if !ok {
		return false
	}
	if v, ok := localOnlyCache.Load(al); ok {
		return v.(bool)
	}
	var onlyAddr func(v ssa.Value, depth int) bool
	onlyAddr = func(v ssa.Value, depth int) bool {
		if depth > 8 || v.Referrers() == nil {
			return false
		}
		for _, ref := range *v.Referrers() {
			switch r := ref.(type) {
			case *ssa.FieldAddr:
				if !onlyAddr(r, depth+1) {
					return false
				}
			case *ssa.IndexAddr:
				if r.X != v || !onlyAddr(r, depth+1) {
					return false
				}
			case *ssa.UnOp:
				if r.Op != token.MUL {
					return false
				}
			case *ssa.Store:
				if r.Addr != v || r.Val == v {
					return false
				}
			case *ssa.DebugRef:
			default:
				return false
			}
		}
		return true
	}
	res := onlyAddr(al, 0)
	localOnlyCache.Store(al, res)
	return res
}

func isZeroVal(v Val) bool {
	switch v.K {
	case Int:
		return v.I == 0
	case Bool:
		return !v.B
	case Nil:
		return true
	case Str:
		return v.S == ""
	}
	return false
}

func sameVal(a, b Val) bool {
	if a.K != b.K {
		return false
	}
	switch a.K {
	case Unknown, Nil, NonNil:
		return true
	case Int, IntGE:
		return a.I == b.I
	case Bool:
		return a.B == b.B
	case Str:
		return a.S == b.S
	case Addr:
		return a.Obj.ID == b.Obj.ID && a.Path == b.Path
	case Slice:
		if a.Obj.ID != b.Obj.ID || a.Path != b.Path || a.Off != b.Off || a.OffGE != b.OffGE {
			return false
		}
		if a.Len == b.Len {
			return true
		}
		ak, bk := a.Len != nil && a.Len.K == Int, b.Len != nil && b.Len.K == Int
		if !ak && !bk {
			return true // both lengths unknown
		}
		return ak && bk && a.Len.I == b.Len.I
	case Iface:
		return types.Identical(a.T, b.T) && a.Inner != nil && b.Inner != nil && sameVal(*a.Inner, *b.Inner)
	case Struct, Tuple:
		if len(a.Fields) != len(b.Fields) {
			return false
		}
		for i := range a.Fields {
			if !sameVal(a.Fields[i], b.Fields[i]) {
				return false
			}
		}
		return true
	case Func:
		if a.Fn != b.Fn || len(a.Binds) != len(b.Binds) {
			return false
		}
		for i := range a.Binds {
			if !sameVal(a.Binds[i], b.Binds[i]) {
				return false
			}
		}
		return true
	}
	return false
}

func (h *heap) newObj(name string, t types.Type, zero bool, site ssa.Instruction) *Obj {
	h.next++
	o := &Obj{ID: h.next, Name: fmt.Sprintf("%s#%d", name, h.next), Typ: t, Cells: map[string]Val{}, DefZero: zero, Site: site}
	h.objs[o.ID] = o
	return o
}

func (h *heap) get(o *Obj) *Obj { return h.objs[o.ID] }

func zeroOf(t types.Type) Val {
	switch u := t.Underlying().(type) {
	case *types.Basic:
		switch {
		case u.Info()&types.IsInteger != 0:
			return IntV(0)
		case u.Info()&types.IsBoolean != 0:
			return BoolV(false)
		case u.Info()&types.IsString != 0:
			return Val{K: Str, S: ""}
		}
		return U
	case *types.Pointer, *types.Interface, *types.Slice, *types.Map, *types.Signature, *types.Chan:
		return Val{K: Nil}
	case *types.Struct:
		v := Val{K: Struct, T: t}
		for i := 0; i < u.NumFields(); i++ {
			v.Fields = append(v.Fields, zeroOf(u.Field(i).Type()))
		}
		return v
	}
	return U
}

func (h *heap) load(a Val, t types.Type) Val {
	if a.K != Addr {
		return U
	}
	o := h.get(a.Obj)
	if o == nil {
		return U
	}
	return h.loadPath(o, a.Path, t)
}

func (h *heap) loadPath(o *Obj, path string, t types.Type) Val {
	if strings.Contains(path, "[?") {
		return U
	}
	if st, ok := t.Underlying().(*types.Struct); ok {
		v := Val{K: Struct, T: t}
		for i := 0; i < st.NumFields(); i++ {
			v.Fields = append(v.Fields, h.loadPath(o, fmt.Sprintf("%s.f%d", path, i), st.Field(i).Type()))
		}
		return v
	}
	if c, ok := o.Cells[path]; ok {
		return c
	}
	if o.DefZero {
		return zeroOf(t)
	}
	return U
}

func (h *heap) store(a Val, v Val, t types.Type) {
	h.touch()
	if a.K != Addr {
		// store through unknown pointer: havoc everything
		h.havocAll()
		return
	}
	o := h.get(a.Obj)
	if o == nil {
		return
	}
	if i := strings.Index(a.Path, "[?"); i >= 0 {
		// unknown index (>= lo): havoc sibling cells under the prefix with index >= lo
		pre := a.Path[:i]
		var lo int64
		fmt.Sscanf(a.Path[i:], "[?%d]", &lo)
		h.havocFrom(o, pre, lo)
		return
	}
	h.storePath(o, a.Path, v, t)
}

func (h *heap) storePath(o *Obj, path string, v Val, t types.Type) {
	if st, ok := t.Underlying().(*types.Struct); ok {
		for i := 0; i < st.NumFields(); i++ {
			fv := U
			if v.K == Struct && i < len(v.Fields) {
				fv = v.Fields[i]
			}
			h.storePath(o, fmt.Sprintf("%s.f%d", path, i), fv, st.Field(i).Type())
		}
		return
	}
	if o.Multi {
		old, ok := o.Cells[path]
		if !ok && o.DefZero {
			old, ok = zeroOf(t), true
		}
		if !ok || !sameVal(old, v) {
			v = U
		}
	}
	o.Cells[path] = v
}

// havocFrom makes cells pre[i]... with i >= lo unknown. Cells with a smaller
// index keep their value; because missing cells of a zero-default object would
// become unknown as well, the known zero cells below lo are materialised first.
func (h *heap) havocFrom(o *Obj, pre string, lo int64) {
	if lo <= 0 {
		h.havocPrefix(o, pre)
		return
	}
	if o.DefZero {
		if lo > 4096 {
			h.havocPrefix(o, pre)
			return
		}
		if at, ok := o.Typ.Underlying().(*types.Array); ok && pre == "" {
			if _, isBasic := at.Elem().Underlying().(*types.Basic); isBasic {
				for i := int64(0); i < lo; i++ {
					k := fmt.Sprintf("[%d]", i)
					if _, ok := o.Cells[k]; !ok {
						o.Cells[k] = zeroOf(at.Elem())
					}
				}
			} else {
				h.havocPrefix(o, pre)
				return
			}
		} else {
			h.havocPrefix(o, pre)
			return
		}
	}
	for k := range o.Cells {
		if !strings.HasPrefix(k, pre+"[") {
			continue
		}
		var idx int64
		if _, err := fmt.Sscanf(k[len(pre):], "[%d]", &idx); err != nil || idx >= lo {
			o.Cells[k] = U
		}
	}
	o.DefZero = false
}

func (h *heap) havocPrefix(o *Obj, pre string) {
	for k := range o.Cells {
		if strings.HasPrefix(k, pre) {
			o.Cells[k] = U
		}
	}
	// cells not present must also become unknown: drop DefZero
	o.DefZero = false
}

func (h *heap) havocObj(o *Obj) {
	h.touch()
	o = h.get(o)
	if o == nil {
		return
	}
	for k := range o.Cells {
		o.Cells[k] = U
	}
	o.DefZero = false
}

func (h *heap) havocAll() {
	h.touch()
	for _, o := range h.objs {
		for k := range o.Cells {
			o.Cells[k] = U
		}
		o.DefZero = false
	}
}

// havocReach havocs the objects reachable from v (through known pointers).
func (h *heap) havocReach(v Val, seen map[int]bool) {
	h.touch()
	switch v.K {
	case Addr, Slice:
		if v.Obj == nil || seen[v.Obj.ID] {
			return
		}
		seen[v.Obj.ID] = true
		o := h.get(v.Obj)
		if o == nil {
			return
		}
		for _, c := range o.Cells {
			h.havocReach(c, seen)
		}
		h.havocObj(o)
	case Iface:
		if v.Inner != nil {
			h.havocReach(*v.Inner, seen)
		}
	case Struct, Tuple:
		for _, f := range v.Fields {
			h.havocReach(f, seen)
		}
	case Func:
		for _, b := range v.Binds {
			h.havocReach(b, seen)
		}
	}
}

func (h *heap) digest() string {
	ids := make([]int, 0, len(h.objs))
	for id := range h.objs {
		ids = append(ids, id)
	}
	sort.Ints(ids)
	var sb strings.Builder
	for _, id := range ids {
		o := h.objs[id]
		keys := make([]string, 0, len(o.Cells))
		for k, v := range o.Cells {
			if v.K != Unknown {
				keys = append(keys, k)
			}
		}
		sort.Strings(keys)
		fmt.Fprintf(&sb, "o%d/%v%v{", id, o.DefZero, o.Multi)
		for _, k := range keys {
			fmt.Fprintf(&sb, "%s=%s;", k, o.Cells[k].String())
		}
		sb.WriteString("}")
	}
	return sb.String()
}


func inPkg(fn *ssa.Function, pkg *ssa.Package) bool {
	for fn.Parent() != nil {
		fn = fn.Parent()
	}
	return fn.Pkg == pkg
}

// pureExternal: trusted model — these library functions do not write through
// their arguments and do not retain them.
func pureExternal(fn *ssa.Function) bool {
	s := fn.String()
	switch {
	case strings.HasPrefix(s, "(encoding/binary.bigEndian).Uint"),
		strings.HasPrefix(s, "(encoding/binary.littleEndian).Uint"),
		s == "bytes.Equal", s == "errors.New", s == "fmt.Errorf", s == "fmt.Sprintf", s == "fmt.Sprint",
		s == "math.Floor", s == "math.Float32frombits", s == "strings.TrimSuffix", s == "strings.ReplaceAll":
		return true
	}
	return false
}

func externalResult(callee *ssa.Function, in *ssa.Call) Val {
	if callee != nil {
		switch callee.String() {
		case "errors.New", "fmt.Errorf":
			return Val{K: NonNil}
		}
	}
	if tup, ok := in.Type().(*types.Tuple); ok {
		v := Val{K: Tuple}
		for i := 0; i < tup.Len(); i++ {
			v.Fields = append(v.Fields, U)
		}
		return v
	}
	return U
}

func isUnsigned(t types.Type) bool {
	b, ok := t.Underlying().(*types.Basic)
	return ok && b.Info()&types.IsUnsigned != 0
}

func bitWidth(t types.Type) int {
	b, ok := t.Underlying().(*types.Basic)
	if !ok {
		return 0
	}
	switch b.Kind() {
	case types.Int8, types.Uint8:
		return 8
	case types.Int16, types.Uint16:
		return 16
	case types.Int32, types.Uint32:
		return 32
	case types.Int64, types.Uint64, types.Int, types.Uint, types.Uintptr:
		return 64
	case types.UntypedInt, types.UntypedRune:
		return 64
	}
	return 0
}

func wrapInt(x *big.Int, t types.Type) Val {
	w := bitWidth(t)
	if w == 0 {
		return U
	}
	mod := new(big.Int).Lsh(big.NewInt(1), uint(w))
	r := new(big.Int).Mod(x, mod) // in [0, 2^w)
	if !isUnsigned(t) {
		half := new(big.Int).Lsh(big.NewInt(1), uint(w-1))
		if r.Cmp(half) >= 0 {
			r.Sub(r, mod)
		}
	}
	if !r.IsInt64() {
		return U // uint64 above MaxInt64: give up
	}
	return IntV(r.Int64())
}

func evalBinOp(op token.Token, x, y Val, xt, rt types.Type) Val {
	// comparisons of non-ints
	switch op {
	case token.EQL, token.NEQ:
		eq, known := equalVals(x, y)
		if known {
			if op == token.NEQ {
				eq = !eq
			}
			return BoolV(eq)
		}
		return U
	}
	if x.K == Bool && y.K == Bool {
		switch op {
		case token.LAND, token.AND:
			return BoolV(x.B && y.B)
		case token.LOR, token.OR:
			return BoolV(x.B || y.B)
		}
	}
	// absorbing cases
	if op == token.AND && ((x.K == Int && x.I == 0) || (y.K == Int && y.I == 0)) {
		return IntV(0)
	}
	if op == token.MUL && ((x.K == Int && x.I == 0) || (y.K == Int && y.I == 0)) {
		return IntV(0)
	}
	if x.K == IntGE || y.K == IntGE {
		return evalGE(op, x, y, rt)
	}
	if x.K != Int || y.K != Int {
		return U
	}
	a, b := big.NewInt(x.I), big.NewInt(y.I)
	if isUnsigned(xt) && x.I < 0 {
		return U
	}
	r := new(big.Int)
	switch op {
	case token.ADD:
		r.Add(a, b)
	case token.SUB:
		r.Sub(a, b)
	case token.MUL:
		r.Mul(a, b)
	case token.QUO:
		if y.I == 0 {
			return U
		}
		r.Quo(a, b)
	case token.REM:
		if y.I == 0 {
			return U
		}
		r.Rem(a, b)
	case token.AND:
		r.And(a, b)
	case token.OR:
		r.Or(a, b)
	case token.XOR:
		r.Xor(a, b)
	case token.AND_NOT:
		r.AndNot(a, b)
	case token.SHL:
		if y.I < 0 {
			return U
		}
		if y.I >= 64 {
			return wrapInt(big.NewInt(0), rt)
		}
		r.Lsh(a, uint(y.I))
	case token.SHR:
		if y.I < 0 {
			return U
		}
		if y.I >= 64 {
			if x.I < 0 {
				return IntV(-1)
			}
			return IntV(0)
		}
		r.Rsh(a, uint(y.I))
	case token.LSS:
		return BoolV(a.Cmp(b) < 0)
	case token.LEQ:
		return BoolV(a.Cmp(b) <= 0)
	case token.GTR:
		return BoolV(a.Cmp(b) > 0)
	case token.GEQ:
		return BoolV(a.Cmp(b) >= 0)
	default:
		return U
	}
	return wrapInt(r, rt)
}

func equalVals(x, y Val) (eq bool, known bool) {
	isNilLike := func(v Val) bool { return v.K == Nil }
	isNonNil := func(v Val) bool {
		return v.K == Addr || v.K == Iface || v.K == NonNil || v.K == Func
	}
	switch {
	case x.K == Int && y.K == Int:
		return x.I == y.I, true
	case x.K == Bool && y.K == Bool:
		return x.B == y.B, true
	case x.K == Str && y.K == Str:
		return x.S == y.S, true
	case isNilLike(x) && isNilLike(y):
		return true, true
	case isNilLike(x) && isNonNil(y), isNonNil(x) && isNilLike(y):
		return false, true
	case x.K == Slice && isNilLike(y), isNilLike(x) && y.K == Slice:
		return false, false
	case x.K == Addr && y.K == Addr:
		if x.Obj.ID != y.Obj.ID {
			return false, true
		}
		return x.Path == y.Path, true
	}
	return false, false
}

func convert(x Val, from, to types.Type) Val {
	fb, ok1 := from.Underlying().(*types.Basic)
	tb, ok2 := to.Underlying().(*types.Basic)
	if !ok1 || !ok2 {
		return U
	}
	if fb.Info()&types.IsInteger != 0 && tb.Info()&types.IsInteger != 0 {
		if x.K != Int {
			return U
		}
		return wrapInt(big.NewInt(x.I), to)
	}
	return U
}


// evalGE: arithmetic on lower-bounded ints (only for Go's int, where the
// analysis assumes lengths and cursors stay far below 2^63).
func evalGE(op token.Token, x, y Val, rt types.Type) Val {
	isInt := func(t types.Type) bool {
		b, ok := t.Underlying().(*types.Basic)
		return ok && (b.Kind() == types.Int || b.Kind() == types.Int64)
	}
	lo := func(v Val) (int64, bool) {
		if v.K == Int || v.K == IntGE {
			return v.I, true
		}
		return 0, false
	}
	xl, okx := lo(x)
	yl, oky := lo(y)
	if !okx || !oky {
		return U
	}
	const big62 = int64(1) << 62
	switch op {
	case token.ADD:
		if isInt(rt) && xl > -big62 && yl > -big62 && xl < big62 && yl < big62 {
			return Val{K: IntGE, I: xl + yl}
		}
	case token.SUB:
		if isInt(rt) && x.K == IntGE && y.K == Int && xl > -big62 && xl < big62 && yl > -big62 && yl < big62 {
			return Val{K: IntGE, I: xl - yl}
		}
	case token.MUL:
		if isInt(rt) && xl >= 0 && yl >= 0 && xl < (1<<30) && yl < (1<<30) {
			return Val{K: IntGE, I: xl * yl}
		}
	case token.LSS: // x < y
		if y.K == Int && x.K == IntGE && xl >= yl {
			return BoolV(false)
		}
	case token.LEQ:
		if y.K == Int && x.K == IntGE && xl > yl {
			return BoolV(false)
		}
	case token.GTR: // x > y
		if y.K == Int && x.K == IntGE && xl > yl {
			return BoolV(true)
		}
		if x.K == Int && y.K == IntGE && xl <= yl {
			return BoolV(false)
		}
	case token.GEQ:
		if y.K == Int && x.K == IntGE && xl >= yl {
			return BoolV(true)
		}
		if x.K == Int && y.K == IntGE && xl < yl {
			return BoolV(false)
		}
	case token.EQL:
		if (x.K == IntGE && y.K == Int && yl < xl) || (y.K == IntGE && x.K == Int && xl < yl) {
			return BoolV(false)
		}
	case token.NEQ:
		if (x.K == IntGE && y.K == Int && yl < xl) || (y.K == IntGE && x.K == Int && xl < yl) {
			return BoolV(true)
		}
	}
	return U
}
