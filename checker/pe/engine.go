package pe

import (
	"strings"
	"os"
	"fmt"
	"go/constant"
	"go/token"
	"go/types"
	"math/big"
	"sort"

	"golang.org/x/tools/go/ssa"
)

// The evaluator is a conditional constant propagation (Wegman–Zadeck style)
// over go/ssa with an abstract heap: per-block heap states are joined at
// merges, register values are joined monotonically, branches on known
// conditions make only one successor executable. Package-local static callees
// are evaluated recursively (context-sensitively) up to MaxDepth. It always
// terminates: every register and heap cell can change at most twice
// (unset -> known -> Unknown).

// Hooks customise the evaluation.
type Hooks struct {
	// Call is consulted before a call is evaluated. If handled, result is
	// used as the call's value (use Tuple for multiple results).
	Call func(m *Machine, call ssa.CallInstruction, callee *ssa.Function, args []Val) (handled bool, result Val)
	// Load lets the client supply values for loads the evaluator does not know.
	Load func(m *Machine, in *ssa.UnOp, addr Val) (Val, bool)
	// Inline decides whether a package-local static callee is evaluated.
	Inline func(callee *ssa.Function, depth int) bool
	// Instr is called before each instruction.
	Instr func(m *Machine, in ssa.Instruction)
	// Edge is called whenever a control-flow edge is found executable.
	Edge func(m *Machine, from, to *ssa.BasicBlock)
}

// ReturnSite is one reachable return instruction of the root function.
type ReturnSite struct {
	Instr *ssa.Return
	Vals  []Val
	Heap  *heap
}

func (r *ReturnSite) Load(a Val, t types.Type) Val { return r.Heap.load(a, t) }

// Result of evaluating one function activation.
type Result struct {
	Returns []*ReturnSite
	Panics  bool // a panic instruction is reachable
	heapOut *heap
}

// Joined returns the join of the i-th result over all return sites.
func (r *Result) Joined(i int) Val {
	var out Val
	first := true
	for _, rs := range r.Returns {
		if i >= len(rs.Vals) {
			return U
		}
		if first {
			out, first = rs.Vals[i], false
		} else {
			out = joinVal(out, rs.Vals[i])
		}
	}
	if first {
		return U
	}
	return out
}

type Machine struct {
	Hooks    Hooks
	MaxDepth int
	Pkg      *ssa.Package
	Events   []Event
	init     *heap
	stack    []*activation
	Steps    int
	MaxSteps int
	Exceeded bool // the step budget ran out: results are incomplete and must not be used
}

type activation struct {
	fn    *ssa.Function
	env   map[ssa.Value]Val
	in    map[*ssa.BasicBlock]*heap
	cur   *heap
	call  ssa.CallInstruction
	dead  bool
	work  map[int]bool
}

// changed schedules the blocks that use v (SSA def-use edges), since register
// values are kept flow-insensitively.
func (a *activation) changed(v ssa.Value) {
	refs := v.Referrers()
	if refs == nil || a.work == nil {
		return
	}
	for _, ref := range *refs {
		if b := ref.Block(); b != nil && b.Parent() == a.fn {
			if _, reached := a.in[b]; reached {
				a.work[b.Index] = true
			}
		}
	}
}

func New(pkg *ssa.Package) *Machine {
	return &Machine{MaxDepth: 4, Pkg: pkg, init: &heap{objs: map[int]*Obj{}}, MaxSteps: 3000000}
}

// NewObj allocates an abstract object in the initial heap (before Run).
func (m *Machine) NewObj(name string, t types.Type, zero bool) *Obj {
	return m.init.newObj(name, t, zero, nil)
}

// SetCell sets a cell of an object in the initial heap.
func (m *Machine) SetCell(o *Obj, path string, v Val) { m.init.get(o).Cells[path] = v }

// Emit records an event (set semantics; events are not path-specific).
func (m *Machine) Emit(kind string, data any, pos token.Pos) {
	m.Events = append(m.Events, Event{kind, data, pos})
}

func (m *Machine) act() *activation { return m.stack[len(m.stack)-1] }

// Heap access for hooks (current state).
func (m *Machine) LoadAt(a Val, t types.Type) Val     { return m.act().cur.load(a, t) }
func (m *Machine) StoreAt(a Val, v Val, t types.Type) { m.act().cur.store(a, v, t) }
func (m *Machine) Havoc(v Val)                        { m.act().cur.havocReach(v, map[int]bool{}) }
// Val exposes the current abstract value of an SSA value (for hooks).
func (m *Machine) Val(v ssa.Value) Val { return m.val(v) }
func (m *Machine) Depth() int                         { return len(m.stack) }

// Run evaluates fn on the initial heap.
func (m *Machine) Run(fn *ssa.Function, args []Val) *Result {
	m.Events = nil
	m.Steps = 0
	m.Exceeded = false
	return m.eval(fn, args, nil, m.init.clone(), nil)
}

func (m *Machine) callString() string {
	s := ""
	for _, a := range m.stack {
		s += fmt.Sprintf("%p/", a.call)
	}
	return s
}

func (m *Machine) eval(fn *ssa.Function, args, binds []Val, h *heap, call ssa.CallInstruction) *Result {
	res := &Result{}
	if len(fn.Blocks) == 0 {
		res.heapOut = h
		return res
	}
	a := &activation{fn: fn, env: map[ssa.Value]Val{}, in: map[*ssa.BasicBlock]*heap{}, call: call}
	for i, p := range fn.Params {
		if i < len(args) {
			a.env[p] = args[i]
		} else {
			a.env[p] = U
		}
	}
	for i, fv := range fn.FreeVars {
		if i < len(binds) {
			a.env[fv] = binds[i]
		} else {
			a.env[fv] = U
		}
	}
	m.stack = append(m.stack, a)
	defer func() { m.stack = m.stack[:len(m.stack)-1] }()

	h.dropPinsOf(fn)
	a.in[fn.Blocks[0]] = h
	work := map[int]bool{0: true}
	a.work = work
	rets := map[*ssa.Return]*ReturnSite{}
	for len(work) > 0 {
		if m.Steps > m.MaxSteps {
			m.Exceeded = true
			break
		}
		// lowest block index first (reverse-post-order-ish, deterministic)
		bi := -1
		for i := range work {
			if bi < 0 || i < bi {
				bi = i
			}
		}
		delete(work, bi)
		b := fn.Blocks[bi]
		a.cur = a.in[b].clone()
		a.dead = false
		for _, in := range b.Instrs {
			if _, ok := in.(*ssa.Phi); ok {
				continue
			}
			m.Steps++
			if m.Hooks.Instr != nil {
				m.Hooks.Instr(m, in)
			}
			switch in := in.(type) {
			case *ssa.If:
				c := m.val(in.Cond)
				if c.K == Bool {
					m.propagate(a, b, pick(b, c.B), work)
				} else if hn, he, ok := m.nilCorrelation(a, in.Cond); ok {
					// Succs[0] is taken when the condition is true
					save := a.cur
					a.cur = hn[0]
					a.cur.pins = clonePins(save.pins)
					m.refine(a, in.Cond, true)
					m.propagate(a, b, b.Succs[0], work)
					a.cur = he[0]
					a.cur.pins = clonePins(save.pins)
					m.refine(a, in.Cond, false)
					m.propagate(a, b, b.Succs[1], work)
					a.cur = save
				} else {
					save := a.cur
					a.cur = save.clone()
					m.refine(a, in.Cond, true)
					m.propagate(a, b, b.Succs[0], work)
					a.cur = save.clone()
					m.refine(a, in.Cond, false)
					m.propagate(a, b, b.Succs[1], work)
					a.cur = save
				}
			case *ssa.Jump:
				m.propagate(a, b, b.Succs[0], work)
			case *ssa.Return:
				var vals []Val
				for _, r := range in.Results {
					vals = append(vals, m.val(r))
				}
				rets[in] = &ReturnSite{Instr: in, Vals: vals, Heap: a.cur}
			case *ssa.Panic:
				res.Panics = true
			default:
				m.exec(a, in)
			}
			if a.dead {
				break
			}
		}
	}
	var keys []*ssa.Return
	for k := range rets {
		keys = append(keys, k)
	}
	sort.Slice(keys, func(i, j int) bool { return keys[i].Block().Index < keys[j].Block().Index })
	for _, k := range keys {
		rs := rets[k]
		rs.Heap.dropPinsOf(fn)
		res.Returns = append(res.Returns, rs)
		if res.heapOut == nil {
			res.heapOut = rs.Heap.clone()
		} else {
			res.heapOut.joinFrom(rs.Heap)
		}
	}
	return res
}

// nilCorrelation recognises `x == nil` / `x != nil` where x is an Unknown error
// value with a correlation record that is still valid for the current heap. It
// returns the heap for the true successor and for the false successor.
func (m *Machine) nilCorrelation(a *activation, cond ssa.Value) (onTrue, onFalse [1]*heap, ok bool) {
	bo, isBin := cond.(*ssa.BinOp)
	if !isBin || (bo.Op != token.EQL && bo.Op != token.NEQ) {
		return
	}
	x, y := m.val(bo.X), m.val(bo.Y)
	var v Val
	switch {
	case y.K == Nil && x.K == Unknown && x.Corr != nil:
		v = x
	case x.K == Nil && y.K == Unknown && y.Corr != nil:
		v = y
	default:
		return
	}
	if v.Corr.Version != a.cur.version || v.Corr.WhenNil == nil || v.Corr.WhenNonNil == nil {
		return
	}
	hn, he := v.Corr.WhenNil.clone(), v.Corr.WhenNonNil.clone()
	if bo.Op == token.EQL {
		return [1]*heap{hn}, [1]*heap{he}, true
	}
	return [1]*heap{he}, [1]*heap{hn}, true
}

func clonePins(p map[ssa.Value]Val) map[ssa.Value]Val {
	if len(p) == 0 {
		return nil
	}
	n := make(map[ssa.Value]Val, len(p))
	for k, v := range p {
		n[k] = v
	}
	return n
}

// refine pins registers on the successor where cond has the given outcome:
// x == c / x != c with x Unknown and c a known scalar or nil.
func (m *Machine) refine(a *activation, cond ssa.Value, outcome bool) {
	a.cur.pin(cond, BoolV(outcome))
	switch c := cond.(type) {
	case *ssa.Extract:
		// a boolean component of a callee's result tuple: keep the return sites compatible with the
		// outcome and refine the sibling components accordingly
		t := m.val(c.Tuple)
		if t.K == Tuple && len(t.Alts) > 1 && c.Index < len(t.Fields) {
			var keep []Val
			for _, alt := range t.Alts {
				f := alt.Fields[c.Index]
				if f.K == Bool && f.B != outcome {
					continue
				}
				keep = append(keep, alt)
			}
			if len(keep) > 0 && len(keep) < len(t.Alts) {
				nt := Val{K: Tuple, Fields: append([]Val(nil), keep[0].Fields...), Alts: keep}
				for _, alt := range keep[1:] {
					for i := range nt.Fields {
						nt.Fields[i] = joinVal(nt.Fields[i], alt.Fields[i])
					}
				}
				a.cur.pin(c.Tuple, nt)
				if refs := c.Tuple.Referrers(); refs != nil {
					for _, ref := range *refs {
						if ex, ok := ref.(*ssa.Extract); ok && ex.Index < len(nt.Fields) && ex != c {
							a.cur.pin(ex, nt.Fields[ex.Index])
						}
					}
				}
			}
		}
	case *ssa.UnOp:
		if c.Op == token.NOT {
			m.refine(a, c.X, !outcome)
		}
	case *ssa.BinOp:
		if c.Op != token.EQL && c.Op != token.NEQ {
			return
		}
		equal := (c.Op == token.EQL) == outcome
		x, y := m.val(c.X), m.val(c.Y)
		target, other := c.X, y
		if x.K != Unknown {
			target, other = c.Y, x
			if y.K != Unknown {
				return
			}
		}
		if _, isConst := target.(*ssa.Const); isConst {
			return
		}
		switch other.K {
		case Nil:
			if equal {
				a.cur.pin(target, Val{K: Nil})
			} else {
				a.cur.pin(target, Val{K: NonNil})
			}
		case Int, Bool, Str:
			if equal {
				a.cur.pin(target, other)
			} else if other.K == Bool {
				a.cur.pin(target, BoolV(!other.B))
			}
		}
	}
}

func pick(b *ssa.BasicBlock, cond bool) *ssa.BasicBlock {
	if cond {
		return b.Succs[0]
	}
	return b.Succs[1]
}

func (m *Machine) propagate(a *activation, from, to *ssa.BasicBlock, work map[int]bool) {
	changed := false
	if m.Hooks.Edge != nil {
		m.Hooks.Edge(m, from, to)
	}
	// with duplicate edges (both successors the same block) handle each pred index
	for idx, p := range to.Preds {
		if p != from {
			continue
		}
		for _, in := range to.Instrs {
			phi, ok := in.(*ssa.Phi)
			if !ok {
				break
			}
			v := m.val(phi.Edges[idx])
			old, has := a.env[phi]
			nv := v
			if has {
				nv = joinVal(old, v)
			}
			if !has || !sameVal(old, nv) {
				a.env[phi] = nv
				changed = true
				if has {
					a.changed(phi)
				}
			}
		}
	}
	if a.in[to] == nil {
		a.in[to] = a.cur.clone()
		changed = true
	} else if a.in[to].joinFrom(a.cur) {
		changed = true
	}
	if changed {
		work[to.Index] = true
	}
}

func (m *Machine) val(v ssa.Value) Val {
	switch c := v.(type) {
	case *ssa.Const:
		return constVal(c)
	case *ssa.Function:
		return Val{K: Func, Fn: c}
	case *ssa.Global, *ssa.Builtin:
		return U
	}
	a := m.act()
	if a.cur != nil && a.cur.pins != nil {
		if x, ok := a.cur.pins[v]; ok {
			return x
		}
	}
	if x, ok := a.env[v]; ok {
		return x
	}
	return U
}

func constVal(c *ssa.Const) Val {
	if c.Value == nil {
		switch c.Type().Underlying().(type) {
		case *types.Pointer, *types.Interface, *types.Slice, *types.Map, *types.Signature, *types.Chan:
			return Val{K: Nil}
		}
		return zeroOf(c.Type())
	}
	switch c.Value.Kind() {
	case constant.Int:
		if i, ok := constant.Int64Val(c.Value); ok {
			return IntV(i)
		}
		if u, ok := constant.Uint64Val(c.Value); ok {
			return IntV(int64(u))
		}
	case constant.Bool:
		return BoolV(constant.BoolVal(c.Value))
	case constant.String:
		return Val{K: Str, S: constant.StringVal(c.Value)}
	}
	return U
}

// set joins monotonically: a register that is re-evaluated (loop) with a
// different value becomes Unknown.
func (m *Machine) set(v ssa.Value, x Val) {
	a := m.act()
	if old, ok := a.env[v]; ok {
		x = joinVal(old, x)
		if !sameVal(old, x) {
			a.env[v] = x
			a.changed(v)
			return
		}
	}
	a.env[v] = x
}

func (m *Machine) exec(a *activation, in ssa.Instruction) {
	h := a.cur
	switch in := in.(type) {
	case *ssa.Alloc:
		t := in.Type().(*types.Pointer).Elem()
		o := h.siteObj(allocName(in), t, in, m.callString())
		m.set(in, Val{K: Addr, Obj: o})
	case *ssa.FieldAddr:
		x := m.val(in.X)
		if x.K == Addr {
			m.set(in, Val{K: Addr, Obj: x.Obj, Path: fmt.Sprintf("%s.f%d", x.Path, in.Field)})
		} else {
			m.set(in, U)
		}
	case *ssa.Field:
		x := m.val(in.X)
		if x.K == Struct && in.Field < len(x.Fields) {
			m.set(in, x.Fields[in.Field])
		} else {
			m.set(in, U)
		}
	case *ssa.IndexAddr:
		x := m.val(in.X)
		i := m.val(in.Index)
		switch x.K {
		case Slice:
			if x.Off >= 0 && i.K == Int {
				m.set(in, Val{K: Addr, Obj: x.Obj, Path: fmt.Sprintf("%s[%d]", x.Path, x.Off+i.I)})
			} else {
				lo := x.Off
				if lo < 0 {
					lo = x.OffGE
				}
				if i.K == Int || i.K == IntGE {
					lo += i.I
				}
				if lo < 0 {
					lo = 0
				}
				m.set(in, Val{K: Addr, Obj: x.Obj, Path: fmt.Sprintf("%s[?%d]", x.Path, lo)})
			}
		case Addr: // pointer to array
			if i.K == Int {
				m.set(in, Val{K: Addr, Obj: x.Obj, Path: fmt.Sprintf("%s[%d]", x.Path, i.I)})
			} else {
				lo := int64(0)
				if i.K == IntGE && i.I > 0 {
					lo = i.I
				}
				m.set(in, Val{K: Addr, Obj: x.Obj, Path: fmt.Sprintf("%s[?%d]", x.Path, lo)})
			}
		default:
			m.set(in, U)
		}
	case *ssa.Slice:
		m.set(in, m.slice(in))
	case *ssa.UnOp:
		m.unop(in)
	case *ssa.BinOp:
		m.set(in, evalBinOp(in.Op, m.val(in.X), m.val(in.Y), in.X.Type(), in.Type()))
	case *ssa.Convert:
		m.set(in, convert(m.val(in.X), in.X.Type(), in.Type()))
	case *ssa.ChangeType:
		m.set(in, m.val(in.X))
	case *ssa.ChangeInterface:
		m.set(in, m.val(in.X))
	case *ssa.MakeInterface:
		x := m.val(in.X)
		m.set(in, Val{K: Iface, T: in.X.Type(), Inner: &x})
	case *ssa.TypeAssert:
		m.typeAssert(in)
	case *ssa.Extract:
		t := m.val(in.Tuple)
		if t.K == Tuple && in.Index < len(t.Fields) {
			m.set(in, t.Fields[in.Index])
		} else {
			m.set(in, U)
		}
	case *ssa.Store:
		h.store(m.val(in.Addr), m.val(in.Val), in.Val.Type())
	case *ssa.MakeSlice:
		et := in.Type().Underlying().(*types.Slice).Elem()
		o := h.siteObj("make", types.NewArray(et, 0), in, m.callString())
		l := m.val(in.Len)
		m.set(in, Val{K: Slice, Obj: o, Off: 0, Len: &l})
	case *ssa.MakeClosure:
		v := Val{K: Func, Fn: in.Fn.(*ssa.Function)}
		for _, b := range in.Bindings {
			v.Binds = append(v.Binds, m.val(b))
		}
		m.set(in, v)
	case *ssa.MakeMap, *ssa.MakeChan:
		m.set(in.(ssa.Value), Val{K: NonNil})
	case *ssa.Call:
		m.call(a, in)
	case *ssa.Defer, *ssa.Go:
		h.havocAll()
	case *ssa.RunDefers, *ssa.DebugRef:
	case *ssa.MapUpdate, *ssa.Send:
	default:
		if v, ok := in.(ssa.Value); ok {
			m.set(v, U)
		}
	}
}

func (m *Machine) slice(in *ssa.Slice) Val {
	x := m.val(in.X)
	lo := IntV(0)
	if in.Low != nil {
		lo = m.val(in.Low)
	}
	switch x.K {
	case Slice:
		nv := Val{K: Slice, Obj: x.Obj, Path: x.Path, Off: -1, Len: &Val{}}
		if x.Off >= 0 && lo.K == Int {
			nv.Off = x.Off + lo.I
		} else {
			base := x.Off
			if base < 0 {
				base = x.OffGE
			}
			if lo.K == Int || lo.K == IntGE {
				base += lo.I
			}
			if base > 0 {
				nv.OffGE = base
			}
		}
		if in.High != nil {
			hi := m.val(in.High)
			if hi.K == Int && lo.K == Int {
				l := IntV(hi.I - lo.I)
				nv.Len = &l
			}
		} else if x.Len != nil && x.Len.K == Int && lo.K == Int {
			l := IntV(x.Len.I - lo.I)
			nv.Len = &l
		} else if in.Low == nil && in.High == nil {
			nv.Len = x.Len
		}
		return nv
	case Addr: // slicing *array
		nv := Val{K: Slice, Obj: x.Obj, Path: x.Path, Off: -1, Len: &Val{}}
		if lo.K == Int {
			nv.Off = lo.I
		}
		if arr, ok := in.X.Type().Underlying().(*types.Pointer); ok {
			if at, ok := arr.Elem().Underlying().(*types.Array); ok && lo.K == Int {
				hiV := at.Len()
				if in.High != nil {
					if hv := m.val(in.High); hv.K == Int {
						hiV = hv.I
					} else {
						hiV = -1
					}
				}
				if hiV >= 0 {
					l := IntV(hiV - lo.I)
					nv.Len = &l
				}
			}
		}
		return nv
	case Str:
		return U
	}
	return U
}

func allocName(in *ssa.Alloc) string {
	if in.Comment != "" {
		return in.Comment
	}
	return "alloc"
}

func (m *Machine) unop(in *ssa.UnOp) {
	x := m.val(in.X)
	switch in.Op {
	case token.MUL: // load
		v := m.act().cur.load(x, in.Type())
		if (!v.Known() || allUnknown(v)) && m.Hooks.Load != nil {
			if hv, ok := m.Hooks.Load(m, in, x); ok {
				v = hv
			}
		}
		m.set(in, v)
	case token.NOT:
		if x.K == Bool {
			m.set(in, BoolV(!x.B))
		} else {
			m.set(in, U)
		}
	case token.SUB:
		if x.K == Int {
			m.set(in, wrapInt(new(big.Int).Neg(big.NewInt(x.I)), in.Type()))
		} else {
			m.set(in, U)
		}
	case token.XOR:
		if x.K == Int {
			m.set(in, wrapInt(new(big.Int).Not(big.NewInt(x.I)), in.Type()))
		} else {
			m.set(in, U)
		}
	default:
		m.set(in, U)
	}
}

func allUnknown(v Val) bool {
	if v.K == Unknown {
		return true
	}
	if v.K != Struct {
		return false
	}
	for _, f := range v.Fields {
		if !allUnknown(f) {
			return false
		}
	}
	return true
}

func (m *Machine) typeAssert(in *ssa.TypeAssert) {
	x := m.val(in.X)
	res := func(v Val, ok Val) {
		if in.CommaOk {
			m.set(in, Val{K: Tuple, Fields: []Val{v, ok}})
		} else {
			m.set(in, v)
		}
	}
	switch x.K {
	case Iface:
		var match bool
		if types.IsInterface(in.AssertedType) {
			match = types.Implements(x.T, in.AssertedType.Underlying().(*types.Interface))
		} else {
			match = types.Identical(x.T, in.AssertedType)
		}
		if match {
			if types.IsInterface(in.AssertedType) {
				res(x, BoolV(true))
			} else {
				res(*x.Inner, BoolV(true))
			}
		} else {
			if !in.CommaOk {
				m.Emit("assert-fail", in, in.Pos())
				m.act().dead = true // panics
				return
			}
			res(zeroOf(in.AssertedType), BoolV(false))
		}
	case Nil:
		if !in.CommaOk {
			m.Emit("assert-fail", in, in.Pos())
			m.act().dead = true
			return
		}
		res(zeroOf(in.AssertedType), BoolV(false))
	default:
		res(U, U)
	}
}

func (m *Machine) call(a *activation, in *ssa.Call) {
	c := in.Common()
	var args, binds []Val
	var callee *ssa.Function
	if c.IsInvoke() {
		recv := m.val(c.Value)
		if recv.K == Iface {
			ms := m.Pkg.Prog.MethodSets.MethodSet(recv.T)
			if sel := ms.Lookup(c.Method.Pkg(), c.Method.Name()); sel != nil {
				callee = m.Pkg.Prog.MethodValue(sel)
			}
			args = append(args, *recv.Inner)
		} else {
			args = append(args, recv)
		}
	} else {
		switch fv := c.Value.(type) {
		case *ssa.Function:
			callee = fv
		case *ssa.Builtin:
			m.builtin(a, in, fv)
			return
		default:
			v := m.val(c.Value)
			if v.K == Func {
				callee = v.Fn
				binds = v.Binds
			}
		}
	}
	for _, x := range c.Args {
		args = append(args, m.val(x))
	}
	if m.Hooks.Call != nil {
		if handled, res := m.Hooks.Call(m, in, callee, args); handled {
			m.set(in, res)
			return
		}
	}
	depth := len(m.stack)
	if callee != nil && len(callee.Blocks) > 0 && depth < m.MaxDepth && inPkg(callee, m.Pkg) &&
		(m.Hooks.Inline == nil || m.Hooks.Inline(callee, depth)) && !m.onStack(callee) {
		res := m.eval(callee, args, binds, a.cur, in)
		if len(res.Returns) == 0 {
			a.dead = true // callee never returns normally on this state
			return
		}
		a.cur = res.heapOut
		a.cur.touch()
		n := callee.Signature.Results().Len()
		var corr *Corr
		if n > 0 && isErrorType(callee.Signature.Results().At(n-1).Type()) {
			corr = &Corr{Version: a.cur.version}
			for _, rs := range res.Returns {
				e := rs.Vals[n-1]
				if e.K == Nil || e.K == Unknown {
					if corr.WhenNil == nil {
						corr.WhenNil = rs.Heap.clone()
					} else {
						corr.WhenNil.joinFrom(rs.Heap)
					}
				}
				if e.K != Nil {
					if corr.WhenNonNil == nil {
						corr.WhenNonNil = rs.Heap.clone()
					} else {
						corr.WhenNonNil.joinFrom(rs.Heap)
					}
				}
			}
		}
		withCorr := func(i int, v Val) Val {
			if corr != nil && i == n-1 && v.K == Unknown {
				v.Corr = corr
			}
			return v
		}
		switch n {
		case 0:
		case 1:
			m.set(in, withCorr(0, res.Joined(0)))
		default:
			t := Val{K: Tuple}
			for i := 0; i < n; i++ {
				t.Fields = append(t.Fields, withCorr(i, res.Joined(i)))
			}
			if len(res.Returns) > 1 && len(res.Returns) <= 8 {
				for _, rs := range res.Returns {
					if len(rs.Vals) == n {
						t.Alts = append(t.Alts, Val{K: Tuple, Fields: append([]Val(nil), rs.Vals...)})
					}
				}
			}
			m.set(in, t)
		}
		return
	}
	if callee != nil && m.getUint(a, in, callee, args) {
		return
	}
	if callee != nil && callee.String() == "math.Float32frombits" && len(args) == 1 && args[0].K == Int {
		// the float is kept as its bit pattern (tagged), enough to tell a definite zero from a definite non-zero
		m.set(in, Val{K: Int, I: args[0].I & 0xffffffff, S: "float32bits"})
		return
	}
	if callee != nil && pureExternal(callee) {
		m.set(in, externalResult(callee, in))
		return
	}
	if callee != nil && m.putUint(a, callee, args) {
		return
	}

	for _, x := range args {
		a.cur.havocReach(x, map[int]bool{})
	}
	for _, b := range binds {
		a.cur.havocReach(b, map[int]bool{})
	}
	m.set(in, externalResult(callee, in))
}

// getUint models (encoding/binary.bigEndian).UintN on a slice whose first N/8 octets are known constants:
// the big-endian value; otherwise the result is unknown (nothing is written either way).
func (m *Machine) getUint(a *activation, in ssa.Value, callee *ssa.Function, args []Val) bool {
	n := 0
	switch callee.String() {
	case "(encoding/binary.bigEndian).Uint16":
		n = 2
	case "(encoding/binary.bigEndian).Uint32":
		n = 4
	case "(encoding/binary.bigEndian).Uint64":
		n = 8
	default:
		return false
	}
	if len(args) != 2 {
		return false
	}
	src := args[1]
	if src.K != Slice || src.Off < 0 || n > 4 {
		m.set(in, U)
		return true
	}
	var v int64
	for i := 0; i < n; i++ {
		c := a.cur.load(Val{K: Addr, Obj: src.Obj, Path: fmt.Sprintf("%s[%d]", src.Path, src.Off+int64(i))}, types.Typ[types.Uint8])
		if c.K != Int {
			m.set(in, U)
			return true
		}
		v = v<<8 | (c.I & 0xff)
	}
	m.set(in, IntV(v))
	return true
}

// putUint models (encoding/binary.bigEndian).PutUintN: it writes exactly the
// first N/8 bytes of its slice argument (big-endian) and nothing else.
func (m *Machine) putUint(a *activation, callee *ssa.Function, args []Val) bool {
	n := 0
	switch callee.String() {
	case "(encoding/binary.bigEndian).PutUint16":
		n = 2
	case "(encoding/binary.bigEndian).PutUint32":
		n = 4
	case "(encoding/binary.bigEndian).PutUint64":
		n = 8
	default:
		return false
	}
	if len(args) != 3 {
		return false
	}
	dst, v := args[1], args[2]
	if os.Getenv("PEDEBUG") != "" {
		fmt.Fprintf(os.Stderr, "putUint dst=%v off=%d ge=%d kind=%d\n", dst, dst.Off, dst.OffGE, dst.K)
	}
	if dst.K != Slice {
		a.cur.havocAll()
		return true
	}
	if dst.Off < 0 {
		a.cur.touch()
		if o := a.cur.get(dst.Obj); o != nil {
			a.cur.havocFrom(o, dst.Path, dst.OffGE)
		}
		return true
	}
	for i := 0; i < n; i++ {
		b := U
		if v.K == Int {
			b = IntV(int64((uint64(v.I) >> (8 * uint(n-1-i))) & 0xff))
		}
		a.cur.store(Val{K: Addr, Obj: dst.Obj, Path: fmt.Sprintf("%s[%d]", dst.Path, dst.Off+int64(i))}, b, types.Typ[types.Uint8])
	}
	return true
}

func isErrorType(t types.Type) bool {
	return types.Identical(t, types.Universe.Lookup("error").Type())
}

func (m *Machine) onStack(fn *ssa.Function) bool {
	for _, a := range m.stack {
		if a.fn == fn {
			return true
		}
	}
	return false
}

func (m *Machine) builtin(a *activation, in *ssa.Call, b *ssa.Builtin) {
	c := in.Common()
	switch b.Name() {
	case "len":
		x := m.val(c.Args[0])
		switch x.K {
		case Slice:
			if x.Len != nil && x.Len.K == Int {
				m.set(in, *x.Len)
				return
			}
		case Str:
			m.set(in, IntV(int64(len(x.S))))
			return
		case Nil:
			m.set(in, IntV(0))
			return
		}
		m.set(in, U)
	case "append":
		x := m.val(c.Args[0])
		if x.K == Slice {
			a.cur.havocObj(x.Obj)
		}
		m.set(in, Val{K: NonNil})
	case "copy":
		x := m.val(c.Args[0])
		if x.K == Slice {
			// only octets at or after the start of the destination slice can change
			lo := x.Off
			if lo < 0 {
				lo = x.OffGE
			}
			a.cur.touch()
			if o := a.cur.get(x.Obj); o != nil && lo > 0 {
				a.cur.havocFrom(o, x.Path, lo)
			} else {
				a.cur.havocObj(x.Obj)
			}
		} else {
			a.cur.havocAll()
		}
		m.set(in, U)
	default:
		m.set(in, U)
	}
}

// ---- joins ----

func joinVal(a, b Val) Val {
	if a.K == Unknown && b.K == Unknown {
		return b // carries the newest correlation hint (guarded by heap version)
	}
	if sameVal(a, b) {
		return a
	}
	// one widening step for integers: keep a lower bound
	if (a.K == Int || a.K == IntGE) && (b.K == Int || b.K == IntGE) {
		if a.K == Int {
			lo := a.I
			if b.I < lo {
				lo = b.I
			}
			return Val{K: IntGE, I: lo}
		}
		if b.I >= a.I {
			return a
		}
		return U
	}
	if a.K == Slice && b.K == Slice && a.Obj.ID == b.Obj.ID && a.Path == b.Path {
		lo := func(v Val) int64 {
			if v.Off >= 0 {
				return v.Off
			}
			return v.OffGE
		}
		al, bl := lo(a), lo(b)
		if a.Off < 0 && bl >= al {
			r := a
			r.Len = &Val{}
			return r // stable
		}
		if a.Off >= 0 {
			if bl < al {
				al = bl
			}
			return Val{K: Slice, Obj: a.Obj, Path: a.Path, Off: -1, OffGE: al, Len: &Val{}}
		}
		return Val{K: Slice, Obj: a.Obj, Path: a.Path, Off: -1, OffGE: 0, Len: &Val{}}
	}
	if a.K == Addr && b.K == Addr && a.Obj.ID == b.Obj.ID {
		if pa, la, oka := splitIndex(a.Path); oka {
			if pb, lb, okb := splitIndex(b.Path); okb && pa == pb {
				if strings.HasSuffix(a.Path, fmt.Sprintf("[?%d]", la)) && lb >= la {
					return a // stable
				}
				if lb < la {
					la = lb
				}
				if strings.Contains(a.Path, "[?") && lb < la {
					la = 0
				}
				return Val{K: Addr, Obj: a.Obj, Path: fmt.Sprintf("%s[?%d]", pa, la)}
			}
		}
	}
	// nil-ness survives the join of two different non-nil things
	if isNonNilVal(a) && isNonNilVal(b) {
		return Val{K: NonNil}
	}
	return U
}

// splitIndex splits "pre[12]" or "pre[?12]" into ("pre", 12).
func splitIndex(p string) (pre string, idx int64, ok bool) {
	if !strings.HasSuffix(p, "]") {
		return "", 0, false
	}
	i := strings.LastIndex(p, "[")
	if i < 0 {
		return "", 0, false
	}
	body := strings.TrimPrefix(p[i+1:len(p)-1], "?")
	if _, err := fmt.Sscanf(body, "%d", &idx); err != nil {
		return "", 0, false
	}
	return p[:i], idx, true
}

func isNonNilVal(v Val) bool {
	return v.K == Addr || v.K == Iface || v.K == NonNil || v.K == Func
}

// joinFrom joins other into h; reports whether h changed.
func (h *heap) joinFrom(o *heap) bool {
	changed := false
	if h.version != o.version {
		defer h.touch()
	}
	for k, v := range h.pins {
		if ov, ok := o.pins[k]; !ok || !sameVal(v, ov) {
			delete(h.pins, k)
			changed = true
		}
	}
	if o.next > h.next {
		h.next = o.next
	}
	for id, oo := range o.objs {
		ho := h.objs[id]
		if ho == nil {
			c := *oo
			c.Cells = make(map[string]Val, len(oo.Cells))
			for k, v := range oo.Cells {
				c.Cells[k] = v
			}
			h.objs[id] = &c
			changed = true
			continue
		}
		if oo.Multi && !ho.Multi {
			ho.Multi = true
			changed = true
		}
		// cells present in h
		for k, hv := range ho.Cells {
			ov, ok := oo.Cells[k]
			if !ok {
				if oo.DefZero && isZeroVal(hv) {
					continue
				}
				if hv.K != Unknown {
					ho.Cells[k] = U
					changed = true
				}
				continue
			}
			nv := joinVal(hv, ov)
			if !sameVal(hv, nv) {
				ho.Cells[k] = nv
				changed = true
			}
		}
		// cells only in o
		for k, ov := range oo.Cells {
			if _, ok := ho.Cells[k]; ok {
				continue
			}
			if ho.DefZero {
				if isZeroVal(ov) {
					continue
				}
				ho.Cells[k] = U
				changed = true
				continue
			}
			// missing in h and h not zero-default: already unknown
		}
		if ho.DefZero && !oo.DefZero {
			ho.DefZero = false
			changed = true
		}
	}
	return changed
}
