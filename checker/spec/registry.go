// Package spec holds the reference tables written from the RFC texts and the
// IANA registries (NOT derived from /repo). The only place identifiers of
// /repo appear is the mapping "registered packet kind -> Go type name".
package spec

// PTFMT identifies a packet kind; FMT = -1 means "any count/FMT value".
type PTFMT struct {
	PT  int
	FMT int
}

// Registry: IANA "RTCP Control Packet Types" and "FMT Values for RTPFB/PSFB
// Payload Types" as used by the property statement C07.
var Registry = map[PTFMT]string{
	{200, -1}: "SenderReport",                    // RFC 3550 6.4.1
	{201, -1}: "ReceiverReport",                  // RFC 3550 6.4.2
	{202, -1}: "SourceDescription",               // RFC 3550 6.5
	{203, -1}: "Goodbye",                         // RFC 3550 6.6
	{204, -1}: "ApplicationDefined",              // RFC 3550 6.7
	{205, 1}:  "TransportLayerNack",              // RFC 4585 6.2.1
	{205, 5}:  "RapidResynchronizationRequest",   // RFC 6051
	{205, 11}: "CCFeedbackReport",                // RFC 8888
	{205, 15}: "TransportLayerCC",                // draft-holmer-rmcat-transport-wide-cc-extensions
	{206, 1}:  "PictureLossIndication",           // RFC 4585 6.3.1
	{206, 2}:  "SliceLossIndication",             // RFC 4585 6.3.2
	{206, 4}:  "FullIntraRequest",                // RFC 5104 4.3.1
	{206, 15}: "ReceiverEstimatedMaximumBitrate", // draft-alvestrand-rmcat-remb (AFB)
	{207, -1}: "ExtendedReport",                  // RFC 3611
}

// Default is the Go type every other (PT,FMT) must be returned as.
const Default = "RawPacket"

// TypeFor returns the Go type name registered for (pt,fmt).
func TypeFor(pt, fmt int) string {
	if t, ok := Registry[PTFMT{pt, -1}]; ok {
		return t
	}
	if t, ok := Registry[PTFMT{pt, fmt}]; ok {
		return t
	}
	return Default
}

// KindsOf returns the registry rows of a Go type.
func KindsOf(typ string) []PTFMT {
	var out []PTFMT
	for k, v := range Registry {
		if v == typ {
			out = append(out, k)
		}
	}
	return out
}

// XRBlockTypes: RFC 3611 section 4, block type -> Go type name.
var XRBlockTypes = map[int]string{
	1: "LossRLEReportBlock",
	2: "DuplicateRLEReportBlock",
	3: "PacketReceiptTimesReportBlock",
	4: "ReceiverReferenceTimeReportBlock",
	5: "DLRRReportBlock",
	6: "StatisticsSummaryReportBlock",
	7: "VoIPMetricsReportBlock",
}

const XRDefault = "UnknownReportBlock"
