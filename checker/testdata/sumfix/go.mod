module sumfix

go 1.21
