// Package sumfix is the fixture of the symbolic-sum engine's unit tests (checker/sum).
package sumfix

import "errors"

var errTooLong = errors.New("too long")

type Item struct {
	Kind uint8
	Text string
}

type Chunk struct {
	ID    uint32
	Items []Item
}

type Packet struct {
	Chunks []Chunk
	Small  []uint16
}

func pad(n int) int {
	if n%4 == 0 {
		return 0
	}
	return 4 - n%4
}

func (it Item) Len() int { return 2 + len(it.Text) }

func (it Item) Marshal() ([]byte, error) {
	if len(it.Text) > 255 {
		return nil, errTooLong
	}
	out := make([]byte, 2)
	out[0] = it.Kind
	out[1] = byte(len(it.Text))
	out = append(out, it.Text...)
	return out, nil
}

func (c Chunk) size() int {
	n := 4
	for _, it := range c.Items {
		n += it.Len()
	}
	n++
	return n + pad(n)
}

// Marshal agrees with size.
func (c Chunk) Marshal() ([]byte, error) {
	out := make([]byte, 4)
	for _, it := range c.Items {
		b, err := it.Marshal()
		if err != nil {
			return nil, err
		}
		out = append(out, b...)
	}
	out = append(out, 0)
	out = append(out, make([]byte, pad(len(out)))...)
	return out, nil
}

// MarshalShort forgets the terminating octet: disagrees with size.
func (c Chunk) MarshalShort() ([]byte, error) {
	out := make([]byte, 4)
	for _, it := range c.Items {
		b, err := it.Marshal()
		if err != nil {
			return nil, err
		}
		out = append(out, b...)
	}
	out = append(out, make([]byte, pad(len(out)))...)
	return out, nil
}

func (p *Packet) Size() int {
	n := 0
	for i := 0; i < len(p.Chunks); i++ {
		n += p.Chunks[i].size()
	}
	return 8 + n
}

// Marshal: the cursor is a prefix sum of the chunk sizes, the buffer the full sum.
func (p Packet) Marshal() ([]byte, error) {
	buf := make([]byte, p.Size())
	off := 8
	for _, c := range p.Chunks {
		b, err := c.Marshal()
		if err != nil {
			return nil, err
		}
		copy(buf[off:], b)
		off += len(b)
	}
	return buf, nil
}

// MarshalOver advances the cursor by one octet more than the chunk size.
func (p Packet) MarshalOver() ([]byte, error) {
	buf := make([]byte, p.Size())
	off := 8
	for _, c := range p.Chunks {
		b, err := c.Marshal()
		if err != nil {
			return nil, err
		}
		copy(buf[off:], b)
		off += len(b) + 1
	}
	return buf, nil
}

// MarshalBreak leaves the loop early: the accumulated length after the loop is not the full sum.
func (p Packet) MarshalBreak() []byte {
	var out []byte
	for _, c := range p.Chunks {
		if c.ID == 0 {
			break
		}
		out = append(out, 1, 2, 3, 4)
	}
	return out
}

// Narrow adds up in 16 bits: may wrap, must stay uninterpreted.
func (p Packet) Narrow() uint16 {
	n := uint16(0)
	for range p.Small {
		n += 2
	}
	return n
}

// Wide is the same in int.
func (p Packet) Wide() int {
	n := 0
	for range p.Small {
		n += 2
	}
	return n
}
