module bitsfix

go 1.21
