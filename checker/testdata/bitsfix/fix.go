// Package bitsfix holds small encoders/decoders with a known layout; the tests of checker/bits
// compare the extracted maps with the layout written in the test.
package bitsfix

import (
	"encoding/binary"
	"errors"
)

var errShort = errors.New("short")

type Unit struct {
	Flag  bool
	Small uint8 // 5 bits on the wire
	Wide  uint32
	List  []Entry
}

type Entry struct {
	A uint16
	B uint8
}

// Marshal: octet 0 = 1 1 Flag Small(5); octets 1..4 Wide big endian; then entries of 4 octets: A(16) B(8) 0(8).
func (u Unit) Marshal() ([]byte, error) {
	if u.Small > 31 {
		return nil, errShort
	}
	out := make([]byte, 5+4*len(u.List))
	out[0] = 0xC0
	if u.Flag {
		out[0] |= 1 << 5
	}
	out[0] |= u.Small
	binary.BigEndian.PutUint32(out[1:], u.Wide)
	for i, e := range u.List {
		binary.BigEndian.PutUint16(out[5+4*i:], e.A)
		out[5+4*i+2] = e.B
	}
	return out, nil
}

func (u *Unit) Unmarshal(b []byte) error {
	if len(b) < 5 {
		return errShort
	}
	u.Flag = b[0]>>5&1 != 0
	u.Small = b[0] & 0x1F
	u.Wide = uint32(b[1])<<24 | uint32(b[2])<<16 | uint32(b[3])<<8 | uint32(b[4])
	for off := 5; off+4 <= len(b); off += 4 {
		u.List = append(u.List, Entry{A: binary.BigEndian.Uint16(b[off:]), B: b[off+2]})
	}
	return nil
}

// BadUnmarshal swaps two octets of Wide: the composition with Marshal is not the identity.
func (u *Unit) BadUnmarshal(b []byte) error {
	if len(b) < 5 {
		return errShort
	}
	u.Wide = uint32(b[1])<<24 | uint32(b[3])<<16 | uint32(b[2])<<8 | uint32(b[4])
	return nil
}
