module fixture

go 1.20
