// Package fixture is the positive control for the C18 rules: every rule must
// fire here on every run (a rule whose expected count is zero on pion/rtcp
// would otherwise pass vacuously forever).
package fixture

import (
	"reflect"
	"sort"
)

var scratch [64]byte // package-level scratch buffer (C18-GLOB must fire)

type P struct {
	SSRCs []uint32
	size  int
}

// Marshal encodes into the shared scratch buffer and returns it (C18-GLOB, C18-FRESH).
func (p P) Marshal() ([]byte, error) {
	scratch[0] = byte(len(p.SSRCs))
	return scratch[:4], nil
}

// MarshalSize memoises through the pointer receiver (C18-RECV).
func (p *P) MarshalSize() int {
	if p.size == 0 {
		p.size = 4 + 4*len(p.SSRCs)
	}
	return p.size
}

// DestinationSSRC sorts the shared slice in place (C18-RECV via by-value receiver).
func (p P) DestinationSSRC() []uint32 {
	sort.Slice(p.SSRCs, func(i, j int) bool { return p.SSRCs[i] < p.SSRCs[j] })
	return p.SSRCs
}

// Unmarshal normalises its input in place (C18-INPUT).
func (p *P) Unmarshal(raw []byte) error {
	if len(raw) > 0 {
		raw[0] &= 0x1f
	}
	go func() {}() // forbidden construct (C18-GLOB)
	return nil
}

type buf struct{ bytes []byte }

// fill hands the rest of the buffer to a reflect setter: the target then shares memory with the buffer.
func (b *buf) fill(v interface{}) {
	reflect.Indirect(reflect.ValueOf(v)).SetBytes(b.bytes)
}

type Q struct{ Opaque []byte }

// Unmarshal keeps a reference into the caller's buffer through a local holder and a reflect setter
// (C18-RETAIN must fire: two sites that each look harmless).
func (q *Q) Unmarshal(raw []byte) error {
	b := buf{bytes: raw[4:]}
	b.fill(&q.Opaque)
	return nil
}
