package bits

import (
	"fmt"
	"sync"
	"go/token"
	"go/types"
	"sort"
	"strings"

	"golang.org/x/tools/go/ssa"
)

// Ret is one return of an evaluated function.
type Ret struct {
	Vals []Value
	St   *State
	Err  ErrV // classification of the last result if it is an error
	In   *ssa.Return
}

type loopInfo struct {
	header  *ssa.BasicBlock
	blocks  map[*ssa.BasicBlock]bool
	latches []*ssa.BasicBlock
	depth   int
	rebound bool // header phis already re-bound to their values after the loop
}

type frame struct {
	fn     *ssa.Function
	vals   map[ssa.Value]Value
	out    map[*ssa.BasicBlock]map[*ssa.BasicBlock]*State // edge states: from -> to
	loops  map[*ssa.BasicBlock]*loopInfo                  // by header
	inLoop map[*ssa.BasicBlock]*loopInfo                  // innermost loop of a block
	depth  int
	rets   []Ret
	args   []Value
	binds  []Value
	// unrolling of constant-trip loops
	unroll   map[*ssa.BasicBlock]*unrollCtx // by header, while the loop is being / has been unrolled
	unrolled map[*ssa.BasicBlock]bool       // blocks already evaluated by the unroller
}

type unrollCtx struct {
	k      int64
	ind    *ssa.Phi
	init   int64
	step   int64
	prev   map[*ssa.Phi]Value // header phi -> value carried from the previous iteration
	active bool
}

// Call evaluates fn on args in state st (which is not modified) and returns its returns.
func (e *Engine) Call(fn *ssa.Function, args []Value, binds []Value, st *State, depth int) []Ret {
	if len(fn.Blocks) == 0 {
		return nil
	}
	fr := &frame{fn: fn, vals: map[ssa.Value]Value{}, out: map[*ssa.BasicBlock]map[*ssa.BasicBlock]*State{}, depth: depth, args: args, binds: binds}
	fr.unroll = map[*ssa.BasicBlock]*unrollCtx{}
	fr.unrolled = map[*ssa.BasicBlock]bool{}
	fr.findLoops()
	order := fr.order()
	for _, b := range order {
		if fr.unrolled[b] {
			continue
		}
		in := e.entryState(fr, b, st)
		if in == nil || in.dead {
			continue
		}
		if l := fr.loops[b]; l != nil {
			if ind, init, step, n, ok := e.constTrip(fr, l, in); ok {
				e.unrollLoop(fr, l, order, in, ind, init, step, n)
				continue
			}
		}
		e.runBlock(fr, b, in)
	}
	return fr.rets
}

// constTrip recognises `for i := a; i < c; i += s` with constants (innermost loop, one latch,
// exit only from the header) and returns the trip count.
func (e *Engine) constTrip(fr *frame, l *loopInfo, in *State) (ind *ssa.Phi, init, step, n int64, ok bool) {
	if len(l.latches) != 1 {
		return
	}
	for _, o := range fr.loops {
		if o != l && l.blocks[o.header] {
			return // has an inner loop
		}
	}
	h := l.header
	iff, isIf := h.Instrs[len(h.Instrs)-1].(*ssa.If)
	if !isIf || !l.blocks[h.Succs[0]] || l.blocks[h.Succs[1]] {
		return
	}
	for b := range l.blocks {
		if b == h {
			continue
		}
		for _, sc := range b.Succs {
			if !l.blocks[sc] {
				if _, isRet := sc.Instrs[len(sc.Instrs)-1].(*ssa.Return); !isRet {
					return // leaves the loop other than by returning
				}
			}
		}
	}
	cmp, isCmp := iff.Cond.(*ssa.BinOp)
	if !isCmp || cmp.Op != token.LSS {
		return
	}
	phi, isPhi := cmp.X.(*ssa.Phi)
	plus := int64(0)
	if !isPhi {
		// range form: the compared value is phi + 1, computed in the header
		if bo, isBo := cmp.X.(*ssa.BinOp); isBo && bo.Op == token.ADD && bo.Block() == h {
			if p2, isP := bo.X.(*ssa.Phi); isP {
				if c1, isC := bo.Y.(*ssa.Const); isC {
					if v, okc := constOf(c1); okc && v == 1 {
						phi, isPhi, plus = p2, true, 1
					}
				}
			}
		}
	}
	if !isPhi || phi.Block() != h {
		return
	}
	var bound uint64
	okb := false
	if k, isK := cmp.Y.(*ssa.Const); isK {
		bound, okb = constOf(k)
	} else if h.Dominates(h) && cmp.Y != nil {
		// a bound computed before the loop that is a constant in the entry state (len of a list of assumed length)
		if def, isInstr := cmp.Y.(ssa.Instruction); isInstr && !l.blocks[def.Block()] {
			if iv, isInt := e.val(fr, cmp.Y, in).(*IntV); isInt && iv.A != nil && iv.A.isConst() && iv.A.C >= 0 {
				bound, okb = uint64(iv.A.C), true
			}
		}
	}
	var initV, stepV ssa.Value
	for i, p := range h.Preds {
		if l.blocks[p] {
			stepV = phi.Edges[i]
		} else {
			initV = phi.Edges[i]
		}
	}
	ic, isIC := initV.(*ssa.Const)
	if !okb || !isIC || stepV == nil {
		return
	}
	a, oka := constOf(ic)
	sc, oks := stepConst(phi, stepV)
	if !oka || !oks || sc <= 0 {
		return
	}
	cnt := int64(0)
	first := int64(a) + plus // first compared value
	if int64(bound) > first {
		cnt = (int64(bound) - first + sc - 1) / sc
	}
	if cnt > 64 {
		return
	}
	return phi, int64(a), sc, cnt, true
}

// unrollLoop evaluates the loop n times with a concrete induction value, then takes the exit edge.
func (e *Engine) unrollLoop(fr *frame, l *loopInfo, order []*ssa.BasicBlock, in *State, ind *ssa.Phi, init, step, n int64) {
	ctx := &unrollCtx{ind: ind, init: init, step: step, prev: map[*ssa.Phi]Value{}, active: true}
	fr.unroll[l.header] = ctx
	var body []*ssa.BasicBlock
	for _, b := range order {
		if l.blocks[b] && b != l.header {
			body = append(body, b)
		}
	}
	var latchIdx int
	for i, p := range l.header.Preds {
		if l.blocks[p] {
			latchIdx = i
		}
	}
	latch := l.latches[0]
	clear := func() {
		for b := range l.blocks {
			for _, instr := range b.Instrs {
				if v, ok := instr.(ssa.Value); ok {
					delete(fr.vals, v)
				}
			}
		}
	}
	st := in
	for k := int64(0); k <= n; k++ {
		ctx.k = k
		clear()
		if st == nil || st.dead {
			break
		}
		e.runBlock(fr, l.header, st.clone())
		if k == n {
			break // the header's condition is false now: the exit edge state is set
		}
		for _, b := range body {
			bs := e.entryState(fr, b, in)
			if bs == nil || bs.dead {
				continue
			}
			e.runBlock(fr, b, bs)
		}
		// carry header phis
		next := map[*ssa.Phi]Value{}
		ls := fr.out[latch][l.header]
		for _, instr := range l.header.Instrs {
			phi, ok := instr.(*ssa.Phi)
			if !ok {
				break
			}
			next[phi] = e.val(fr, phi.Edges[latchIdx], ls)
		}
		ctx.prev = next
		st = ls
		// the edge states of this iteration must not leak into the next
		for b := range l.blocks {
			if b != latch {
				delete(fr.out, b)
			}
		}
	}
	for b := range l.blocks {
		fr.unrolled[b] = true
	}
	ctx.active = false
}

func (fr *frame) findLoops() {
	fr.loops = map[*ssa.BasicBlock]*loopInfo{}
	fr.inLoop = map[*ssa.BasicBlock]*loopInfo{}
	for _, b := range fr.fn.Blocks {
		for _, s := range b.Succs {
			if s.Dominates(b) { // back edge b -> s
				l := fr.loops[s]
				if l == nil {
					l = &loopInfo{header: s, blocks: map[*ssa.BasicBlock]bool{s: true}}
					fr.loops[s] = l
				}
				l.latches = append(l.latches, b)
				// natural loop body
				stack := []*ssa.BasicBlock{b}
				for len(stack) > 0 {
					x := stack[len(stack)-1]
					stack = stack[:len(stack)-1]
					if l.blocks[x] {
						continue
					}
					l.blocks[x] = true
					stack = append(stack, x.Preds...)
				}
			}
		}
	}
	// nesting depth and innermost loop
	var ls []*loopInfo
	for _, l := range fr.loops {
		ls = append(ls, l)
	}
	sort.Slice(ls, func(i, j int) bool { return len(ls[i].blocks) > len(ls[j].blocks) })
	for _, l := range ls {
		l.depth = 1
		for _, o := range ls {
			if o != l && o.blocks[l.header] && len(o.blocks) > len(l.blocks) {
				l.depth++
			}
		}
		for b := range l.blocks {
			if cur := fr.inLoop[b]; cur == nil || len(l.blocks) < len(cur.blocks) {
				fr.inLoop[b] = l
			}
		}
	}
}

// order: topological order of the forward edges, loop exits after the loop's latches.
func (fr *frame) order() []*ssa.BasicBlock {
	deps := map[*ssa.BasicBlock]map[*ssa.BasicBlock]bool{}
	add := func(to, from *ssa.BasicBlock) {
		if deps[to] == nil {
			deps[to] = map[*ssa.BasicBlock]bool{}
		}
		deps[to][from] = true
	}
	for _, b := range fr.fn.Blocks {
		for _, s := range b.Succs {
			if s.Dominates(b) {
				continue // back edge
			}
			add(s, b)
			// exit edge of a loop: wait for its latches
			for _, l := range fr.loops {
				if l.blocks[b] && !l.blocks[s] {
					for _, la := range l.latches {
						add(s, la)
					}
				}
			}
		}
	}
	var out []*ssa.BasicBlock
	done := map[*ssa.BasicBlock]bool{}
	reach := map[*ssa.BasicBlock]bool{}
	var mark func(b *ssa.BasicBlock)
	mark = func(b *ssa.BasicBlock) {
		if reach[b] {
			return
		}
		reach[b] = true
		for _, s := range b.Succs {
			mark(s)
		}
	}
	mark(fr.fn.Blocks[0])
	for len(out) < len(fr.fn.Blocks) {
		progress := false
		for _, b := range fr.fn.Blocks {
			if done[b] || !reach[b] {
				continue
			}
			ready := true
			for d := range deps[b] {
				if reach[d] && !done[d] {
					ready = false
				}
			}
			if ready {
				done[b] = true
				out = append(out, b)
				progress = true
			}
		}
		if !progress {
			break
		}
	}
	return out
}

func (e *Engine) entryState(fr *frame, b *ssa.BasicBlock, init *State) *State {
	if b == fr.fn.Blocks[0] {
		return init.clone()
	}
	type predSt struct {
		p  *ssa.BasicBlock
		st *State
	}
	var fwd, loopExit []predSt
	for _, p := range b.Preds {
		if b.Dominates(p) {
			continue // back edge into a header: ignored (body evaluated once, symbolically)
		}
		st := fr.out[p][b]
		if st == nil || st.dead {
			continue
		}
		fwd = append(fwd, predSt{p, st})
	}
	if len(fwd) == 0 {
		return nil
	}
	// loop exits: merge the effects of the loop body (latch states) into the exit state
	for i, ps := range fwd {
		for _, l := range fr.loops {
			if fr.unroll[l.header] != nil {
				continue // unrolled: the exit state already contains every iteration's effects
			}
			if l.blocks[ps.p] && !l.blocks[b] {
				e.rebindLoopPhis(fr, l)
				merged := ps.st.clone()
				for _, la := range l.latches {
					if ls := fr.out[la][l.header]; ls != nil && !ls.dead {
						mergeLoop(merged, ps.st, ls)
					}
				}
				fwd[i].st = merged
			}
		}
	}
	_ = loopExit
	if len(fwd) == 1 {
		return fwd[0].st.clone()
	}
	// controlling condition for two-way merges
	var cond Bit
	haveCond := false
	var tIdx int
	if len(fwd) == 2 {
		if d := b.Idom(); d != nil {
			if iff, ok := d.Instrs[len(d.Instrs)-1].(*ssa.If); ok {
				cv, _ := e.val(fr, iff.Cond, nil).(*IntV)
				if cv != nil && len(cv.B) == 1 {
					t, f := d.Succs[0], d.Succs[1]
					side := func(p *ssa.BasicBlock) int {
						switch {
						case p == d && t == b:
							return 0
						case p == d && f == b:
							return 1
						case t != b && t.Dominates(p):
							return 0
						case f != b && f.Dominates(p):
							return 1
						}
						return -1
					}
					s0, s1 := side(fwd[0].p), side(fwd[1].p)
					if s0 >= 0 && s1 >= 0 && s0 != s1 {
						cond = cv.B[0]
						haveCond = true
						tIdx = 0
						if s1 == 0 {
							tIdx = 1
						}
					}
				}
			}
		}
	}
	res := fwd[0].st.clone()
	if haveCond {
		ts, fs := fwd[tIdx].st, fwd[1-tIdx].st
		res = joinStates(ts, fs, &cond)
	} else {
		for _, ps := range fwd[1:] {
			res = joinStates(res, ps.st, nil)
		}
	}
	return res
}

// rebindLoopPhis: once the blocks after a loop are evaluated, a header phi that advances by a constant c per
// iteration has the value init + c*N, where N is the trip count of a counting loop `index < N` whose index
// starts at 0 and steps by 1 (both the classic and the range form) and which is left only through its
// header (or by returning). Inside the loop these phis are affine in the iteration symbol; using that form
// after the loop would place later writes on top of the loop's own cells.
func (e *Engine) rebindLoopPhis(fr *frame, l *loopInfo) {
	if l.rebound || fr.unroll[l.header] != nil {
		return
	}
	l.rebound = true
	h := l.header
	iff, ok := h.Instrs[len(h.Instrs)-1].(*ssa.If)
	if !ok || !l.blocks[h.Succs[0]] || l.blocks[h.Succs[1]] {
		return
	}
	for b := range l.blocks {
		if b == h {
			continue
		}
		for _, sc := range b.Succs {
			if !l.blocks[sc] {
				if _, isRet := sc.Instrs[len(sc.Instrs)-1].(*ssa.Return); !isRet {
					return // left by a break: the trip count is not the header's bound
				}
			}
		}
	}
	cmp, ok := iff.Cond.(*ssa.BinOp)
	if !ok || cmp.Op != token.LSS {
		return
	}
	ind, isPhi := cmp.X.(*ssa.Phi)
	first := int64(0)
	if !isPhi {
		bo, isBo := cmp.X.(*ssa.BinOp)
		if !isBo || bo.Op != token.ADD || bo.Block() != h {
			return
		}
		p2, okp := bo.X.(*ssa.Phi)
		c1, okc := bo.Y.(*ssa.Const)
		if !okp || !okc {
			return
		}
		if v, okv := constOf(c1); !okv || v != 1 {
			return
		}
		ind, first = p2, 1
	}
	if ind.Block() != h {
		return
	}
	var nA *Aff
	if nv, ok := fr.vals[cmp.Y].(*IntV); ok && nv.A != nil {
		if def, isInstr := cmp.Y.(ssa.Instruction); isInstr && !l.blocks[def.Block()] {
			nA = nv.A
		}
	}
	if nA == nil {
		return
	}
	sym := string(rune('i' + l.depth - 1))
	if _, mentions := nA.T[sym]; mentions {
		return
	}
	// the index starts at 0 and steps by 1
	for i, p := range h.Preds {
		if l.blocks[p] {
			if c, ok := stepConst(ind, ind.Edges[i]); !ok || c != 1 {
				return
			}
		} else {
			ic, ok := ind.Edges[i].(*ssa.Const)
			if !ok {
				return
			}
			v, okv := constOf(ic)
			if !okv || int64(v)+first != 0 {
				return
			}
		}
	}
	for _, instr := range h.Instrs {
		phi, ok := instr.(*ssa.Phi)
		if !ok {
			break
		}
		cur, ok := fr.vals[phi].(*IntV)
		if !ok || cur.A == nil {
			continue
		}
		k, has := cur.A.T[sym]
		if !has {
			continue
		}
		rest := &Aff{C: cur.A.C, T: map[string]int64{}}
		for s2, v := range cur.A.T {
			if s2 != sym {
				rest.T[s2] = v
			}
		}
		// cur = rest + k*iteration; after N iterations: rest + k*N
		after := rest.add(nA.scale(k), 1)
		if phi == ind {
			// the compared value ind+first equals N at the exit
			after = nA.add(affConst(first), -1)
		}
		fr.vals[phi] = &IntV{B: unkBV(len(cur.B)), A: after}
	}
}

// mergeLoop folds the body's effects (latch state ls) into the exit state m whose pre-loop version is pre.
func mergeLoop(m, pre, ls *State) {
	for id, cells := range ls.cells {
		for k, v := range cells {
			old, had := pre.cells[id][k]
			if had && old == v {
				continue
			}
			if m.cells[id] == nil {
				m.cells[id] = map[cellKey][8]Bit{}
			}
			if k.Sym != "" {
				m.cells[id][k] = v // holds for every iteration i
			} else {
				var u [8]Bit
				m.cells[id][k] = u // rewritten by the loop: unknown
			}
		}
	}
	for id := range ls.clobber {
		m.clobber[id] = true
	}
	for id, t := range ls.tails {
		if len(t) > len(pre.tails[id]) {
			m.tails[id] = append(append([]Tail(nil), m.tails[id]...), t[len(pre.tails[id]):]...)
		}
	}
	for id, fs := range ls.fields {
		for p, v := range fs {
			old, had := pre.fields[id][p]
			if had && valueEq(old, v) {
				continue
			}
			if m.fields[id] == nil {
				m.fields[id] = map[string]Value{}
			}
			m.fields[id][p] = &OpaqueV{Why: "modified in a loop"}
		}
	}
	for k, v := range ls.appends {
		if len(v) > len(pre.appends[k]) {
			m.appends[k] = append(append([]Value(nil), m.appends[k]...), v[len(pre.appends[k]):]...)
		}
	}
}

func joinStates(a, b *State, cond *Bit) *State {
	r := newState()
	ids := map[int]bool{}
	for id := range a.cells {
		ids[id] = true
	}
	for id := range b.cells {
		ids[id] = true
	}
	for id := range ids {
		keys := map[cellKey]bool{}
		for k := range a.cells[id] {
			keys[k] = true
		}
		for k := range b.cells[id] {
			keys[k] = true
		}
		r.cells[id] = map[cellKey][8]Bit{}
		for k := range keys {
			va, oka := a.cells[id][k]
			vb, okb := b.cells[id][k]
			if !oka || !okb {
				// a cell missing on one side reads as the buffer's default there; the
				// default is not known here: treat a zero-initialised output buffer's
				// default as zero via the marker below
				if !oka {
					va = defaultCell(id, k, a)
				} else {
					vb = defaultCell(id, k, b)
				}
			}
			var out [8]Bit
			for i := 0; i < 8; i++ {
				if cond != nil {
					out[i] = bitIte(*cond, va[i], vb[i])
				} else if va[i] == vb[i] {
					out[i] = va[i]
				} else {
					out[i] = Unk
				}
			}
			r.cells[id][k] = out
		}
	}
	for id := range a.clobber {
		r.clobber[id] = true
	}
	for id := range b.clobber {
		r.clobber[id] = true
	}
	for id, t := range a.tails {
		r.tails[id] = append([]Tail(nil), t...)
	}
	for id, t := range b.tails {
		if len(t) > len(r.tails[id]) {
			r.tails[id] = append([]Tail(nil), t...)
		}
	}
	oids := map[int]bool{}
	for id := range a.fields {
		oids[id] = true
	}
	for id := range b.fields {
		oids[id] = true
	}
	for id := range oids {
		r.fields[id] = map[string]Value{}
		for p, va := range a.fields[id] {
			if vb, ok := b.fields[id][p]; ok {
				r.fields[id][p] = joinValues(va, vb, cond)
			} else {
				r.fields[id][p] = &OpaqueV{Why: "assigned on one path only"}
			}
		}
		for p := range b.fields[id] {
			if _, ok := a.fields[id][p]; !ok {
				r.fields[id][p] = &OpaqueV{Why: "assigned on one path only"}
			}
		}
	}
	for s, ua := range a.ub {
		if ub, ok := b.ub[s]; ok {
			if ub > ua {
				ua = ub
			}
			r.ub[s] = ua
		}
	}
	for k, v := range a.appends {
		r.appends[k] = append([]Value(nil), v...)
	}
	for k, v := range b.appends {
		if len(v) > len(r.appends[k]) {
			r.appends[k] = append([]Value(nil), v...)
		}
	}
	inB := map[Bit]bool{}
	for _, d := range b.conds {
		inB[d] = true
	}
	seen := map[Bit]bool{}
	for _, c := range a.conds {
		if inB[c] && !seen[c] {
			seen[c] = true
			r.conds = append(r.conds, c)
		}
	}
	return r
}

// zeroBufs records which buffer ids are zero-initialised (shared by all states of an engine run).
var (
	zeroBufs = map[int]bool{}
	zeroMu   sync.Mutex
)

func defaultCell(id int, k cellKey, _ *State) [8]Bit {
	var out [8]Bit
	zeroMu.Lock()
	z := zeroBufs[id]
	zeroMu.Unlock()
	if z {
		for i := range out {
			out[i] = Zero
		}
		return out
	}
	for i := range out {
		out[i] = Unk
	}
	return out
}

func joinValues(a, b Value, cond *Bit) Value {
	ia, oka := a.(*IntV)
	ib, okb := b.(*IntV)
	if oka && okb && len(ia.B) == len(ib.B) {
		out := &IntV{B: make(BV, len(ia.B))}
		for i := range ia.B {
			if cond != nil {
				out.B[i] = bitIte(*cond, ia.B[i], ib.B[i])
			} else if ia.B[i] == ib.B[i] {
				out.B[i] = ia.B[i]
			} else {
				out.B[i] = Unk
			}
		}
		if ia.A != nil && ib.A != nil && ia.A.C == ib.A.C && ia.A.Sym() == ib.A.Sym() {
			out.A = ia.A
		}
		return out
	}
	if valueEq(a, b) {
		return a
	}
	return &OpaqueV{Why: "different values on joined paths"}
}

func valueEq(a, b Value) bool {
	if a == b {
		return true
	}
	switch x := a.(type) {
	case *OpaqueV:
		y, ok := b.(*OpaqueV)
		return ok && x.Why == y.Why
	case *FuncV:
		y, ok := b.(*FuncV)
		return ok && x.Fn == y.Fn
	case TupleV:
		y, ok := b.(TupleV)
		if !ok || len(x) != len(y) {
			return false
		}
		for i := range x {
			if !valueEq(x[i], y[i]) {
				return false
			}
		}
		return true
	case *IntV:
		y, ok := b.(*IntV)
		if !ok || len(x.B) != len(y.B) {
			return false
		}
		for i := range x.B {
			if x.B[i] != y.B[i] {
				return false
			}
		}
		return true
	case *PtrV:
		y, ok := b.(*PtrV)
		return ok && x.Obj == y.Obj && x.Path == y.Path && x.Buf == y.Buf && affEq(x.Off, y.Off)
	case *SliceV:
		y, ok := b.(*SliceV)
		return ok && x.Buf == y.Buf && affEq(x.Off, y.Off) && x.Elem == y.Elem && x.LenC == y.LenC && x.LenOK == y.LenOK
	case ErrV:
		y, ok := b.(ErrV)
		return ok && x == y
	case *StructV:
		y, ok := b.(*StructV)
		if !ok || len(x.Fields) != len(y.Fields) {
			return false
		}
		for i := range x.Fields {
			if !valueEq(x.Fields[i], y.Fields[i]) {
				return false
			}
		}
		return true
	}
	return false
}

func affEq(a, b *Aff) bool {
	if a == nil || b == nil {
		return a == b
	}
	return a.C == b.C && a.Sym() == b.Sym()
}

func (fr *frame) setOut(from, to *ssa.BasicBlock, st *State) {
	if fr.out[from] == nil {
		fr.out[from] = map[*ssa.BasicBlock]*State{}
	}
	fr.out[from][to] = st
}

func (e *Engine) runBlock(fr *frame, b *ssa.BasicBlock, st *State) {
	for _, in := range b.Instrs {
		switch x := in.(type) {
		case *ssa.Phi:
			fr.vals[x] = e.phi(fr, x, st)
		case *ssa.If:
			cv, _ := e.val(fr, x.Cond, st).(*IntV)
			var known, kv = false, uint64(0)
			if cv != nil {
				kv, known = st.normalize(cv.B).isConst()
			}
			ts, fs := st, st.clone()
			if known {
				if kv != 0 {
					fs.dead = true
				} else {
					ts = st.clone()
					ts.dead = true
					fs = st
				}
			} else if cv != nil && cv.Cmp != nil {
				refine(ts, cv.Cmp, true)
				refine(fs, cv.Cmp, false)
			}
			if !known && cv != nil && len(cv.B) == 1 && (cv.B[0].K == BSrc || cv.B[0].K == BNot) {
				ts.conds = addCond(ts.conds, cv.B[0])
				fs.conds = addCond(fs.conds, bitNot(cv.B[0]))
			} else if !known && cv != nil && cv.Cmp != nil {
				// a comparison of a whole source with a constant, as a named pseudo-bit
				pb := Bit{K: BSrc, Src: fmt.Sprintf("cmp:%s%s%d", cv.Cmp.Src, cv.Cmp.Op, cv.Cmp.C)}
				ts.conds = addCond(ts.conds, pb)
				fs.conds = addCond(fs.conds, bitNot(pb))
			}
			if !ts.dead && contradictory(ts.conds) {
				if ts == st {
					ts = st.clone()
				}
				ts.dead = true
			}
			if !fs.dead && contradictory(fs.conds) {
				if fs == st {
					fs = st.clone()
				}
				fs.dead = true
			}
			fr.setOut(b, b.Succs[0], ts)
			fr.setOut(b, b.Succs[1], fs)
			return
		case *ssa.Jump:
			fr.setOut(b, b.Succs[0], st)
			return
		case *ssa.Return:
			r := Ret{St: st, In: x}
			for _, v := range x.Results {
				r.Vals = append(r.Vals, e.val(fr, v, st))
			}
			if n := len(r.Vals); n > 0 {
				if ev, ok := r.Vals[n-1].(ErrV); ok {
					r.Err = ev
					if !ev.Known {
						r.Err = nilnessByDominators(b, x.Results[n-1])
					}
				}
			}
			fr.rets = append(fr.rets, r)
			return
		case *ssa.Panic:
			return
		case *ssa.Store:
			e.store(fr, st, x)
		case *ssa.MapUpdate:
			// a map literal built from constants (lookup tables returned by helper functions)
			if mv, ok := e.val(fr, x.Map, st).(*MapV); ok {
				kv, isInt := e.val(fr, x.Key, st).(*IntV)
				var k uint64
				isC := false
				if isInt {
					k, isC = st.normalize(kv.B).isConst()
				}
				if isC {
					mv.M[k] = e.val(fr, x.Value, st)
				} else {
					mv.Unknown = true
				}
			}
		case *ssa.Call:
			fr.vals[x] = e.call(fr, st, x)
		case *ssa.UnOp:
			if x.Op == token.MUL {
				fr.vals[x] = e.load(fr, st, x)
			}
		case *ssa.DebugRef:
		default:
			// pure instructions are evaluated on demand by val()
		}
	}
}

func refine(st *State, c *CmpV, outcome bool) {
	op := c.Op
	if !outcome {
		switch op {
		case token.GTR:
			op = token.LEQ
		case token.GEQ:
			op = token.LSS
		case token.LSS:
			op = token.GEQ
		case token.LEQ:
			op = token.GTR
		case token.EQL:
			op = token.NEQ
		case token.NEQ:
			op = token.EQL
		}
	}
	set := func(ub uint64) {
		if old, ok := st.ub[c.Src]; !ok || ub < old {
			st.ub[c.Src] = ub
		}
	}
	switch op {
	case token.LEQ:
		set(c.C)
	case token.LSS:
		if c.C == 0 {
			st.dead = true
		} else {
			set(c.C - 1)
		}
	case token.EQL:
		set(c.C)
	}
}

// ---- values

func (e *Engine) intOf(v Value, w int) *IntV {
	if iv, ok := v.(*IntV); ok {
		return iv
	}
	return &IntV{B: unkBV(w)}
}

// val evaluates an SSA value (memoised per frame; loads/calls/phis are set by runBlock).
func (e *Engine) val(fr *frame, v ssa.Value, st *State) Value {
	if x, ok := fr.vals[v]; ok {
		return x
	}
	r := e.eval(fr, v, st)
	fr.vals[v] = r
	return r
}

func (e *Engine) eval(fr *frame, v ssa.Value, st *State) Value {
	switch x := v.(type) {
	case *ssa.Const:
		if x.Value == nil {
			if _, ok := x.Type().Underlying().(*types.Interface); ok {
				return ErrV{Nil: true, Known: true}
			}
			if _, ok := x.Type().Underlying().(*types.Slice); ok {
				return &SliceV{IsNil: true, LenOK: true}
			}
			return &OpaqueV{Why: "nil"}
		}
		if w, _ := typeWidth(x.Type()); w > 0 {
			c, ok := constOf(x)
			if ok {
				return &IntV{B: constBV(c, w), A: affConst(int64(c))}
			}
		}
		return &OpaqueV{Why: "constant " + x.String()}
	case *ssa.Parameter:
		for i, p := range fr.fn.Params {
			if p == x && i < len(fr.args) {
				return fr.args[i]
			}
		}
		return &OpaqueV{Why: "parameter"}
	case *ssa.FreeVar:
		for i, p := range fr.fn.FreeVars {
			if p == x && i < len(fr.binds) {
				return fr.binds[i]
			}
		}
		return &OpaqueV{Why: "free variable"}
	case *ssa.Global:
		return &OpaqueV{Why: "global " + x.Name()}
	case *ssa.Function:
		return &FuncV{Fn: x}
	case *ssa.Alloc:
		t := x.Type().Underlying().(*types.Pointer).Elem()
		if at, ok := t.Underlying().(*types.Array); ok {
			if b, ok := at.Elem().Underlying().(*types.Basic); ok && b.Kind() == types.Uint8 {
				buf := e.NewBuf(fmt.Sprintf("arr%d", e.nextID), true, false)
				return &PtrV{Buf: buf, Off: affConst(0), T: t}
			}
		}
		obj := e.NewObject(fmt.Sprintf("%s#%d", x.Comment, e.nextID), t, false)
		return &PtrV{Obj: obj, T: t}
	case *ssa.MakeMap:
		return &MapV{M: map[uint64]Value{}, ElemT: x.Type().Underlying().(*types.Map).Elem()}
	case *ssa.Lookup:
		if mv, ok := e.val(fr, x.X, st).(*MapV); ok && !x.CommaOk && !mv.Unknown {
			if kv, ok := e.val(fr, x.Index, st).(*IntV); ok {
				if k, isC := st.normalize(kv.B).isConst(); isC {
					if v, has := mv.M[k]; has {
						return v
					}
					if w, _ := typeWidth(mv.ElemT); w > 0 {
						return &IntV{B: constBV(0, w), A: affConst(0)}
					}
				}
			}
		}
		return e.unknownOf(x.Type(), "map lookup")
	case *ssa.MakeSlice:
		n := e.intOf(e.val(fr, x.Len, st), 64)
		buf := e.NewBuf(fmt.Sprintf("make%d", e.nextID), true, false)
		sv := &SliceV{Buf: buf, Off: affConst(0), ElemT: x.Type().Underlying().(*types.Slice).Elem()}
		if n.A != nil && n.A.isConst() {
			sv.LenC, sv.LenOK = n.A.C, true
		}
		return sv
	case *ssa.FieldAddr:
		base := e.val(fr, x.X, st)
		if p, ok := base.(*PtrV); ok && p.Obj != nil {
			stt := p.T.Underlying().(*types.Struct)
			return &PtrV{Obj: p.Obj, Path: fmt.Sprintf("%s.f%d", p.Path, x.Field), T: stt.Field(x.Field).Type()}
		}
		return &OpaqueV{Why: "field address of an unknown pointer"}
	case *ssa.Field:
		base := e.val(fr, x.X, st)
		if s, ok := base.(*StructV); ok && x.Field < len(s.Fields) {
			return s.Fields[x.Field]
		}
		return e.unknownOf(x.Type(), "field of an unknown struct value")
	case *ssa.IndexAddr:
		return e.indexAddr(fr, st, x)
	case *ssa.Slice:
		return e.slice(fr, st, x)
	case *ssa.BinOp:
		return e.binop(fr, st, x)
	case *ssa.UnOp:
		switch x.Op {
		case token.NOT:
			iv := e.intOf(e.val(fr, x.X, st), 1)
			return &IntV{B: BV{bitNot(iv.B[0])}}
		case token.XOR:
			w, _ := typeWidth(x.Type())
			iv := e.intOf(e.val(fr, x.X, st), w)
			out := make(BV, len(iv.B))
			for i := range iv.B {
				out[i] = bitNot(iv.B[i])
			}
			return &IntV{B: out}
		case token.MUL:
			// a load evaluated out of order (should have been set by runBlock)
			if st != nil {
				return e.load(fr, st, x)
			}
		}
		return e.unknownOf(x.Type(), "unary "+x.Op.String())
	case *ssa.Convert:
		return e.convert(fr, st, x)
	case *ssa.ChangeType:
		return e.val(fr, x.X, st)
	case *ssa.MakeInterface:
		return e.val(fr, x.X, st)
	case *ssa.Extract:
		t := e.val(fr, x.Tuple, st)
		if tv, ok := t.(TupleV); ok && x.Index < len(tv) {
			return tv[x.Index]
		}
		return e.unknownOf(x.Type(), "component of an unknown tuple")
	case *ssa.MakeClosure:
		fv := &FuncV{Fn: x.Fn.(*ssa.Function)}
		for _, b := range x.Bindings {
			fv.Binds = append(fv.Binds, e.val(fr, b, st))
		}
		return fv
	case *ssa.Phi:
		return e.phi(fr, x, st)
	case *ssa.Call:
		return e.unknownOf(x.Type(), "call evaluated out of order")
	}
	return e.unknownOf(v.Type(), fmt.Sprintf("unsupported %T", v))
}

func (e *Engine) unknownOf(t types.Type, why string) Value {
	if w, _ := typeWidth(t); w > 0 {
		return &IntV{B: unkBV(w)}
	}
	if types.Identical(t, types.Universe.Lookup("error").Type()) {
		return ErrV{}
	}
	return &OpaqueV{Why: why}
}

func (e *Engine) phi(fr *frame, x *ssa.Phi, st *State) Value {
	b := x.Block()
	if ctx := fr.unroll[b]; ctx != nil {
		// unrolled loop: concrete induction value, other phis carried from the previous iteration
		if x == ctx.ind {
			w, _ := typeWidth(x.Type())
			v := ctx.init + ctx.k*ctx.step
			return &IntV{B: constBV(uint64(v), w), A: affConst(v)}
		}
		if ctx.k > 0 {
			if v, ok := ctx.prev[x]; ok {
				return v
			}
		}
		l := fr.loops[b]
		for i, p := range b.Preds {
			if !l.blocks[p] {
				return e.val(fr, x.Edges[i], st)
			}
		}
	}
	if l := fr.loops[b]; l != nil {
		// loop header: induction variables become affine in the iteration symbol
		sym := string(rune('i' + l.depth - 1))
		var init ssa.Value
		var step ssa.Value
		nInit := 0
		for i, p := range b.Preds {
			if l.blocks[p] {
				step = x.Edges[i]
			} else {
				init = x.Edges[i]
				nInit++
			}
		}
		if w, _ := typeWidth(x.Type()); w > 0 && init != nil && nInit == 1 {
			iv := e.intOf(e.val(fr, init, st), w)
			if c, ok := stepConst(x, step); ok && iv.A != nil {
				a := iv.A.add(affSym(sym).scale(c), 1)
				return &IntV{B: unkBV(w), A: a}
			}
			return &IntV{B: unkBV(w)}
		}
		if init != nil && nInit == 1 {
			iv := e.val(fr, init, st)
			// slices / pointers carried around a loop unchanged
			if step == ssa.Value(x) {
				return iv
			}
			if sv, ok := iv.(*SliceV); ok {
				// rest = rest[c:] with a constant c: the offset is affine in the iteration symbol
				if rs, isSl := step.(*ssa.Slice); isSl && rs.X == ssa.Value(x) && rs.High == nil && rs.Max == nil && sv.Off != nil {
					if cst, isC := rs.Low.(*ssa.Const); isC {
						if cv, okc := constOf(cst); okc {
							return &SliceV{Buf: sv.Buf, Off: sv.Off.add(affSym(sym).scale(int64(cv)), 1), Elem: sv.Elem, ElemT: sv.ElemT}
						}
					}
				}
				// accumulators (append) and re-slicing: keep the buffer, forget offset/length
				return &SliceV{Buf: sv.Buf, Off: nil, Elem: sv.Elem, ElemT: sv.ElemT}
			}
			if pv, ok := iv.(*PtrV); ok {
				_ = pv
				return &OpaqueV{Why: "pointer modified in a loop"}
			}
		}
		return e.unknownOf(x.Type(), "loop-carried value")
	}
	// merge phi: per-bit ite on the controlling condition
	var vals []Value
	var preds []*ssa.BasicBlock
	for i, p := range b.Preds {
		if s := fr.out[p][b]; s == nil || s.dead {
			continue
		}
		vals = append(vals, e.val(fr, x.Edges[i], st))
		preds = append(preds, p)
	}
	if len(vals) == 0 {
		return e.unknownOf(x.Type(), "phi without live edges")
	}
	if len(vals) == 1 {
		return vals[0]
	}
	var cond *Bit
	if len(vals) == 2 {
		if d := b.Idom(); d != nil {
			if iff, ok := d.Instrs[len(d.Instrs)-1].(*ssa.If); ok {
				cv, _ := e.val(fr, iff.Cond, st).(*IntV)
				if cv != nil && len(cv.B) == 1 {
					t, f := d.Succs[0], d.Succs[1]
					side := func(p *ssa.BasicBlock) int {
						switch {
						case p == d && t == b:
							return 0
						case p == d && f == b:
							return 1
						case t != b && t.Dominates(p):
							return 0
						case f != b && f.Dominates(p):
							return 1
						}
						return -1
					}
					s0, s1 := side(preds[0]), side(preds[1])
					if s0 >= 0 && s1 >= 0 && s0 != s1 {
						c := cv.B[0]
						cond = &c
						if s0 == 1 {
							vals[0], vals[1] = vals[1], vals[0]
						}
					}
				}
			}
		}
	}
	out := vals[0]
	for _, v := range vals[1:] {
		out = joinValues(out, v, cond)
	}
	return out
}

// stepConst: the latch value of phi is phi + c.
func stepConst(phi *ssa.Phi, step ssa.Value) (int64, bool) {
	b, ok := step.(*ssa.BinOp)
	if !ok {
		return 0, false
	}
	var other ssa.Value
	switch {
	case b.X == ssa.Value(phi):
		other = b.Y
	case b.Y == ssa.Value(phi) && b.Op == token.ADD:
		other = b.X
	default:
		// i' = (phi + 1) style through a later use is not supported
		return 0, false
	}
	c, ok := other.(*ssa.Const)
	if !ok {
		return 0, false
	}
	v, ok := constOf(c)
	if !ok {
		return 0, false
	}
	switch b.Op {
	case token.ADD:
		return int64(v), true
	case token.SUB:
		return -int64(v), true
	}
	return 0, false
}

func (e *Engine) binop(fr *frame, st *State, x *ssa.BinOp) Value {
	wa, _ := typeWidth(x.X.Type())
	a := e.intOfValue(e.val(fr, x.X, st), wa)
	wb, _ := typeWidth(x.Y.Type())
	b := e.intOfValue(e.val(fr, x.Y, st), wb)
	w, signed := typeWidth(x.Type())
	if st != nil {
		a = &IntV{B: st.normalize(a.B), A: a.A, Cmp: a.Cmp}
		b = &IntV{B: st.normalize(b.B), A: b.A, Cmp: b.Cmp}
	}
	switch x.Op {
	case token.AND, token.OR, token.XOR, token.AND_NOT:
		if w == 0 || len(a.B) != len(b.B) {
			return e.unknownOf(x.Type(), "bitwise op on mismatched widths")
		}
		out := make(BV, len(a.B))
		for i := range out {
			switch x.Op {
			case token.AND:
				out[i] = bitAnd(a.B[i], b.B[i])
			case token.OR:
				out[i] = bitOr(a.B[i], b.B[i])
			case token.XOR:
				out[i] = bitXor(a.B[i], b.B[i])
			case token.AND_NOT:
				out[i] = bitAnd(a.B[i], bitNot(b.B[i]))
			}
		}
		return &IntV{B: out}
	case token.SHL, token.SHR:
		k, ok := b.B.isConst()
		if !ok {
			return &IntV{B: unkBV(w)}
		}
		out := make(BV, w)
		for i := 0; i < w; i++ {
			var src int
			if x.Op == token.SHL {
				src = i - int(k)
			} else {
				src = i + int(k)
			}
			switch {
			case src >= 0 && src < len(a.B):
				out[i] = a.B[src]
			case x.Op == token.SHR && signed && len(a.B) > 0:
				out[i] = a.B[len(a.B)-1]
			default:
				out[i] = Zero
			}
		}
		r := &IntV{B: out}
		if x.Op == token.SHL && a.A != nil && k < 62 {
			r.A = a.A.scale(1 << k)
		}
		return r
	case token.ADD, token.SUB, token.MUL:
		r := &IntV{B: unkBV(w)}
		// constants fold
		ca, oka := a.B.isConst()
		cb, okb := b.B.isConst()
		if oka && okb {
			var v uint64
			switch x.Op {
			case token.ADD:
				v = ca + cb
			case token.SUB:
				v = ca - cb
			case token.MUL:
				v = ca * cb
			}
			r.B = constBV(v, w)
		} else if x.Op == token.ADD && len(a.B) == len(b.B) {
			// disjoint non-zero bits: addition is OR (the hi<<8 + lo idiom)
			disj := true
			for i := range a.B {
				if a.B[i].K != BZero && b.B[i].K != BZero {
					disj = false
				}
			}
			if disj {
				out := make(BV, len(a.B))
				for i := range out {
					out[i] = bitOr(a.B[i], b.B[i])
				}
				r.B = out
			}
		} else if x.Op == token.MUL && (oka || okb) {
			// multiplication by a power of two is a shift
			cv, o := ca, b
			if okb {
				cv, o = cb, a
			}
			if cv != 0 && cv&(cv-1) == 0 {
				k := 0
				for cv>>uint(k) != 1 {
					k++
				}
				out := make(BV, w)
				for i := 0; i < w; i++ {
					if i-k >= 0 && i-k < len(o.B) {
						out[i] = o.B[i-k]
					} else {
						out[i] = Zero
					}
				}
				r.B = out
			}
		}
		switch x.Op {
		case token.ADD:
			r.A = a.A.add(b.A, 1)
		case token.SUB:
			r.A = a.A.add(b.A, -1)
		case token.MUL:
			if a.A != nil && a.A.isConst() {
				r.A = b.A.scale(a.A.C)
			} else if b.A != nil && b.A.isConst() {
				r.A = a.A.scale(b.A.C)
			}
		}
		return r
	case token.QUO, token.REM:
		r := &IntV{B: unkBV(w)}
		if cb, ok := b.B.isConst(); ok && cb != 0 && cb&(cb-1) == 0 && !signed {
			k := 0
			for cb>>uint(k) != 1 {
				k++
			}
			out := make(BV, w)
			for i := 0; i < w; i++ {
				if x.Op == token.QUO {
					if i+k < len(a.B) {
						out[i] = a.B[i+k]
					} else {
						out[i] = Zero
					}
				} else {
					if i < k && i < len(a.B) {
						out[i] = a.B[i]
					} else {
						out[i] = Zero
					}
				}
			}
			r.B = out
		}
		return r
	case token.EQL, token.NEQ, token.LSS, token.LEQ, token.GTR, token.GEQ:
		// error comparisons
		if ev, ok := e.val(fr, x.X, st).(ErrV); ok {
			if ev.Known {
				isNil := ev.Nil
				if x.Op == token.NEQ {
					isNil = !isNil
				}
				if isNil {
					return &IntV{B: constBV(1, 1)}
				}
				return &IntV{B: constBV(0, 1)}
			}
			return &IntV{B: unkBV(1)}
		}
		if wa == 0 {
			return &IntV{B: unkBV(1)}
		}
		ca, oka := a.B.isConst()
		cb, okb := b.B.isConst()
		if oka && okb {
			var res bool
			sa, sb := int64(ca), int64(cb)
			_, sg := typeWidth(x.X.Type())
			if sg && wa < 64 {
				sa = int64(ca<<uint(64-wa)) >> uint(64-wa)
				sb = int64(cb<<uint(64-wa)) >> uint(64-wa)
			}
			switch x.Op {
			case token.EQL:
				res = ca == cb
			case token.NEQ:
				res = ca != cb
			case token.LSS:
				res = sa < sb
			case token.LEQ:
				res = sa <= sb
			case token.GTR:
				res = sa > sb
			case token.GEQ:
				res = sa >= sb
			}
			if res {
				return &IntV{B: constBV(1, 1)}
			}
			return &IntV{B: constBV(0, 1)}
		}
		r := &IntV{B: unkBV(1)}
		if okb {
			// single-bit value compared with 0 / 1: bool <-> bit
			nz, which := 0, -1
			for i, bt := range a.B {
				if bt.K != BZero {
					nz++
					which = i
				}
			}
			if nz == 1 && (a.B[which].K == BSrc || a.B[which].K == BNot) {
				bit := a.B[which]
				pos := uint64(1) << uint(which)
				switch {
				case (x.Op == token.NEQ || x.Op == token.GTR) && cb == 0:
					r.B = BV{bit}
				case x.Op == token.EQL && cb == 0:
					r.B = BV{bitNot(bit)}
				case x.Op == token.EQL && cb == pos:
					r.B = BV{bit}
				case x.Op == token.NEQ && cb == pos:
					r.B = BV{bitNot(bit)}
				case x.Op == token.GEQ && cb == pos:
					r.B = BV{bit}
				}
			}
			// comparison of a pure source with a constant: remember for refinement
			if src, ok := pureSource(a.B); ok {
				_, sg := typeWidth(x.X.Type())
				if !sg || strings.HasPrefix(src, "L:") { // lengths are non-negative
					r.Cmp = &CmpV{Src: src, W: len(a.B), Op: x.Op, C: cb}
				}
			}
		}
		return r
	}
	return e.unknownOf(x.Type(), "binary "+x.Op.String())
}

// pureSource: every non-zero bit i of b is bit i of one source.
func pureSource(b BV) (string, bool) {
	src := ""
	for i, x := range b {
		switch x.K {
		case BZero:
		case BSrc:
			if x.I != i || (src != "" && src != x.Src) {
				return "", false
			}
			src = x.Src
		default:
			return "", false
		}
	}
	if src == "" {
		return "", false
	}
	// the value must be the whole source, not a masked part of it
	n := 0
	for _, x := range b {
		if x.K == BSrc {
			n++
		}
	}
	return src, n == widthOf(src)
}

func (e *Engine) intOfValue(v Value, w int) *IntV {
	if iv, ok := v.(*IntV); ok {
		return iv
	}
	if w == 0 {
		w = 64
	}
	return &IntV{B: unkBV(w)}
}

func (e *Engine) convert(fr *frame, st *State, x *ssa.Convert) Value {
	src := e.val(fr, x.X, st)
	w, _ := typeWidth(x.Type())
	if w > 0 {
		if iv, ok := src.(*IntV); ok {
			_, sg := typeWidth(x.X.Type())
			r := &IntV{B: iv.B.resize(w, sg)}
			if iv.A != nil {
				r.A = iv.A
			}
			return r
		}
		return &IntV{B: unkBV(w)}
	}
	// []byte(string) and string([]byte): opaque byte sources keep their identity
	return src
}

func (e *Engine) indexAddr(fr *frame, st *State, x *ssa.IndexAddr) Value {
	base := e.val(fr, x.X, st)
	idx := e.intOfValue(e.val(fr, x.Index, st), 64)
	switch b := base.(type) {
	case *SliceV:
		if b.Buf != nil {
			var off *Aff
			if b.Off != nil && idx.A != nil {
				off = b.Off.add(idx.A, 1)
			}
			return &PtrV{Buf: b.Buf, Off: off, T: x.Type().Underlying().(*types.Pointer).Elem()}
		}
		if b.Elem != "" {
			et := x.Type().Underlying().(*types.Pointer).Elem()
			if b.LenOK && idx.A != nil && idx.A.isConst() && idx.A.C >= 0 && idx.A.C < b.LenC {
				// a list of assumed length indexed by a constant: its own element
				return &PtrV{Obj: e.elemObject(fmt.Sprintf("%s[%d]", b.Elem, idx.A.C), et), T: et}
			}
			return &PtrV{Obj: e.elemObject(b.Elem+"[]", et), T: et}
		}
	case *PtrV:
		if b.Buf != nil { // *[N]byte
			var off *Aff
			if b.Off != nil && idx.A != nil {
				off = b.Off.add(idx.A, 1)
			}
			return &PtrV{Buf: b.Buf, Off: off, T: x.Type().Underlying().(*types.Pointer).Elem()}
		}
		if b.Obj != nil && idx.A != nil && idx.A.isConst() { // *[N]T local array
			return &PtrV{Obj: b.Obj, Path: fmt.Sprintf("%s[%d]", b.Path, idx.A.C), T: x.Type().Underlying().(*types.Pointer).Elem()}
		}
	}
	return &OpaqueV{Why: "index address"}
}

func (e *Engine) elemObject(name string, t types.Type) *Object {
	if e.elemObjs == nil {
		e.elemObjs = map[string]*Object{}
	}
	if o, ok := e.elemObjs[name]; ok {
		return o
	}
	o := e.NewObject(name, t, true)
	e.elemObjs[name] = o
	return o
}

func (e *Engine) slice(fr *frame, st *State, x *ssa.Slice) Value {
	base := e.val(fr, x.X, st)
	lo := affConst(0)
	if x.Low != nil {
		lo = e.intOfValue(e.val(fr, x.Low, st), 64).A
	}
	var hi *Aff
	if x.High != nil {
		hi = e.intOfValue(e.val(fr, x.High, st), 64).A
	}
	switch b := base.(type) {
	case *SliceV:
		if b.Buf == nil {
			return b
		}
		r := &SliceV{Buf: b.Buf, ElemT: b.ElemT}
		if b.Off != nil && lo != nil {
			r.Off = b.Off.add(lo, 1)
		}
		switch {
		case hi != nil && lo != nil && hi.add(lo, -1).isConst():
			r.LenC, r.LenOK = hi.add(lo, -1).C, true
		case x.High == nil && b.LenOK && lo != nil && lo.isConst():
			r.LenC, r.LenOK = b.LenC-lo.C, true
		}
		return r
	case *PtrV:
		if b.Buf != nil { // slice of a *[N]byte
			r := &SliceV{Buf: b.Buf}
			if b.Off != nil && lo != nil {
				r.Off = b.Off.add(lo, 1)
			}
			if at, ok := b.T.Underlying().(*types.Array); ok {
				n := at.Len()
				if hi != nil && hi.isConst() {
					n = hi.C
				}
				if lo != nil && lo.isConst() {
					r.LenC, r.LenOK = n-lo.C, true
				}
			}
			return r
		}
		if b.Obj != nil { // slice of a local array object (varargs of append)
			return &SliceV{Elem: "", ElemT: nil, LenOK: false, IsNil: false, Buf: nil, Off: nil, LenC: 0, arrObj: b.Obj, arrPath: b.Path}
		}
	}
	return &OpaqueV{Why: "slice of an unknown value"}
}

// ---- memory

func (e *Engine) load(fr *frame, st *State, x *ssa.UnOp) Value {
	if g, ok := x.X.(*ssa.Global); ok {
		if types.Identical(g.Type().(*types.Pointer).Elem(), types.Universe.Lookup("error").Type()) {
			return ErrV{Nil: false, Known: true}
		}
		return e.unknownOf(x.Type(), "global")
	}
	p, ok := e.val(fr, x.X, st).(*PtrV)
	if !ok {
		return e.unknownOf(x.Type(), "load through an unknown pointer")
	}
	if p.Buf != nil {
		if w, _ := typeWidth(x.Type()); w == 8 {
			c := st.readByte(p.Buf, p.Off)
			return &IntV{B: st.normalize(BV(c[:]))}
		}
		if at, ok := x.Type().Underlying().(*types.Array); ok { // *(*[N]byte)
			_ = at
			return &OpaqueV{Why: "array value load"}
		}
		return e.unknownOf(x.Type(), "load from a buffer")
	}
	return e.loadObj(st, p.Obj, p.Path, x.Type())
}

func (e *Engine) loadObj(st *State, o *Object, path string, t types.Type) Value {
	if v, ok := st.fields[o.ID][path]; ok {
		return v
	}
	switch u := t.Underlying().(type) {
	case *types.Struct:
		sv := &StructV{T: u}
		for i := 0; i < u.NumFields(); i++ {
			sv.Fields = append(sv.Fields, e.loadObj(st, o, fmt.Sprintf("%s.f%d", path, i), u.Field(i).Type()))
		}
		return sv
	case *types.Basic:
		w, _ := typeWidth(t)
		if w == 0 {
			return &OpaqueV{Why: "non-integer field " + fieldName(o, path)}
		}
		// a whole-struct store covers its fields
		if v, ok := lookupPrefix(st, o, path); ok {
			return v
		}
		if o.Symbolic {
			if c, ok := e.FieldConst[fieldName(o, path)]; ok {
				return &IntV{B: constBV(c, w), A: affConst(int64(c))}
			}
			return &IntV{B: st.normalize(srcBV("F:"+fieldName(o, path), w))}
		}
		return &IntV{B: constBV(0, w)} // zero value of a local object
	case *types.Slice:
		if v, ok := lookupPrefix(st, o, path); ok {
			return v
		}
		if o.Symbolic {
			if n, ok := e.ListLen[fieldName(o, path)]; ok {
				return &SliceV{Elem: fieldName(o, path), ElemT: u.Elem(), LenC: n, LenOK: true}
			}
			return &SliceV{Elem: fieldName(o, path), ElemT: u.Elem()}
		}
		return &SliceV{IsNil: true, LenOK: true}
	case *types.Array:
		if v, ok := lookupPrefix(st, o, path); ok {
			return v
		}
		return &OpaqueV{Why: "array field " + fieldName(o, path)}
	}
	if v, ok := lookupPrefix(st, o, path); ok {
		return v
	}
	return &OpaqueV{Why: "field " + fieldName(o, path)}
}

// lookupPrefix finds a struct value stored at a prefix of path and projects it.
func lookupPrefix(st *State, o *Object, path string) (Value, bool) {
	fs := st.fields[o.ID]
	for p := path; ; {
		i := strings.LastIndexAny(p, ".[")
		if i < 0 {
			break
		}
		p = p[:i]
		if v, ok := fs[p]; ok {
			rest := path[len(p):]
			cur := v
			for rest != "" {
				sv, ok := cur.(*StructV)
				if !ok || !strings.HasPrefix(rest, ".f") {
					return nil, false
				}
				j := 2
				for j < len(rest) && rest[j] >= '0' && rest[j] <= '9' {
					j++
				}
				var idx int
				fmt.Sscanf(rest[2:j], "%d", &idx)
				if idx >= len(sv.Fields) {
					return nil, false
				}
				cur = sv.Fields[idx]
				rest = rest[j:]
			}
			return cur, true
		}
	}
	return nil, false
}

// fieldName renders an object path with Go field names ("Reports[].SSRC").
func fieldName(o *Object, path string) string {
	t := o.T
	name := o.Name
	rest := path
	for rest != "" {
		switch {
		case strings.HasPrefix(rest, ".f"):
			j := 2
			for j < len(rest) && rest[j] >= '0' && rest[j] <= '9' {
				j++
			}
			var idx int
			fmt.Sscanf(rest[2:j], "%d", &idx)
			st, ok := t.Underlying().(*types.Struct)
			if !ok || idx >= st.NumFields() {
				return name + rest
			}
			if name != "" {
				name += "."
			}
			name += st.Field(idx).Name()
			t = st.Field(idx).Type()
			rest = rest[j:]
		case strings.HasPrefix(rest, "["):
			j := strings.Index(rest, "]")
			name += rest[:j+1]
			if at, ok := t.Underlying().(*types.Array); ok {
				t = at.Elem()
			}
			rest = rest[j+1:]
		default:
			return name + rest
		}
	}
	return name
}

func (e *Engine) store(fr *frame, st *State, x *ssa.Store) {
	p, ok := e.val(fr, x.Addr, st).(*PtrV)
	v := e.val(fr, x.Val, st)
	if !ok {
		e.note("store through an unknown pointer in %s", fr.fn.Name())
		return
	}
	if p.Buf != nil {
		iv := e.intOfValue(v, 8)
		var c [8]Bit
		nb := st.normalize(iv.B)
		for i := 0; i < 8; i++ {
			if i < len(nb) {
				c[i] = nb[i]
			} else {
				c[i] = Zero
			}
		}
		st.writeByte(p.Buf, p.Off, c)
		return
	}
	if st.fields[p.Obj.ID] == nil {
		st.fields[p.Obj.ID] = map[string]Value{}
	}
	// a store invalidates stored sub-paths
	for k := range st.fields[p.Obj.ID] {
		if strings.HasPrefix(k, p.Path) && k != p.Path && (p.Path == "" || k[len(p.Path)] == '.' || k[len(p.Path)] == '[') {
			delete(st.fields[p.Obj.ID], k)
		}
	}
	// a store below a stored struct value: expand that value first
	if _, ok := lookupPrefix(st, p.Obj, p.Path); ok {
		e.expandPrefix(st, p.Obj, p.Path)
	}
	if iv, ok := v.(*IntV); ok {
		v = &IntV{B: st.normalize(iv.B), A: iv.A}
	}
	if sv, ok := v.(*SliceV); ok && len(sv.pending) > 0 {
		// pending already holds the elements appended earlier to the value loaded from this field
		st.appends[fieldName(p.Obj, p.Path)] = append([]Value(nil), sv.pending...)
	}
	st.fields[p.Obj.ID][p.Path] = v
}

// expandPrefix replaces a stored struct value covering path by its fields.
func (e *Engine) expandPrefix(st *State, o *Object, path string) {
	fs := st.fields[o.ID]
	for p := path; ; {
		i := strings.LastIndexAny(p, ".[")
		if i < 0 {
			return
		}
		p = p[:i]
		if v, ok := fs[p]; ok {
			sv, ok := v.(*StructV)
			if !ok {
				return
			}
			delete(fs, p)
			for i, f := range sv.Fields {
				fs[fmt.Sprintf("%s.f%d", p, i)] = f
			}
			e.expandPrefix(st, o, path)
			return
		}
	}
}

// nilnessByDominators: the error value v returned from block b is known nil /
// non-nil when b is dominated by the corresponding edge of a test `v != nil` / `v == nil`.
func nilnessByDominators(b *ssa.BasicBlock, v ssa.Value) ErrV {
	for cur := b; cur.Idom() != nil; cur = cur.Idom() {
		d := cur.Idom()
		iff, ok := d.Instrs[len(d.Instrs)-1].(*ssa.If)
		if !ok {
			continue
		}
		cmp, ok := iff.Cond.(*ssa.BinOp)
		if !ok || (cmp.Op != token.NEQ && cmp.Op != token.EQL) {
			continue
		}
		var other ssa.Value
		if cmp.X == v {
			other = cmp.Y
		} else if cmp.Y == v {
			other = cmp.X
		} else {
			continue
		}
		if c, ok := other.(*ssa.Const); !ok || !c.IsNil() {
			continue
		}
		var side int = -1
		switch {
		case len(d.Succs[0].Preds) == 1 && d.Succs[0].Dominates(b):
			side = 0
		case len(d.Succs[1].Preds) == 1 && d.Succs[1].Dominates(b):
			side = 1
		}
		if side < 0 {
			continue
		}
		nonNilOnTrue := cmp.Op == token.NEQ
		isNonNil := (side == 0) == nonNilOnTrue
		return ErrV{Nil: !isNonNil, Known: true}
	}
	return ErrV{}
}

func addCond(cs []Bit, c Bit) []Bit {
	for _, x := range cs {
		if x == c {
			return cs
		}
	}
	return append(cs, c)
}
