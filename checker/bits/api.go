package bits

import (
	"strings"
	"fmt"
	"go/types"
	"sort"

	"golang.org/x/tools/go/ssa"
)

// WireMap: "sym+off" (or "off") -> 8 bit sources (index 0 = least significant bit of the byte).
type WireMap map[string][8]Bit

// EncResult is the layout extracted from an encoder (joined over the returns
// that may succeed; Alts keeps them apart).
type EncResult struct {
	Alts     []*EncResult // one per successful return (only on the top-level result)
	Cond     []Bit        // path condition (single-bit conditions) of this alternative
	Wire     WireMap
	Tails    []string // opaque byte runs ("off: what")
	Clobber  bool     // a write at an unknown offset happened
	NRet     int      // returns that may succeed
	LenConst int64    // constant result length (-1 if not constant)
	Notes    []string
}

// AnalyzeEncoder evaluates fn (receiver-only method returning ([]byte, error) or []byte) on a symbolic receiver.
func (e *Engine) AnalyzeEncoder(fn *ssa.Function) (*EncResult, error) {
	if len(fn.Params) < 1 {
		return nil, fmt.Errorf("%s has no receiver", fn.Name())
	}
	st := newState()
	recvT := fn.Params[0].Type()
	var recv Value
	if pt, ok := recvT.Underlying().(*types.Pointer); ok {
		obj := e.NewObject("", pt.Elem(), true)
		recv = &PtrV{Obj: obj, T: pt.Elem()}
	} else {
		obj := e.NewObject("", recvT, true)
		recv = e.loadObj(st, obj, "", recvT)
	}
	args := []Value{recv}
	for _, p := range fn.Params[1:] {
		args = append(args, e.unknownOf(p.Type(), "parameter"))
	}
	rets := e.Call(fn, args, nil, st, 0)
	res := &EncResult{Wire: WireMap{}, LenConst: -1}
	var js *State
	var buf *SliceV
	differ := false
	for _, r := range rets {
		if r.Err.Known && !r.Err.Nil || len(r.Vals) == 0 {
			continue
		}
		if sv, ok := r.Vals[0].(*SliceV); ok && sv.Buf != nil && sv.Off != nil && sv.Off.isConst() {
			alt := &EncResult{Wire: WireMap{}, LenConst: -1, Cond: append([]Bit(nil), r.St.conds...), NRet: 1}
			fillEnc(alt, r.St, sv)
			res.Alts = append(res.Alts, alt)
		}
	}
	for _, r := range rets {
		if r.Err.Known && !r.Err.Nil {
			continue
		}
		if len(r.Vals) == 0 {
			continue
		}
		sv, ok := r.Vals[0].(*SliceV)
		if !ok || sv.Buf == nil {
			if ok && sv.IsNil {
				continue
			}
			return nil, fmt.Errorf("%s: a possibly successful return does not return a tracked buffer", fn.Name())
		}
		res.NRet++
		if buf == nil {
			buf, js = sv, r.St
		} else {
			if sv.Buf != buf.Buf {
				differ = true
				continue
			}
			js = joinStates(js, r.St, nil)
		}
	}
	if buf == nil {
		return nil, fmt.Errorf("%s: no successful return found", fn.Name())
	}
	if buf.Off == nil || !buf.Off.isConst() {
		return nil, fmt.Errorf("%s: the returned slice does not start at a constant offset of its buffer", fn.Name())
	}
	if differ {
		// different buffers on different paths: only the alternatives are meaningful
		res.Notes = e.Notes
		res.Clobber = true
		return res, nil
	}
	fillEnc(res, js, buf)
	res.Notes = e.Notes
	return res, nil
}

func fillEnc(res *EncResult, js *State, buf *SliceV) {
	if buf.LenOK {
		res.LenConst = buf.LenC
	}
	for k, c := range js.cells[buf.Buf.ID] {
		kk := cellKey{k.Sym, k.Off - buf.Off.C}
		if kk.Sym == "" && kk.Off < 0 {
			continue
		}
		var n [8]Bit
		nb := js.normalize(BV(c[:]))
		copy(n[:], nb)
		res.Wire[offName(kk)] = n
	}
	res.Clobber = js.clobber[buf.Buf.ID]
	for _, t := range js.tails[buf.Buf.ID] {
		off := "?"
		if t.Off != nil {
			off = offName(cellKey{t.Off.Sym(), t.Off.C - buf.Off.C})
		}
		res.Tails = append(res.Tails, off+": "+t.What)
	}
	sort.Strings(res.Tails)
}

// DecResult is what a decoder stores into its receiver on its successful returns.
type DecResult struct {
	Alts   []*DecResult  // one per successful return (only on the top-level result)
	Cond   []Bit         // path condition of this alternative
	Fields map[string]BV // field path -> bits (sources are W:<off> input bytes)
	Other  map[string]string
	NRet   int
	Notes  []string
}

// AnalyzeDecoder evaluates fn (pointer-receiver method taking the input slice, returning error).
func (e *Engine) AnalyzeDecoder(fn *ssa.Function) (*DecResult, error) {
	return e.AnalyzeDecoderAssuming(fn, nil)
}

// AnalyzeDecoderAssuming evaluates the decoder on the inputs whose bits named in fixed ("W:<octet>.<bit>")
// have the given values: branches on the opposite value are dead, so every alternative (and the joined
// result) describes those inputs only and carries the assumed bits in its path condition.
func (e *Engine) AnalyzeDecoderAssuming(fn *ssa.Function, fixed map[string]bool) (*DecResult, error) {
	if len(fn.Params) != 2 {
		return nil, fmt.Errorf("%s: unexpected signature", fn.Name())
	}
	pt, ok := fn.Params[0].Type().Underlying().(*types.Pointer)
	if !ok {
		return nil, fmt.Errorf("%s: receiver is not a pointer", fn.Name())
	}
	st := newState()
	obj := e.NewObject("", pt.Elem(), false)
	in := e.NewBuf("in", false, true)
	// the assumed input bits are the initial path condition: a branch whose condition contradicts them is dead
	for name, v := range fixed {
		var src string
		var i int
		if k := strings.LastIndex(name, "."); k > 0 {
			src = name[:k]
			fmt.Sscanf(name[k+1:], "%d", &i)
		}
		kind := BSrc
		if !v {
			kind = BNot
		}
		st.conds = addCond(st.conds, Bit{K: kind, Src: src, I: i})
	}
	args := []Value{&PtrV{Obj: obj, T: pt.Elem()}, &SliceV{Buf: in, Off: affConst(0)}}
	rets := e.Call(fn, args, nil, st, 0)
	res := &DecResult{Fields: map[string]BV{}, Other: map[string]string{}}
	var js *State
	for _, r := range rets {
		if r.Err.Known && !r.Err.Nil {
			continue
		}
		if contradictory(r.St.conds) {
			continue // an infeasible path (b and !b both assumed)
		}
		res.NRet++
		alt := &DecResult{Fields: map[string]BV{}, Other: map[string]string{}, Cond: append([]Bit(nil), r.St.conds...), NRet: 1}
		fillDec(alt, r.St, obj)
		res.Alts = append(res.Alts, alt)
		if js == nil {
			js = r.St
		} else {
			js = joinStates(js, r.St, nil)
		}
	}
	if js == nil {
		return nil, fmt.Errorf("%s: no successful return found", fn.Name())
	}
	fillDec(res, js, obj)
	res.Notes = e.Notes
	return res, nil
}

func fillDec(res *DecResult, js *State, obj *Object) {
	var walk func(prefix string, v Value)
	walk = func(prefix string, v Value) {
		switch x := v.(type) {
		case *IntV:
			res.Fields[prefix] = js.normalize(x.B)
		case *StructV:
			for i, f := range x.Fields {
				n := x.T.Field(i).Name()
				if prefix != "" {
					n = prefix + "." + n
				}
				walk(n, f)
			}
		case *SliceV:
			res.Other[prefix] = "slice"
		case *OpaqueV:
			res.Other[prefix] = x.Why
		default:
			res.Other[prefix] = fmt.Sprintf("%T", v)
		}
	}
	for path, v := range js.fields[obj.ID] {
		walk(fieldName(obj, path), v)
	}
	for list, tmpl := range js.appends {
		for i, t := range tmpl {
			if len(tmpl) == 1 {
				walk(list+"[]", t)
			} else {
				walk(fmt.Sprintf("%s[%d]", list, i), t) // appended by an unrolled loop / straight-line code
			}
		}
	}
}

// MutResult: the fields of a symbolic receiver after a pointer-receiver method ran.
type MutResult struct {
	Fields map[string]BV     // stored integer fields (sources: F:<field> of the receiver before the call)
	Other  map[string]string // stored non-integer / opaque fields
	NRet   int
	Notes  []string
}

// AnalyzeMutator evaluates a pointer-receiver method without parameters on a symbolic receiver
// and reports every field it stores, as a function of the receiver's fields before the call.
func (e *Engine) AnalyzeMutator(fn *ssa.Function) (*MutResult, error) {
	if len(fn.Params) != 1 {
		return nil, fmt.Errorf("%s: unexpected signature", fn.Name())
	}
	pt, ok := fn.Params[0].Type().Underlying().(*types.Pointer)
	if !ok {
		return nil, fmt.Errorf("%s: receiver is not a pointer", fn.Name())
	}
	st := newState()
	obj := e.NewObject("", pt.Elem(), true)
	rets := e.Call(fn, []Value{&PtrV{Obj: obj, T: pt.Elem()}}, nil, st, 0)
	res := &MutResult{Fields: map[string]BV{}, Other: map[string]string{}}
	var js *State
	for _, r := range rets {
		res.NRet++
		if js == nil {
			js = r.St
		} else {
			js = joinStates(js, r.St, nil)
		}
	}
	if js == nil {
		return nil, fmt.Errorf("%s: no return found", fn.Name())
	}
	d := &DecResult{Fields: res.Fields, Other: res.Other}
	fillDec(d, js, obj)
	res.Notes = e.Notes
	return res, nil
}

// FuncAlt: one return of a scalar function with its path condition.
type FuncAlt struct {
	Cond    []Bit
	Results []BV // integer results (nil for others)
	ErrNil  bool
	ErrKnown bool
}

// AnalyzeFunc evaluates a function whose receiver/parameters are integers (named after the
// parameters: source "F:<name>") and reports each return separately.
func (e *Engine) AnalyzeFunc(fn *ssa.Function) ([]FuncAlt, error) {
	st := newState()
	var args []Value
	for _, p := range fn.Params {
		w, _ := typeWidth(p.Type())
		if w == 0 {
			args = append(args, e.unknownOf(p.Type(), "parameter"))
			continue
		}
		args = append(args, &IntV{B: srcBV("F:"+p.Name(), w)})
	}
	rets := e.Call(fn, args, nil, st, 0)
	var out []FuncAlt
	for _, r := range rets {
		a := FuncAlt{Cond: append([]Bit(nil), r.St.conds...), ErrNil: r.Err.Nil, ErrKnown: r.Err.Known}
		for _, v := range r.Vals {
			if iv, ok := v.(*IntV); ok {
				a.Results = append(a.Results, r.St.normalize(iv.B))
			} else {
				a.Results = append(a.Results, nil)
			}
		}
		out = append(out, a)
	}
	if len(out) == 0 {
		return nil, fmt.Errorf("%s: no return found", fn.Name())
	}
	return out, nil
}

func contradictory(cs []Bit) bool {
	for _, c := range cs {
		n := bitNot(c)
		for _, d := range cs {
			if d == n {
				return true
			}
		}
	}
	return false
}
