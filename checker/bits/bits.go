// Package bits is a bit-provenance abstract interpreter over go/ssa (engine E2).
// It never runs the program: every integer SSA value is a vector of bit
// sources (constant 0/1, bit k of a named source such as a receiver field or
// an input byte, the negation of such a bit, or unknown); byte buffers are
// maps (symbolic stride, constant offset) -> 8 bit sources. Functions are
// evaluated once, blocks in reverse post-order, memory states joined at merge
// points (with if-then-else on a single-bit branch condition, which turns the
// `if flag { b |= mask }` idiom into a bit source); loop bodies are evaluated
// once with their induction variables as affine terms of a generic iteration
// symbol "i", so layouts inside loops are extracted relative to the entry.
package bits

import (
	"fmt"
	"sync"
	"sync/atomic"
	"go/constant"
	"go/token"
	"go/types"
	"sort"
	"strings"

	"golang.org/x/tools/go/ssa"
)

type BitKind uint8

const (
	BUnknown BitKind = iota
	BZero
	BOne
	BSrc
	BNot
)

// Bit is one bit source.
type Bit struct {
	K   BitKind
	Src string // source name ("F:Count", "W:24i+3")
	I   int    // bit index within the source (0 = least significant)
}

func (b Bit) String() string {
	switch b.K {
	case BZero:
		return "0"
	case BOne:
		return "1"
	case BSrc:
		return fmt.Sprintf("%s.%d", b.Src, b.I)
	case BNot:
		return fmt.Sprintf("!%s.%d", b.Src, b.I)
	}
	return "?"
}

var (
	Zero = Bit{K: BZero}
	One  = Bit{K: BOne}
	Unk  = Bit{K: BUnknown}
)

// BV is a bit vector, index 0 = least significant bit.
type BV []Bit

func constBV(v uint64, w int) BV {
	out := make(BV, w)
	for i := 0; i < w; i++ {
		if v>>uint(i)&1 == 1 {
			out[i] = One
		} else {
			out[i] = Zero
		}
	}
	return out
}

var (
	srcWidth   = map[string]int{}
	srcWidthMu sync.Mutex
)

func noteWidth(name string, w int) {
	srcWidthMu.Lock()
	srcWidth[name] = w
	srcWidthMu.Unlock()
}

func widthOf(name string) int {
	srcWidthMu.Lock()
	defer srcWidthMu.Unlock()
	return srcWidth[name]
}

func srcBV(name string, w int) BV {
	noteWidth(name, w)
	out := make(BV, w)
	for i := range out {
		out[i] = Bit{K: BSrc, Src: name, I: i}
	}
	return out
}

func unkBV(w int) BV {
	out := make(BV, w)
	for i := range out {
		out[i] = Unk
	}
	return out
}

func (b BV) isConst() (uint64, bool) {
	var v uint64
	for i, x := range b {
		switch x.K {
		case BOne:
			if i < 64 {
				v |= 1 << uint(i)
			}
		case BZero:
		default:
			return 0, false
		}
	}
	return v, true
}

func (b BV) String() string {
	var s []string
	for i := len(b) - 1; i >= 0; i-- {
		s = append(s, b[i].String())
	}
	return "[" + strings.Join(s, " ") + "]"
}

// resize zero-extends, sign-extends or truncates.
func (b BV) resize(w int, signed bool) BV {
	out := make(BV, w)
	for i := 0; i < w; i++ {
		switch {
		case i < len(b):
			out[i] = b[i]
		case signed && len(b) > 0:
			out[i] = b[len(b)-1]
		default:
			out[i] = Zero
		}
	}
	return out
}

// Aff is an affine index expression C + sum K*sym.
type Aff struct {
	C int64
	T map[string]int64
}

func affConst(c int64) *Aff { return &Aff{C: c} }
func affSym(s string) *Aff   { return &Aff{T: map[string]int64{s: 1}} }

func (a *Aff) add(b *Aff, sign int64) *Aff {
	if a == nil || b == nil {
		return nil
	}
	o := &Aff{C: a.C + sign*b.C, T: map[string]int64{}}
	for k, v := range a.T {
		o.T[k] += v
	}
	for k, v := range b.T {
		o.T[k] += sign * v
	}
	for k, v := range o.T {
		if v == 0 {
			delete(o.T, k)
		}
	}
	return o
}

func (a *Aff) scale(k int64) *Aff {
	if a == nil {
		return nil
	}
	o := &Aff{C: a.C * k, T: map[string]int64{}}
	for s, v := range a.T {
		if v*k != 0 {
			o.T[s] = v * k
		}
	}
	return o
}

func (a *Aff) isConst() bool { return a != nil && len(a.T) == 0 }

// Sym renders the non-constant part canonically ("" for constants).
func (a *Aff) Sym() string {
	if a == nil {
		return "?"
	}
	var ks []string
	for k := range a.T {
		ks = append(ks, k)
	}
	sort.Strings(ks)
	var parts []string
	for _, k := range ks {
		parts = append(parts, fmt.Sprintf("%d%s", a.T[k], k))
	}
	return strings.Join(parts, "+")
}

// Value kinds.
type Value interface{}

// IntV: integer or bool.
type IntV struct {
	B   BV
	A   *Aff   // affine view, when known
	Cmp *CmpV  // for bools produced by a comparison with a constant
	Len *SliceV // for len(x): the slice
}

// CmpV: the bool is (Src op C) where all bits of the compared value came from one source.
type CmpV struct {
	Src string
	W   int
	Op  token.Token
	C   uint64
}

// MapV is a map built from constant keys (a lookup table).
type MapV struct {
	M       map[uint64]Value
	ElemT   types.Type
	Unknown bool // updated with a key that is not a constant
}

type SliceV struct {
	Buf    *Buf
	Off    *Aff // element offset of the slice start within Buf (nil = unknown)
	LenC   int64
	LenOK  bool   // LenC is the constant length
	Elem   string // for slices of structs / ints that are receiver lists: source path of the list ("" otherwise)
	ElemT  types.Type
	IsNil  bool
	// slice over a local array object (the variadic argument of append)
	arrObj  *Object
	arrPath string
	// element templates appended to a receiver list (decoders)
	pending []Value
}

type StructV struct {
	T      *types.Struct
	Fields []Value
}

type PtrV struct {
	Obj  *Object
	Path string // ".f0.f2"
	T    types.Type // pointee type
	// pointer into a byte buffer element
	Buf *Buf
	Off *Aff
}

type TupleV []Value

type ErrV struct{ Nil, Known bool }

type FuncV struct {
	Fn    *ssa.Function
	Binds []Value
}

type OpaqueV struct{ Why string }

// Buf is an abstract byte (or element) buffer.
type Buf struct {
	ID       int
	Name     string // "in" for the decoder input, "out#n" for allocations
	ZeroInit bool   // missing cell = zero byte; otherwise missing cell = source "W:<name>@<sym>+<off>"
	Input    bool
}

type cellKey struct {
	Sym string
	Off int64
}

// Object is an abstract struct object in memory (local literal, receiver).
type Object struct {
	ID   int
	Name string
	T    types.Type
	// Symbolic: fields never stored read as sources "F:<Name><path>"
	Symbolic bool
}

// State is the flow-sensitive memory.
type State struct {
	cells   map[int]map[cellKey][8]Bit // buf id -> cells
	clobber map[int]bool               // buf id -> an unknown-offset write happened
	tails   map[int][]Tail
	fields  map[int]map[string]Value // object id -> path -> value
	ub      map[string]uint64        // source -> known upper bound
	appends map[string][]Value       // list path -> appended element templates (decoders)
	conds   []Bit                    // single-bit branch conditions that hold on this path
	dead    bool
}

// Tail: bytes from Off on are a copy of an opaque byte source.
type Tail struct {
	Off  *Aff
	What string
}

func newState() *State {
	return &State{cells: map[int]map[cellKey][8]Bit{}, clobber: map[int]bool{}, tails: map[int][]Tail{}, fields: map[int]map[string]Value{}, ub: map[string]uint64{}, appends: map[string][]Value{}}
}

func (s *State) clone() *State {
	n := newState()
	n.dead = s.dead
	for id, m := range s.cells {
		c := make(map[cellKey][8]Bit, len(m))
		for k, v := range m {
			c[k] = v
		}
		n.cells[id] = c
	}
	for k, v := range s.clobber {
		n.clobber[k] = v
	}
	for k, v := range s.tails {
		n.tails[k] = append([]Tail(nil), v...)
	}
	for id, m := range s.fields {
		c := make(map[string]Value, len(m))
		for k, v := range m {
			c[k] = v
		}
		n.fields[id] = c
	}
	for k, v := range s.ub {
		n.ub[k] = v
	}
	for k, v := range s.appends {
		n.appends[k] = append([]Value(nil), v...)
	}
	n.conds = append([]Bit(nil), s.conds...)
	return n
}

// Engine evaluates functions of one package.
type Engine struct {
	Pkg      *ssa.Package
	nextID   int
	MaxDepth int
	Notes    []string // unsupported constructs met (for evidence)
	noteSeen map[string]bool
	elemObjs map[string]*Object
	Trace    func(string)
	// FieldConst: integer fields of the symbolic receiver assumed to hold a constant (by field name);
	// ListLen: list fields of the receiver assumed to have a constant length. The analysis then describes
	// the receivers with those values only.
	FieldConst map[string]uint64
	ListLen    map[string]int64
}

func New(pkg *ssa.Package) *Engine {
	return &Engine{Pkg: pkg, MaxDepth: 5, noteSeen: map[string]bool{}}
}

func (e *Engine) note(format string, a ...any) {
	s := fmt.Sprintf(format, a...)
	if !e.noteSeen[s] {
		e.noteSeen[s] = true
		e.Notes = append(e.Notes, s)
	}
}

var globalID int64

func (e *Engine) NewBuf(name string, zero, input bool) *Buf {
	e.nextID = int(atomic.AddInt64(&globalID, 1))
	b := &Buf{ID: e.nextID, Name: name, ZeroInit: zero, Input: input}
	if zero {
		zeroMu.Lock()
		zeroBufs[b.ID] = true
		zeroMu.Unlock()
	}
	return b
}

func (e *Engine) NewObject(name string, t types.Type, symbolic bool) *Object {
	e.nextID = int(atomic.AddInt64(&globalID, 1))
	return &Object{ID: e.nextID, Name: name, T: t, Symbolic: symbolic}
}

// ---- memory access

func (s *State) readByte(b *Buf, off *Aff) [8]Bit {
	var out [8]Bit
	if off == nil || s.clobber[b.ID] {
		for i := range out {
			out[i] = Unk
		}
		return out
	}
	k := cellKey{off.Sym(), off.C}
	if c, ok := s.cells[b.ID][k]; ok {
		return c
	}
	// a different stride written into the same buffer may alias: only if some cell with another Sym exists
	for kk := range s.cells[b.ID] {
		if kk.Sym != k.Sym {
			for i := range out {
				out[i] = Unk
			}
			return out
		}
	}
	if b.ZeroInit {
		for i := range out {
			out[i] = Zero
		}
		return out
	}
	name := fmt.Sprintf("W:%s", offName(k))
	noteWidth(name, 8)
	for i := range out {
		out[i] = Bit{K: BSrc, Src: name, I: i}
	}
	return out
}

func offName(k cellKey) string {
	if k.Sym == "" {
		return fmt.Sprint(k.Off)
	}
	return fmt.Sprintf("%s+%d", k.Sym, k.Off)
}

func (s *State) writeByte(b *Buf, off *Aff, v [8]Bit) {
	if off == nil {
		s.clobber[b.ID] = true
		return
	}
	if s.cells[b.ID] == nil {
		s.cells[b.ID] = map[cellKey][8]Bit{}
	}
	s.cells[b.ID][cellKey{off.Sym(), off.C}] = v
}

func (s *State) normalize(b BV) BV {
	out := b
	copied := false
	for i, x := range b {
		if (x.K == BSrc || x.K == BNot) && x.I < 64 {
			if ub, ok := s.ub[x.Src]; ok && (x.I >= 63 || uint64(1)<<uint(x.I) > ub) {
				if !copied {
					out = append(BV(nil), b...)
					copied = true
				}
				if x.K == BSrc {
					out[i] = Zero
				} else {
					out[i] = One
				}
			}
		}
	}
	return out
}

// ---- bit operations

func bitAnd(a, b Bit) Bit {
	switch {
	case a.K == BZero || b.K == BZero:
		return Zero
	case a.K == BOne:
		return b
	case b.K == BOne:
		return a
	case a == b && a.K != BUnknown:
		return a
	}
	return Unk
}

func bitOr(a, b Bit) Bit {
	switch {
	case a.K == BOne || b.K == BOne:
		return One
	case a.K == BZero:
		return b
	case b.K == BZero:
		return a
	case a == b && a.K != BUnknown:
		return a
	}
	return Unk
}

func bitNot(a Bit) Bit {
	switch a.K {
	case BZero:
		return One
	case BOne:
		return Zero
	case BSrc:
		return Bit{K: BNot, Src: a.Src, I: a.I}
	case BNot:
		return Bit{K: BSrc, Src: a.Src, I: a.I}
	}
	return Unk
}

func bitXor(a, b Bit) Bit {
	switch {
	case a.K == BZero:
		return b
	case b.K == BZero:
		return a
	case a.K == BOne:
		return bitNot(b)
	case b.K == BOne:
		return bitNot(a)
	case a == b && a.K != BUnknown:
		return Zero
	}
	return Unk
}

// ite(c, a, b)
func bitIte(c, a, b Bit) Bit {
	if a == b {
		return a
	}
	switch c.K {
	case BOne:
		return a
	case BZero:
		return b
	case BSrc, BNot:
		if a.K == BOne && b.K == BZero {
			return c
		}
		if a.K == BZero && b.K == BOne {
			return bitNot(c)
		}
	}
	return Unk
}

func typeWidth(t types.Type) (int, bool) {
	b, ok := t.Underlying().(*types.Basic)
	if !ok {
		return 0, false
	}
	switch b.Kind() {
	case types.Bool, types.UntypedBool:
		return 1, false
	case types.Int8:
		return 8, true
	case types.Uint8:
		return 8, false
	case types.Int16:
		return 16, true
	case types.Uint16:
		return 16, false
	case types.Int32:
		return 32, true
	case types.Uint32:
		return 32, false
	case types.Int64, types.Int, types.UntypedInt:
		return 64, true
	case types.Uint64, types.Uint, types.Uintptr:
		return 64, false
	}
	return 0, false
}

func constOf(c *ssa.Const) (uint64, bool) {
	if c.Value == nil {
		return 0, false
	}
	switch c.Value.Kind() {
	case constant.Int:
		if v, ok := constant.Int64Val(c.Value); ok {
			return uint64(v), true
		}
		if v, ok := constant.Uint64Val(c.Value); ok {
			return v, true
		}
	case constant.Bool:
		if constant.BoolVal(c.Value) {
			return 1, true
		}
		return 0, true
	}
	return 0, false
}
