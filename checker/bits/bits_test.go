package bits

import (
	"fmt"
	"os"
	"sort"
	"strings"
	"testing"

	"rtcpverif/core"
)

func TestDump(t *testing.T) {
	dir := os.Getenv("REPO")
	if dir == "" {
		dir = "/repo"
	}
	prog, err := core.Load(dir, "", nil)
	if err != nil {
		t.Fatal(err)
	}
	for _, spec := range strings.Fields(os.Getenv("ENC")) {
		fn := prog.Func(spec)
		if fn == nil {
			t.Fatalf("no func %s", spec)
		}
		e := New(prog.SPkg)
		if a := os.Getenv("FCONST"); a != "" {
			e.FieldConst = map[string]uint64{}
			for _, kv := range strings.Fields(a) {
				i := strings.Index(kv, "=")
				var v uint64
				fmt.Sscanf(kv[i+1:], "%d", &v)
				e.FieldConst[kv[:i]] = v
			}
		}
		if a := os.Getenv("LLEN"); a != "" {
			e.ListLen = map[string]int64{}
			for _, kv := range strings.Fields(a) {
				i := strings.Index(kv, "=")
				var v int64
				fmt.Sscanf(kv[i+1:], "%d", &v)
				e.ListLen[kv[:i]] = v
			}
		}
		res, err := e.AnalyzeEncoder(fn)
		fmt.Printf("== ENC %s\n", spec)
		if err != nil {
			fmt.Println("   error:", err)
			continue
		}
		var ks []string
		for k := range res.Wire {
			ks = append(ks, k)
		}
		sort.Slice(ks, func(i, j int) bool { return padKey(ks[i]) < padKey(ks[j]) })
		for _, k := range ks {
			c := res.Wire[k]
			fmt.Printf("   byte %-10s %s\n", k, BV(c[:]))
		}
		fmt.Printf("   tails=%v clobber=%v nret=%d len=%d\n   notes=%v\n", res.Tails, res.Clobber, res.NRet, res.LenConst, res.Notes)
	}
	for _, spec := range strings.Fields(os.Getenv("MUT")) {
		fn := prog.Func(spec)
		if fn == nil {
			t.Fatalf("no func %s", spec)
		}
		res, err := New(prog.SPkg).AnalyzeMutator(fn)
		fmt.Printf("== MUT %s\n", spec)
		if err != nil {
			fmt.Println("   error:", err)
			continue
		}
		var ks []string
		for k := range res.Fields {
			ks = append(ks, k)
		}
		sort.Strings(ks)
		for _, k := range ks {
			fmt.Printf("   %-28s %s\n", k, res.Fields[k])
		}
		fmt.Printf("   other=%v notes=%v\n", res.Other, res.Notes)
	}
	for _, spec := range strings.Fields(os.Getenv("FUN")) {
		fn := prog.Func(spec)
		if fn == nil {
			t.Fatalf("no func %s", spec)
		}
		alts, err := New(prog.SPkg).AnalyzeFunc(fn)
		fmt.Printf("== FUN %s err=%v\n", spec, err)
		for _, a := range alts {
			fmt.Printf("   cond=%v results=%v errNil=%v/%v\n", a.Cond, a.Results, a.ErrNil, a.ErrKnown)
		}
	}
	for _, spec := range strings.Fields(os.Getenv("DEC")) {
		fn := prog.Func(spec)
		if fn == nil {
			t.Fatalf("no func %s", spec)
		}
		e := New(prog.SPkg)
		res, err := e.AnalyzeDecoder(fn)
		fmt.Printf("== DEC %s\n", spec)
		if err != nil {
			fmt.Println("   error:", err)
			continue
		}
		var ks []string
		for k := range res.Fields {
			ks = append(ks, k)
		}
		sort.Strings(ks)
		for _, k := range ks {
			fmt.Printf("   %-28s %s\n", k, res.Fields[k])
		}
		fmt.Printf("   other=%v nret=%d\n   notes=%v\n", res.Other, res.NRet, res.Notes)
		if len(res.Alts) > 1 {
			for i, a := range res.Alts {
				fmt.Printf("   -- alt %d cond=%v other=%v\n", i, a.Cond, a.Other)
				var ks []string
				for k := range a.Fields {
					ks = append(ks, k)
				}
				sort.Strings(ks)
				for _, k := range ks {
					fmt.Printf("      %-28s %s\n", k, a.Fields[k])
				}
			}
		}
	}
}

func padKey(k string) string {
	i := strings.LastIndex(k, "+")
	sym, off := "", k
	if i >= 0 {
		sym, off = k[:i], k[i+1:]
	}
	return fmt.Sprintf("%s|%08s", sym, off)
}
