package bits

import (
	"fmt"
	"testing"

	"rtcpverif/core"
)

func loadFix(t *testing.T) *core.Prog {
	p, err := core.Load("../testdata/bitsfix", "", nil)
	if err != nil {
		t.Fatal(err)
	}
	return p
}

func src(name string, i int) Bit { return Bit{K: BSrc, Src: name, I: i} }

func TestFixtureEncoder(t *testing.T) {
	p := loadFix(t)
	res, err := New(p.SPkg).AnalyzeEncoder(p.Func("Unit.Marshal"))
	if err != nil {
		t.Fatal(err)
	}
	want := map[string][8]Bit{
		"0": {src("F:Small", 0), src("F:Small", 1), src("F:Small", 2), src("F:Small", 3), src("F:Small", 4), src("F:Flag", 0), One, One},
	}
	for k := 0; k < 4; k++ {
		var c [8]Bit
		for b := 0; b < 8; b++ {
			c[b] = src("F:Wide", 8*(3-k)+b)
		}
		want[fmt.Sprint(1+k)] = c
	}
	for k := 0; k < 2; k++ {
		var c [8]Bit
		for b := 0; b < 8; b++ {
			c[b] = src("F:List[].A", 8*(1-k)+b)
		}
		want[fmt.Sprintf("4i+%d", 5+k)] = c
	}
	var cb [8]Bit
	for b := 0; b < 8; b++ {
		cb[b] = src("F:List[].B", b)
	}
	want["4i+7"] = cb
	for cell, w := range want {
		if got := res.Wire[cell]; got != w {
			t.Errorf("octet %s: got %v want %v", cell, BV(got[:]), BV(w[:]))
		}
	}
	if len(res.Wire) != len(want) {
		t.Errorf("%d cells written, expected %d: %v", len(res.Wire), len(want), res.Wire)
	}
}

func TestFixtureDecoder(t *testing.T) {
	p := loadFix(t)
	res, err := New(p.SPkg).AnalyzeDecoder(p.Func("*Unit.Unmarshal"))
	if err != nil {
		t.Fatal(err)
	}
	if got := res.Fields["Flag"]; len(got) != 1 || got[0] != src("W:0", 5) {
		t.Errorf("Flag = %v", got)
	}
	small := res.Fields["Small"]
	for i := 0; i < 8; i++ {
		w := Zero
		if i < 5 {
			w = src("W:0", i)
		}
		if small[i] != w {
			t.Errorf("Small bit %d = %v want %v", i, small[i], w)
		}
	}
	wide := res.Fields["Wide"]
	for i := 0; i < 32; i++ {
		w := src(fmt.Sprintf("W:%d", 4-i/8), i%8)
		if wide[i] != w {
			t.Errorf("Wide bit %d = %v want %v", i, wide[i], w)
		}
	}
	a := res.Fields["List[].A"]
	if len(a) != 16 || a[0] != src("W:4i+6", 0) || a[15] != src("W:4i+5", 7) {
		t.Errorf("List[].A = %v", a)
	}
}

// The swapped decoder must be distinguishable from the right one.
func TestFixtureBadDecoder(t *testing.T) {
	p := loadFix(t)
	res, err := New(p.SPkg).AnalyzeDecoder(p.Func("*Unit.BadUnmarshal"))
	if err != nil {
		t.Fatal(err)
	}
	wide := res.Fields["Wide"]
	if wide[8] == src("W:3", 0) || wide[8] != src("W:2", 0) {
		t.Errorf("swapped octets not visible: Wide bit 8 = %v", wide[8])
	}
}
