package bits

import (
	"go/constant"
	"fmt"
	"go/types"
	"strings"

	"golang.org/x/tools/go/ssa"
)

func (e *Engine) call(fr *frame, st *State, x *ssa.Call) Value {
	cc := x.Common()
	if b, ok := cc.Value.(*ssa.Builtin); ok {
		return e.builtin(fr, st, x, b)
	}
	var args []Value
	for _, a := range cc.Args {
		args = append(args, e.val(fr, a, st))
	}
	if cc.IsInvoke() {
		e.note("interface call %s in %s: result opaque", cc.Method.Name(), fr.fn.Name())
		return e.opaqueResult(x)
	}
	var fn *ssa.Function
	var binds []Value
	switch f := cc.Value.(type) {
	case *ssa.Function:
		fn = f
	default:
		if fv, ok := e.val(fr, cc.Value, st).(*FuncV); ok {
			fn, binds = fv.Fn, fv.Binds
		}
	}
	if fn == nil {
		e.note("dynamic call in %s: result opaque", fr.fn.Name())
		return e.opaqueResult(x)
	}
	if fn.Pkg != e.Pkg || len(fn.Blocks) == 0 {
		return e.external(fr, st, x, fn, args)
	}
	if fr.depth >= e.MaxDepth {
		e.note("inlining depth exceeded at %s", fn.Name())
		return e.opaqueResult(x)
	}
	rets := e.Call(fn, args, binds, st, fr.depth+1)
	// continue with the join of the returns that may be successful
	var ok []Ret
	anyFail := false
	for _, r := range rets {
		if r.Err.Known && !r.Err.Nil {
			anyFail = true
			continue
		}
		ok = append(ok, r)
	}
	if len(ok) == 0 {
		// no successful return: the caller's continuation is only reachable with an error
		if len(rets) > 0 {
			*st = *rets[0].St.clone()
			return e.resultOf(x, rets[0].Vals)
		}
		st.dead = true
		return e.opaqueResult(x)
	}
	js := ok[0].St
	vals := append([]Value(nil), ok[0].Vals...)
	for _, r := range ok[1:] {
		js = joinStates(js, r.St, nil)
		for i := range vals {
			if i < len(r.Vals) {
				vals[i] = joinValues(vals[i], r.Vals[i], nil)
			}
		}
	}
	// the error result: nil only if every return is a known-nil return
	if n := len(vals); n > 0 {
		if _, isErr := vals[n-1].(ErrV); isErr || anyFail {
			if sig := fn.Signature.Results(); sig.Len() > 0 && types.Identical(sig.At(sig.Len()-1).Type(), types.Universe.Lookup("error").Type()) {
				allNil := !anyFail
				for _, r := range ok {
					if !(r.Err.Known && r.Err.Nil) {
						allNil = false
					}
				}
				if allNil {
					vals[n-1] = ErrV{Nil: true, Known: true}
				} else {
					vals[n-1] = ErrV{}
				}
			}
		}
	}
	*st = *js.clone()
	return e.resultOf(x, vals)
}

func (e *Engine) resultOf(x *ssa.Call, vals []Value) Value {
	if _, ok := x.Type().(*types.Tuple); ok {
		return TupleV(vals)
	}
	if len(vals) == 1 {
		return vals[0]
	}
	if len(vals) == 0 {
		return &OpaqueV{Why: "no result"}
	}
	return TupleV(vals)
}

func (e *Engine) opaqueResult(x *ssa.Call) Value {
	if tup, ok := x.Type().(*types.Tuple); ok {
		var tv TupleV
		for i := 0; i < tup.Len(); i++ {
			tv = append(tv, e.unknownOf(tup.At(i).Type(), "opaque call result"))
		}
		return tv
	}
	return e.unknownOf(x.Type(), "opaque call result")
}

func (e *Engine) builtin(fr *frame, st *State, x *ssa.Call, b *ssa.Builtin) Value {
	args := x.Common().Args
	switch b.Name() {
	case "len":
		v := e.val(fr, args[0], st)
		if sv, ok := v.(*SliceV); ok {
			if sv.LenOK {
				return &IntV{B: constBV(uint64(sv.LenC), 64), A: affConst(sv.LenC)}
			}
			name := "len(?)"
			if sv.Elem != "" {
				name = "len(" + sv.Elem + ")"
			} else if sv.Buf != nil {
				name = "len(" + sv.Buf.Name + ")"
			}
			return &IntV{B: srcBV("L:"+name, 64), A: affSym(name), Len: sv}
		}
		if ov, ok := v.(*OpaqueV); ok {
			return &IntV{B: srcBV("L:len("+ov.Why+")", 64), A: affSym("len(" + ov.Why + ")")}
		}
		return &IntV{B: unkBV(64)}
	case "cap":
		return &IntV{B: unkBV(64)}
	case "copy":
		dst, _ := e.val(fr, args[0], st).(*SliceV)
		srcV := e.val(fr, args[1], st)
		if dst == nil || dst.Buf == nil {
			e.note("copy into an unknown destination in %s", fr.fn.Name())
			return &IntV{B: unkBV(64)}
		}
		if src, ok := srcV.(*SliceV); ok && src.Buf != nil && src.LenOK && src.Off != nil {
			n := src.LenC
			if dst.LenOK && dst.LenC < n {
				n = dst.LenC
			}
			for i := int64(0); i < n; i++ {
				c := st.readByte(src.Buf, src.Off.add(affConst(i), 1))
				var off *Aff
				if dst.Off != nil {
					off = dst.Off.add(affConst(i), 1)
				}
				st.writeByte(dst.Buf, off, c)
			}
			return &IntV{B: constBV(uint64(n), 64), A: affConst(n)}
		}
		// constant string source: its octets, as far as the destination is known to hold them
		if cst, isC := args[1].(*ssa.Const); isC && cst.Value != nil && cst.Value.Kind() == constant.String && dst.Off != nil && dst.LenOK {
			sv := constant.StringVal(cst.Value)
			n := int64(len(sv))
			if dst.LenC < n {
				n = dst.LenC
			}
			for i := int64(0); i < n; i++ {
				bv := constBV(uint64(sv[i]), 8)
				var c [8]Bit
				copy(c[:], bv)
				st.writeByte(dst.Buf, dst.Off.add(affConst(i), 1), c)
			}
			return &IntV{B: constBV(uint64(n), 64), A: affConst(n)}
		}
		// opaque byte source (text, extension bytes, ...)
		what := describe(srcV)
		if dst.LenOK && dst.Off != nil {
			for i := int64(0); i < dst.LenC; i++ {
				var c [8]Bit
				name := fmt.Sprintf("B:%s[%d]", what, i)
				noteWidth(name, 8)
				for k := range c {
					c[k] = Bit{K: BSrc, Src: name, I: k}
				}
				st.writeByte(dst.Buf, dst.Off.add(affConst(i), 1), c)
			}
		} else {
			st.tails[dst.Buf.ID] = append(st.tails[dst.Buf.ID], Tail{Off: dst.Off, What: what})
		}
		return &IntV{B: unkBV(64)}
	case "append":
		a := e.val(fr, args[0], st)
		if len(args) < 2 {
			return a
		}
		bv := e.val(fr, args[1], st)
		as, _ := a.(*SliceV)
		bs, _ := bv.(*SliceV)
		// list of structs/ints on the receiver: remember the element template
		if bs != nil && bs.arrObj != nil {
			et := bs.arrObj.T
			if at, ok := et.Underlying().(*types.Array); ok {
				var pend []Value
				for i := int64(0); i < at.Len(); i++ {
					pend = append(pend, e.loadObj(st, bs.arrObj, fmt.Sprintf("%s[%d]", bs.arrPath, i), at.Elem()))
				}
				r := &SliceV{}
				if as != nil {
					r.Elem, r.ElemT = as.Elem, as.ElemT
					r.pending = append(append([]Value(nil), as.pending...), pend...)
				} else {
					r.pending = pend
				}
				return r
			}
		}
		// byte buffers: concatenation with a known first length
		if as != nil && bs != nil && as.Buf != nil && bs.Buf != nil && as.LenOK && as.Off != nil && as.Off.isConst() && bs.Off != nil && bs.Off.isConst() {
			nb := e.NewBuf(fmt.Sprintf("cat%d", e.nextID), true, false)
			for i := int64(0); i < as.LenC; i++ {
				st.writeByte(nb, affConst(i), st.readByte(as.Buf, as.Off.add(affConst(i), 1)))
			}
			for k, c := range st.cells[bs.Buf.ID] {
				if k.Sym == "" && k.Off < bs.Off.C {
					continue
				}
				if st.cells[nb.ID] == nil {
					st.cells[nb.ID] = map[cellKey][8]Bit{}
				}
				st.cells[nb.ID][cellKey{k.Sym, k.Off - bs.Off.C + as.LenC}] = c
			}
			if st.clobber[bs.Buf.ID] {
				st.clobber[nb.ID] = true
			}
			for _, t := range st.tails[bs.Buf.ID] {
				var off *Aff
				if t.Off != nil {
					off = t.Off.add(affConst(as.LenC-bs.Off.C), 1)
				}
				st.tails[nb.ID] = append(st.tails[nb.ID], Tail{off, t.What})
			}
			r := &SliceV{Buf: nb, Off: affConst(0)}
			if bs.LenOK {
				r.LenC, r.LenOK = as.LenC+bs.LenC, true
			}
			return r
		}
		if as != nil && as.Buf != nil && as.LenOK && as.Off != nil && (bs == nil || bs.Buf == nil) {
			// opaque bytes appended after a known prefix
			st.tails[as.Buf.ID] = append(st.tails[as.Buf.ID], Tail{Off: as.Off.add(affConst(as.LenC), 1), What: describe(bv)})
			return &SliceV{Buf: as.Buf, Off: as.Off}
		}
		if as != nil && as.Buf != nil {
			// appending to a buffer of unknown length: contents after the old end are unknown
			e.note("append to a buffer of unknown length in %s", fr.fn.Name())
			st.clobber[as.Buf.ID] = true
			return &SliceV{Buf: as.Buf}
		}
		if as != nil && as.Elem != "" {
			return &SliceV{Elem: as.Elem, ElemT: as.ElemT, pending: as.pending}
		}
		return &OpaqueV{Why: "append"}
	}
	return e.unknownOf(x.Type(), "builtin "+b.Name())
}

func describe(v Value) string {
	switch x := v.(type) {
	case *SliceV:
		if x.Elem != "" {
			return x.Elem
		}
		if x.Buf != nil {
			return x.Buf.Name
		}
	case *OpaqueV:
		return x.Why
	}
	return "?"
}

func (e *Engine) external(fr *frame, st *State, x *ssa.Call, fn *ssa.Function, args []Value) Value {
	name := fn.String()
	rd := func(n int) Value {
		sv, _ := args[len(args)-1].(*SliceV)
		if sv == nil || sv.Buf == nil {
			return &IntV{B: unkBV(8 * n)}
		}
		out := make(BV, 8*n)
		for i := 0; i < n; i++ {
			var off *Aff
			if sv.Off != nil {
				off = sv.Off.add(affConst(int64(i)), 1)
			}
			c := st.readByte(sv.Buf, off)
			// big endian: byte i is the (n-1-i)-th least significant byte
			copy(out[8*(n-1-i):], c[:])
		}
		return &IntV{B: st.normalize(out)}
	}
	wr := func(n int) Value {
		sv, _ := args[len(args)-2].(*SliceV)
		iv := e.intOfValue(args[len(args)-1], 8*n)
		if sv == nil || sv.Buf == nil {
			e.note("PutUint%d into an unknown buffer in %s", 8*n, fr.fn.Name())
			return &OpaqueV{}
		}
		bv := st.normalize(iv.B)
		for i := 0; i < n; i++ {
			var c [8]Bit
			for k := 0; k < 8; k++ {
				idx := 8*(n-1-i) + k
				if idx < len(bv) {
					c[k] = bv[idx]
				} else {
					c[k] = Zero
				}
			}
			var off *Aff
			if sv.Off != nil {
				off = sv.Off.add(affConst(int64(i)), 1)
			}
			st.writeByte(sv.Buf, off, c)
		}
		return &OpaqueV{}
	}
	switch name {
	case "(encoding/binary.bigEndian).Uint16":
		return rd(2)
	case "(encoding/binary.bigEndian).Uint32":
		return rd(4)
	case "(encoding/binary.bigEndian).Uint64":
		return rd(8)
	case "(encoding/binary.bigEndian).PutUint16":
		return wr(2)
	case "(encoding/binary.bigEndian).PutUint32":
		return wr(4)
	case "(encoding/binary.bigEndian).PutUint64":
		return wr(8)
	}
	if strings.HasPrefix(name, "errors.") || strings.HasPrefix(name, "fmt.Errorf") {
		return ErrV{Nil: false, Known: true}
	}
	e.note("external call %s: result opaque", name)
	return e.opaqueResult(x)
}
