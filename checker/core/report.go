package core

import (
	"encoding/json"
	"fmt"
	"os"
	"path/filepath"
	"sort"
	"strings"
	"time"
)

// Status of an obligation.
type Status int

const (
	Discharged Status = iota
	Violated          // the rule's condition is demonstrably false on the code
	Undecided         // the engine could not establish it (counts as failure)
)

func (s Status) String() string {
	return [...]string{"discharged", "VIOLATED", "UNDECIDED"}[s]
}

// Obligation is one instance of a rule on one construct.
type Obligation struct {
	Rule   string `json:"rule"`
	Key    string `json:"key"` // rule + function + construct, never a line number
	Pos    string `json:"pos"` // file:line, for the reader only
	Status string `json:"status"`
	Detail string `json:"detail,omitempty"` // what was established / what is missing
	st     Status
}

// Report collects the result of one property check.
type Report struct {
	Prop       string
	Level      string // "proof" | "other"
	Tier       string
	Obls       []*Obligation
	Anchors    map[string][]string // rule -> resolved anchors
	Floors     map[string]int      // rule -> minimal anchor count
	NotCovered []string
	Info       []string
	Assume     []string
	Trusted    []string
	Explain    string
	RuleText   string
	Fatal      []string // unresolved anchors, load errors, panics
	keys       map[string]int
	start      time.Time
}

func NewReport(prop, level, tier string) *Report {
	return &Report{Prop: prop, Level: level, Tier: tier, Anchors: map[string][]string{}, Floors: map[string]int{}, keys: map[string]int{}, start: time.Now()}
}

// Add records an obligation. Keys are made unique with a #n suffix in order of
// appearance within the same construct key.
func (r *Report) Add(rule, key, pos string, st Status, detail string) *Obligation {
	k := rule + "/" + key
	r.keys[k]++
	if n := r.keys[k]; n > 1 {
		k = fmt.Sprintf("%s#%d", k, n)
	}
	o := &Obligation{Rule: rule, Key: k, Pos: pos, Status: st.String(), Detail: detail, st: st}
	r.Obls = append(r.Obls, o)
	return o
}

func (r *Report) Ok(rule, key, pos, detail string) { r.Add(rule, key, pos, Discharged, detail) }
func (r *Report) Bad(rule, key, pos, detail string) {
	r.Add(rule, key, pos, Violated, detail)
}
func (r *Report) Unk(rule, key, pos, detail string) {
	r.Add(rule, key, pos, Undecided, detail)
}

// Check adds Discharged when cond holds, else Violated.
func (r *Report) Check(cond bool, rule, key, pos, okDetail, badDetail string) bool {
	if cond {
		r.Ok(rule, key, pos, okDetail)
	} else {
		r.Bad(rule, key, pos, badDetail)
	}
	return cond
}

// Anchor records that an anchor of a rule was resolved.
func (r *Report) Anchor(rule, name string) {
	r.Anchors[rule] = append(r.Anchors[rule], name)
}

// Floor sets the minimal number of anchors for a rule.
func (r *Report) Floor(rule string, n int) { r.Floors[rule] = n }

func (r *Report) Fatalf(format string, a ...any) {
	r.Fatal = append(r.Fatal, fmt.Sprintf(format, a...))
}
func (r *Report) Infof(format string, a ...any) {
	r.Info = append(r.Info, fmt.Sprintf(format, a...))
}
func (r *Report) NotCov(s string) { r.NotCovered = append(r.NotCovered, s) }

// KnownFinding is an entry of /verif/known_findings.json.
type KnownFinding struct {
	Property string `json:"property"`
	Key      string `json:"key"`    // obligation key (exact)
	What     string `json:"what"`   // human description
	Status   string `json:"status"` // "open" | "fixed"
	Commit   string `json:"commit,omitempty"`
	ID       string `json:"id,omitempty"`
}

type knownFile struct {
	Findings []KnownFinding `json:"findings"`
}

func LoadKnown(path string) ([]KnownFinding, error) {
	b, err := os.ReadFile(path)
	if err != nil {
		if os.IsNotExist(err) {
			return nil, nil
		}
		return nil, err
	}
	var k knownFile
	if err := json.Unmarshal(b, &k); err != nil {
		return nil, err
	}
	return k.Findings, nil
}

type violationOut struct {
	Property string        `json:"property"`
	Tier     string        `json:"tier"`
	Fatal    []string      `json:"fatal,omitempty"`
	Items    []*Obligation `json:"violations"`
	Replay   string        `json:"how_to_replay"`
}

// Finish writes the evidence file (and the violations file when needed),
// prints the verdict lines and returns the process exit code.
func (r *Report) Finish(evidencePath string, known []KnownFinding, cmdline string) int {
	// floors
	var rules []string
	for rule := range r.Floors {
		rules = append(rules, rule)
	}
	sort.Strings(rules)
	for _, rule := range rules {
		if got := len(r.Anchors[rule]); got < r.Floors[rule] {
			r.Fatalf("rule %s resolved %d anchors, floor is %d (a rule that matches too few sites passes vacuously): %v", rule, got, r.Floors[rule], r.Anchors[rule])
		}
	}
	openKnown := map[string]KnownFinding{}
	for _, k := range known {
		if k.Property == r.Prop && k.Status == "open" {
			openKnown[k.Key] = k
		}
	}
	var viol []*Obligation
	var knownHit []KnownFinding
	discharged := 0
	distinct := map[string]bool{}
	for _, o := range r.Obls {
		distinct[o.Key] = true
		if o.st == Discharged {
			discharged++
			continue
		}
		if k, ok := openKnown[o.Key]; ok {
			knownHit = append(knownHit, k)
			o.Status = "known-finding(" + o.st.String() + ")"
			continue
		}
		viol = append(viol, o)
	}
	nviol := len(viol) + len(r.Fatal)

	// samples: a spread of real obligations
	var samples []any
	step := len(r.Obls)/12 + 1
	for i := 0; i < len(r.Obls); i += step {
		samples = append(samples, r.Obls[i])
	}
	for _, o := range viol {
		if len(samples) < 40 {
			samples = append(samples, o)
		}
	}
	perRule := map[string][2]int{}
	for _, o := range r.Obls {
		c := perRule[o.Rule]
		c[0]++
		if o.st == Discharged {
			c[1]++
		}
		perRule[o.Rule] = c
	}
	anch := map[string]any{}
	for k, v := range r.Anchors {
		anch[k] = map[string]any{"count": len(v), "floor": r.Floors[k], "anchors": v}
	}
	cov := map[string]any{
		"explanation":         r.Explain,
		"rule":                r.RuleText,
		"evaluations":         len(r.Obls),
		"distinct_nontrivial": len(distinct),
		"obligations":         len(r.Obls),
		"discharged":          discharged + len(knownHit),
		"known_findings":      len(knownHit),
		"checker_cmd":         cmdline,
		"trusted_base":        r.Trusted,
		"samples":             samples,
		"per_rule":            perRule,
		"anchors":             anch,
		"not_covered":         r.NotCovered,
		"informational":       r.Info,
		"exhaustive":          true,
	}
	if r.Level == "proof" && nviol > 0 {
		cov["discharged"] = discharged
	}
	nn := func(x []string) []string {
		if x == nil {
			return []string{}
		}
		return x
	}
	cov["trusted_base"] = nn(r.Trusted)
	cov["not_covered"] = nn(r.NotCovered)
	cov["informational"] = nn(r.Info)
	r.Assume = nn(r.Assume)
	ev := map[string]any{
		"property_id": r.Prop,
		"tier":        r.Tier,
		"seed":        seed(),
		"level":       r.Level,
		"coverage":    cov,
		"assumptions": r.Assume,
		"wall_s":      time.Since(r.start).Seconds(),
		"violations":  nviol,
	}
	if err := writeJSON(evidencePath, ev); err != nil {
		fmt.Fprintf(os.Stderr, "cannot write evidence: %v\n", err)
		return 2
	}
	fmt.Printf("property=%s tier=%s obligations=%d discharged=%d violations=%d known=%d fatal=%d wall=%.1fs\n",
		r.Prop, r.Tier, len(r.Obls), discharged, len(viol), len(knownHit), len(r.Fatal), time.Since(r.start).Seconds())
	for _, rule := range sortedKeys(perRule) {
		c := perRule[rule]
		fmt.Printf("  rule %-12s obligations=%-4d discharged=%-4d anchors=%d\n", rule, c[0], c[1], len(r.Anchors[rule]))
	}
	for _, s := range r.NotCovered {
		fmt.Printf("  not-covered: %s\n", s)
	}
	seen := map[string]bool{}
	for _, k := range knownHit {
		if !seen[k.Key] {
			seen[k.Key] = true
			fmt.Printf("KNOWN-FINDING: property=%s %s [%s]\n", r.Prop, k.What, k.Key)
		}
	}
	vpath := strings.TrimSuffix(evidencePath, ".json") + ".violations.json"
	if nviol == 0 {
		_ = os.Remove(vpath) // a stale list from an earlier failing run must not survive a passing one
		return 0
	}
	_ = writeJSON(vpath, violationOut{Property: r.Prop, Tier: r.Tier, Fatal: r.Fatal, Items: viol,
		Replay: "static check: re-run `" + cmdline + "` on the same tree; each item names file:line, rule and construct"})
	for _, f := range r.Fatal {
		fmt.Printf("  FATAL: %s\n", f)
	}
	for _, o := range viol {
		fmt.Printf("  %s %s at %s: %s\n", o.Status, o.Key, o.Pos, o.Detail)
	}
	fmt.Printf("VIOLATION property=%s replay=%s\n", r.Prop, vpath)
	return 1
}

func sortedKeys[V any](m map[string]V) []string {
	var ks []string
	for k := range m {
		ks = append(ks, k)
	}
	sort.Strings(ks)
	return ks
}

func seed() int {
	var s int
	fmt.Sscanf(os.Getenv("VERIF_SEED"), "%d", &s)
	return s
}

func writeJSON(path string, v any) error {
	if err := os.MkdirAll(filepath.Dir(path), 0o755); err != nil {
		return err
	}
	b, err := json.MarshalIndent(v, "", " ")
	if err != nil {
		return err
	}
	return os.WriteFile(path, append(b, '\n'), 0o644)
}
