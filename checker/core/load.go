// Package core: loading /repo as a typed SSA program, obligations, evidence.
package core

import (
	"fmt"
	"go/token"
	"go/types"
	"os"
	"sort"
	"strings"

	"golang.org/x/tools/go/callgraph"
	"golang.org/x/tools/go/callgraph/cha"
	"golang.org/x/tools/go/callgraph/vta"
	"golang.org/x/tools/go/packages"
	"golang.org/x/tools/go/ssa"
	"golang.org/x/tools/go/ssa/ssautil"
)

// Prog is the resolved program every check works on.
type Prog struct {
	Dir   string
	Fset  *token.FileSet
	Pkg   *packages.Package
	SSA   *ssa.Program
	SPkg  *ssa.Package
	Types *types.Package
	cg    *callgraph.Graph
	// all functions (incl. methods, anonymous) defined in the package, sorted.
	Funcs []*ssa.Function
}

// Load type-checks and SSA-builds the package in dir (non-test files).
// goarch "" = host.
func Load(dir string, goarch string, overlay map[string][]byte) (*Prog, error) {
	env := append(os.Environ(),
		"GOFLAGS=-mod=mod", "GOPROXY=off", "GOSUMDB=off", "GOTOOLCHAIN=local", "GOWORK=off")
	if goarch != "" {
		env = append(env, "GOARCH="+goarch)
	}
	cfg := &packages.Config{
		Mode:    packages.LoadAllSyntax,
		Dir:     dir,
		Env:     env,
		Tests:   false,
		Overlay: overlay,
	}
	pkgs, err := packages.Load(cfg, ".")
	if err != nil {
		return nil, fmt.Errorf("packages.Load: %w", err)
	}
	if len(pkgs) != 1 {
		return nil, fmt.Errorf("expected exactly 1 package in %s, got %d", dir, len(pkgs))
	}
	var errs []string
	packages.Visit(pkgs, nil, func(p *packages.Package) {
		for _, e := range p.Errors {
			errs = append(errs, e.Error())
		}
	})
	if len(errs) > 0 {
		return nil, fmt.Errorf("type/load errors: %s", strings.Join(errs, "; "))
	}
	prog, spkgs := ssautil.AllPackages(pkgs, ssa.InstantiateGenerics|ssa.SanityCheckFunctions)
	prog.Build()
	if spkgs[0] == nil {
		return nil, fmt.Errorf("no SSA package")
	}
	p := &Prog{Dir: dir, Fset: pkgs[0].Fset, Pkg: pkgs[0], SSA: prog, SPkg: spkgs[0], Types: pkgs[0].Types}
	for fn := range ssautil.AllFunctions(prog) {
		if fn.Pkg == p.SPkg || (fn.Parent() != nil && rootParent(fn).Pkg == p.SPkg) {
			if fn.Synthetic != "" && fn.Parent() == nil && !strings.HasPrefix(fn.Name(), "init") {
				continue // wrappers, thunks, bound methods
			}
			p.Funcs = append(p.Funcs, fn)
		}
	}
	sort.Slice(p.Funcs, func(i, j int) bool { return p.Funcs[i].String() < p.Funcs[j].String() })
	return p, nil
}

func rootParent(fn *ssa.Function) *ssa.Function {
	for fn.Parent() != nil {
		fn = fn.Parent()
	}
	return fn
}

// CallGraph returns the VTA call graph (built lazily).
func (p *Prog) CallGraph() *callgraph.Graph {
	if p.cg == nil {
		all := ssautil.AllFunctions(p.SSA)
		p.cg = vta.CallGraph(all, cha.CallGraph(p.SSA))
	}
	return p.cg
}

// Named returns the named type T of the package, or nil.
func (p *Prog) Named(name string) *types.Named {
	o := p.Types.Scope().Lookup(name)
	if o == nil {
		return nil
	}
	tn, ok := o.(*types.TypeName)
	if !ok {
		return nil
	}
	n, _ := tn.Type().(*types.Named)
	return n
}

// Func resolves a package-level function ("Unmarshal") or a method
// ("*SenderReport.Unmarshal", "Header.Marshal"). It returns the function with
// the declared receiver; nil if it does not exist.
func (p *Prog) Func(spec string) *ssa.Function {
	if i := strings.LastIndex(spec, "."); i >= 0 {
		recv, name := spec[:i], spec[i+1:]
		ptr := strings.HasPrefix(recv, "*")
		recv = strings.TrimPrefix(recv, "*")
		n := p.Named(recv)
		if n == nil {
			return nil
		}
		var t types.Type = n
		if ptr {
			t = types.NewPointer(n)
		}
		sel := p.SSA.MethodSets.MethodSet(t).Lookup(p.Types, name)
		if sel == nil {
			return nil
		}
		fn := p.SSA.MethodValue(sel)
		if fn == nil {
			return nil
		}
		// require that the declared receiver matches (no synthetic wrapper)
		if fn.Synthetic != "" {
			return nil
		}
		return fn
	}
	return p.SPkg.Func(spec)
}

// Method finds method name on named type T regardless of whether it is declared
// on T or *T. It returns the declared function and whether the receiver is a pointer.
func (p *Prog) Method(typ, name string) (*ssa.Function, bool) {
	if f := p.Func(typ + "." + name); f != nil {
		return f, false
	}
	if f := p.Func("*" + typ + "." + name); f != nil {
		return f, true
	}
	return nil, false
}

// Pos renders a position relative to the repo dir.
func (p *Prog) Pos(pos token.Pos) string {
	if !pos.IsValid() {
		return "-"
	}
	pp := p.Fset.Position(pos)
	f := strings.TrimPrefix(pp.Filename, p.Dir+"/")
	return fmt.Sprintf("%s:%d", f, pp.Line)
}

// FuncName gives a stable, readable function key: "(*T).M", "T.M", "f", "f$1".
func FuncName(fn *ssa.Function) string {
	if fn == nil {
		return "<nil>"
	}
	s := fn.String()
	s = strings.ReplaceAll(s, "github.com/pion/rtcp.", "")
	return s
}

// InstrPos finds the best position for an instruction (falls back to operands / block neighbours).
func InstrPos(in ssa.Instruction) token.Pos {
	if in.Pos().IsValid() {
		return in.Pos()
	}
	if v, ok := in.(ssa.Value); ok {
		_ = v
	}
	var ops []*ssa.Value
	for _, op := range in.Operands(ops) {
		if *op != nil && (*op).Pos().IsValid() {
			return (*op).Pos()
		}
	}
	b := in.Block()
	if b != nil {
		for _, i2 := range b.Instrs {
			if i2.Pos().IsValid() {
				return i2.Pos()
			}
		}
		if b.Parent() != nil {
			return b.Parent().Pos()
		}
	}
	return token.NoPos
}

// PacketTypes is the list of the 16 concrete Packet implementations of the
// property statements (name of the named type). Resolved against the program
// in ResolvePacketTypes; a missing one is an unresolved anchor.
var PacketTypes = []string{
	"SenderReport", "ReceiverReport", "SourceDescription", "Goodbye", "ApplicationDefined",
	"TransportLayerNack", "RapidResynchronizationRequest", "TransportLayerCC", "CCFeedbackReport",
	"PictureLossIndication", "SliceLossIndication", "FullIntraRequest", "ReceiverEstimatedMaximumBitrate",
	"ExtendedReport", "RawPacket", "CompoundPacket",
}

// ImplementsPacket reports the named types of the package whose pointer type implements Packet.
func (p *Prog) ImplementsPacket() []string {
	var out []string
	pk := p.Named("Packet")
	if pk == nil {
		return nil
	}
	iface, ok := pk.Underlying().(*types.Interface)
	if !ok {
		return nil
	}
	sc := p.Types.Scope()
	for _, nm := range sc.Names() {
		tn, ok := sc.Lookup(nm).(*types.TypeName)
		if !ok || tn.IsAlias() {
			continue
		}
		n, ok := tn.Type().(*types.Named)
		if !ok || types.IsInterface(n) {
			continue
		}
		if types.Implements(types.NewPointer(n), iface) {
			out = append(out, nm)
		}
	}
	sort.Strings(out)
	return out
}
