package props

import (
	"fmt"
	"go/constant"
	"go/token"
	"go/types"
	"os"
	"sort"
	"strings"
	"sync"

	"golang.org/x/tools/go/ssa"

	"rtcpverif/core"
	"rtcpverif/effects"
	"rtcpverif/num"
	"rtcpverif/sum"
)

func init() { register("C08", "other", checkC08) }

// c08SignedWire: conversions that deliberately reinterpret a signed value as an
// unsigned wire unit of the same width (two's complement on the wire). The
// required range is the SIGNED range of that width. One entry per function,
// confirmed by reading the decoder.
var c08SignedWire = map[string]struct {
	bits   int
	reason string
}{
	"(RecvDelta).Marshal": {16, "large TWCC receive delta is a two's-complement int16 on the wire ((*RecvDelta).Unmarshal reads int16(binary.BigEndian.Uint16(..)))"},
}

// c08Triaged: wrap-capable uint16 index arithmetic that the engine cannot decide and that was
// confirmed by reading the code. Keyed by "root function|function containing the operation" (not by
// instruction ordinals, so that edits elsewhere in these functions do not invalidate the entry); applies
// only to conversions and arithmetic, never to masks. An entry that matches no site is reported as unused (information only: it discharges nothing).
var c08Triaged = map[string]string{
	"(StatusVectorChunk).Marshal|(StatusVectorChunk).Marshal": "symbol index arithmetic uint16(i), numOfBits*uint16(i)+2: numOfBits (lookup in the constant map of numOfBitsOfSymbolSize) is 1, 2 or - for a SymbolSize outside the table, itself reported as finding F15 - 0. For 1 or 2 the index grows every iteration and setNBitsOfUint16 fails once index+numOfBits > 16, aborting the loop: i <= 14, nothing wraps. For 0 the product is 0 whatever uint16(i) is",
	"(StatusVectorChunk).Marshal|setNBitsOfUint16":            "startIndex+size, (1<<size)-1, 16-size-startIndex inside the helper when called from the symbol loop: startIndex <= 2*14+2 and size <= 2 there (see the entry above), and the subtraction is guarded by startIndex+size <= 16 just above it",
}

type c08Site struct {
	key     string
	in      ssa.Instruction
	desc    string
	pos     token.Pos
	roots   []string
	seen    int
	bad     int
	how     []string // how it was discharged, per root
	fail    []string
	notCov  string
	assumed bool
	// triageKey: "root|function" for conversions/arithmetic (empty for masks)
	triageKey string
}

type c08RootSpec struct {
	name   string
	fn     *ssa.Function
	packet *c05Type // nil for helper encoders
}

func checkC08(c *Ctx) {
	r := c.Rep
	p := c.Prog
	r.Explain = "The numeric abstract interpreter evaluates every Marshal method of the package — the 15 packet types and, as roots of their own with an unconstrained receiver, every helper encoder (ReceptionReport, SDES chunk/item, TWCC chunks and deltas, CCFB blocks, Header) — on all field values and list lengths. Inside a packet-level root the (effect-free) helper encoders are opaque: their result and error are unconstrained, so the packet-level rules only rely on how the error is handled. C08-NARROW: every fixed-width operation that can lose information — a conversion to a narrower integer type, fixed-width arithmetic that can wrap, a low-bit mask x&(2^k-1) — is an obligation per calling context (call-site sensitive call string): the operand must be entailed to fit at the operation, or be a byte extraction whose dropped bits are emitted by a sibling conversion of the same value (x>>8k family), or its pre-operation value (kept in a ghost that is re-assigned at every execution and starts at 0) must be entailed to fit at every return of the root whose error is nil. C08-ERR: in every function of the universe, at every return whose own error result is nil, the error result of every call made by that function is entailed to be nil (no dropped error); error results read as 'nil if the call has not executed yet'. Together: a nil error from a packet's Marshal implies a nil error from every helper it called, and a nil error from any encoder implies that none of its narrowing operations lost information."
	r.RuleText = "C08-NARROW (per instruction and call string), C08-ERR (per call returning an error), C08-LIMIT (a value exactly at a wire limit is not rejected on every path), C08-CLASS (RecvDelta.Marshal returns exactly the wire size of its Type class at every nil-error return, and no nil error for a Type without a wire form), C08-ROOT anchors. Undecided = failure. Frozen tables: signed wire units (c08SignedWire), index arithmetic confirmed by reading (c08Triaged: 2 entries keyed by root and function, an unused entry is reported as information)."
	r.Trusted = []string{"go/ssa, VTA call graph", "numeric engine checker/num (exact fixed-width semantics with wrap atoms)", "effects analysis (purity of the opaque helper encoders, determinism of the size functions)", "models of encoding/binary, copy, append, math"}
	r.Assume = []string{
		fmt.Sprintf("size domain: the encoding fits one datagram (MarshalSize(), wireSize() <= %d bytes) and the arithmetic of the size computations (functions reachable from a MarshalSize method) does not wrap; a wrapped size makes the copies into the buffer panic, which is not a silent success", c05MaxBytes),
		"receivers and list elements are non-nil",
	}
	r.NotCov("values derived from floating-point arithmetic (REMB mantissa/exponent packing): the integer engine does not model floats; such sites are listed as not covered, not as discharged")
	r.NotCov("bit-field overlap of OR-ed operands (a 5-bit count OR-ed next to the padding bit) is a bit-provenance question (C16), not a narrowing operation")
	r.NotCov("acceptance at the limits is decided only as 'not rejected on every path' for the limits of c08LimitTable (C08-LIMIT); that such a value is encoded correctly is C03/C05")

	ts := c05Types(c)
	var mu sync.Mutex
	cg := p.CallGraph()
	an := effects.New(p.SPkg, p.Funcs, cg, nil)
	// size universe
	sizeFns := map[*ssa.Function]bool{}
	var work []*ssa.Function
	isMS := map[*ssa.Function]bool{}
	packetMarshal := map[*ssa.Function]bool{}
	for i := range ts {
		t := &ts[i]
		if t.marshal == nil {
			r.Fatalf("unresolved anchor: %s.Marshal", t.name)
			return
		}
		packetMarshal[t.marshal] = true
		if t.marshalSize != nil {
			work = append(work, t.marshalSize)
			isMS[t.marshalSize] = true
		}
	}
	wsFn := p.Func("wireSize")
	if wsFn == nil {
		r.Fatalf("unresolved anchor: wireSize")
		return
	}
	work = append(work, wsFn)
	for len(work) > 0 {
		f := work[len(work)-1]
		work = work[:len(work)-1]
		if sizeFns[f] || f.Pkg != p.SPkg {
			continue
		}
		sizeFns[f] = true
		if n := cg.Nodes[f]; n != nil {
			for _, e := range n.Out {
				work = append(work, e.Callee.Func)
			}
		}
	}
	// roots
	var roots []c08RootSpec
	opaque := map[*ssa.Function]bool{}
	for i := range ts {
		t := &ts[i]
		if t.name == "CompoundPacket" {
			continue // folds the members' Marshal (C05-CAT); Validate has no narrowing
		}
		roots = append(roots, c08RootSpec{t.name + ".Marshal", t.marshal, t})
	}
	if os.Getenv("C05_ONLY") == "" {
		for _, fn := range p.Funcs {
			if (fn.Name() != "Marshal" && fn.Name() != "marshal") || fn.Signature.Recv() == nil || fn.Synthetic != "" || packetMarshal[fn] {
				continue
			}
			roots = append(roots, c08RootSpec{core.FuncName(fn), fn, nil})
			s := an.Sum[fn]
			pure := s != nil && len(s.Undecided) == 0
			for k := 0; pure && k < s.NRoots; k++ {
				if s.WritesThrough(k) {
					pure = false
				}
			}
			if pure && core.FuncName(fn) != "(Header).Marshal" {
				opaque[fn] = true
			}
		}
	}
	sort.Slice(roots, func(i, j int) bool { return roots[i].name < roots[j].name })

	sites := map[string]*c08Site{}
	errObls := map[string]*num.Obl{}
	var errOrder []string

	parallelFor(len(roots), func(i int) {
		res := c08Root(c, an, roots[i], sizeFns, isMS, wsFn, opaque)
		mu.Lock()
		defer mu.Unlock()
		if res.fatal != "" {
			r.Fatalf("%s", res.fatal)
			return
		}
		r.Anchor("C08-ROOT", roots[i].name)
		for _, s := range res.sites {
			o := sites[s.key]
			if o == nil {
				sites[s.key] = s
				continue
			}
			o.seen += s.seen
			o.bad += s.bad
			o.how = append(o.how, s.how...)
			o.fail = append(o.fail, s.fail...)
		}
		for _, o := range res.errs {
			if x := errObls[o.Key]; x != nil {
				x.Seen += o.Seen
				x.Failed += o.Failed
				if x.FailCtx == "" {
					x.FailCtx = o.FailCtx
				}
			} else {
				cp := *o
				errObls[o.Key] = &cp
				errOrder = append(errOrder, o.Key)
			}
		}
	})
	if os.Getenv("C05_ONLY") == "" {
		r.Floor("C08-ROOT", 22)
	}
	var keys []string
	for k := range sites {
		keys = append(keys, k)
	}
	sort.Strings(keys)
	nAssumed := 0
	usedTriage := map[string]bool{}
	for _, k := range keys {
		s := sites[k]
		pos := p.Pos(s.pos)
		switch {
		case s.assumed:
			nAssumed++
		case s.notCov != "":
			r.NotCov(fmt.Sprintf("%s at %s: %s", s.key, pos, s.notCov))
		case len(s.fail) > 0:
			if why, ok := c08Triaged[s.triageKey]; ok && s.triageKey != "" {
				usedTriage[s.triageKey] = true
				r.Ok("C08-NARROW", s.key, pos, fmt.Sprintf("%s: confirmed by reading (frozen table): %s", s.desc, why))
				continue
			}
			sort.Strings(s.fail)
			r.Unk("C08-NARROW", s.key, pos, fmt.Sprintf("%s may lose information on a success path: %s", s.desc, s.fail[0]))
		default:
			sort.Strings(s.how)
			r.Ok("C08-NARROW", s.key, pos, fmt.Sprintf("%s: %s (evaluated %d time(s))", s.desc, s.how[0], s.seen))
		}
	}
	if os.Getenv("C05_ONLY") == "" {
		var stale []string
		for k := range c08Triaged {
			if !usedTriage[k] {
				stale = append(stale, k)
			}
		}
		sort.Strings(stale)
		for _, k := range stale {
			r.Infof("triage table entry %q matches no undecided narrowing site on this tree (unused: the engine decides these sites itself or the code changed)", k)
		}
	}
	r.Infof("%d narrowing sites lie in the size computations (MarshalSize universe) and are covered by the size-domain assumption", nAssumed)
	c08Limits(c, sizeFns, isMS, wsFn)
	c08DeltaClasses(c, an)
	sort.Strings(errOrder)
	for _, k := range errOrder {
		o := errObls[k]
		key := strings.TrimPrefix(o.Key, "E-ERR/")
		if o.Failed == 0 {
			r.Ok("C08-ERR", key, p.Pos(o.Pos), fmt.Sprintf("nil at every success return of the caller (%d context(s))", o.Seen))
		} else {
			r.Unk("C08-ERR", key, p.Pos(o.Pos), fmt.Sprintf("in %d of %d context(s): %s", o.Failed, o.Seen, o.FailCtx))
		}
	}
}

type c08RootRes struct {
	sites []*c08Site
	errs  []*num.Obl
	fatal string
}

type extractRec struct {
	frame string
	expr  string
	shift int64
	width int64
}

func c08Engine(c *Ctx, an *effects.Analysis, root c08RootSpec, sizeFns, isMS map[*ssa.Function]bool, wsFn *ssa.Function, opaque map[*ssa.Function]bool) *num.Engine {
	e := newNumEngine(c, nil)
	e.WrapLCong = true
	e.ErrDiscipline = true
	e.AssumeAfterCheck = true
	e.AssumeNoWrap = sizeFns
	e.Opaque = map[*ssa.Function]bool{}
	for f := range opaque {
		if f != root.fn {
			e.Opaque[f] = true
		}
	}
	// determinism of the size functions on the unmodified receiver (C05-DET)
	tie := map[*ssa.Function]num.Atom{}
	recvObjs := map[string]bool{}
	det := false
	var recv ssa.Value
	if root.packet != nil {
		ok, _, allocs := c05Det(c.Prog, an, *root.packet)
		det = ok
		for _, a := range allocs {
			recvObjs[e.AllocObject(a)] = true
		}
		recv = root.fn.Params[0]
	}
	isRecv := func(st *num.State, v ssa.Value) bool {
		if v == recv {
			return true
		}
		if u, ok := v.(*ssa.UnOp); ok && u.Op == token.MUL {
			ad, ok := e.AddrOfValue(st, u.X)
			return ok && recvObjs[ad.Obj] && ad.Path == ""
		}
		if _, ok := v.Type().Underlying().(*types.Pointer); ok {
			ad, ok := e.AddrOfValue(st, v)
			return ok && recvObjs[ad.Obj] && ad.Path == ""
		}
		return false
	}
	e.PostCallHook = func(e *num.Engine, st *num.State, in *ssa.Call, f *ssa.Function) {
		args := in.Common().Args
		if isMS[f] || f == wsFn {
			v := e.ExprOf(st, in)
			st.Assume(v)
			st.Assume(v.Neg().AddConst(c05MaxBytes))
			if f == wsFn && len(args) == 1 {
				if os.Getenv("C08_DEBUG") != "" {
					fmt.Fprintf(os.Stderr, "WS hook in %s arg=%T actual=%T ctx=%s\n", in.Parent().Name(), args[0], e.ActualOf(args[0]), e.CallString())
				}
				// type-shape lower bound (C05-XR): the fixed part of the argument's static type
				if mi, ok := e.ActualOf(args[0]).(*ssa.MakeInterface); ok {
					wf := wireFormOf(mi.X.Type(), "", 0)
					interfaceOnly := true
					for _, pr := range wf.probs {
						if !strings.Contains(pr, "interface-typed member") {
							interfaceOnly = false
						}
					}
					if interfaceOnly {
						st.Assume(v.AddConst(-int64(wf.c)))
					}
				}
			}
		}
		if det && sizeFns[f] && len(args) == 1 && f.Signature.Recv() != nil && isInt64ish(f) && isRecv(st, args[0]) {
			g, ok := tie[f]
			if !ok {
				g = e.NewGhostUnbounded("val(" + core.FuncName(f) + ")")
				tie[f] = g
			}
			st.AssumeEq(e.ExprOf(st, in).Sub(num.Var(g)))
		}
	}
	return e
}

func isInt64ish(f *ssa.Function) bool {
	res := f.Signature.Results()
	if res.Len() != 1 {
		return false
	}
	b, ok := res.At(0).Type().Underlying().(*types.Basic)
	return ok && b.Info()&types.IsInteger != 0
}

func c08Root(c *Ctx, an *effects.Analysis, root c08RootSpec, sizeFns, isMS map[*ssa.Function]bool, wsFn *ssa.Function, opaque map[*ssa.Function]bool) *c08RootRes {
	p := c.Prog
	res := &c08RootRes{}
	e := c08Engine(c, an, root, sizeFns, isMS, wsFn, opaque)
	extr := map[string]extractRec{}
	signedOK := map[string]bool{}
	e.ConvertHook = func(e *num.Engine, st *num.State, x *ssa.Convert) {
		tr := num.TypeRangeOf(x.Type())
		if !tr.HasHi {
			return
		}
		width := int64(0)
		for w := tr.Hi - tr.Lo + 1; w > 1; w >>= 1 {
			width++
		}
		base, shift := stripShift(x.X)
		ex := e.ExprOf(st, base)
		k := e.NarrowKeyOf(x)
		if !ex.Bad {
			extr[k] = extractRec{frame: e.CallString(), expr: e.LinString(st.Subst(ex)), shift: shift, width: width}
		}
		// the conversion that emits the top bits of the signed wire unit: the whole unit at once, or the
		// highest extraction (value >> shift) of a byte-extraction family covering exactly its width
		if sw, ok := c08SignedWire[core.FuncName(x.Parent())]; ok && int64(sw.bits) == shift+width && isSignedInt(base.Type()) && !isSignedInt(x.Type()) {
			v := ex
			lim := int64(1) << (sw.bits - 1)
			okr := !v.Bad && st.Entails(v.AddConst(lim)) && st.Entails(v.Neg().AddConst(lim-1))
			if prev, seen := signedOK[k]; seen {
				okr = okr && prev
			}
			signedOK[k] = okr
		}
	}
	if msg := guarded(func() { e.AnalyzeRoot(root.fn, num.RootOptions{ElemsNonNil: true}) }); msg != "" {
		res.fatal = fmt.Sprintf("analysis panic in %s: %s", root.name, msg)
		return res
	}
	if e.Exceeded {
		res.fatal = fmt.Sprintf("step budget exceeded in %s", root.name)
		return res
	}
	for _, o := range e.SortedObls() {
		if o.Rule == "E-ERR" {
			res.errs = append(res.errs, o)
		}
	}
	var recs []*num.NarrowRec
	for _, rec := range e.NarrowCtx {
		recs = append(recs, rec)
	}
	sort.Slice(recs, func(i, j int) bool { return recs[i].Key < recs[j].Key })
	var deferred []*num.NarrowRec
	siteOf := map[string]*c08Site{}
	for _, rec := range recs {
		s := &c08Site{key: rec.Key, in: rec.In, desc: describeNarrow(rec.In), pos: posOfInstr(rec.In), seen: rec.Seen, bad: rec.Bad}
		// masks get a semantic key (struct type that declares the field, field, width): robust against edits
		// that shift instruction ordinals or move the masking into a helper, so that known findings keep matching
		if rec.Mask != 0 {
			if owner, origin := maskOrigin(rec); origin != "" {
				w := "variable-width"
				if rec.Mask > 0 {
					n := 0
					for m := rec.Mask; m > 0; m >>= 1 {
						n++
					}
					w = fmt.Sprintf("%d-bits", n)
				}
				s.key = fmt.Sprintf("%s.%s/mask-cuts-to-%s", owner, origin, w)
				s.desc += " (operand: " + origin + ")"
			}
		}
		if rec.Mask == 0 {
			s.triageKey = core.FuncName(root.fn) + "|" + core.FuncName(rec.In.Parent())
		}
		siteOf[rec.Key] = s
		res.sites = append(res.sites, s)
		switch {
		case sizeFns[rec.In.Parent()]:
			s.assumed = true
		case rec.Bad == 0:
			s.how = append(s.how, "operand entailed to fit at the operation")
		default:
			if ok, seen := signedOK[rec.Key]; seen {
				sw := c08SignedWire[core.FuncName(rec.In.Parent())]
				if ok {
					s.how = append(s.how, fmt.Sprintf("signed wire unit: operand entailed within the int%d range (%s)", sw.bits, sw.reason))
				} else {
					s.fail = append(s.fail, fmt.Sprintf("signed wire unit: operand not entailed within the int%d range", sw.bits))
				}
				continue
			}
			if x, ok := extr[rec.Key]; ok {
				covered := false
				for k2, y := range extr {
					if k2 != rec.Key && y.frame == x.frame && y.expr == x.expr && y.shift == x.shift+x.width {
						covered = true
					}
				}
				if covered {
					s.how = append(s.how, fmt.Sprintf("byte extraction: the bits dropped here are emitted by the sibling conversion of (value >> %d)", x.shift+x.width))
					continue
				}
			}
			if why := floatSourced(rec.In); why != "" {
				s.notCov = why
				continue
			}
			if rec.Mask < 0 {
				s.fail = append(s.fail, "mask of non-constant width: neither operand is entailed to be below the other, the value may be cut")
				continue
			}
			deferred = append(deferred, rec)
		}
	}
	if len(deferred) == 0 {
		return res
	}
	// phase 2: pre-operation values in ghosts, checked at the success returns
	e2 := c08Engine(c, an, root, sizeFns, isMS, wsFn, opaque)
	e2.ErrDiscipline = false
	e2.Defer = map[string]num.Atom{}
	var ghosts []num.Atom
	for _, rec := range deferred {
		g := e2.NewGhostUnbounded("pre(" + rec.Key + ")")
		e2.Defer[rec.Key] = g
		ghosts = append(ghosts, g)
	}
	e2.RootInit = func(st *num.State) {
		for _, g := range ghosts {
			st.Bind(g, num.Const(0))
		}
	}
	var rets []num.RootReturn
	if msg := guarded(func() { rets = e2.AnalyzeRoot(root.fn, num.RootOptions{ElemsNonNil: true}) }); msg != "" {
		res.fatal = fmt.Sprintf("analysis panic in %s (phase 2): %s", root.name, msg)
		return res
	}
	for i, rec := range deferred {
		s := siteOf[rec.Key]
		lo, hi := narrowRange(rec)
		n, okc := 0, 0
		var det string
		for _, rr := range rets {
			nres := len(rr.Ret.Results)
			if nres == 0 || e2.IsNonNilResult(rr.St, rr.Ret.Results[nres-1]) {
				continue
			}
			n++
			g := num.Var(ghosts[i])
			if rr.St.Entails(g.AddConst(-lo)) && rr.St.Entails(g.Neg().AddConst(hi)) {
				okc++
			} else if det == "" {
				b := rr.St.Bounds(g)
				det = fmt.Sprintf("at the return at %s the operand is only known to lie in %s, needs [%d,%d]", p.Pos(rr.Ret.Pos()), rangeStr(b), lo, hi)
			}
		}
		if n > 0 && okc == n {
			s.how = append(s.how, fmt.Sprintf("not known to fit at the operation, but its operand is entailed within [%d,%d] at all %d success return(s) of %s (a later guard rejects the rest)", lo, hi, n, root.name))
		} else {
			if det == "" {
				det = "no success return"
			}
			s.fail = append(s.fail, fmt.Sprintf("in %s: %s", root.name, det))
		}
	}
	return res
}

func rangeStr(b num.Range) string {
	lo, hi := "-inf", "+inf"
	if b.HasLo {
		lo = fmt.Sprint(b.Lo)
	}
	if b.HasHi {
		hi = fmt.Sprint(b.Hi)
	}
	return "[" + lo + "," + hi + "]"
}

func isSignedInt(t types.Type) bool {
	b, ok := t.Underlying().(*types.Basic)
	return ok && b.Info()&types.IsInteger != 0 && b.Info()&types.IsUnsigned == 0
}

// stripShift: v = base >> s (constant s), looking through integer conversions of the base.
func stripShift(v ssa.Value) (ssa.Value, int64) {
	if b, ok := v.(*ssa.BinOp); ok && b.Op == token.SHR {
		if c, ok := b.Y.(*ssa.Const); ok && c.Value != nil && c.Value.Kind() == constant.Int {
			if s, ok := constant.Int64Val(c.Value); ok {
				return b.X, s
			}
		}
	}
	return v, 0
}

func posOfInstr(in ssa.Instruction) token.Pos {
	if in.Pos().IsValid() {
		return in.Pos()
	}
	if v, ok := in.(ssa.Value); ok {
		var ops []*ssa.Value
		for _, op := range in.Operands(ops) {
			if *op != nil && (*op).Pos().IsValid() {
				return (*op).Pos()
			}
		}
		_ = v
	}
	return in.Parent().Pos()
}

func describeNarrow(in ssa.Instruction) string {
	switch x := in.(type) {
	case *ssa.Convert:
		return fmt.Sprintf("conversion %s <- %s", x.Type(), x.X.Type())
	case *ssa.BinOp:
		if x.Op == token.AND {
			return fmt.Sprintf("mask %s", x.String())
		}
		return fmt.Sprintf("%s arithmetic %s", x.Type(), x.String())
	case *ssa.UnOp:
		return fmt.Sprintf("%s arithmetic %s", x.Type(), x.String())
	}
	return in.String()
}

// narrowRange: the range the pre-operation value must lie in.
func narrowRange(rec *num.NarrowRec) (int64, int64) {
	if rec.Mask > 0 {
		return 0, rec.Mask
	}
	v := rec.In.(ssa.Value)
	tr := num.TypeRangeOf(v.Type())
	return tr.Lo, tr.Hi
}

// floatSourced: the operand derives (through shifts, masks, conversions) from a float conversion.
func floatSourced(in ssa.Instruction) string {
	var ops []*ssa.Value
	seen := map[ssa.Value]bool{}
	var walk func(v ssa.Value, d int) bool
	walk = func(v ssa.Value, d int) bool {
		if v == nil || seen[v] || d > 8 {
			return false
		}
		seen[v] = true
		switch x := v.(type) {
		case *ssa.Convert:
			if b, ok := x.X.Type().Underlying().(*types.Basic); ok && b.Info()&types.IsFloat != 0 {
				return true
			}
			return walk(x.X, d+1)
		case *ssa.BinOp:
			return walk(x.X, d+1) || walk(x.Y, d+1)
		case *ssa.Phi:
			for _, e := range x.Edges {
				if walk(e, d+1) {
					return true
				}
			}
		}
		return false
	}
	for _, op := range in.Operands(ops) {
		if walk(*op, 0) {
			return "operand derives from a floating-point value (not modelled by the integer engine)"
		}
	}
	return ""
}

// maskOrigin names the value a mask is applied to: the struct field (or list element) it was loaded
// from, looking through conversions, shifts and - for helpers - the immediate call site's argument.
func maskOrigin(rec *num.NarrowRec) (owner, origin string) {
	b, ok := rec.In.(*ssa.BinOp)
	if !ok {
		return "", ""
	}
	call := rec.Call
	ownerType := "" // the named struct type that declares the field (stable when code moves between functions)
	var trace func(v ssa.Value, depth int) (string, *ssa.Function)
	trace = func(v ssa.Value, depth int) (string, *ssa.Function) {
		if depth > 10 || v == nil {
			return "", nil
		}
		switch x := v.(type) {
		case *ssa.Const:
			return "", nil
		case *ssa.Parameter:
			if call == nil || x.Parent() != rec.In.Parent() {
				return "", nil
			}
			for i, p := range x.Parent().Params {
				if p == x {
					args := call.Common().Args
					if call.Common().IsInvoke() {
						if i == 0 {
							return "", nil
						}
						i--
					}
					if i < len(args) {
						c := call
						call = nil
						defer func() { call = c }()
						return trace(args[i], depth+1)
					}
				}
			}
		case *ssa.UnOp:
			if x.Op == token.MUL {
				switch a := x.X.(type) {
				case *ssa.FieldAddr:
					if st, ok := a.X.Type().Underlying().(*types.Pointer).Elem().Underlying().(*types.Struct); ok {
						ownerType = namedOf(a.X.Type())
						return st.Field(a.Field).Name(), x.Parent()
					}
				case *ssa.IndexAddr:
					n, f := trace(a.X, depth+1)
					if n != "" {
						return n + "[]", f
					}
				}
				return "", nil
			}
			return trace(x.X, depth+1)
		case *ssa.Field:
			if st, ok := x.X.Type().Underlying().(*types.Struct); ok {
				ownerType = namedOf(x.X.Type())
				return st.Field(x.Field).Name(), x.Parent()
			}
		case *ssa.Convert:
			return trace(x.X, depth+1)
		case *ssa.ChangeType:
			return trace(x.X, depth+1)
		case *ssa.BinOp:
			if n, f := trace(x.X, depth+1); n != "" {
				return n, f
			}
			return trace(x.Y, depth+1)
		case *ssa.Phi:
			for _, e := range x.Edges {
				if n, f := trace(e, depth+1); n != "" {
					return n, f
				}
			}
		}
		return "", nil
	}
	for _, o := range []ssa.Value{b.X, b.Y} {
		ownerType = ""
		if n, f := trace(o, 0); n != "" && f != nil {
			if ownerType != "" && !strings.Contains(ownerType, " ") {
				return ownerType, n
			}
			return core.FuncName(f), n
		}
	}
	return "", ""
}

// c08LimitTable: the wire limits of the property statement. For each, the encoder is analysed with the
// field fixed to the limit value; if every return then carries a provably non-nil error the limit value
// is rejected (over-rejection).
var c08LimitTable = []struct {
	root  string // function spec
	field string
	kind  string // "len" | "val"
	limit int64
	what  string
}{
	{"SenderReport.Marshal", "Reports", "len", 31, "31 reception reports"},
	{"ReceiverReport.Marshal", "Reports", "len", 31, "31 reception reports"},
	{"SourceDescription.Marshal", "Chunks", "len", 31, "31 SDES chunks"},
	{"Goodbye.Marshal", "Sources", "len", 31, "31 sources"},
	{"Goodbye.Marshal", "Reason", "len", 255, "a 255-octet reason"},
	{"SourceDescriptionItem.Marshal", "Text", "len", 255, "a 255-octet SDES text"},
	{"ReceptionReport.Marshal", "TotalLost", "val", 1<<24 - 1, "cumulative lost 2^24-1"},
	{"ReceiverEstimatedMaximumBitrate.Marshal", "SSRCs", "len", 255, "255 REMB SSRCs"},
	{"CCFeedbackReportBlock.marshal", "MetricBlocks", "len", 16384, "16384 metric blocks"},
	{"ApplicationDefined.Marshal", "Name", "len", 4, "a 4-octet APP name"},
	{"Header.Marshal", "Count", "val", 31, "header count 31"},
	{"ApplicationDefined.Marshal", "SubType", "val", 31, "APP subtype 31"},
}

func c08Limits(c *Ctx, sizeFns, isMS map[*ssa.Function]bool, wsFn *ssa.Function) {
	r := c.Rep
	p := c.Prog
	if os.Getenv("C05_ONLY") != "" {
		return
	}
	type res struct {
		ok         bool
		nret, nerr int
		fatal      string
	}
	out := make([]res, len(c08LimitTable))
	parallelFor(len(c08LimitTable), func(i int) {
		lt := c08LimitTable[i]
		fn := p.Func(lt.root)
		if fn == nil {
			out[i].fatal = "unresolved anchor: " + lt.root
			return
		}
		recv := fn.Params[0]
		idx := structFieldIndex(recv.Type(), lt.field)
		if pt, ok := recv.Type().Underlying().(*types.Pointer); ok {
			idx = structFieldIndex(pt.Elem(), lt.field)
		}
		if idx < 0 {
			out[i].fatal = fmt.Sprintf("unresolved anchor: field %s of %s", lt.field, lt.root)
			return
		}
		e := newNumEngine(c, nil)
		e.WrapLCong = true
		e.AssumeNoWrap = sizeFns
		e.PostCallHook = func(e *num.Engine, st *num.State, in *ssa.Call, f *ssa.Function) {
			if isMS[f] || f == wsFn {
				v := e.ExprOf(st, in)
				st.Assume(v)
				st.Assume(v.Neg().AddConst(c05MaxBytes))
			}
		}
		e.RootInit = func(st *num.State) {
			var x num.Lin
			_, isPtr := recv.Type().Underlying().(*types.Pointer)
			switch {
			case lt.kind == "len" && isPtr:
				x = e.PtrFieldLenExpr(st, recv, idx)
			case lt.kind == "len":
				x = e.StructFieldLenExpr(st, recv, idx)
			case isPtr:
				x = e.PtrFieldExpr(st, recv, idx)
			default:
				x = e.StructFieldExpr(st, recv, idx)
			}
			if !x.Bad {
				st.AssumeEq(x.AddConst(-lt.limit))
			} else {
				out[i].fatal = fmt.Sprintf("cannot constrain %s of %s", lt.field, lt.root)
			}
		}
		var rets []num.RootReturn
		if msg := guarded(func() { rets = e.AnalyzeRoot(fn, num.RootOptions{ElemsNonNil: true}) }); msg != "" {
			out[i].fatal = fmt.Sprintf("analysis panic in %s: %s", lt.root, msg)
			return
		}
		for _, rr := range rets {
			n := len(rr.Ret.Results)
			if n == 0 || !rr.St.Feasible() {
				continue
			}
			out[i].nret++
			if e.IsNonNilResult(rr.St, rr.Ret.Results[n-1]) {
				out[i].nerr++
			}
		}
		out[i].ok = out[i].nret > out[i].nerr
	})
	for i, lt := range c08LimitTable {
		if out[i].fatal != "" {
			r.Fatalf("%s", out[i].fatal)
			continue
		}
		fn := p.Func(lt.root)
		r.Anchor("C08-LIMIT", lt.root+"/"+lt.field)
		r.Check(out[i].ok, "C08-LIMIT", fmt.Sprintf("%s/%s-at-limit-%d-not-rejected", lt.root, lt.field, lt.limit), p.Pos(fn.Pos()),
			fmt.Sprintf("with %s, %d of %d returns are not error returns", lt.what, out[i].nret-out[i].nerr, out[i].nret),
			fmt.Sprintf("with %s every one of the %d returns carries a non-nil error: the value at the limit is rejected", lt.what, out[i].nret))
	}
	r.Floor("C08-LIMIT", 12)
}

// c08DeltaWire: octets a receive delta occupies on the wire per RecvDelta.Type class
// (draft-holmer-rmcat-transport-wide-cc-extensions-01 section 3.1.5: small delta one octet, large delta two); every
// other Type has no wire form and must be an error.
var c08DeltaWire = map[int64]int64{1: 1, 2: 2}

// c08DeltaClasses (rule C08-CLASS): RecvDelta.Marshal evaluated by the symbolic-sum engine with
// RecvDelta.Type fixed to each class: every nil-error return yields exactly the wire size of the class,
// and a Type without a wire form has no nil-error return. A small delta that does not fit one octet
// and is quietly widened to two octets (while the packet encoder reserves one) is the silent
// truncation this rules out; the ranges themselves are C08-NARROW's obligations on the conversions.
func c08DeltaClasses(c *Ctx, an *effects.Analysis) {
	r, p := c.Rep, c.Prog
	enc := p.Func("RecvDelta.Marshal")
	if enc == nil {
		r.Fatalf("unresolved anchor: RecvDelta.Marshal")
		return
	}
	pos := p.Pos(enc.Pos())
	for _, k := range []int64{0, 1, 2, 3} {
		r.Anchor("C08-CLASS", fmt.Sprintf("RecvDelta.Type=%d", k))
		key := fmt.Sprintf("RecvDelta.Marshal/Type=%d/octets-of-the-class", k)
		se := newSumEngine(c, an)
		se.AssumeField = map[string]int64{"RecvDelta.Type": k}
		var er *sum.FuncResult
		if msg := guarded(func() { er = se.EvalRoot(enc) }); msg != "" {
			r.Unk("C08-CLASS", key, pos, "analysis panic: "+msg)
			continue
		}
		want, has := c08DeltaWire[k]
		if !has {
			r.Check(er.NRetNil == 0, "C08-CLASS", key, pos, "no nil-error return: a delta of this type is rejected",
				fmt.Sprintf("%d nil-error return(s) for a Type that has no wire form", er.NRetNil))
			continue
		}
		if er.NRetNil == 0 {
			r.Bad("C08-CLASS", key, pos, "every return carries an error: deltas of this class cannot be encoded at all")
			continue
		}
		l, ok := er.ResultLin(0)
		if !ok || !l.IsConst() {
			r.Bad("C08-CLASS", key, pos, fmt.Sprintf("the number of octets returned with a nil error is not the constant %d: an out-of-range delta of this class is encoded in another size instead of being rejected", want))
			continue
		}
		r.Check(l.C == want, "C08-CLASS", key, pos, fmt.Sprintf("every nil-error return yields %d octet(s)", want),
			fmt.Sprintf("nil-error returns yield %d octet(s), the wire form of this class has %d", l.C, want))
	}
	r.Floor("C08-CLASS", 4)
}
