package props

import (
	"sort"
	"strings"

	"golang.org/x/tools/go/ssa"

	"rtcpverif/core"
	"rtcpverif/effects"
	"rtcpverif/num"
)

func init() { register("C17", "other", checkC17) }

func checkC17(c *Ctx) {
	r := c.Rep
	p := c.Prog
	r.Explain = "The numeric abstract interpreter of C01 applied to every String() method of the package, stringify and formatField, with an UNCONSTRAINED receiver (every field value, every list length): every index, slice, nil dereference, division, type assertion and loop must be proved safe/terminating at the instruction. fmt.Sprintf/Sprint are modelled as total (fmt recovers panics of nested String methods itself). Reflection in formatField: every reflect call with a precondition must be dominated by its guard."
	r.RuleText = "B-IDX, B-SLC, B-NIL, B-DIV, B-TAS, T-LOOP (as in C01) over the universe reachable from the 21+ String methods; B-RFL for formatField; enum String methods return on every path (go/ssa would otherwise contain a missing return panic)."
	r.Trusted = []string{"go/ssa", "numeric engine checker/num", "fmt.Sprintf/Sprint/Sprintln, fmt.Fprint* into a non-nil *strings.Builder / *bytes.Buffer, strconv.Itoa/Format* and strings.* are total", "reflect model (B-RFL guard table)"}
	r.Assume = []string{
		"receivers are non-nil; elements of []ReportBlock, []PacketStatusChunk, []*RecvDelta and []Packet are non-nil and do not hold nil pointers (the property's 'decoded or well-formed' domain; the decoders append only fresh allocations, checked as B-NIL facts by C01)",
		"no slice longer than 2^50; 64-bit int arithmetic on lengths does not overflow",
	}
	r.NotCov("verb/argument agreement of format strings (vet's printf pass), the textual content of the result, stack depth of fmt")

	var roots []string
	for _, fn := range p.Funcs {
		if fn.Signature.Recv() != nil && fn.Name() == "String" && fn.Signature.Params().Len() == 0 {
			name := core.FuncName(fn) // "(T).String" or "(*T).String"
			spec := strings.Replace(strings.Replace(name, "(", "", 1), ")", "", 1)
			if p.Func(spec) == nil {
				r.Fatalf("cannot resolve %s", name)
				continue
			}
			roots = append(roots, spec)
		}
	}
	for _, s := range []string{"stringify", "formatField"} {
		if p.Func(s) == nil {
			r.Fatalf("unresolved anchor: %s", s)
			continue
		}
		roots = append(roots, s)
	}
	sort.Strings(roots)
	for _, s := range roots {
		r.Anchor("C17-ROOT", s)
	}
	r.Floor("C17-ROOT", 23)

	res := newNumResult()
	runNumRootsOpt(c, res, roots, num.RootOptions{ElemsNonNil: true})
	// self-recursive helpers summarised at call sites are among the roots already (formatField)
	for name := range res.sumRec {
		found := false
		for _, s := range roots {
			if fn := p.Func(s); fn != nil && core.FuncName(fn) == name {
				found = true
			}
		}
		if !found {
			r.Fatalf("self-recursive function %s was summarised but is not analysed as a root", name)
		}
	}
	// T-REC in formatField: recursion follows the (finite, acyclic) value being formatted; each level
	// descends into a field or element. Decided by the same type-shape argument only for the XR type graph.
	skip := map[string]bool{"T-REC": true, "M-ALLOC": true, "B-MAKE": true}
	res.report(c, skip)
	for _, k := range res.order {
		o := res.obls[k]
		if o.Rule != "T-REC" {
			continue
		}
		key := strings.TrimPrefix(o.Key, "T-REC/")
		// loops in formatField iterate i < NumField() / i < Len(): their own variant is i; the recursion cut only
		// makes the engine lose facts. The loop bound is re-evaluated each iteration (Len/NumField are pure).
		ok, why := formatFieldLoopsBounded(p, o.Fn)
		if ok {
			r.Ok("T-REC", key, p.Pos(o.Pos), why)
		} else {
			r.Unk("T-REC", key, p.Pos(o.Pos), why)
		}
	}
	checkReflectGuards(c, "formatField")
	var uni []string
	for f := range res.universe {
		uni = append(uni, f)
	}
	sort.Strings(uni)
	for _, f := range uni {
		r.Anchor("C17-UNIVERSE", f)
	}
	r.Floor("C17-UNIVERSE", 25)
}

func runNumRootsOpt(c *Ctx, res *numResult, specs []string, opt num.RootOptions) {
	c.Prog.CallGraph()
	type job struct {
		fn   *ssa.Function
		spec string
	}
	var jobs []job
	for _, s := range specs {
		if fn := c.Prog.Func(s); fn != nil {
			jobs = append(jobs, job{fn, s})
		}
	}
	// Every root is analysed for every receiver, so a call of one root from another (members of a
	// compound packet, nested String methods reached through fmt.Stringer) adds nothing; effect-free
	// roots are left opaque inside the other roots.
	an := effects.New(c.Prog.SPkg, c.Prog.Funcs, c.Prog.CallGraph(), nil)
	pure := pureFn(an)
	results := make([]*num.Engine, len(jobs))
	parallelFor(len(jobs), func(i int) {
		e := newNumEngine(c, nil)
		e.LoadGVN = true
		e.Opaque = map[*ssa.Function]bool{}
		for j := range jobs {
			if j != i && jobs[j].fn.Name() == "String" && pure(jobs[j].fn) {
				e.Opaque[jobs[j].fn] = true
			}
		}
		func() {
			defer func() {
				if r := recover(); r != nil {
					budgetMu.Lock()
					c.Rep.Fatalf("analysis panic in root %s: %v", jobs[i].spec, r)
					budgetMu.Unlock()
				}
			}()
			e.AnalyzeRoot(jobs[i].fn, opt)
		}()
		results[i] = e
	})
	for i, e := range results {
		if e != nil {
			res.merge(e, jobs[i].spec)
		}
	}
}

// formatFieldLoopsBounded: every loop of fn that contains the recursive call is
// an index loop `for i := 0; i < X.NumField()/X.Len(); i++` (counter starts at
// 0, steps by 1, compared with < against a reflect NumField/Len call).
func formatFieldLoopsBounded(p *core.Prog, fnName string) (bool, string) {
	var fn *ssa.Function
	for _, f := range p.Funcs {
		if core.FuncName(f) == fnName {
			fn = f
		}
	}
	if fn == nil || fnName != "formatField" {
		return false, "loop over a recursive call in " + fnName + ": no rule for this function"
	}
	n := 0
	for _, b := range fn.Blocks {
		isHeader := false
		for _, pr := range b.Preds {
			if b.Dominates(pr) {
				isHeader = true
			}
		}
		if !isHeader {
			continue
		}
		iff, ok := b.Instrs[len(b.Instrs)-1].(*ssa.If)
		if !ok {
			return false, "loop header without condition"
		}
		cmp, ok := iff.Cond.(*ssa.BinOp)
		if !ok || cmp.Op.String() != "<" {
			return false, "loop condition is not i < bound"
		}
		phi, ok := cmp.X.(*ssa.Phi)
		if !ok || len(phi.Edges) != 2 {
			return false, "loop counter is not a simple induction variable"
		}
		okStep := false
		for i, e := range phi.Edges {
			if b.Dominates(b.Preds[i]) {
				if add, ok := e.(*ssa.BinOp); ok && add.Op.String() == "+" && add.X == ssa.Value(phi) && isConstInt(add.Y, 1) {
					okStep = true
				}
			} else if !isConstInt(e, 0) {
				return false, "loop counter does not start at 0"
			}
		}
		bound, ok := cmp.Y.(*ssa.Call)
		if !ok || !okStep {
			return false, "loop bound is not a call / counter step is not 1"
		}
		bn := calleeName(bound)
		if bn != "(reflect.Value).NumField" && bn != "(reflect.Value).Len" {
			return false, "loop bound is " + bn
		}
		n++
	}
	if n == 0 {
		return false, "no loop found"
	}
	return true, "index loops over NumField()/Len() of an (immutable) reflect.Value: counter from 0, step 1; recursion descends into a field or element of a finite acyclic value"
}
