package props

import (
	"go/token"
	"go/types"
	"fmt"
	"sort"
	"strings"

	"golang.org/x/tools/go/ssa"

	"rtcpverif/bits"
	"rtcpverif/core"
	"rtcpverif/num"
	"rtcpverif/spec"
)

func init() {
	register("C03", "other", checkC03)
	register("C04", "other", checkC04)
	register("C02", "other", checkC02)
}

func unitKey(u *unitSpec) string {
	f := strings.Fields(u.rfc)
	if len(f) >= 2 {
		return f[0] + f[1]
	}
	return u.rfc
}

// ---------------------------------------------------------------- C03

func checkC03(c *Ctx) {
	r := c.Rep
	p := c.Prog
	r.Explain = "Bit-provenance abstract interpretation of every Marshal (checker/bits): the encoder's map wire bit <- source, symbolic in the field bits and therefore valid for every value, is compared with layout tables written from the governing RFCs: each field's bits at the specified octet/bit positions in big-endian order, version bits 1 0, the registered packet type octet and FMT/count bits, constant octets ('REMB', REMB media SSRC 0), reserved bits zero; list entries are compared at their stride (24i+28 etc.). The packet type / FMT constants of the tables are cross-checked against the IANA registry table. XR: type-specific octets, block type constants and field widths are C15's rules, run here as well."
	r.RuleText = "C03-LAY per unit; C03-REG (table constants = registry); C03-XR (C15-BT/TS/LAY)."
	r.Trusted = []string{"go/ssa", "checker/bits transfer functions", "layout tables props/layout.go (RFC 3550, 4585, 5104, 6051, 8888, transport-wide-cc and REMB drafts)", "registry checker/spec"}
	r.Assume = []string{"values fit their wire fields (C08 decides rejection of the rest)"}
	r.NotCov("header length field (C05-HDR); variable tails (SDES text, BYE reason, APP data, profile extensions): only their start is placed; StatusVectorChunk with a partly filled symbol list, TWCC chunks/deltas inside the packet (interface calls; their sizes and cursor are C09-SIZE), CCFB report blocks (data-dependent offsets), REMB exponent/mantissa (floating point, C14); SliceLossIndication's packet type octet (finding F10a under C07)")

	runs := runLayouts(c)
	for _, name := range layoutOrder() {
		lr := runs[name]
		if lr.u.enc == "" {
			continue
		}
		r.Anchor("C03-LAY", name)
		pos := "-"
		if fn := p.Func(lr.u.enc); fn != nil {
			pos = p.Pos(fn.Pos())
		}
		if lr.encErr != nil {
			r.Unk("C03-LAY", name+"/encoder-matches-"+unitKey(lr.u), pos, lr.encErr.Error())
			continue
		}
		n, bad := encVsSpec(lr.u, lr.enc)
		r.Check(len(bad) == 0 && n > 0, "C03-LAY", name+"/encoder-matches-"+unitKey(lr.u), pos, fmt.Sprintf("%d wire bits equal the layout of %s", n, lr.u.rfc), trunc(bad, 3))
	}
	r.Floor("C03-LAY", 15)
	c03Registry(c)
	// XR
	c15TypeSpecific(c, "C03-XR")
}

// c03Registry: the PT octet and FMT bits written in the layout tables agree with the registry.
func c03Registry(c *Ctx) {
	r := c.Rep
	for _, u := range layoutUnits {
		kinds := spec.KindsOf(u.name)
		if len(kinds) == 0 {
			continue
		}
		pos, exp, err := u.expand()
		if err != nil {
			r.Fatalf("layout %s: %v", u.name, err)
			continue
		}
		// octet 1 and the low 5 bits of octet 0, when constant in the table
		pt, ptKnown := 0, true
		fmtv, fmtKnown := 0, true
		for i, ps := range pos {
			if ps.cell == "1" {
				switch exp[i].kind {
				case '1':
					pt |= 1 << uint(ps.bit)
				case '0':
				default:
					ptKnown = false
				}
			}
			if ps.cell == "0" && ps.bit < 5 {
				switch exp[i].kind {
				case '1':
					fmtv |= 1 << uint(ps.bit)
				case '0':
				default:
					fmtKnown = false
				}
			}
		}
		if !ptKnown {
			r.Infof("layout %s leaves the packet type octet unchecked", u.name)
			continue
		}
		ok := false
		for _, k := range kinds {
			if k.PT == pt && (k.FMT < 0 || !fmtKnown || k.FMT == fmtv) {
				ok = true
			}
		}
		r.Check(ok, "C03-REG", u.name+"/table-constants-are-registered", "-", fmt.Sprintf("PT %d / FMT %d of the layout table is the registered kind of %s", pt, fmtv, u.name), fmt.Sprintf("layout table says PT %d FMT %d, registry says %v", pt, fmtv, kinds))
	}
}

// c15TypeSpecific runs C15's BT/TS/LAY rules under another rule name (shared with C03/C04).
func c15TypeSpecific(c *Ctx, rule string) {
	r := c.Rep
	p := c.Prog
	regOf := map[string]int{}
	for k, v := range spec.XRBlockTypes {
		regOf[v] = k
	}
	var blocks []string
	for name := range xrTypeSpecific {
		blocks = append(blocks, name)
	}
	sort.Strings(blocks)
	for _, b := range blocks {
		setup := p.Func("*" + b + ".setupBlockHeader")
		named := p.Named(b)
		if setup == nil || named == nil {
			r.Fatalf("unresolved anchor: %s.setupBlockHeader", b)
			continue
		}
		pos := p.Pos(setup.Pos())
		sres, err := bits.New(p.SPkg).AnalyzeMutator(setup)
		if err != nil {
			r.Unk(rule, b+"/setupBlockHeader", pos, err.Error())
			continue
		}
		bt := sres.Fields["XRHeader.BlockType"]
		wantTS, _ := tsSpec(xrTypeSpecific[b])
		ts := sres.Fields["XRHeader.TypeSpecific"]
		got, gotElem, probs := xrWidths(named)
		w := xrWire[b]
		ok := bt != nil && bt.String() == bitsConst(uint64(regOf[b]), 8) && ts != nil && ts.String() == wantTS.String() &&
			len(probs) == 0 && eqInts(got, append([]int{8, 8, 16}, w.fixed...)) && eqInts(gotElem, w.elem)
		r.Check(ok, rule, b+"/block-header-and-field-widths", pos,
			fmt.Sprintf("block type %d, type-specific octet %s, widths 8,8,16,%v / element %v (%s)", regOf[b], wantTS, w.fixed, w.elem, w.rfc),
			fmt.Sprintf("block type %v, type-specific %v, widths %v / %v %v; %s says type %d, %s, 8,8,16,%v / %v", bt, ts, got, gotElem, probs, w.rfc, regOf[b], wantTS, w.fixed, w.elem))
	}
}

// ---------------------------------------------------------------- C04

func checkC04(c *Ctx) {
	r := c.Rep
	p := c.Prog
	r.Explain = "Bit-provenance abstract interpretation of every Unmarshal on an unconstrained input: the decoder's map field bit <- input octet/bit at its successful returns, valid for every input, is compared with the RFC layout tables: each field is taken from exactly its specified wire bits (big-endian), bits above the wire width are zero, and no field depends on a reserved or padding bit (the comparison is an equality of maps, so a stray dependency shows). CNT: for SR, RR, SDES and BYE the numeric engine entails at every nil-error return that the number of decoded elements equals the header count (an inflated count cannot be accepted; for BYE, whose list is allocated from the count, also that the announced sources lie inside the packet). ACC: for each of 39 boundary shapes (a datagram of fixed length with a few fixed octets, every other octet arbitrary: padded APP, BYE with and without reason, empty lists, minimal feedback packets, unknown XR block, a padded frame followed by another) the constant propagator evaluates the decoder on the whole shape and must reach a return without a definite error: a shape whose every return carries a non-nil error is a valid encoding the decoder always rejects. XR: unpackBlockHeader inverts the RFC 3611 type-specific octet, the block type switch has UnknownReportBlock as default arm, blocks are split at 4*(BlockLength+1) (C15's rules)."
	r.RuleText = "C04-LAY per unit; C04-CNT; C04-FRESH (a composite appended to a list inside a decoder loop is allocated or wholly re-assigned inside that loop); C04-ACC (a table of RFC-valid boundary shapes — fixed length, some octets fixed, the rest arbitrary — none of which may be rejected on every path); C04-XR (C15-TS/DSP/BL)."
	r.Trusted = []string{"go/ssa", "checker/bits", "checker/num", "checker/pe (conditional constant propagation)", "layout tables props/layout.go", "shape table props/c04acc.go (39 RFC-valid boundary shapes, written from RFC 3550/4585/5104/6051/3611/8888 and the REMB draft)"}
	r.Assume = []string{"decoder receivers are zero values"}
	r.NotCov("alternative TWCC chunkings (accepted, C04-ACC; equal decoding is a run-time relation), RecvDelta scaling (C13), REMB mantissa/exponent arithmetic (C14), SDES/BYE texts, APP padding, CCFB report blocks (data-dependent offsets)")

	runs := runLayouts(c)
	for _, name := range layoutOrder() {
		lr := runs[name]
		if lr.u.dec == "" {
			continue
		}
		r.Anchor("C04-LAY", name)
		pos := "-"
		if fn := p.Func(lr.u.dec); fn != nil {
			pos = p.Pos(fn.Pos())
		}
		if lr.decErr != nil {
			r.Unk("C04-LAY", name+"/decoder-matches-"+unitKey(lr.u), pos, lr.decErr.Error())
			continue
		}
		n, bad := decVsSpec(lr.u, lr.dec)
		r.Check(len(bad) == 0 && n > 0, "C04-LAY", name+"/decoder-matches-"+unitKey(lr.u), pos, fmt.Sprintf("%d field bits equal the layout of %s", n, lr.u.rfc), trunc(bad, 3))
	}
	r.Floor("C04-LAY", 12)
	c04Counts(c)
	c04Fresh(c)
	c04Accept(c)
	// XR
	hdr := p.Named("XRHeader")
	if hdr == nil {
		r.Fatalf("unresolved anchor: XRHeader")
		return
	}
	regOf := map[string]int{}
	for k, v := range spec.XRBlockTypes {
		regOf[v] = k
	}
	c15Dispatch(c, regOf)
	c15Split(c, hdr)
	c04Unpack(c)
}

func c04Unpack(c *Ctx) {
	r := c.Rep
	p := c.Prog
	var blocks []string
	for name := range xrTypeSpecific {
		blocks = append(blocks, name)
	}
	sort.Strings(blocks)
	for _, b := range blocks {
		unpack := p.Func("*" + b + ".unpackBlockHeader")
		if unpack == nil {
			r.Fatalf("unresolved anchor: %s.unpackBlockHeader", b)
			continue
		}
		ures, err := bits.New(p.SPkg).AnalyzeMutator(unpack)
		if err != nil {
			r.Unk("C04-XR", b+"/unpackBlockHeader", p.Pos(unpack.Pos()), err.Error())
			continue
		}
		_, fieldsAt := tsSpec(xrTypeSpecific[b])
		var bad []string
		for f, posn := range fieldsAt {
			got := ures.Fields[f]
			if got == nil {
				bad = append(bad, "field "+f+" is not restored")
				continue
			}
			for j, bt := range got {
				w := bits.Zero
				if j < len(posn) {
					w = bits.Bit{K: bits.BSrc, Src: "F:XRHeader.TypeSpecific", I: posn[j]}
				}
				if bt != w {
					bad = append(bad, fmt.Sprintf("field %s bit %d is taken from %s, RFC 3611 says %s", f, j, bt, w))
					break
				}
			}
		}
		for f := range ures.Fields {
			if _, ok := fieldsAt[f]; !ok {
				bad = append(bad, "also stores "+f)
			}
		}
		sort.Strings(bad)
		r.Check(len(bad) == 0, "C04-XR", b+"/unpack-type-specific-bits", p.Pos(unpack.Pos()), fmt.Sprintf("%d field(s) taken from their RFC 3611 bits of the type-specific octet", len(fieldsAt)), trunc(bad, 2))
	}
}

// c04Counts: a decoder returns nil only if it decoded as many elements as the header count says.
func c04Counts(c *Ctx) {
	r := c.Rep
	p := c.Prog
	hidx, _ := headerFieldIdx(p)
	for _, t := range []struct {
		typ, list string
		elem      int64 // >0: additionally headerLength + elem*Count <= len(input) at every nil-error return
	}{{"SenderReport", "Reports", 0}, {"ReceiverReport", "Reports", 0}, {"SourceDescription", "Chunks", 0}, {"Goodbye", "Sources", 4}} {
		fn := p.Func("*" + t.typ + ".Unmarshal")
		named := p.Named(t.typ)
		if fn == nil || named == nil {
			r.Fatalf("unresolved anchor: (*%s).Unmarshal", t.typ)
			continue
		}
		li := structFieldIndex(named, t.list)
		// the local Header
		var hal *ssa.Alloc
		for _, b := range fn.Blocks {
			for _, in := range b.Instrs {
				if al, ok := in.(*ssa.Alloc); ok && strings.HasSuffix(al.Type().String(), ".Header") {
					hal = al
				}
			}
		}
		key := "(*" + t.typ + ").Unmarshal/decoded-count-equals-header-count"
		if hal == nil || li < 0 {
			r.Unk("C04-CNT", key, p.Pos(fn.Pos()), "no local Header / list field found")
			continue
		}
		e := newNumEngine(c, nil)
		e.WrapLCong = true
		var rets []num.RootReturn
		if msg := guarded(func() { rets = e.AnalyzeRoot(fn, num.RootOptions{ZeroReceiver: true}) }); msg != "" {
			r.Fatalf("analysis panic in (*%s).Unmarshal: %s", t.typ, msg)
			continue
		}
		n, okc := 0, 0
		var det string
		for _, rr := range rets {
			if len(rr.Ret.Results) != 1 || e.IsNonNilResult(rr.St, rr.Ret.Results[0]) {
				continue
			}
			n++
			cnt := e.AllocFieldExpr(rr.St, hal, hidx["Count"])
			ln := e.PtrFieldLenExpr(rr.St, fn.Params[0], li)
			fits := true
			if t.elem > 0 {
				// the Count elements announced by the header lie inside the packet
				in := e.LenExprOf(rr.St, fn.Params[1])
				fits = !in.Bad && !cnt.Bad && rr.St.Entails(in.Sub(cnt.Scale(t.elem)).AddConst(-4))
			}
			if !cnt.Bad && !ln.Bad && rr.St.EntailsEq(ln.Sub(cnt)) && fits {
				okc++
			} else {
				det = fmt.Sprintf("len(%s)=%s, Count=%s", t.list, e.LinString(rr.St.Subst(ln)), e.LinString(rr.St.Subst(cnt)))
			}
		}
		okDet := fmt.Sprintf("len(%s) = header count entailed at all %d nil-error return(s)", t.list, n)
		if t.elem > 0 {
			okDet += fmt.Sprintf("; 4 + %d*count <= len(input) entailed as well (a count that claims more elements than the packet holds is rejected)", t.elem)
		}
		r.Check(n > 0 && okc == n, "C04-CNT", key, p.Pos(fn.Pos()), okDet, det)
	}
}

// ---------------------------------------------------------------- C02

// c02SymExceptions: fields that are legitimately on one side only.
var c02SymExceptions = map[string]string{
	"RunLengthChunk.Type": "decoder-side tag (constant), carries no wire bits of its own",
}

func checkC02(c *Ctx) {
	r := c.Rep
	p := c.Prog
	r.Explain = "Three structural clauses each necessary for encode-then-decode to be the identity, decided for all values at once from the bit-provenance maps of every encoder/decoder pair (checker/bits): SYM - the set of struct fields whose bits reach the wire in Marshal equals the set of integer fields Unmarshal stores (a field encoded but never decoded, or the reverse, cannot round-trip); LAY - composing the encoder's map wire bit <- field bit with the decoder's map field bit <- wire bit is the identity on every field bit that reaches the wire and on every wire bit the decoder uses, for fixed parts and per-entry strides (24i+28 ...); DSP - the packet type / FMT each Marshal emits dispatches back to the same Go type and passes its decoder's own guard (C07-SELF and C07-GRD, re-run here). XR round-trip structure: setupBlockHeader/unpackBlockHeader invert each other on the type-specific octet (C15-TS)."
	r.RuleText = "C02-SYM, C02-LAY per unit with encoder and decoder; C02-DSP; C02-XR; C02-CNT; C02-XRH (no setupBlockHeader reads an XRHeader field it has not stored in the same call: the header is a function of the semantic fields, not of an earlier Marshal/Unmarshal)."
	r.Trusted = []string{"go/ssa", "checker/bits", "checker/pe (DSP)", "registry"}
	r.Assume = []string{"values fit their wire fields"}
	r.NotCov("value-dependent behaviour of variable-length parts (TWCC chunk/delta lists, CCFB block counts, SDES/BYE texts, APP padding, RR profile-extension padding), list equality for []Packet and byte equality of re-marshalled packets, REMB bitrate quantisation (C14): these need arithmetic over run-time values; the clauses above are necessary, not sufficient")

	runs := runLayouts(c)
	nunits := 0
	for _, name := range layoutOrder() {
		lr := runs[name]
		if lr.u.enc == "" || lr.u.dec == "" {
			continue
		}
		nunits++
		r.Anchor("C02-LAY", name)
		pos := "-"
		if fn := p.Func(lr.u.enc); fn != nil {
			pos = p.Pos(fn.Pos())
		}
		if lr.encErr != nil || lr.decErr != nil {
			r.Unk("C02-LAY", name+"/encode-decode-identity", pos, fmt.Sprintf("encoder: %v; decoder: %v", lr.encErr, lr.decErr))
			continue
		}
		n, bad := roundTrip(lr.enc, lr.dec, lr.u.decAlt, layoutFields(lr.u), lr.u.encConst)
		r.Check(len(bad) == 0 && n > 0, "C02-LAY", name+"/encode-decode-identity", pos, fmt.Sprintf("%d bit correspondences: every encoded field bit is decoded from the octet/bit it was written to, and vice versa", n), trunc(bad, 3))
		// SYM
		encF := map[string]bool{}
		for _, cell := range lr.enc.Wire {
			for _, b := range cell {
				if b.K == bits.BSrc && strings.HasPrefix(b.Src, "F:") {
					encF[strings.TrimPrefix(b.Src, "F:")] = true
				}
			}
		}
		for f := range lr.u.encConst {
			encF[f] = true // evaluated with this field fixed: its bits reach the wire as constants (placed by C02-LAY)
		}
		dec := lr.dec
		if lr.u.decAlt != "" {
			for _, a := range dec.Alts {
				for _, cd := range a.Cond {
					if cd.String() == lr.u.decAlt {
						dec = a
					}
				}
			}
		}
		var bad2 []string
		for f := range encF {
			if _, ok := dec.Fields[f]; !ok {
				bad2 = append(bad2, "field "+f+" is encoded but not decoded")
			}
		}
		for f, bv := range dec.Fields {
			if encF[f] {
				continue
			}
			if _, ok := c02SymExceptions[name+"."+f]; ok {
				continue
			}
			// a field the decoder sets from wire bits that the encoder does not write from that field
			fromWire := false
			for _, b := range bv {
				if b.K == bits.BSrc && strings.HasPrefix(b.Src, "W:") {
					fromWire = true
				}
			}
			if fromWire && !lr.u.partial {
				bad2 = append(bad2, "field "+f+" is decoded from the wire but never encoded")
			} else if fromWire {
				// partial units: only report fields whose wire octets the encoder does write with something else
				for _, b := range bv {
					if b.K == bits.BSrc && strings.HasPrefix(b.Src, "W:") {
						if cell, ok := lr.enc.Wire[strings.TrimPrefix(b.Src, "W:")]; ok && cell[b.I].K == bits.BSrc && !strings.HasPrefix(cell[b.I].Src, "L:") {
							bad2 = append(bad2, "field "+f+" is decoded from bits the encoder fills from "+cell[b.I].Src)
							break
						}
					}
				}
			}
		}
		sort.Strings(bad2)
		r.Check(len(bad2) == 0, "C02-SYM", name+"/same-fields-encoded-and-decoded", pos, fmt.Sprintf("%d field(s) reach the wire and all of them are stored by the decoder", len(encF)), trunc(bad2, 3))
	}
	if nunits < 12 {
		r.Fatalf("only %d encoder/decoder pairs analysed", nunits)
	}
	r.Floor("C02-LAY", 12)
	// DSP: the same facts as C07-SELF, re-established here
	c02Dispatch(c)
	// XR
	c15RoundTrip(c)
	c02CountRoundTrip(c)
	c02HeaderInputs(c)
}

// c02Dispatch re-runs the C07-SELF computation: the kinds a Marshal emits dispatch to its own type.
func c02Dispatch(c *Ctx) {
	r := c.Rep
	p := c.Prog
	un := p.Func("unmarshal")
	if un == nil {
		r.Fatalf("unresolved anchor: unmarshal")
		return
	}
	tab := dispatchTable(c, un)
	for _, t := range coreTypesWithKinds() {
		kinds, how, err := emittedKinds(c, t)
		key := t + ".Marshal/emitted-kind-dispatches-to-" + t
		fn, _ := p.Method(t, "Marshal")
		pos := "-"
		if fn != nil {
			pos = p.Pos(fn.Pos())
		}
		if err != nil {
			r.Unk("C02-DSP", key, pos, err.Error())
			continue
		}
		var bad []string
		n := 0
		for k := range kinds {
			n++
			if k.PT < 0 {
				bad = append(bad, "a successful path emits a non-constant header")
				continue
			}
			for f := 0; f < 32; f++ {
				if k.FMT >= 0 && k.FMT != f {
					continue
				}
				set := tab[[2]int{k.PT, f}]
				if !(len(set) == 1 && set[t]) {
					var got []string
					for x := range set {
						got = append(got, x)
					}
					sort.Strings(got)
					bad = append(bad, fmt.Sprintf("PT %d FMT %d dispatches to %v", k.PT, f, got))
					break
				}
			}
		}
		sort.Strings(bad)
		detail := fmt.Sprintf("%d emitted kind(s) (%s) dispatch to %s", n, how, t)
		keyK := key
		if len(bad) > 0 {
			keyK += "[" + bad[0] + "]"
		}
		r.Check(len(bad) == 0 && n > 0, "C02-DSP", keyK, pos, detail, trunc(bad, 2))
	}
}

func coreTypesWithKinds() []string {
	var out []string
	for _, t := range []string{"SenderReport", "ReceiverReport", "SourceDescription", "Goodbye", "ApplicationDefined", "TransportLayerNack", "RapidResynchronizationRequest", "CCFeedbackReport", "PictureLossIndication", "SliceLossIndication", "FullIntraRequest", "ReceiverEstimatedMaximumBitrate", "ExtendedReport"} {
		out = append(out, t)
	}
	return out
}

// c15RoundTrip: setup/unpack invert each other (C15-TS under C02's name).
func c15RoundTrip(c *Ctx) {
	r := c.Rep
	p := c.Prog
	var blocks []string
	for name := range xrTypeSpecific {
		blocks = append(blocks, name)
	}
	sort.Strings(blocks)
	for _, b := range blocks {
		setup := p.Func("*" + b + ".setupBlockHeader")
		unpack := p.Func("*" + b + ".unpackBlockHeader")
		if setup == nil || unpack == nil {
			r.Fatalf("unresolved anchor: %s setup/unpackBlockHeader", b)
			continue
		}
		sres, err1 := bits.New(p.SPkg).AnalyzeMutator(setup)
		ures, err2 := bits.New(p.SPkg).AnalyzeMutator(unpack)
		if err1 != nil || err2 != nil {
			r.Unk("C02-XR", b+"/type-specific-round-trip", p.Pos(setup.Pos()), fmt.Sprintf("%v %v", err1, err2))
			continue
		}
		ts := sres.Fields["XRHeader.TypeSpecific"]
		var bad []string
		nbits := 0
		// every field bit written into the octet is read back into the same field bit
		for k, bt := range ts {
			if bt.K != bits.BSrc || !strings.HasPrefix(bt.Src, "F:") {
				continue
			}
			nbits++
			f := strings.TrimPrefix(bt.Src, "F:")
			got := ures.Fields[f]
			want := bits.Bit{K: bits.BSrc, Src: "F:XRHeader.TypeSpecific", I: k}
			if got == nil || bt.I >= len(got) || got[bt.I] != want {
				bad = append(bad, fmt.Sprintf("bit %d of %s goes to bit %d of the octet but is not read back from there", bt.I, f, k))
			}
		}
		for _, bt := range ts {
			if bt.K == bits.BUnknown {
				bad = append(bad, "the type-specific octet has bits of unknown origin")
				break
			}
		}
		r.Check(len(bad) == 0, "C02-XR", b+"/type-specific-round-trip", p.Pos(setup.Pos()), fmt.Sprintf("%d field bit(s) written and read back at the same positions", nbits), trunc(bad, 2))
	}
}

// ---------------------------------------------------------------- C04-FRESH

// c04Fresh: in every decoder, a composite value appended to a list inside a loop is fresh in each
// iteration: it is loaded from (or points to) an allocation made inside that loop, or the whole variable
// is re-assigned inside the loop before the append. A variable hoisted out of the loop would carry the
// previous element's fields (and slices) into the next element.
func c04Fresh(c *Ctx) {
	r := c.Rep
	p := c.Prog
	nsites := 0
	for _, spec := range DecoderRoots() {
		fn := p.Func(spec)
		if fn == nil {
			continue
		}
		// helper decoders reachable one level down are roots of their own in DecoderRoots
		loops := loopBlocksWithHeaders(fn)
		for _, b := range fn.Blocks {
			hdr := loops[b]
			if hdr == nil {
				continue
			}
			for _, in := range b.Instrs {
				call, ok := in.(*ssa.Call)
				if !ok {
					continue
				}
				bi, ok := call.Common().Value.(*ssa.Builtin)
				if !ok || bi.Name() != "append" || len(call.Common().Args) != 2 {
					continue
				}
				sl, ok := call.Common().Args[1].(*ssa.Slice)
				if !ok {
					continue
				}
				arr, ok := sl.X.(*ssa.Alloc)
				if !ok {
					continue
				}
				// the element(s) stored into the variadic array
				for _, ref := range *arr.Referrers() {
					ia, ok := ref.(*ssa.IndexAddr)
					if !ok {
						continue
					}
					for _, r2 := range *ia.Referrers() {
						st, ok := r2.(*ssa.Store)
						if !ok || st.Addr != ssa.Value(ia) {
							continue
						}
						var src *ssa.Alloc
						switch v := st.Val.(type) {
						case *ssa.UnOp: // value loaded from a local variable
							if a, ok := v.X.(*ssa.Alloc); ok && v.Op == token.MUL {
								src = a
							}
						case *ssa.Alloc: // pointer to a heap variable
							src = v
						case *ssa.MakeInterface:
							if a, ok := v.X.(*ssa.Alloc); ok {
								src = a
							}
						case *ssa.Phi: // interface built on several paths: every edge must be fresh
							allFresh := true
							found := false
							for _, e := range v.Edges {
								if mi, ok := e.(*ssa.MakeInterface); ok {
									if a, ok := mi.X.(*ssa.Alloc); ok {
										found = true
										if !inSameLoop(a.Block(), hdr, loops) {
											allFresh = false
										}
										continue
									}
								}
								if k, ok := e.(*ssa.Const); ok && k.IsNil() {
									continue
								}
								allFresh = false
							}
							if found {
								nsites++
								r.Check(allFresh, "C04-FRESH", fmt.Sprintf("%s/appended-element-is-fresh#%d", core.FuncName(fn), nsites), p.Pos(call.Pos()),
									"every allocation that can reach this append is made inside the loop", "an element appended in a loop can come from an allocation made outside the loop (state leaks between elements)")
							}
							continue
						}
						if src == nil {
							continue // scalars and freshly built values (composite literals are Allocs too)
						}
						if _, isStruct := src.Type().Underlying().(*types.Pointer).Elem().Underlying().(*types.Struct); !isStruct {
							continue
						}
						nsites++
						fresh := inSameLoop(src.Block(), hdr, loops)
						if !fresh {
							// re-assigned as a whole inside the loop before the append?
							for _, r3 := range *src.Referrers() {
								if s3, ok := r3.(*ssa.Store); ok && s3.Addr == ssa.Value(src) && inSameLoop(s3.Block(), hdr, loops) && s3.Block().Dominates(call.Block()) {
									fresh = true
								}
							}
						}
						r.Check(fresh, "C04-FRESH", fmt.Sprintf("%s/appended-element-is-fresh#%d", core.FuncName(fn), nsites), p.Pos(call.Pos()),
							"the appended variable is allocated (or wholly re-assigned) inside the loop: each element starts from a zero value", "the appended variable lives outside the loop and is not wholly re-assigned in it: fields the decoder does not set keep the previous element's values")
					}
				}
			}
		}
	}
	if nsites < 6 {
		r.Fatalf("C04-FRESH: only %d append-in-loop sites found in the decoders (expected at least 6)", nsites)
	}
}

// loopBlocksWithHeaders maps every block that lies in a natural loop to the header of its innermost loop.
func loopBlocksWithHeaders(fn *ssa.Function) map[*ssa.BasicBlock]*ssa.BasicBlock {
	out := map[*ssa.BasicBlock]*ssa.BasicBlock{}
	size := map[*ssa.BasicBlock]int{}
	for _, b := range fn.Blocks {
		for _, s := range b.Succs {
			if !s.Dominates(b) {
				continue
			}
			body := map[*ssa.BasicBlock]bool{s: true}
			stack := []*ssa.BasicBlock{b}
			for len(stack) > 0 {
				x := stack[len(stack)-1]
				stack = stack[:len(stack)-1]
				if body[x] {
					continue
				}
				body[x] = true
				stack = append(stack, x.Preds...)
			}
			for x := range body {
				if old, ok := out[x]; !ok || len(body) < size[old] {
					out[x] = s
				}
			}
			if len(body) > size[s] {
				size[s] = len(body)
			}
		}
	}
	return out
}

func inSameLoop(b, hdr *ssa.BasicBlock, loops map[*ssa.BasicBlock]*ssa.BasicBlock) bool {
	// b is inside the loop headed by hdr (possibly in a nested loop of it)
	for h := loops[b]; h != nil; {
		if h == hdr {
			return true
		}
		// climb to the enclosing loop: the innermost loop of the header's immediate dominator
		d := h.Idom()
		if d == nil {
			return false
		}
		nh := loops[d]
		if nh == h {
			return false
		}
		h = nh
	}
	return false
}
