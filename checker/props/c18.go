package props

import (
	"fmt"
	"go/constant"
	"go/types"
	"path/filepath"
	"sort"
	"strings"

	"golang.org/x/tools/go/ssa"

	"rtcpverif/core"
	"rtcpverif/effects"
)

func init() { register("C18", "other", checkC18) }

// DecoderRoots are the decode entry points of the property statements (C01,
// C18-INPUT): function spec and index of the []byte parameter.
func DecoderRoots() []string {
	roots := []string{"Unmarshal"}
	for _, t := range core.PacketTypes {
		roots = append(roots, "*"+t+".Unmarshal")
	}
	for _, t := range []string{"Header", "ReceptionReport", "SourceDescriptionChunk", "SourceDescriptionItem", "RunLengthChunk", "StatusVectorChunk", "RecvDelta"} {
		roots = append(roots, "*"+t+".Unmarshal")
	}
	return roots
}

var readOnlyMethodNames = map[string]bool{
	"Marshal": true, "MarshalSize": true, "MarshalTo": true, "DestinationSSRC": true, "String": true,
	"Header": true, "Len": true, "len": true, "Validate": true, "CNAME": true, "Range": true, "PacketList": true,
	"Type": true, "RunType": true, "Value": true, "packetLen": true, "marshal": true,
}

var allowedImports = map[string]bool{
	"bytes": true, "encoding/binary": true, "errors": true, "fmt": true, "math": true, "reflect": true,
	"strings": true, "strconv": true, "unsafe": true,
}

func siteStr(p *core.Prog, s effects.Site) string {
	return fmt.Sprintf("%s in %s: %s", p.Pos(s.Pos), core.FuncName(s.Fn), s.What)
}

func checkC18(c *Ctx) {
	r := c.Rep
	p := c.Prog
	r.Explain = "Effect/alias analysis over the SSA of every function of the package (flow-insensitive taint from each root = parameter, receiver, free variable, package globals; summaries to a fixpoint over the VTA call graph). The facts are independent of schedules and call histories: a function that cannot write through its receiver, its input slice or a global cannot race on them or make results depend on earlier calls."
	r.RuleText = "C18-GLOB: no function except the package initialiser writes package-level state; no goroutines, channels, sync, time, rand, os, map iteration, and unsafe only at the one reflect.NewAt site. C18-RECV: read-only methods have an empty write set w.r.t. their receiver (ExtendedReport.Marshal: only XRHeader.{BlockType,TypeSpecific,BlockLength} via setupBlockHeader). C18-INPUT: decoders have an empty write set w.r.t. their []byte parameter. C18-FRESH: Marshal results are fresh allocations (RawPacket: the receiver itself)."
	r.Trusted = []string{"go/ssa + VTA call graph", "effects model of builtins and of the external functions in effects.nonWritingExternal/freshExternal (encoding/binary, fmt, errors, bytes, strings, math, reflect)"}
	r.Assume = []string{"callers do not mutate a packet while another goroutine uses it (outside the property)", "reflection internals obey the Go memory model"}
	r.NotCov("equality of results across repeated calls is implied only by absence of writes and of nondeterministic sources; float formatting etc. is trusted")

	var targets []*ssa.Function
	if reflectCallIsStringOnly(p) {
		for _, fn := range p.Funcs {
			if fn.Name() == "String" && fn.Signature.Recv() != nil && fn.Signature.Params().Len() == 0 {
				targets = append(targets, fn)
			}
		}
		r.Infof("reflect.Value.Call is only used as MethodByName(\"String\").Call: modelled as a call of any of the %d String methods", len(targets))
	}
	an := effects.New(p.SPkg, p.Funcs, p.CallGraph(), targets)
	c18Core(c, p, an, true)

	// positive control: the same rules must fire on the fixture package
	fix := filepath.Join(c.Verif, "checker", "testdata", "positive", "c18")
	fp, err := core.Load(fix, "", nil)
	if err != nil {
		r.Fatalf("positive control fixture does not load: %v", err)
		return
	}
	fan := effects.New(fp.SPkg, fp.Funcs, fp.CallGraph(), nil)
	fired := map[string]bool{}
	for _, fn := range fp.Funcs {
		s := fan.Sum[fn]
		if s.WritesThrough(s.GlobalRoot()) && fn.Name() != "init" {
			fired["global-write"] = true
		}
		if len(s.Forbidden) > 0 {
			fired["forbidden"] = true
		}
		if fn.Signature.Recv() != nil && s.WritesThrough(0) && fn.Name() == "MarshalSize" {
			fired["receiver-write"] = true
		}
		if fn.Name() == "Unmarshal" && len(fn.Params) == 2 && s.WritesThrough(1) {
			fired["input-write"] = true
		}
		if fn.Name() == "Unmarshal" && len(fn.Params) == 2 && s.Retains(0, 1) {
			fired["retains-input"] = true
		}
		if fn.Name() == "Marshal" && len(s.RetFresh) > 0 && !s.RetFresh[0] {
			fired["not-fresh"] = true
		}
	}
	for _, k := range []string{"global-write", "forbidden", "receiver-write", "input-write", "not-fresh", "retains-input"} {
		r.Check(fired[k], "C18-CTRL", "positive-control/"+k, "checker/testdata/positive/c18", "rule fires on the fixture", "rule does NOT fire on the positive-control fixture: the analysis is broken")
	}
}

func c18Core(c *Ctx, p *core.Prog, an *effects.Analysis, main bool) {
	r := c.Rep
	// ---- C18-GLOB
	r.Floor("C18-GLOB", 150)
	var imps []string
	for _, im := range p.Types.Imports() {
		imps = append(imps, im.Path())
	}
	sort.Strings(imps)
	for _, im := range imps {
		r.Check(allowedImports[im], "C18-GLOB", "import/"+im, "-", "import is in the allowed (stateless) set", "package imports "+im+": not in the allowed set of stateless packages")
	}
	nglob := 0
	for _, m := range p.SPkg.Members {
		if g, ok := m.(*ssa.Global); ok {
			nglob++
			_ = g
		}
	}
	r.Infof("package-level variables: %d", nglob)
	for _, fn := range p.Funcs {
		s := an.Sum[fn]
		name := core.FuncName(fn)
		r.Anchor("C18-GLOB", name)
		if fn.Synthetic != "" && strings.HasPrefix(fn.Name(), "init") {
			continue
		}
		ws := s.Writes[s.GlobalRoot()]
		det := ""
		if len(ws) > 0 {
			det = siteStr(p, ws[0])
		}
		r.Check(len(ws) == 0, "C18-GLOB", name+"/no-global-write", p.Pos(fn.Pos()), "does not write package-level state", "may write package-level state: "+det)
		for _, f := range s.Forbidden {
			// named exception: the uintptr->unsafe.Pointer conversion feeding reflect.NewAt in packetBuffer.read
			if name == "(*packetBuffer).read" && strings.Contains(f.What, "unsafe.Pointer") && feedsOnlyNewAt(f.Instr) {
				r.Ok("C18-GLOB", name+"/unsafe-NewAt", p.Pos(f.Pos), "named exception: unsafe.Pointer of a struct field's address is passed to reflect.NewAt only")
				continue
			}
			r.Bad("C18-GLOB", name+"/forbidden/"+f.What, p.Pos(f.Pos), "forbidden construct: "+f.What)
		}
		for _, u := range s.Undecided {
			r.Unk("C18-GLOB", name+"/unknown-effects", p.Pos(u.Pos), u.What)
		}
	}

	// ---- C18-RECV
	r.Floor("C18-RECV", 90)
	setupOK := map[*ssa.Function]bool{}
	allowedHdr := map[string]bool{"XRHeader.BlockType": true, "XRHeader.TypeSpecific": true, "XRHeader.BlockLength": true}
	for _, fn := range p.Funcs {
		if fn.Signature.Recv() == nil || fn.Name() != "setupBlockHeader" {
			continue
		}
		s := an.Sum[fn]
		ok := true
		var bad string
		for _, w := range s.Writes[0] {
			if w.What != "store" || !allowedHdr[w.Path] {
				ok = false
				bad = siteStr(p, w) + " path=" + w.Path
			}
		}
		for k := 1; k < s.NRoots; k++ {
			if s.WritesThrough(k) {
				ok = false
				bad = siteStr(p, s.Writes[k][0])
			}
		}
		setupOK[fn] = ok
		r.Anchor("C18-RECV", core.FuncName(fn))
		r.Check(ok, "C18-RECV", core.FuncName(fn)+"/writes-only-XRHeader", p.Pos(fn.Pos()),
			fmt.Sprintf("write set w.r.t. receiver = %d direct stores, all to XRHeader.{BlockType,TypeSpecific,BlockLength}", len(s.Writes[0])),
			"writes outside XRHeader.{BlockType,TypeSpecific,BlockLength}: "+bad)
	}
	stringVerified := true
	for _, fn := range p.Funcs {
		if fn.Signature.Recv() == nil || !readOnlyMethodNames[fn.Name()] {
			continue
		}
		s := an.Sum[fn]
		name := core.FuncName(fn)
		r.Anchor("C18-RECV", name)
		var bad []string
		for _, w := range s.Writes[0] {
			if (name == "(ExtendedReport).Marshal" || name == "(CompoundPacket).Marshal") && xrHeaderOnlySite(an, w, allowedHdr, 0) {
				continue // the documented exception, also when the report is a member of a compound packet
			}
			bad = append(bad, siteStr(p, w))
		}
		if len(bad) > 3 {
			bad = append(bad[:3], "...")
		}
		if fn.Name() == "String" && len(bad) > 0 {
			stringVerified = false
		}
		okDetail := "write set w.r.t. the receiver is empty"
		if name == "(CompoundPacket).Marshal" && len(s.Writes[0]) > 0 {
			okDetail = "writes through the receiver only where a member ExtendedReport fills in its blocks' XRHeader fields (setupBlockHeader, verified above)"
		}
		if name == "(ExtendedReport).Marshal" {
			okDetail = "writes through the receiver only via setupBlockHeader (verified above to touch XRHeader fields only)"
		}
		r.Check(len(bad) == 0, "C18-RECV", name+"/receiver-not-written", p.Pos(fn.Pos()), okDetail, "may write through its receiver: "+strings.Join(bad, "; "))
	}
	if ff := p.Func("formatField"); ff != nil {
		r.Check(reflectCallIsStringOnly(p) && stringVerified && an.ReflectCallTargets != nil, "C18-RECV", "formatField/reflect-Call-is-String", p.Pos(ff.Pos()),
			"the only reflect Call is MethodByName(\"String\").Call and every String method of the package has an empty write set",
			fmt.Sprintf("reflect.Value.Call in formatField is not provably a call of a verified String method (stringOnly=%v stringMethodsVerified=%v targets=%d)", reflectCallIsStringOnly(p), stringVerified, len(an.ReflectCallTargets)))
	}

	// ---- C18-INPUT
	if main {
		r.Floor("C18-INPUT", 24)
		for _, spec := range DecoderRoots() {
			fn := p.Func(spec)
			if fn == nil {
				r.Fatalf("unresolved anchor: decoder root %s", spec)
				continue
			}
			r.Anchor("C18-INPUT", spec)
			s := an.Sum[fn]
			k := len(fn.Params) - 1
			var bad string
			if s.WritesThrough(k) {
				bad = siteStr(p, s.Writes[k][0])
			}
			al := "result/receiver may alias the input (allowed)"
			r.Check(!s.WritesThrough(k), "C18-INPUT", core.FuncName(fn)+"/input-not-written", p.Pos(fn.Pos()),
				"write set w.r.t. the []byte parameter is empty; "+al, "may write through its input slice: "+bad)
		}
		// ---- C18-RETAIN: which decoders leave their receiver referring to the caller's buffer
		r.Floor("C18-RETAIN", 24)
		for _, spec := range DecoderRoots() {
			fn := p.Func(spec)
			if fn == nil {
				continue
			}
			r.Anchor("C18-RETAIN", spec)
			s := an.Sum[fn]
			k := len(fn.Params) - 1
			name := core.FuncName(fn)
			allowed := retainByDesign[name]
			if k == 0 { // plain function (rtcp.Unmarshal): no receiver; its results are allowed to alias the input
				r.Check(true, "C18-RETAIN", name+"/no-receiver", p.Pos(fn.Pos()), "no receiver; the returned packets may alias the input only through the per-type decoders checked here", "")
				continue
			}
			var got []string
			seen := map[string]bool{}
			for _, st := range s.RetainSites[[2]int{0, k}] {
				f := st.Path
				if f == "" {
					f = "*"
				}
				if !seen[f] {
					seen[f] = true
					got = append(got, f)
				}
			}
			sort.Strings(got)
			var extra []string
			for _, g := range got {
				if !allowed[g] {
					extra = append(extra, g)
				}
			}
			okd := "after the call no memory of the receiver refers to the input slice: the decoded value owns its data"
			if len(got) > 0 {
				okd = "the receiver refers to the input slice only through the documented field(s) " + strings.Join(got, ", ")
			}
			bad := ""
			if len(extra) > 0 {
				for _, st := range s.RetainSites[[2]int{0, k}] {
					f := st.Path
					if f == "" {
						f = "*"
					}
					if f == extra[0] {
						bad = siteStr(p, st)
						break
					}
				}
			}
			r.Check(len(extra) == 0, "C18-RETAIN", name+"/receiver-owns-its-data", p.Pos(fn.Pos()), okd,
				"the decoded value keeps a reference into the caller's buffer through "+strings.Join(extra, ", ")+" (not one of the documented aliasing fields), so reusing the buffer changes the packet: "+bad)
		}
		// ---- C18-FRESH
		r.Floor("C18-FRESH", 16)
		for _, t := range core.PacketTypes {
			fn, _ := p.Method(t, "Marshal")
			if fn == nil {
				r.Fatalf("unresolved anchor: %s.Marshal", t)
				continue
			}
			r.Anchor("C18-FRESH", t)
			s := an.Sum[fn]
			name := core.FuncName(fn)
			if t == "RawPacket" {
				onlyRecv := true
				for k := 1; k < s.NRoots; k++ {
					if s.RetAlias[0].Has(k) {
						onlyRecv = false
					}
				}
				r.Check(onlyRecv, "C18-FRESH", name+"/returns-receiver", p.Pos(fn.Pos()), "returns the receiver slice itself (documented) and nothing else shared", "returns memory other than the receiver")
				continue
			}
			det := ""
			for k := 0; k < s.NRoots; k++ {
				if s.RetAlias[0].Has(k) {
					det += fmt.Sprintf(" aliases root %d", k)
				}
			}
			r.Check(s.RetFresh[0], "C18-FRESH", name+"/result-fresh", p.Pos(fn.Pos()), "the returned []byte derives only from allocations made during the call", "the returned []byte may alias shared memory:"+det)
		}
		if fn := p.Func("Marshal"); fn != nil {
			r.Anchor("C18-FRESH", "Marshal")
			s := an.Sum[fn]
			// results of p.Marshal() (interface call) are appended (copied) into out
			r.Check(s.RetAlias[0].Empty(), "C18-FRESH", "Marshal/result-fresh", p.Pos(fn.Pos()), "rtcp.Marshal's result aliases neither its argument nor globals", "rtcp.Marshal's result may alias its argument or a global")
		}
	}
}

func feedsOnlyNewAt(in ssa.Instruction) bool {
	v, ok := in.(ssa.Value)
	if !ok || v.Referrers() == nil {
		return false
	}
	n := 0
	for _, ref := range *v.Referrers() {
		call, ok := ref.(*ssa.Call)
		if !ok {
			return false
		}
		f, ok := call.Common().Value.(*ssa.Function)
		if !ok || f.String() != "reflect.NewAt" {
			return false
		}
		n++
	}
	return n > 0
}

// reflectCallIsStringOnly: every (reflect.Value).Call in the package has as
// receiver the result of MethodByName with the constant "String" and no args.
func reflectCallIsStringOnly(p *core.Prog) bool {
	found := false
	for _, fn := range p.Funcs {
		for _, b := range fn.Blocks {
			for _, in := range b.Instrs {
				call, ok := in.(*ssa.Call)
				if !ok {
					continue
				}
				f, ok := call.Common().Value.(*ssa.Function)
				if !ok || f.String() != "(reflect.Value).Call" {
					continue
				}
				found = true
				recv := call.Common().Args[0]
				mb, ok := recv.(*ssa.Call)
				if !ok {
					return false
				}
				mf, ok := mb.Common().Value.(*ssa.Function)
				if !ok || mf.String() != "(reflect.Value).MethodByName" {
					return false
				}
				cst, ok := mb.Common().Args[1].(*ssa.Const)
				if !ok || cst.Value == nil || cst.Value.Kind() != constant.String || constant.StringVal(cst.Value) != "String" {
					return false
				}
			}
		}
	}
	_ = types.Typ
	return found
}

// retainByDesign: the fields through which a decoded value is documented to alias the caller's buffer
// (property C18, mechanism "decoders only read from the input slice (results may alias it)").
var retainByDesign = map[string]map[string]bool{
	"(*RawPacket).Unmarshal":          {"*": true},                 // raw_packet.go: *r = rawPacket, the packet IS the buffer
	"(*SenderReport).Unmarshal":       {"ProfileExtensions": true}, // documented: the tail of the buffer
	"(*ReceiverReport).Unmarshal":     {"ProfileExtensions": true},
	"(*ApplicationDefined).Unmarshal": {"Data": true},
}

// xrHeaderOnlySite: the write site is a store to XRHeader.{BlockType,TypeSpecific,BlockLength} inside a
// setupBlockHeader, or a call all of whose writes (through any of the callee's parameters) are such sites.
func xrHeaderOnlySite(an *effects.Analysis, w effects.Site, allowed map[string]bool, depth int) bool {
	if depth > 6 {
		return false
	}
	if w.Callee == nil {
		return w.What == "store" && allowed[w.Path] && w.Fn != nil && w.Fn.Name() == "setupBlockHeader"
	}
	cs := an.Sum[w.Callee]
	if cs == nil {
		return false
	}
	n := 0
	for k := 0; k < cs.NRoots; k++ {
		if k == cs.GlobalRoot() && cs.WritesThrough(k) {
			return false
		}
		for _, w2 := range cs.Writes[k] {
			n++
			if !xrHeaderOnlySite(an, w2, allowed, depth+1) {
				return false
			}
		}
	}
	return n > 0
}
