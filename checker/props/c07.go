package props

import (
	"fmt"
	"runtime"
	"sync"
	"go/types"
	"sort"
	"strings"

	"golang.org/x/tools/go/ssa"

	"rtcpverif/core"
	"rtcpverif/pe"
	"rtcpverif/spec"
)

func init() { register("C07", "proof", checkC07) }

// newPE builds an evaluator with the hooks shared by the table extractors:
// package-level error variables are non-nil (C18-GLOB shows they are written
// only by init).
func newPE(c *Ctx) *pe.Machine {
	m := pe.New(c.Prog.SPkg)
	m.Hooks.Load = func(m *pe.Machine, in *ssa.UnOp, addr pe.Val) (pe.Val, bool) {
		if g, ok := in.X.(*ssa.Global); ok {
			if types.Identical(g.Type().(*types.Pointer).Elem(), types.Universe.Lookup("error").Type()) {
				return pe.Val{K: pe.NonNil}, true
			}
		}
		return pe.U, false
	}
	return m
}

// runPE runs the evaluator and turns an exhausted step budget into a fatal
// (undecided) result instead of silently using partial results.
func runPE(c *Ctx, m *pe.Machine, fn *ssa.Function, args []pe.Val) *pe.Result {
	res := m.Run(fn, args)
	if m.Exceeded {
		budgetMu.Lock()
		c.Rep.Fatalf("evaluator step budget exceeded in %s: undecided", core.FuncName(fn))
		budgetMu.Unlock()
	}
	return res
}

var budgetMu sync.Mutex

// rawInput creates the abstract datagram: byte 0 and 1 known, the rest and the
// length unknown.
func rawInput(m *pe.Machine, b0, b1 int) pe.Val {
	o := m.NewObj("raw", types.NewArray(types.Typ[types.Byte], 0), false)
	if b0 >= 0 {
		m.SetCell(o, "[0]", pe.IntV(int64(b0)))
	}
	if b1 >= 0 {
		m.SetCell(o, "[1]", pe.IntV(int64(b1)))
	}
	return pe.Val{K: pe.Slice, Obj: o, Off: 0, Len: &pe.Val{}}
}

func namedOf(t types.Type) string {
	if p, ok := t.(*types.Pointer); ok {
		t = p.Elem()
	}
	if n, ok := t.(*types.Named); ok {
		return n.Obj().Name()
	}
	return t.String()
}

// dispatchTable evaluates `unmarshal` for every (P, FMT, PT) and returns the
// set of Go types whose Unmarshal is invoked.
func dispatchTable(c *Ctx, fn *ssa.Function) (tab map[[2]int]map[string]bool) {
	tab = map[[2]int]map[string]bool{}
	var mu sync.Mutex
	parallelFor(256, func(pt int) {
		for fmtv := 0; fmtv < 32; fmtv++ {
			for p := 0; p < 2; p++ {
				m := newPE(c)
				raw := rawInput(m, 0x80|p<<5|fmtv, pt)
				set := map[string]bool{}
				m.Hooks.Call = func(m *pe.Machine, call ssa.CallInstruction, callee *ssa.Function, args []pe.Val) (bool, pe.Val) {
					cc := call.Common()
					if cc.IsInvoke() && cc.Method.Name() == "Unmarshal" {
						if callee != nil {
							set[namedOf(callee.Signature.Recv().Type())] = true
						} else {
							set["<unresolved>"] = true
						}
						return true, pe.U
					}
					return false, pe.U
				}
				runPE(c, m, fn, []pe.Val{raw})
				mu.Lock()
				if tab[[2]int{pt, fmtv}] == nil {
					tab[[2]int{pt, fmtv}] = map[string]bool{}
				}
				for k := range set {
					tab[[2]int{pt, fmtv}][k] = true
				}
				mu.Unlock()
			}
		}
	})
	return
}

// kindSetSummary renders a set of (PT,FMT) pairs as "205:{0-10,12-31} 206:{2}".
func kindSetSummary(set map[[2]int]bool) string {
	byPT := map[int][]int{}
	for k := range set {
		byPT[k[0]] = append(byPT[k[0]], k[1])
	}
	var pts []int
	for pt := range byPT {
		pts = append(pts, pt)
	}
	sort.Ints(pts)
	var parts []string
	for _, pt := range pts {
		fs := byPT[pt]
		sort.Ints(fs)
		var rs []string
		for i := 0; i < len(fs); {
			j := i
			for j+1 < len(fs) && fs[j+1] == fs[j]+1 {
				j++
			}
			if j > i {
				rs = append(rs, fmt.Sprintf("%d-%d", fs[i], fs[j]))
			} else {
				rs = append(rs, fmt.Sprint(fs[i]))
			}
			i = j + 1
		}
		parts = append(parts, fmt.Sprintf("%d:{%s}", pt, strings.Join(rs, ",")))
	}
	return strings.Join(parts, " ")
}

// parallelFor runs f(0..n-1) on all cores.
func parallelFor(n int, f func(i int)) {
	var wg sync.WaitGroup
	ch := make(chan int)
	for w := 0; w < runtime.NumCPU(); w++ {
		wg.Add(1)
		go func() {
			defer wg.Done()
			for i := range ch {
				f(i)
			}
		}()
	}
	for i := 0; i < n; i++ {
		ch <- i
	}
	close(ch)
	wg.Wait()
}

func setStr(s map[string]bool) string {
	var l []string
	for k := range s {
		l = append(l, k)
	}
	sort.Strings(l)
	return "{" + strings.Join(l, ",") + "}"
}

// emittedKinds determines which (PT,FMT) the Marshal of typ writes into the
// header: from the Header value passed to Header.Marshal and/or from constant
// bytes stored at offsets 0/1 of the returned buffer. FMT -1 = not a constant.
func emittedKinds(c *Ctx, typ string) (kinds map[spec.PTFMT]bool, how string, err error) {
	fn, ptr := c.Prog.Method(typ, "Marshal")
	if fn == nil {
		return nil, "", fmt.Errorf("no Marshal method on %s", typ)
	}
	hm := c.Prog.Func("Header.Marshal")
	kinds = map[spec.PTFMT]bool{}
	m := newPE(c)
	m.MaxDepth = 5
	var recv pe.Val
	if ptr {
		o := m.NewObj("recv", c.Prog.Named(typ), false)
		recv = pe.Val{K: pe.Addr, Obj: o}
	} else {
		m.NewObj("dummy", types.Typ[types.Int], false)
		recv = pe.U
	}
	hdrT := c.Prog.Named("Header")
	st := hdrT.Underlying().(*types.Struct)
	fi := map[string]int{}
	for i := 0; i < st.NumFields(); i++ {
		fi[st.Field(i).Name()] = i
	}
	viaHeader := false
	m.Hooks.Call = func(m *pe.Machine, call ssa.CallInstruction, callee *ssa.Function, args []pe.Val) (bool, pe.Val) {
		if callee != nil && callee == hm && len(args) > 0 {
			h := args[0]
			if h.K == pe.Struct {
				pt, cnt := h.Fields[fi["Type"]], h.Fields[fi["Count"]]
				k := spec.PTFMT{PT: -1, FMT: -1}
				if pt.K == pe.Int {
					k.PT = int(pt.I)
				}
				if cnt.K == pe.Int {
					k.FMT = int(cnt.I)
				}
				kinds[k] = true
				viaHeader = true
			} else {
				kinds[spec.PTFMT{PT: -1, FMT: -1}] = true
			}
			// do not inline: result unknown bytes, error unknown
			return true, pe.Val{K: pe.Tuple, Fields: []pe.Val{pe.U, pe.U}}
		}
		return false, pe.U
	}
	res := runPE(c, m, fn, []pe.Val{recv})
	if viaHeader {
		return kinds, "Header value passed to Header.Marshal", nil
	}
	// constant bytes in the returned buffer
	for _, o := range res.Returns {
		if len(o.Vals) != 2 || o.Vals[1].K == pe.NonNil {
			continue
		}
		buf := o.Vals[0]
		if buf.K != pe.Slice || buf.Off != 0 {
			kinds[spec.PTFMT{PT: -1, FMT: -1}] = true
			continue
		}
		b0 := o.Load(pe.Val{K: pe.Addr, Obj: buf.Obj, Path: buf.Path + "[0]"}, types.Typ[types.Byte])
		b1 := o.Load(pe.Val{K: pe.Addr, Obj: buf.Obj, Path: buf.Path + "[1]"}, types.Typ[types.Byte])
		k := spec.PTFMT{PT: -1, FMT: -1}
		if b1.K == pe.Int {
			k.PT = int(b1.I)
		}
		if b0.K == pe.Int {
			k.FMT = int(b0.I) & 0x1f
		}
		kinds[k] = true
	}
	return kinds, "constant bytes 0/1 of the returned buffer", nil
}

func checkC07(c *Ctx) {
	r := c.Rep
	p := c.Prog
	r.Explain = "Finite, fully static table comparison. The decision structure of `unmarshal` and of every (*T).Unmarshal is evaluated by constant propagation with path splitting over the whole (P,FMT,PT) domain (2*32*256 points; every other byte, the length and all other conditions are Unknown and explored both ways), and compared with the IANA registry table in checker/spec."
	r.RuleText = "C07-TAB: for each (PT,FMT) the set of types whose decoder `unmarshal` can invoke is exactly {registry(PT,FMT)}; C07-SELF: the (PT,FMT) constants each Marshal puts in its header dispatch back to the same type; C07-GRD: for each decoder T and each (PT,FMT) not registered for T no path returns a nil error, and for T's own kind some path does; C07-RAW: RawPacket.Unmarshal stores the parameter slice itself."
	r.Trusted = []string{"go/types + go/ssa construction (x/tools v0.29.0)", "pe evaluator transfer functions (checker/pe, unit-tested)", "registry table checker/spec/registry.go (IANA)", "Header field names Type/Count (anchor)", "package-level error variables are non-nil (C18-GLOB)"}
	r.Assume = []string{"RTP version bits are 10 (the property speaks about well-formed packets); both values of the padding bit are enumerated"}

	// ---- anchors
	un := p.Func("unmarshal")
	if un == nil {
		r.Fatalf("unresolved anchor: func unmarshal")
		return
	}
	impl := p.ImplementsPacket()
	implSet := map[string]bool{}
	for _, t := range impl {
		implSet[t] = true
	}
	for _, t := range core.PacketTypes {
		if !implSet[t] {
			r.Fatalf("unresolved anchor: packet type %s does not exist or does not implement Packet", t)
		}
	}
	for _, t := range impl {
		known := false
		for _, k := range core.PacketTypes {
			if k == t {
				known = true
			}
		}
		if !known {
			r.Fatalf("packet type %s implements Packet but is not in the property's type list: the registry comparison would be incomplete", t)
		}
	}

	// ---- C07-TAB
	r.Floor("C07-TAB", 15)
	tab := dispatchTable(c, un)
	// group rows for readable obligations: one obligation per PT (FMT-insensitive) or per (PT,FMT)
	reached := map[string]bool{}
	for pt := 0; pt < 256; pt++ {
		uniform := true
		first := setStr(tab[[2]int{pt, 0}])
		wantUniform := spec.TypeFor(pt, 0)
		for f := 0; f < 32; f++ {
			if setStr(tab[[2]int{pt, f}]) != first || spec.TypeFor(pt, f) != wantUniform {
				uniform = false
			}
		}
		if uniform {
			want := "{" + wantUniform + "}"
			key := fmt.Sprintf("unmarshal/PT=%d/FMT=*", pt)
			r.Check(first == want, "C07-TAB", key, p.Pos(un.Pos()), "dispatches to "+first, fmt.Sprintf("dispatches to %s, registry says %s", first, want))
			for t := range tab[[2]int{pt, 0}] {
				reached[t] = true
			}
			continue
		}
		for f := 0; f < 32; f++ {
			got := setStr(tab[[2]int{pt, f}])
			want := "{" + spec.TypeFor(pt, f) + "}"
			key := fmt.Sprintf("unmarshal/PT=%d/FMT=%d", pt, f)
			r.Check(got == want, "C07-TAB", key, p.Pos(un.Pos()), "dispatches to "+got, fmt.Sprintf("dispatches to %s, registry says %s", got, want))
			for t := range tab[[2]int{pt, f}] {
				reached[t] = true
			}
		}
	}
	for t := range reached {
		r.Anchor("C07-TAB", t)
	}

	// ---- C07-VER (thorough tier): with version bits 0, 1 or 3 no decoder is ever invoked
	if c.Tier == "thorough" {
		var mu sync.Mutex
		bad := map[int]int{}
		parallelFor(256, func(pt int) {
			for v := 0; v < 4; v++ {
				if v == 2 {
					continue
				}
				for fmtv := 0; fmtv < 32; fmtv++ {
					for pb := 0; pb < 2; pb++ {
						m := newPE(c)
						raw := rawInput(m, v<<6|pb<<5|fmtv, pt)
						invoked := false
						m.Hooks.Call = func(m *pe.Machine, call ssa.CallInstruction, callee *ssa.Function, args []pe.Val) (bool, pe.Val) {
							cc := call.Common()
							if cc.IsInvoke() && cc.Method.Name() == "Unmarshal" {
								invoked = true
								return true, pe.U
							}
							return false, pe.U
						}
						runPE(c, m, un, []pe.Val{raw})
						if invoked {
							mu.Lock()
							bad[v]++
							mu.Unlock()
						}
					}
				}
			}
		})
		for _, v := range []int{0, 1, 3} {
			r.Check(bad[v] == 0, "C07-VER", fmt.Sprintf("unmarshal/version-%d-reaches-no-decoder", v), p.Pos(un.Pos()),
				"for all 2x32x256 header values with this version no decoder is invoked", fmt.Sprintf("%d header values with version %d reach a decoder", bad[v], v))
		}
	}
	// ---- C07-SELF
	r.Floor("C07-SELF", 13)
	exempt := map[string]string{
		"TransportLayerCC": "header is caller-supplied (property text)",
		"RawPacket":        "container: bytes are caller-supplied",
		"CompoundPacket":   "container",
	}
	for _, t := range core.PacketTypes {
		if why, ok := exempt[t]; ok {
			r.Infof("C07-SELF: %s exempt: %s", t, why)
			continue
		}
		fn, _ := p.Method(t, "Marshal")
		pos := "-"
		if fn != nil {
			pos = p.Pos(fn.Pos())
		}
		kinds, how, err := emittedKinds(c, t)
		key := t + ".Marshal/header-kind"
		if err == nil && len(kinds) > 0 {
			var ks []string
			for k := range kinds {
				ks = append(ks, fmt.Sprintf("%d/%d", k.PT, k.FMT))
			}
			sort.Strings(ks)
			key += "[" + strings.Join(ks, ",") + "]"
		}
		if err != nil {
			r.Unk("C07-SELF", key, pos, err.Error())
			continue
		}
		if len(kinds) == 0 {
			r.Unk("C07-SELF", key, pos, "no header emission found on any successful path")
			continue
		}
		r.Anchor("C07-SELF", t)
		ok := true
		var desc []string
		for k := range kinds {
			desc = append(desc, fmt.Sprintf("(PT=%d,FMT=%d)", k.PT, k.FMT))
			if k.PT < 0 {
				ok = false
				continue
			}
			for f := 0; f < 32; f++ {
				if k.FMT >= 0 && f != k.FMT {
					continue
				}
				got := tab[[2]int{k.PT, f}]
				if len(got) != 1 || !got[t] {
					ok = false
				}
				if spec.TypeFor(k.PT, f) != t {
					ok = false
				}
			}
		}
		sort.Strings(desc)
		r.Check(ok, "C07-SELF", key, pos,
			fmt.Sprintf("emits %s (%s): dispatched back to %s and registered for it", strings.Join(desc, " "), how, t),
			fmt.Sprintf("emits %s (%s): not dispatched back to %s / not its registered kind (-1 = not a constant)", strings.Join(desc, " "), how, t))
	}

	// ---- C07-GRD
	r.Floor("C07-GRD", 14)
	for _, t := range core.PacketTypes {
		if t == "RawPacket" || t == "CompoundPacket" {
			continue
		}
		fn := p.Func("*" + t + ".Unmarshal")
		if fn == nil {
			r.Fatalf("unresolved anchor: (*%s).Unmarshal", t)
			continue
		}
		r.Anchor("C07-GRD", t)
		own := map[[2]int]bool{}
		for _, k := range spec.KindsOf(t) {
			for f := 0; f < 32; f++ {
				if k.FMT < 0 || k.FMT == f {
					own[[2]int{k.PT, f}] = true
				}
			}
		}
		foreign := map[[2]int]bool{}
		ownAccepted := map[[2]int]bool{}
		var mu sync.Mutex
		parallelFor(256, func(pt int) {
			for f := 0; f < 32; f++ {
				for pb := 0; pb < 2; pb++ {
					m := newPE(c)
					raw := rawInput(m, 0x80|pb<<5|f, pt)
					ro := m.NewObj("recv", p.Named(t), true)
					res := runPE(c, m, fn, []pe.Val{{K: pe.Addr, Obj: ro}, raw})
					acc := false
					for _, o := range res.Returns {
						if len(o.Vals) != 1 {
							continue
						}
						if o.Vals[0].K == pe.Nil || o.Vals[0].K == pe.Unknown {
							acc = true
						}
					}
					if acc {
						mu.Lock()
						if own[[2]int{pt, f}] {
							ownAccepted[[2]int{pt, f}] = true
						} else {
							foreign[[2]int{pt, f}] = true
						}
						mu.Unlock()
					}
				}
			}
		})
		pos := p.Pos(fn.Pos())
		// The accepted foreign set is part of the obligation key, so a known
		// finding names exactly which foreign kinds are accepted.
		summary := kindSetSummary(foreign)
		key := "(*" + t + ").Unmarshal/rejects-foreign"
		if summary != "" {
			key += "[accepts " + summary + "]"
		}
		r.Check(len(foreign) == 0, "C07-GRD", key, pos,
			fmt.Sprintf("no nil-error return is reachable for any of the %d foreign (PT,FMT) pairs (both padding-bit values)", 256*32-len(own)),
			"a nil-error return is reachable for foreign kinds PT:{FMTs} = "+summary)
		missing := 0
		for k := range own {
			if !ownAccepted[k] {
				missing++
			}
		}
		r.Check(missing == 0, "C07-GRD", "(*"+t+").Unmarshal/accepts-own", pos,
			fmt.Sprintf("a nil-error return is reachable for each of its %d own (PT,FMT) pairs", len(own)),
			fmt.Sprintf("%d of its own (PT,FMT) pairs can never be accepted", missing))
	}

	// ---- C07-RAW
	r.Floor("C07-RAW", 1)
	if fn := p.Func("*RawPacket.Unmarshal"); fn == nil {
		r.Fatalf("unresolved anchor: (*RawPacket).Unmarshal")
	} else {
		r.Anchor("C07-RAW", "RawPacket")
		m := newPE(c)
		raw := rawInput(m, 0x80, 0)
		ro := m.NewObj("recv", p.Named("RawPacket"), true)
		res := runPE(c, m, fn, []pe.Val{{K: pe.Addr, Obj: ro}, raw})
		okAll, n := true, 0
		for _, o := range res.Returns {
			if len(o.Vals) != 1 || o.Vals[0].K == pe.NonNil {
				continue
			}
			n++
			v := o.Load(pe.Val{K: pe.Addr, Obj: ro}, p.Named("RawPacket"))
			if !(v.K == pe.Slice && v.Obj.ID == raw.Obj.ID && v.Off == 0 && v.Len == raw.Len) {
				okAll = false
			}
		}
		r.Check(okAll && n > 0, "C07-RAW", "(*RawPacket).Unmarshal/stores-parameter", p.Pos(fn.Pos()),
			fmt.Sprintf("on all %d possibly-successful paths *r is the parameter slice itself (same base, offset 0, same length)", n),
			"on some possibly-successful path *r is not the parameter slice itself (copy, re-slice or no store)")
	}
	r.NotCov("that the frame handed to RawPacket is the whole frame (C06-FRM) and that decoders of the own kind accept every well-formed body (value level)")
}
