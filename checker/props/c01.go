package props

import (
	"fmt"
	"go/types"
	"reflect"
	"sort"
	"strings"
	"sync"

	"golang.org/x/tools/go/ssa"

	"rtcpverif/core"
	"rtcpverif/num"
)

func init() { register("C01", "proof", checkC01) }

// runRoots analyses the given root functions with the numeric engine (each
// root in its own engine, in parallel) and merges the obligations by key.
type numResult struct {
	obls      map[string]*num.Obl
	order     []string
	universe  map[string]bool
	externals map[string]int
	recCuts   map[string]int
	sumRec    map[string]int
	exceeded  []string
	sums      map[*ssa.Function]*num.FnSummary
}

func newNumResult() *numResult {
	return &numResult{obls: map[string]*num.Obl{}, universe: map[string]bool{}, externals: map[string]int{}, recCuts: map[string]int{}, sumRec: map[string]int{}, sums: map[*ssa.Function]*num.FnSummary{}}
}

func (r *numResult) merge(e *num.Engine, root string) {
	for _, o := range e.SortedObls() {
		if old, ok := r.obls[o.Key]; ok {
			old.Seen += o.Seen
			old.Failed += o.Failed
			if old.FailCtx == "" {
				old.FailCtx = o.FailCtx
			}
			continue
		}
		c := *o
		r.obls[o.Key] = &c
		r.order = append(r.order, o.Key)
	}
	for f := range e.Universe {
		r.universe[core.FuncName(f)] = true
	}
	for k, v := range e.Externals {
		r.externals[k] += v
	}
	for k, v := range e.RecursionCuts {
		r.recCuts[k] += v
	}
	for k, v := range e.SummarisedRecursive {
		r.sumRec[k] += v
	}
	if e.Exceeded {
		r.exceeded = append(r.exceeded, root)
	}
	for f, s := range e.Summaries {
		r.sums[f] = s
	}
}

func newNumEngine(c *Ctx, sums map[*ssa.Function]*num.FnSummary) *num.Engine {
	e := num.NewEngine(c.Prog.SPkg, c.Prog.CallGraph())
	e.SpareOnReflectSet["packetBuffer"] = true
	if c.Tier == "thorough" {
		e.MaxSteps *= 4
		e.MaxDepth += 2
	}
	for f, s := range sums {
		e.Summaries[f] = s
	}
	return e
}

func runNumRoots(c *Ctx, res *numResult, specs []string, zeroRecv bool) {
	var mu sync.Mutex
	c.Prog.CallGraph() // build once before going parallel
	fns := make([]*ssa.Function, len(specs))
	for i, s := range specs {
		fns[i] = c.Prog.Func(s)
	}
	sums := map[*ssa.Function]*num.FnSummary{}
	mu.Lock()
	for f, s := range res.sums {
		sums[f] = s
	}
	mu.Unlock()
	parallelFor(len(specs), func(i int) {
		if fns[i] == nil {
			return
		}
		e := newNumEngine(c, sums)
		func() {
			defer func() {
				if r := recover(); r != nil {
					mu.Lock()
					c.Rep.Fatalf("analysis panic in root %s: %v", specs[i], r)
					mu.Unlock()
				}
			}()
			e.AnalyzeRoot(fns[i], num.RootOptions{ZeroReceiver: zeroRecv})
		}()
		mu.Lock()
		res.merge(e, specs[i])
		mu.Unlock()
	})
}

// report copies the merged obligations into the property report; rules in
// `skip` are handled by the caller.
func (r *numResult) report(c *Ctx, skip map[string]bool) {
	keys := append([]string{}, r.order...)
	sort.Strings(keys)
	for _, k := range keys {
		o := r.obls[k]
		if skip[o.Rule] {
			continue
		}
		key := strings.TrimPrefix(o.Key, o.Rule+"/")
		pos := c.Prog.Pos(o.Pos)
		if o.Failed == 0 {
			c.Rep.Ok(o.Rule, key, pos, fmt.Sprintf("%s (proved in %d context(s))", o.Detail, o.Seen))
		} else {
			c.Rep.Unk(o.Rule, key, pos, fmt.Sprintf("not entailed in %d of %d context(s); first: %s", o.Failed, o.Seen, o.FailCtx))
		}
	}
	for _, x := range r.exceeded {
		c.Rep.Fatalf("numeric engine step budget exceeded in root %s", x)
	}
}

func checkC01(c *Ctx) {
	r := c.Rep
	p := c.Prog
	r.Explain = "Abstract interpretation of every decode entry point with an UNCONSTRAINED input slice (any length, any bytes) and a zero receiver: linear constraints over the SSA values (constraint-based polyhedra with Fourier-Motzkin entailment, integer/congruence tightening, exact wrap-around of fixed-width arithmetic with value numbering, abstract memory for locals and the receiver, context-sensitive evaluation of package-local callees, widening with thresholds). Every index, slice, binary.BigEndian access, nil dereference, division, type assertion, loop and allocation in the reachable universe generates an obligation that must be entailed at that instruction in every calling context; an undecided one fails the check."
	r.RuleText = "B-IDX 0<=i<len; B-SLC 0<=low<=high<=LEN (length, not capacity); B-BIN len(arg)>=N/8; B-NIL non-nil pointer/interface; B-DIV divisor!=0; B-TAS comma-ok assertions only; B-CNV no unsafe/3-index/defer/go; B-EXT only externals of the trusted table; B-RFL reflect calls with a precondition are dominated by their guard; T-LOOP every loop has a strictly monotone bounded variant; T-REC loops over the recursive reflection reader: type-shape rule (element wire size >= 1, acyclic type graph); M-ALLOC every single allocation is bounded by 65552 elements or by the input length, and every loop that may allocate has a trip count bounded by 2^16+64 or 4*len(input)+64."
	r.Trusted = []string{"go/packages+go/types+go/ssa (x/tools v0.29.0), VTA call graph", "numeric engine checker/num (transfer functions, Fourier-Motzkin entailment)", "model of encoding/binary, bytes, fmt, errors, math, reflect in num/calls.go (binary.BigEndian.UintN needs len>=N/8 and does not write; reflect setters write only the memory their Value designates)", "spec of Go run-time panics"}
	r.Assume = []string{
		"decoder receivers are zero values and non-nil (new(T) / var p T, which is what rtcp.Unmarshal does); a re-used receiver is outside the property",
		"no slice or string is longer than 2^50 elements; arithmetic in Go's 64-bit int/uint on values derived from lengths and small counters does not overflow (32-bit platforms: not covered in the quick tier)",
		"package-level error variables are non-nil (C18-GLOB: written only by the initialiser)",
	}
	r.NotCov("stack depth of fmt, GC behaviour, wall-clock time")
	r.NotCov("M-ALLOC: amortised accounting across loop nests (a product of two individually bounded trip counts) is not decided; the TWCC counter wrap that once made this matter is decided as C13-NOWRAP")
	r.NotCov("XR reflection reader: allocation and progress of packetBuffer.read are decided by the type-shape rule T-REC, not by the numeric engine")

	roots := DecoderRoots()
	r.Floor("C01-ROOT", 24)
	var decoders, datagram []string
	for _, s := range roots {
		if p.Func(s) == nil {
			r.Fatalf("unresolved anchor: decode entry point %s", s)
			continue
		}
		r.Anchor("C01-ROOT", s)
		if s == "Unmarshal" || s == "*CompoundPacket.Unmarshal" {
			datagram = append(datagram, s)
		} else {
			decoders = append(decoders, s)
		}
	}
	res := newNumResult()
	runNumRoots(c, res, decoders, true)
	// every packet decoder must have a summary before the datagram level runs
	for _, t := range core.PacketTypes {
		if t == "CompoundPacket" {
			continue
		}
		if fn := p.Func("*" + t + ".Unmarshal"); fn != nil && res.sums[fn] == nil {
			r.Fatalf("no summary computed for (*%s).Unmarshal", t)
		}
	}
	runNumRoots(c, res, datagram, true)
	// self-recursive helpers were only summarised at their call sites: analyse
	// each as a root of its own with an unconstrained receiver and argument
	var recRoots []string
	for name := range res.sumRec {
		for _, f := range p.Funcs {
			if core.FuncName(f) == name {
				spec := strings.TrimSuffix(strings.Replace(strings.Replace(name, "(", "", 1), ")", "", 1), "")
				recRoots = append(recRoots, spec)
			}
		}
	}
	sort.Strings(recRoots)
	for _, s := range recRoots {
		if p.Func(s) == nil {
			r.Fatalf("cannot resolve summarised recursive function %s as a root", s)
		}
		r.Anchor("C01-RECROOT", s)
	}
	runNumRoots(c, res, recRoots, false)
	res.report(c, map[string]bool{"T-REC": true})

	// ---- universe evidence and floor
	var uni []string
	for f := range res.universe {
		uni = append(uni, f)
	}
	sort.Strings(uni)
	for _, f := range uni {
		r.Anchor("C01-UNIVERSE", f)
	}
	r.Floor("C01-UNIVERSE", 40)
	var ext []string
	for k := range res.externals {
		ext = append(ext, k)
	}
	sort.Strings(ext)
	r.Infof("universe: %d package functions reachable from the 24 roots; external callees met: %s", len(uni), strings.Join(ext, ", "))
	r.Infof("recursive calls summarised conservatively: %v", res.recCuts)

	// ---- T-REC: loops over the recursive reflection reader
	nrec := 0
	for _, k := range res.order {
		o := res.obls[k]
		if o.Rule != "T-REC" {
			continue
		}
		nrec++
		key := strings.TrimPrefix(o.Key, "T-REC/")
		ok, why := xrTypeShape(c, o.Fn)
		if ok {
			r.Ok("T-REC", key, p.Pos(o.Pos), why)
		} else {
			r.Unk("T-REC", key, p.Pos(o.Pos), why)
		}
	}
	// the reflect-setter aliasing assumption used by the engine
	ok, why := xrNoBufferInTypes(c)
	r.Check(ok, "B-RFL", "(*packetBuffer).read/type-graph-has-no-packetBuffer", "-", why, why)
	checkReflectGuards(c, "(*packetBuffer).read")
}

// ---- type-shape facts of the XR codec (engine E3)

// readArgTypes: the static types whose pointers reach packetBuffer.read at its
// non-recursive call sites.
func readArgTypes(c *Ctx) ([]types.Type, error) {
	p := c.Prog
	read := p.Func("*packetBuffer.read")
	if read == nil {
		return nil, fmt.Errorf("unresolved anchor: (*packetBuffer).read")
	}
	var out []types.Type
	seen := map[string]bool{}
	add := func(t types.Type) {
		if pt, ok := t.Underlying().(*types.Pointer); ok {
			t = pt.Elem()
		}
		if !seen[t.String()] {
			seen[t.String()] = true
			out = append(out, t)
		}
	}
	var collect func(v ssa.Value, depth int) error
	collect = func(v ssa.Value, depth int) error {
		if depth > 6 {
			return fmt.Errorf("argument of read too indirect")
		}
		switch x := v.(type) {
		case *ssa.MakeInterface:
			add(x.X.Type())
		case *ssa.ChangeInterface:
			return collect(x.X, depth+1)
		case *ssa.Phi:
			for _, e := range x.Edges {
				if err := collect(e, depth+1); err != nil {
					return err
				}
			}
		case *ssa.Const:
		case *ssa.Call:
			// a factory function of the package: the union over its returns
			g := x.Common().StaticCallee()
			if g == nil || g.Pkg != p.SPkg || g.Blocks == nil || g.Signature.Results().Len() != 1 {
				return fmt.Errorf("argument of read is %s: static type set unknown", v)
			}
			for _, b := range g.Blocks {
				if ret, ok := b.Instrs[len(b.Instrs)-1].(*ssa.Return); ok {
					if err := collect(ret.Results[0], depth+1); err != nil {
						return err
					}
				}
			}
		default:
			return fmt.Errorf("argument of read is %s: static type set unknown", v)
		}
		return nil
	}
	for _, fn := range p.Funcs {
		if fn == read {
			continue
		}
		for _, b := range fn.Blocks {
			for _, in := range b.Instrs {
				call, ok := in.(*ssa.Call)
				if !ok || call.Common().Value != ssa.Value(read) {
					continue
				}
				if err := collect(call.Common().Args[1], 0); err != nil {
					return nil, fmt.Errorf("%s: %v", p.Pos(call.Pos()), err)
				}
			}
		}
	}
	if len(out) < 3 {
		return nil, fmt.Errorf("only %d argument types of read found (expected *uint32, *XRHeader and the report block types)", len(out))
	}
	return out, nil
}

type shapeInfo struct {
	minWire  map[string]int // minimal wire size of a type in bytes
	problems []string
	types    []string
}

// wireShape walks the type graph the way packetBuffer.read does.
func wireShape(ts []types.Type) *shapeInfo {
	si := &shapeInfo{minWire: map[string]int{}}
	onPath := map[string]bool{}
	var walk func(t types.Type) int
	walk = func(t types.Type) int {
		k := t.String()
		if v, ok := si.minWire[k]; ok {
			return v
		}
		if onPath[k] {
			si.problems = append(si.problems, "cyclic type "+k)
			return 0
		}
		onPath[k] = true
		defer func() { onPath[k] = false }()
		size := 0
		switch u := t.Underlying().(type) {
		case *types.Basic:
			switch u.Kind() {
			case types.Uint8:
				size = 1
			case types.Uint16:
				size = 2
			case types.Uint32:
				size = 4
			case types.Uint64:
				size = 8
			default:
				si.problems = append(si.problems, "kind "+u.Name()+" (in "+k+") is not handled by the reader (it returns an error, no bytes consumed)")
			}
		case *types.Struct:
			for i := 0; i < u.NumFields(); i++ {
				tag := reflect.StructTag(u.Tag(i)).Get("encoding")
				if tag == "omit" {
					continue
				}
				f := u.Field(i)
				if !f.Exported() {
					// skipped by Type().Size()
					if b, ok := f.Type().Underlying().(*types.Basic); ok {
						switch b.Kind() {
						case types.Uint8:
							size++
						case types.Uint16:
							size += 2
						case types.Uint32:
							size += 4
						case types.Uint64:
							size += 8
						}
					}
					continue
				}
				size += walk(f.Type())
			}
		case *types.Slice:
			es := walk(u.Elem())
			if es < 1 {
				si.problems = append(si.problems, fmt.Sprintf("slice %s has elements of wire size %d: reading it makes no progress", k, es))
			}
			size = 0
		case *types.Pointer:
			size = walk(u.Elem())
		case *types.Interface:
			si.problems = append(si.problems, "interface-typed member in "+k)
		default:
			si.problems = append(si.problems, fmt.Sprintf("member type %s not handled by the reader", k))
		}
		si.minWire[k] = size
		si.types = append(si.types, k)
		return size
	}
	for _, t := range ts {
		walk(t)
	}
	return si
}

func xrTypeShape(c *Ctx, fn string) (bool, string) {
	if fn != "(*packetBuffer).read" {
		return false, "loop over a recursive call in " + fn + ": no type-shape rule for this function"
	}
	ts, err := readArgTypes(c)
	if err != nil {
		return false, err.Error()
	}
	si := wireShape(ts)
	var bad []string
	for _, pr := range si.problems {
		if strings.Contains(pr, "makes no progress") || strings.Contains(pr, "cyclic") {
			bad = append(bad, pr)
		}
	}
	if len(bad) > 0 {
		return false, "type-shape rule T-XR fails: " + strings.Join(bad, "; ")
	}
	return true, fmt.Sprintf("type-shape rule T-XR: the %d types reachable from read's arguments form an acyclic graph and every slice element type has wire size >= 1, so each successful recursive read consumes >= 1 byte of the (never growing, B-SLC-checked) buffer; allocations are bounded by the bytes consumed", len(si.types))
}

func xrNoBufferInTypes(c *Ctx) (bool, string) {
	ts, err := readArgTypes(c)
	if err != nil {
		return false, err.Error()
	}
	si := wireShape(ts)
	for _, t := range si.types {
		if strings.HasSuffix(t, ".packetBuffer") {
			return false, "packetBuffer is reachable from the types handed to read: a reflect setter could modify the reader's own buffer"
		}
	}
	return true, fmt.Sprintf("none of the %d types reachable from read's arguments is packetBuffer: reflect setters cannot modify the reader's buffer header", len(si.types))
}

// ---- B-RFL: reflect calls with a precondition are dominated by their guard

type cond struct {
	v       ssa.Value
	outcome bool
}

// dominatingConds lists the branch conditions that must hold to reach b.
func dominatingConds(b *ssa.BasicBlock) []cond {
	var out []cond
	for cur := b; cur.Idom() != nil; cur = cur.Idom() {
		d := cur.Idom()
		iff, ok := d.Instrs[len(d.Instrs)-1].(*ssa.If)
		if !ok {
			continue
		}
		// cur is reached only through one of the successors?
		t, f := d.Succs[0], d.Succs[1]
		if t != f {
			// the edge d->s dominates cur when s has d as its only predecessor and s dominates cur
			if onlyEntry(t, d) && t.Dominates(cur) {
				out = append(out, cond{iff.Cond, true})
			} else if onlyEntry(f, d) && f.Dominates(cur) {
				out = append(out, cond{iff.Cond, false})
			}
		}
	}
	return out
}

// onlyEntry: d is the only predecessor of s that s does not dominate (other predecessors are back
// edges of a loop headed by s), so s can only be entered from outside through the edge d->s.
func onlyEntry(s, d *ssa.BasicBlock) bool {
	for _, p := range s.Preds {
		if p != d && !s.Dominates(p) {
			return false
		}
	}
	return true
}

func calleeName(call *ssa.Call) string {
	c := call.Common()
	if c.IsInvoke() {
		return "invoke " + c.Method.FullName()
	}
	if f, ok := c.Value.(*ssa.Function); ok {
		return f.String()
	}
	return ""
}

// isCallOf: v is a call of the named reflect function whose receiver is recv (nil: any).
func isCallOf(v ssa.Value, name string, recv ssa.Value) bool {
	call, ok := v.(*ssa.Call)
	if !ok || calleeName(call) != name {
		return false
	}
	if recv == nil {
		return true
	}
	args := call.Common().Args
	return len(args) > 0 && sameCallValue(args[0], recv)
}

// sameCallValue: a and b are the same SSA value or two calls of the same
// function with identical arguments (value.Field(i) evaluated twice).
func sameCallValue(a, b ssa.Value) bool {
	if a == b {
		return true
	}
	ca, ok1 := a.(*ssa.Call)
	cb, ok2 := b.(*ssa.Call)
	if !ok1 || !ok2 || calleeName(ca) != calleeName(cb) || calleeName(ca) == "" {
		return false
	}
	aa, ab := ca.Common().Args, cb.Common().Args
	if len(aa) != len(ab) {
		return false
	}
	for i := range aa {
		if aa[i] != ab[i] {
			return false
		}
	}
	return true
}

func checkReflectGuards(c *Ctx, fnName string) {
	p := c.Prog
	r := c.Rep
	var fn *ssa.Function
	for _, f := range p.Funcs {
		if core.FuncName(f) == fnName {
			fn = f
		}
	}
	if fn == nil {
		r.Fatalf("unresolved anchor: %s", fnName)
		return
	}
	r.Anchor("B-RFL", fnName)
	kindUint := map[int64]bool{8: true, 9: true, 10: true, 11: true, 7: true} // reflect.Uint.. Uint64 (7..11)
	counts := map[string]int{}
	for _, b := range fn.Blocks {
		for _, in := range b.Instrs {
			call, ok := in.(*ssa.Call)
			if !ok {
				continue
			}
			name := calleeName(call)
			if !strings.Contains(name, "reflect") {
				continue
			}
			args := call.Common().Args
			var recv ssa.Value
			if len(args) > 0 {
				recv = args[0]
			}
			conds := dominatingConds(b)
			hasKind := func(kinds func(int64) bool, on ssa.Value) bool {
				for _, cd := range conds {
					bo, ok := cd.v.(*ssa.BinOp)
					if !ok || bo.Op.String() != "==" || !cd.outcome {
						continue
					}
					k, ok := bo.Y.(*ssa.Const)
					if !ok || !isCallOf(bo.X, "(reflect.Value).Kind", on) {
						continue
					}
					if kinds(k.Int64()) {
						return true
					}
				}
				return false
			}
			hasTrue := func(method string, on ssa.Value) bool {
				for _, cd := range conds {
					if cd.outcome && isCallOf(cd.v, method, on) {
						return true
					}
				}
				return false
			}
			counts[name]++
			key := fmt.Sprintf("%s/%s#%d", fnName, name, counts[name])
			pos := p.Pos(call.Pos())
			switch name {
			case "(reflect.Value).SetUint":
				r.Check(hasKind(func(k int64) bool { return kindUint[k] }, recv), "B-RFL", key, pos, "under a Kind()==UintN case of the same Value", "SetUint is not dominated by a Kind()==UintN test of the same Value: it panics for other kinds")
			case "(reflect.Value).Set":
				r.Check(hasTrue("(reflect.Value).CanSet", recv), "B-RFL", key, pos, "under CanSet() of the same Value", "Set is not dominated by CanSet() of the same Value")
			case "(reflect.Value).Interface":
				okI := hasTrue("(reflect.Value).CanInterface", recv) || isCallOf(recv, "reflect.New", nil) || isCallOf(recv, "reflect.NewAt", nil)
				// value obtained from an interface-kind Value (guarded by Kind()==Interface)
				if !okI {
					okI = hasKind(func(k int64) bool { return k == 20 }, recv)
				}
				r.Check(okI, "B-RFL", key, pos, "under CanInterface() / Kind()==Interface, or on a value made by reflect.New/NewAt", "Interface() is not dominated by CanInterface() of the same Value")
			case "(reflect.Value).UnsafeAddr":
				// addressable: a field (Field(i) of the same struct Value, possibly a second
				// structurally identical call) of the value obtained by dereferencing the
				// pointer argument, whose Kind()==Ptr test dominates
				okU := hasTrue("(reflect.Value).CanInterface", recv) || hasTrue("(reflect.Value).CanAddr", recv)
				if !okU {
					for _, cd := range conds {
						if cd.outcome {
							if g, ok := cd.v.(*ssa.Call); ok && calleeName(g) == "(reflect.Value).CanInterface" && sameCallValue(g.Common().Args[0], recv) {
								okU = true
							}
						}
					}
				}
				ptrChecked := false
				for _, cd := range conds {
					if bo, ok := cd.v.(*ssa.BinOp); ok && !cd.outcome && bo.Op.String() == "!=" {
						if k, ok := bo.Y.(*ssa.Const); ok && k.Int64() == 22 && isCallOf(bo.X, "(reflect.Value).Kind", nil) {
							ptrChecked = true
						}
					}
				}
				r.Check(okU && ptrChecked, "B-RFL", key, pos, "field of the dereferenced pointer argument (Kind()==Ptr checked), under CanInterface() of the same field", "UnsafeAddr on a possibly non-addressable Value")
			case "(reflect.Value).Field", "(reflect.Value).NumField":
				r.Check(hasKind(func(k int64) bool { return k == 25 }, recv), "B-RFL", key, pos, "under Kind()==Struct of the same Value", name+" is not dominated by Kind()==Struct")
			case "(reflect.Value).Len", "(reflect.Value).Index":
				r.Check(hasKind(func(k int64) bool { return k == 23 || k == 17 || k == 24 }, recv), "B-RFL", key, pos, "under Kind()==Slice of the same Value", name+" is not dominated by Kind()==Slice")
			case "(reflect.Value).Uint":
				r.Check(hasKind(func(k int64) bool { return kindUint[k] }, recv), "B-RFL", key, pos, "under a Kind()==UintN case", "Uint() is not dominated by a Kind()==UintN test")
			case "invoke reflect.Type.Elem":
				// Type().Elem() of the value under Kind()==Slice
				okE := false
				if tc, ok := recv.(*ssa.Call); ok || true {
					_ = tc
					for _, cd := range conds {
						bo, ok := cd.v.(*ssa.BinOp)
						if ok && cd.outcome && bo.Op.String() == "==" {
							if k, ok := bo.Y.(*ssa.Const); ok && (k.Int64() == 23 || k.Int64() == 22 || k.Int64() == 17) {
								okE = true
							}
						}
					}
				}
				r.Check(okE, "B-RFL", key, pos, "under Kind()==Slice", "Type().Elem() is not dominated by a Kind()==Slice/Ptr/Array test")
			case "invoke reflect.Type.Field":
				okF := false
				for _, cd := range conds {
					bo, ok := cd.v.(*ssa.BinOp)
					if ok && cd.outcome && bo.Op.String() == "==" {
						if k, ok := bo.Y.(*ssa.Const); ok && k.Int64() == 25 {
							okF = true
						}
					}
				}
				r.Check(okF, "B-RFL", key, pos, "under Kind()==Struct", "Type().Field(i) is not dominated by Kind()==Struct")
			case "(reflect.Value).Call":
				// checked by C17 / C18 (MethodByName("String").Call(nil) under IsValid())
				r.Check(hasTrue("(reflect.Value).IsValid", recv), "B-RFL", key, pos, "under IsValid() of the method Value", "Call on a possibly invalid method Value")
			default:
				// total functions: ValueOf, Indirect, Kind, Type, New, NewAt, Append (slice kind checked above via Set), CanSet, CanInterface, Tag.Get, Size, ...
				counts[name]--
			}
		}
	}
	_ = types.Typ
}
