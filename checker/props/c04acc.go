package props

import (
	"fmt"
	"go/types"
	"sort"
	"strings"

	"golang.org/x/tools/go/ssa"

	"rtcpverif/pe"
)

// accShape is a set of inputs: a datagram of a fixed length whose listed octets have the given values and
// whose other octets are arbitrary.
type accShape struct {
	name   string
	dec    string // "*T.Unmarshal", or "Unmarshal" for the datagram decoder
	length int
	cells  map[int]int
	why    string
}

func text(at int, s string) map[int]int {
	m := map[int]int{}
	for i := 0; i < len(s); i++ {
		m[at+i] = int(s[i])
	}
	return m
}

func cells(ms ...map[int]int) map[int]int {
	out := map[int]int{}
	for _, m := range ms {
		for k, v := range m {
			out[k] = v
		}
	}
	return out
}

func hdr(b0, pt, words int) map[int]int {
	return map[int]int{0: b0, 1: pt, 2: words >> 8, 3: words & 0xff}
}

// c04Shapes: RFC-valid encodings at the edges of the grammar (C04's list: padded APP packets, BYE with and
// without a reason, empty lists, unknown XR blocks, minimal feedback packets). Every octet that is not
// listed is arbitrary, so each entry stands for all packets of that shape.
var c04Shapes = []accShape{
	{"APP/whole-payload-is-padding", "*ApplicationDefined.Unmarshal", 16, cells(hdr(0xA0, 204, 3), map[int]int{15: 4}), "RFC 3550 6.7 + 5.1: P=1, the last octet counts the padding octets, which may be all octets after the name (empty data)"},
	{"APP/one-padding-octet", "*ApplicationDefined.Unmarshal", 16, cells(hdr(0xA0, 204, 3), map[int]int{15: 1}), "three data octets and one padding octet"},
	{"APP/no-data", "*ApplicationDefined.Unmarshal", 12, hdr(0x80, 204, 2), "RFC 3550 6.7: application-dependent data is optional"},
	{"BYE/no-reason", "*Goodbye.Unmarshal", 8, hdr(0x81, 203, 1), "RFC 3550 6.6: the reason is optional"},
	{"BYE/with-reason", "*Goodbye.Unmarshal", 12, cells(hdr(0x81, 203, 2), map[int]int{8: 3}), "one source, a 3-octet reason"},
	{"BYE/no-sources", "*Goodbye.Unmarshal", 4, hdr(0x80, 203, 0), "RFC 3550 6.6: SC may be zero"},
	{"SR/no-reports", "*SenderReport.Unmarshal", 28, hdr(0x80, 200, 6), "RC = 0"},
	{"SR/one-report", "*SenderReport.Unmarshal", 52, hdr(0x81, 200, 12), "RC = 1"},
	{"SR/one-report-and-extension", "*SenderReport.Unmarshal", 56, hdr(0x81, 200, 13), "profile-specific extension of one word"},
	{"RR/no-reports", "*ReceiverReport.Unmarshal", 8, hdr(0x80, 201, 1), "RC = 0"},
	{"RR/one-report-and-extension", "*ReceiverReport.Unmarshal", 36, hdr(0x81, 201, 8), "RC = 1 and a profile-specific extension of one word"},
	{"SDES/no-chunks", "*SourceDescription.Unmarshal", 4, hdr(0x80, 202, 0), "SC = 0"},
	{"SDES/one-cname", "*SourceDescription.Unmarshal", 16, cells(hdr(0x81, 202, 3), map[int]int{8: 1, 9: 2, 12: 0, 13: 0, 14: 0, 15: 0}), "one chunk with a 2-octet CNAME, terminated and padded with null octets"},
	{"NACK/one-pair", "*TransportLayerNack.Unmarshal", 16, hdr(0x81, 205, 3), "one FCI entry"},
	{"RRR", "*RapidResynchronizationRequest.Unmarshal", 12, hdr(0x85, 205, 2), "RFC 6051: no FCI"},
	{"PLI", "*PictureLossIndication.Unmarshal", 12, hdr(0x81, 206, 2), "RFC 4585 6.3.1: no FCI"},
	{"FIR/one-entry", "*FullIntraRequest.Unmarshal", 20, hdr(0x84, 206, 4), "one FCI entry"},
	{"REMB/no-ssrc", "*ReceiverEstimatedMaximumBitrate.Unmarshal", 20, cells(hdr(0x8F, 206, 4), text(12, "REMB"), map[int]int{16: 0}), "Num SSRC = 0"},
	{"REMB/one-ssrc", "*ReceiverEstimatedMaximumBitrate.Unmarshal", 24, cells(hdr(0x8F, 206, 5), text(12, "REMB"), map[int]int{16: 1}), "Num SSRC = 1, any exponent and mantissa (unnormalised pairs included)"},
	{"CCFB/no-blocks", "*CCFeedbackReport.Unmarshal", 12, hdr(0x8B, 205, 2), "RFC 8888 3.1: sender SSRC and timestamp only"},
	{"CCFB/block-without-metrics", "*CCFeedbackReport.Unmarshal", 20, cells(hdr(0x8B, 205, 4), map[int]int{14: 0, 15: 0}), "one report block with num_reports = 0"},
	{"TWCC/run-length-chunk-one-small-delta", "*TransportLayerCC.Unmarshal", 24, cells(hdr(0xAF, 205, 5), map[int]int{14: 0, 15: 1, 20: 0x20, 21: 0x01, 23: 1}), "status count 1, one run-length chunk (received, small delta, run 1), one delta octet, one padding octet"},
	{"TWCC/two-bit-vector-chunk-one-small-delta", "*TransportLayerCC.Unmarshal", 24, cells(hdr(0xAF, 205, 5), map[int]int{14: 0, 15: 1, 20: 0xD0, 21: 0x00, 23: 1}), "the same status sequence as a two-bit status vector chunk (alternative chunking)"},
	{"TWCC/one-bit-vector-chunk-one-small-delta", "*TransportLayerCC.Unmarshal", 24, cells(hdr(0xAF, 205, 5), map[int]int{14: 0, 15: 1, 20: 0xA0, 21: 0x00, 23: 1}), "the same status sequence as a one-bit status vector chunk (alternative chunking)"},
	{"SLI/one-entry", "*SliceLossIndication.Unmarshal", 16, hdr(0x82, 205, 3), "one FCI entry (the packet type this library registers for SLI, finding F10)"},
	{"SR/31-reports", "*SenderReport.Unmarshal", 28 + 24*31, hdr(0x9F, 200, 6+6*31), "RC = 31, the maximum"},
	{"RR/31-reports", "*ReceiverReport.Unmarshal", 8 + 24*31, hdr(0x9F, 201, 1+6*31), "RC = 31, the maximum"},
	{"BYE/31-sources", "*Goodbye.Unmarshal", 4 + 4*31, hdr(0x9F, 203, 31), "SC = 31, the maximum"},
	{"BYE/255-octet-reason", "*Goodbye.Unmarshal", 8 + 256, cells(hdr(0x81, 203, 1+64), map[int]int{8: 255}), "one source and a reason of the maximal length"},
	{"SDES/two-chunks", "*SourceDescription.Unmarshal", 28, cells(hdr(0x82, 202, 6), map[int]int{8: 1, 9: 2, 12: 0, 13: 0, 14: 0, 15: 0, 20: 1, 21: 2, 24: 0, 25: 0, 26: 0, 27: 0}), "two chunks, each with a 2-octet CNAME and a terminating word"},
	{"SDES/empty-chunk", "*SourceDescription.Unmarshal", 12, cells(hdr(0x81, 202, 2), map[int]int{8: 0, 9: 0, 10: 0, 11: 0}), "a chunk without items: the SSRC followed by a null word"},
	{"NACK/two-pairs", "*TransportLayerNack.Unmarshal", 20, hdr(0x81, 205, 4), "two FCI entries"},
	{"FIR/two-entries", "*FullIntraRequest.Unmarshal", 28, hdr(0x84, 206, 6), "two FCI entries"},
	{"REMB/255-ssrcs", "*ReceiverEstimatedMaximumBitrate.Unmarshal", 20 + 4*255, cells(hdr(0x8F, 206, 4+255), text(12, "REMB"), map[int]int{16: 255}), "Num SSRC = 255, the maximum"},
	{"CCFB/block-with-two-metrics", "*CCFeedbackReport.Unmarshal", 24, cells(hdr(0x8B, 205, 5), map[int]int{14: 0, 15: 1}), "one report block whose count field announces two metric blocks (this library's n-1 convention, finding F16)"},
	{"XR/no-blocks", "*ExtendedReport.Unmarshal", 8, hdr(0x80, 207, 1), "RFC 3611 2: zero report blocks"},
	{"XR/unknown-block", "*ExtendedReport.Unmarshal", 16, cells(hdr(0x80, 207, 3), map[int]int{8: 99, 10: 0, 11: 1}), "RFC 3611 3: a block of an unrecognised type with one word of content is skipped by its length, here returned as an opaque block"},
	{"datagram/padded-APP-then-PLI", "Unmarshal", 28, cells(hdr(0xA0, 204, 3), map[int]int{15: 4, 16: 0x81, 17: 206, 18: 0, 19: 2}), "two well-framed packets; the first one carries padding (C06: each frame is decoded from its own octets only)"},
	{"datagram/RR-then-SDES", "Unmarshal", 24, cells(hdr(0x80, 201, 1), map[int]int{8: 0x81, 9: 202, 10: 0, 11: 3, 16: 1, 17: 2, 20: 0, 21: 0, 22: 0, 23: 0}), "a minimal compound packet"},
}

// c04Accept (rule C04-ACC): for each shape the decoder is evaluated by the conditional constant propagator
// on the whole set of inputs of that shape (listed octets and the length known, everything else unknown,
// both outcomes of every undecided branch followed). If every reachable return carries a non-nil error,
// every input of the shape is rejected: a valid encoding the decoder cannot accept. The rule decides
// rejection, not acceptance: a shape that reaches a nil-error return for some contents passes.
func c04Accept(c *Ctx) { acceptShapes(c, "C04-ACC", c04Shapes) }

// c16Shapes: corner values of the fixed-width units of C16. A unit decoder may reject only what the
// property lets it reject (a header with a version other than 2 or fewer than four octets, a slice of the
// wrong length); every bit pattern the unit's encoder can emit must decode.
var c16Shapes = []accShape{
	{"Header/padding-bit-with-zero-length", "*Header.Unmarshal", 4, map[int]int{0: 0xA0, 2: 0, 3: 0}, "Header.Marshal emits a0 xx 00 00 for {Padding: true, Length: 0}"},
	{"Header/zero-length", "*Header.Unmarshal", 4, map[int]int{0: 0x80, 2: 0, 3: 0}, "a header-only packet (empty BYE, empty SDES)"},
	{"Header/all-ones", "*Header.Unmarshal", 4, map[int]int{0: 0xBF, 1: 0xFF, 2: 0xFF, 3: 0xFF}, "padding, count 31, type 255, length 65535"},
	{"Header/any-version-2", "*Header.Unmarshal", 4, map[int]int{0: 0x80}, "only the version bits are fixed"},
	{"RunLengthChunk/zero", "*RunLengthChunk.Unmarshal", 2, map[int]int{0: 0x00, 1: 0x00}, "symbol 0, run length 0"},
	{"RunLengthChunk/max", "*RunLengthChunk.Unmarshal", 2, map[int]int{0: 0x7F, 1: 0xFF}, "symbol 3, run length 8191"},
	{"StatusVectorChunk/one-bit-all-set", "*StatusVectorChunk.Unmarshal", 2, map[int]int{0: 0xBF, 1: 0xFF}, "fourteen one-bit symbols, all 1"},
	{"StatusVectorChunk/two-bit-all-set", "*StatusVectorChunk.Unmarshal", 2, map[int]int{0: 0xFF, 1: 0xFF}, "seven two-bit symbols, all 3"},
	{"RecvDelta/small-max", "*RecvDelta.Unmarshal", 1, map[int]int{0: 0xFF}, "255 ticks"},
	{"RecvDelta/large-min", "*RecvDelta.Unmarshal", 2, map[int]int{0: 0x80, 1: 0x00}, "-32768 ticks"},
	{"ReceptionReport/max-lost", "*ReceptionReport.Unmarshal", 24, map[int]int{4: 0xFF, 5: 0xFF, 6: 0xFF, 7: 0xFF}, "fraction lost 255, cumulative lost 2^24-1"},
	{"CCFeedbackMetricBlock/all-ones", "*CCFeedbackMetricBlock.unmarshal", 2, map[int]int{0: 0xFF, 1: 0xFF}, "received, ECN 3, offset 0x1FFF"},
	{"CCFeedbackMetricBlock/zero", "*CCFeedbackMetricBlock.unmarshal", 2, map[int]int{0: 0x00, 1: 0x00}, "not received"},
}

func c16Accept(c *Ctx) { acceptShapes(c, "C16-ACC", c16Shapes) }

func acceptShapes(c *Ctx, rule string, shapes []accShape) {
	r := c.Rep
	p := c.Prog
	for _, sh := range shapes {
		fn := p.Func(sh.dec)
		if fn == nil {
			r.Fatalf("unresolved anchor: %s", sh.dec)
			continue
		}
		r.Anchor(rule, sh.name)
		key := sh.name + "/not-rejected-on-every-path"
		pos := p.Pos(fn.Pos())
		m := newPE(c)
		o := m.NewObj("raw", types.NewArray(types.Typ[types.Byte], int64(sh.length)), false)
		var idx []int
		for i := range sh.cells {
			idx = append(idx, i)
		}
		sort.Ints(idx)
		var desc []string
		for _, i := range idx {
			m.SetCell(o, fmt.Sprintf("[%d]", i), pe.IntV(int64(sh.cells[i])))
			desc = append(desc, fmt.Sprintf("%d:%#x", i, sh.cells[i]))
		}
		ln := pe.IntV(int64(sh.length))
		raw := pe.Val{K: pe.Slice, Obj: o, Off: 0, Len: &ln}
		var args []pe.Val
		if fn.Signature.Recv() != nil {
			rt := fn.Signature.Recv().Type().(*types.Pointer).Elem()
			ro := m.NewObj("recv", rt, true)
			args = []pe.Val{{K: pe.Addr, Obj: ro}, raw}
		} else {
			args = []pe.Val{raw}
		}
		var res *pe.Result
		if msg := guarded(func() { res = runPE(c, m, fn, args) }); msg != "" {
			r.Unk(rule, key, pos, "analysis panic: "+msg)
			continue
		}
		if len(res.Returns) == 0 {
			r.Unk(rule, key, pos, "no return reached by the evaluator")
			continue
		}
		ok := false
		var where []string
		for _, rs := range res.Returns {
			ev := rs.Vals[len(rs.Vals)-1]
			if ev.K != pe.NonNil {
				ok = true
			} else {
				where = append(where, p.Pos(rs.Instr.Pos()))
			}
		}
		sort.Strings(where)
		r.Check(ok, rule, key, pos,
			fmt.Sprintf("length %d, octets {%s}, all other octets arbitrary: a return without a definite error is reachable (%s)", sh.length, strings.Join(desc, " "), sh.why),
			fmt.Sprintf("length %d, octets {%s}: every reachable return carries a non-nil error (%s) although the shape is valid: %s", sh.length, strings.Join(desc, " "), strings.Join(where, ", "), sh.why))
	}
	r.Floor(rule, len(shapes))
	_ = ssa.Value(nil)
}
