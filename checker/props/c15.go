package props

import (
	"fmt"
	"go/token"
	"go/types"
	"reflect"
	"sort"
	"strings"

	"golang.org/x/tools/go/ssa"

	"rtcpverif/bits"
	"rtcpverif/core"
	"rtcpverif/effects"
	"rtcpverif/num"
	"rtcpverif/spec"
)

func init() { register("C15", "other", checkC15) }

// xrWire: RFC 3611 section 4: octet widths of the fields after the 4-octet block header, in
// wire order; a trailing "*" entry is the repeated element.
var xrWire = map[string]struct {
	fixed []int
	elem  []int
	rfc   string
}{
	"LossRLEReportBlock":               {[]int{32, 16, 16}, []int{16}, "RFC 3611 4.1"},
	"DuplicateRLEReportBlock":          {[]int{32, 16, 16}, []int{16}, "RFC 3611 4.2"},
	"PacketReceiptTimesReportBlock":    {[]int{32, 16, 16}, []int{32}, "RFC 3611 4.3"},
	"ReceiverReferenceTimeReportBlock": {[]int{64}, nil, "RFC 3611 4.4"},
	"DLRRReportBlock":                  {nil, []int{32, 32, 32}, "RFC 3611 4.5"},
	"StatisticsSummaryReportBlock":     {[]int{32, 16, 16, 32, 32, 32, 32, 32, 32, 8, 8, 8, 8}, nil, "RFC 3611 4.6"},
	"VoIPMetricsReportBlock":           {[]int{32, 8, 8, 8, 8, 16, 16, 16, 16, 8, 8, 8, 8, 8, 8, 8, 8, 8, 8, 16, 16, 16}, nil, "RFC 3611 4.7"},
	"UnknownReportBlock":               {nil, []int{8}, "RFC 3611 4 (opaque block)"},
}

// xrTypeSpecific: the type-specific octet, most significant bit first; "T" etc. are Go fields.
var xrTypeSpecific = map[string]string{
	"LossRLEReportBlock":               "0 0 0 0 T:4",
	"DuplicateRLEReportBlock":          "0 0 0 0 T:4",
	"PacketReceiptTimesReportBlock":    "0 0 0 0 T:4",
	"ReceiverReferenceTimeReportBlock": "0 0 0 0 0 0 0 0",
	"DLRRReportBlock":                  "0 0 0 0 0 0 0 0",
	"StatisticsSummaryReportBlock":     "LossReports:1 DuplicateReports:1 JitterReports:1 TTLorHopLimit:2 0 0 0",
	"VoIPMetricsReportBlock":           "0 0 0 0 0 0 0 0",
}

func checkC15(c *Ctx) {
	r := c.Rep
	p := c.Prog
	r.Explain = "Structural clauses of the XR block codec. BT: each block type's setupBlockHeader stores the registered RFC 3611 block type constant (bit-provenance of the stored octet) and the reader's type switch maps exactly the registered constants to the corresponding Go types with UnknownReportBlock as the default arm (SSA dominator conditions of each allocation). TS: the bit map setupBlockHeader writes into the type-specific octet equals the RFC 3611 table (thinning T in the low 4 bits, L/D/J flags and the 2-bit ToH kind at their positions, reserved bits zero) and unpackBlockHeader inverts it bit for bit. LAY: the octet widths of each block struct in declaration order (the order the reflective reader/writer walks; omit-tagged fields skipped) equal the RFC 3611 layout. BL: in ExtendedReport.Unmarshal the block is split at exactly 4*(BlockLength+1) octets as an integer identity (no fixed-width wrap), and each setupBlockHeader stores BlockLength = wireSize(b)/4 - 1. UNK: UnknownReportBlock.setupBlockHeader stores nothing but the block length (type and type-specific octet pass through), and its wire form is header + raw octets. OWN: after ExtendedReport.Unmarshal no memory of the report refers to the input slice (retention facts of checker/effects, reflect.Value.Set/SetBytes included), so the preserved content does not depend on the caller's buffer."
	r.RuleText = "C15-BT, C15-DSP, C15-TS, C15-LAY, C15-BL, C15-UNK, C15-OWN."
	r.Trusted = []string{"go/ssa, go/types", "bit-provenance engine checker/bits", "numeric engine checker/num", "the reflective reader/writer walk struct fields in declaration order and skip encoding:\"omit\" (guarded by C01's B-RFL/type-shape rules)", "RFC 3611 tables in props/c15.go, registry in spec/registry.go"}
	r.Assume = []string{"block sizes are multiples of four octets (open findings F14a-c cover the element sizes that break this)"}
	r.NotCov("that blocks decode independently of their neighbours beyond the split length (C06-LOC-style locality holds for the reflective reader through C01's bounds obligations)")

	var blocks []string
	for name := range xrWire {
		blocks = append(blocks, name)
	}
	sort.Strings(blocks)
	regOf := map[string]int{}
	for k, v := range spec.XRBlockTypes {
		regOf[v] = k
	}
	hdr := p.Named("XRHeader")
	if hdr == nil {
		r.Fatalf("unresolved anchor: XRHeader")
		return
	}
	for _, b := range blocks {
		r.Anchor("C15-BLOCK", b)
		setup := p.Func("*" + b + ".setupBlockHeader")
		unpack := p.Func("*" + b + ".unpackBlockHeader")
		named := p.Named(b)
		if setup == nil || unpack == nil || named == nil {
			r.Fatalf("unresolved anchor: %s / setupBlockHeader / unpackBlockHeader", b)
			continue
		}
		pos := p.Pos(setup.Pos())
		sres, err := bits.New(p.SPkg).AnalyzeMutator(setup)
		if err != nil {
			r.Unk("C15-BT", b+"/setupBlockHeader", pos, err.Error())
			continue
		}
		ures, err := bits.New(p.SPkg).AnalyzeMutator(unpack)
		if err != nil {
			r.Unk("C15-TS", b+"/unpackBlockHeader", p.Pos(unpack.Pos()), err.Error())
			continue
		}
		if b == "UnknownReportBlock" {
			var stored []string
			for f := range sres.Fields {
				stored = append(stored, f)
			}
			for f := range sres.Other {
				stored = append(stored, f)
			}
			sort.Strings(stored)
			r.Check(len(stored) == 1 && stored[0] == "XRHeader.BlockLength", "C15-UNK", b+"/setup-stores-only-the-length", pos,
				"setupBlockHeader stores XRHeader.BlockLength only: block type and type-specific octet are written as decoded", "setupBlockHeader stores "+strings.Join(stored, ", "))
			r.Check(len(ures.Fields) == 0 && len(ures.Other) == 0, "C15-UNK", b+"/unpack-stores-nothing", p.Pos(unpack.Pos()), "unpackBlockHeader stores nothing", "unpackBlockHeader modifies the block")
		} else {
			// BT
			bt := sres.Fields["XRHeader.BlockType"]
			want := bitsConst(uint64(regOf[b]), 8)
			r.Check(bt != nil && bt.String() == want, "C15-BT", b+"/setup-stores-registered-type", pos,
				fmt.Sprintf("XRHeader.BlockType = %d (%s)", regOf[b], xrWire[b].rfc), fmt.Sprintf("XRHeader.BlockType = %v, registry says %d", bt, regOf[b]))
			// TS
			wantTS, fieldsAt := tsSpec(xrTypeSpecific[b])
			ts := sres.Fields["XRHeader.TypeSpecific"]
			r.Check(ts != nil && ts.String() == wantTS.String(), "C15-TS", b+"/setup-type-specific-bits", pos,
				"type-specific octet = "+wantTS.String(), fmt.Sprintf("type-specific octet = %v, %s says %s", ts, xrWire[b].rfc, wantTS))
			// inverse
			var bad []string
			for f, posn := range fieldsAt {
				got := ures.Fields[f]
				if got == nil {
					bad = append(bad, "field "+f+" is not restored by unpackBlockHeader")
					continue
				}
				for j, bt := range got {
					w := bits.Zero
					if j < len(posn) {
						w = bits.Bit{K: bits.BSrc, Src: "F:XRHeader.TypeSpecific", I: posn[j]}
					}
					if bt != w {
						bad = append(bad, fmt.Sprintf("field %s bit %d is restored from %s, expected %s", f, j, bt, w))
						break
					}
				}
			}
			var extra []string
			for f := range ures.Fields {
				if _, ok := fieldsAt[f]; !ok {
					extra = append(extra, f)
				}
			}
			sort.Strings(extra)
			if len(extra) > 0 {
				bad = append(bad, "unpackBlockHeader also stores "+strings.Join(extra, ", "))
			}
			sort.Strings(bad)
			r.Check(len(bad) == 0, "C15-TS", b+"/unpack-inverts-setup", p.Pos(unpack.Pos()), fmt.Sprintf("%d field(s) restored from exactly the bits setupBlockHeader wrote", len(fieldsAt)), trunc(bad, 2))
		}
		// LAY
		got, gotElem, probs := xrWidths(named)
		wantW := xrWire[b]
		okLay := len(probs) == 0 && eqInts(got, append([]int{8, 8, 16}, wantW.fixed...)) && eqInts(gotElem, wantW.elem)
		r.Check(okLay, "C15-LAY", b+"/field-widths-in-wire-order", "-",
			fmt.Sprintf("header 8,8,16 then %v, repeated element %v (%s)", wantW.fixed, wantW.elem, wantW.rfc),
			fmt.Sprintf("struct walks as %v / element %v %v; %s says header 8,8,16 then %v / element %v", got, gotElem, probs, wantW.rfc, wantW.fixed, wantW.elem))
		// BL (encoder side)
		c15BlockLength(c, b, setup, hdr)
	}
	r.Floor("C15-BLOCK", 8)
	c15Dispatch(c, regOf)
	c15Split(c, hdr)
	c15Own(c)
}

// c15Own: the decoded report holds its own copy of every block, in particular of the opaque content
// of unknown blocks: no memory of the receiver refers to the input slice after Unmarshal (retention
// facts of the effect analysis, reflect setters included). Otherwise "preserved through re-encoding"
// would depend on what the caller does with its receive buffer between decode and encode.
func c15Own(c *Ctx) {
	r, p := c.Rep, c.Prog
	fn, _ := p.Method("ExtendedReport", "Unmarshal")
	if fn == nil {
		r.Fatalf("unresolved anchor: (*ExtendedReport).Unmarshal")
		return
	}
	r.Anchor("C15-OWN", "ExtendedReport.Unmarshal")
	an := effects.New(p.SPkg, p.Funcs, p.CallGraph(), nil)
	s := an.Sum[fn]
	if s == nil {
		r.Fatalf("no effect summary for (*ExtendedReport).Unmarshal")
		return
	}
	k := len(fn.Params) - 1
	bad := ""
	if ss := s.RetainSites[[2]int{0, k}]; len(ss) > 0 {
		bad = siteStr(p, ss[0])
	}
	r.Check(!s.Retains(0, k), "C15-OWN", "ExtendedReport.Unmarshal/blocks-own-their-content", p.Pos(fn.Pos()),
		"no store, append or reflect setter reachable from the decoder leaves memory of the report referring to the input slice: opaque block content is copied octet by octet",
		"the decoded report keeps a reference into the caller's buffer, so an unknown block's content is not preserved once the buffer is reused: "+bad)
	r.Floor("C15-OWN", 1)
}

// tsSpec parses the type-specific octet notation.
func tsSpec(s string) (bits.BV, map[string][]int) {
	out := make(bits.BV, 8)
	fieldsAt := map[string][]int{}
	pos := 7
	for _, it := range strings.Fields(s) {
		if it == "0" {
			out[pos] = bits.Zero
			pos--
			continue
		}
		i := strings.Index(it, ":")
		name := it[:i]
		var w int
		fmt.Sscanf(it[i+1:], "%d", &w)
		at := make([]int, w)
		for k := w - 1; k >= 0; k-- {
			out[pos] = bits.Bit{K: bits.BSrc, Src: "F:" + name, I: k}
			at[k] = pos
			pos--
		}
		fieldsAt[name] = at
	}
	return out, fieldsAt
}

func eqInts(a, b []int) bool {
	if len(a) != len(b) {
		return false
	}
	for i := range a {
		if a[i] != b[i] {
			return false
		}
	}
	return true
}

// xrWidths: bit widths of the wire fields of a block struct in declaration order, and of the
// repeated element if the last field is a slice.
func xrWidths(t types.Type) (fixed, elem []int, probs []string) {
	var walk func(t types.Type, into *[]int, top bool)
	walk = func(t types.Type, into *[]int, top bool) {
		switch u := t.Underlying().(type) {
		case *types.Basic:
			n, ok := basicWire(u)
			if !ok {
				probs = append(probs, "kind "+u.Name())
			}
			*into = append(*into, 8*n)
		case *types.Struct:
			for i := 0; i < u.NumFields(); i++ {
				if reflect.StructTag(u.Tag(i)).Get("encoding") == "omit" {
					continue
				}
				ft := u.Field(i).Type()
				if sl, ok := ft.Underlying().(*types.Slice); ok {
					if !top || i != u.NumFields()-1 {
						probs = append(probs, "slice field "+u.Field(i).Name()+" is not the last field")
					}
					walk(sl.Elem(), &elem, false)
					continue
				}
				walk(ft, into, false)
			}
		case *types.Pointer:
			walk(u.Elem(), into, top)
		default:
			probs = append(probs, fmt.Sprintf("type %s", t))
		}
	}
	walk(t, &fixed, true)
	return
}

// c15BlockLength: setupBlockHeader stores BlockLength = wireSize(b)/4 - 1.
func c15BlockLength(c *Ctx, b string, setup *ssa.Function, hdr *types.Named) {
	r := c.Rep
	p := c.Prog
	ws := p.Func("wireSize")
	blIdx := structFieldIndex(hdr, "BlockLength")
	named := p.Named(b)
	hdrIdx := structFieldIndex(named, "XRHeader")
	if ws == nil || blIdx < 0 || hdrIdx < 0 {
		r.Fatalf("unresolved anchor: wireSize / XRHeader.BlockLength / %s.XRHeader", b)
		return
	}
	e := newNumEngine(c, nil)
	e.WrapLCong = true
	w := e.NewGhost("wireSize(b)", 4, c05MaxBytes)
	tied := 0
	e.PostCallHook = func(e *num.Engine, st *num.State, in *ssa.Call, f *ssa.Function) {
		if f == ws {
			if mi, ok := e.ActualOf(in.Common().Args[0]).(*ssa.MakeInterface); ok && mi.X == ssa.Value(setup.Params[0]) {
				v := e.ExprOf(st, in)
				st.Assume(v.AddConst(-4))
				st.Assume(v.Neg().AddConst(c05MaxBytes))
				st.AddLCong(v, 4) // aligned blocks (assumption, F14)
				st.AssumeEq(v.Sub(num.Var(w)))
				tied++
			}
		}
	}
	var rets []num.RootReturn
	if msg := guarded(func() { rets = e.AnalyzeRoot(setup, num.RootOptions{}) }); msg != "" {
		r.Fatalf("analysis panic in %s.setupBlockHeader: %s", b, msg)
		return
	}
	n, okc := 0, 0
	var det string
	for _, rr := range rets {
		n++
		// receiver field XRHeader.BlockLength
		ad, ok := e.AddrOfValue(rr.St, setup.Params[0])
		if !ok {
			det = "receiver address unknown"
			continue
		}
		_ = ad
		bl := e.PtrPathExpr(rr.St, setup.Params[0], []int{hdrIdx, blIdx})
		if !bl.Bad && rr.St.EntailsEq(bl.Scale(4).AddConst(4).Sub(num.Var(w))) {
			okc++
		} else {
			det = fmt.Sprintf("BlockLength=%s, wireSize=%s", e.LinString(rr.St.Subst(bl)), e.LinString(rr.St.Subst(num.Var(w))))
		}
	}
	r.Check(n > 0 && okc == n && tied > 0, "C15-BL", b+"/setup-length-is-words-minus-one", p.Pos(setup.Pos()),
		"4*(BlockLength+1) = wireSize(b) entailed at every return (for aligned blocks up to one datagram)", det)
}

// c15Dispatch: block type constants -> Go types in ExtendedReport.Unmarshal.
func c15Dispatch(c *Ctx, regOf map[string]int) {
	r := c.Rep
	p := c.Prog
	fn := p.Func("*ExtendedReport.Unmarshal")
	if fn == nil {
		r.Fatalf("unresolved anchor: (*ExtendedReport).Unmarshal")
		return
	}
	rb := p.Named("ReportBlock")
	iface, _ := rb.Underlying().(*types.Interface)
	got := map[string][]int{}
	// the switch may live in a factory function called by the decoder (result type ReportBlock)
	fns := []*ssa.Function{fn}
	for _, b := range fn.Blocks {
		for _, in := range b.Instrs {
			if call, ok := in.(*ssa.Call); ok {
				if g := call.Common().StaticCallee(); g != nil && g.Pkg == p.SPkg && g.Blocks != nil && g.Signature.Results().Len() == 1 && types.Identical(g.Signature.Results().At(0).Type(), rb) {
					fns = append(fns, g)
				}
			}
		}
	}
	var blocks []*ssa.BasicBlock
	for _, g := range fns {
		blocks = append(blocks, g.Blocks...)
	}
	for _, b := range blocks {
		for _, in := range b.Instrs {
			al, ok := in.(*ssa.Alloc)
			if !ok || !al.Heap {
				continue
			}
			et := al.Type().Underlying().(*types.Pointer).Elem()
			nt, ok := et.(*types.Named)
			if !ok || iface == nil || !types.Implements(types.NewPointer(nt), iface) {
				continue
			}
			name := nt.Obj().Name()
			var consts []int
			okShape := true
			for _, cd := range dominatingConds(b) {
				cmp, ok := cd.v.(*ssa.BinOp)
				if !ok || cmp.Op != token.EQL {
					continue
				}
				k, isC := cmp.Y.(*ssa.Const)
				if !isC {
					continue
				}
				if !strings.Contains(cmp.X.Type().String(), "BlockTypeType") {
					continue
				}
				v, _ := constInt64(k)
				if cd.outcome {
					consts = append(consts, int(v))
				}
			}
			if !okShape {
				continue
			}
			if _, seen := got[name]; !seen {
				got[name] = nil
			}
			got[name] = append(got[name], consts...)
		}
	}
	var bad []string
	for name, k := range regOf {
		if g := got[name]; len(g) != 1 || g[0] != k {
			bad = append(bad, fmt.Sprintf("%s is allocated for block types %v, registry says %d", name, got[name], k))
		}
	}
	if g, ok := got[spec.XRDefault]; !ok || len(g) != 0 {
		bad = append(bad, fmt.Sprintf("%s is not the default arm (guards %v)", spec.XRDefault, g))
	}
	for name := range got {
		if _, ok := regOf[name]; !ok && name != spec.XRDefault {
			bad = append(bad, "unregistered block type "+name)
		}
	}
	sort.Strings(bad)
	r.Check(len(bad) == 0, "C15-DSP", "(*ExtendedReport).Unmarshal/block-type-switch", p.Pos(fn.Pos()),
		fmt.Sprintf("%d registered block types map to their Go types; every other value reaches %s", len(regOf), spec.XRDefault), trunc(bad, 3))
}

func constInt64(k *ssa.Const) (int64, bool) {
	if k.Value == nil {
		return 0, false
	}
	return k.Int64(), true
}

// c15Split: the block buffer is split at 4*(BlockLength+1).
func c15Split(c *Ctx, hdr *types.Named) {
	r := c.Rep
	p := c.Prog
	fn := p.Func("*ExtendedReport.Unmarshal")
	split := p.Func("*packetBuffer.split")
	if fn == nil || split == nil {
		r.Fatalf("unresolved anchor: (*ExtendedReport).Unmarshal / (*packetBuffer).split")
		return
	}
	blIdx := structFieldIndex(hdr, "BlockLength")
	// the local XRHeader the block header is read into
	var hal *ssa.Alloc
	for _, b := range fn.Blocks {
		for _, in := range b.Instrs {
			if al, ok := in.(*ssa.Alloc); ok {
				if nt, ok := al.Type().Underlying().(*types.Pointer).Elem().(*types.Named); ok && nt.Obj().Name() == "XRHeader" {
					hal = al
				}
			}
		}
	}
	if hal == nil {
		r.Unk("C15-BL", "(*ExtendedReport).Unmarshal/split-at-block-length", p.Pos(fn.Pos()), "no local XRHeader found")
		return
	}
	res := newNumResult()
	e := newNumEngine(c, res.sums)
	e.WrapLCong = true
	seen, okc := 0, 0
	var det string
	e.CallHook = func(e *num.Engine, st *num.State, in *ssa.Call, f *ssa.Function) {
		if f != split || in.Parent() != fn {
			return
		}
		seen++
		n := e.ExprOf(st, in.Common().Args[1])
		bl := e.AllocFieldExpr(st, hal, blIdx)
		if !bl.Bad && st.EntailsEq(n.Sub(bl.Scale(4)).AddConst(-4)) {
			okc++
		} else {
			det = fmt.Sprintf("split length %s with BlockLength=%s", e.LinString(st.Subst(n)), e.LinString(st.Subst(bl)))
		}
	}
	if msg := guarded(func() { e.AnalyzeRoot(fn, num.RootOptions{ZeroReceiver: true}) }); msg != "" {
		r.Fatalf("analysis panic in (*ExtendedReport).Unmarshal: %s", msg)
		return
	}
	r.Check(seen > 0 && okc == seen, "C15-BL", "(*ExtendedReport).Unmarshal/split-at-block-length", p.Pos(fn.Pos()),
		fmt.Sprintf("split length = 4*(BlockLength+1) as an integer identity in all %d evaluation(s)", seen), det)
	_ = core.Discharged
}
