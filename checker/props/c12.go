package props

import (
	"fmt"
	"os"
	"go/token"
	"go/types"
	"strings"

	"golang.org/x/tools/go/ssa"

	"rtcpverif/core"
	"rtcpverif/num"
)

func init() { register("C12", "other", checkC12) }

func checkC12(c *Ctx) {
	r := c.Rep
	p := c.Prog
	r.Explain = "Necessary conditions of the NACK helper contract, decided for every NackPair / every input list by the numeric engine with exact uint16 wrap-around (values kept as congruences mod 2^16). RNG-STOP: a ghost holds the result of the most recent callback invocation (true before the first); at every callback call site of (*NackPair).Range it must be entailed true, i.e. no callback can follow one that returned false. RNG-ARG: the first callback argument is n.PacketID; at every other call site the argument is congruent mod 2^16 to PacketID + k with 1 <= k <= 16 entailed (k-1 is a bit index that the dominating test (b & (1<<i)) != 0 forces below 16). PL: the closure PacketList hands to Range returns the constant true on every path and appends exactly its argument to the result list, which PacketList returns after Range. NPS-SHIFT: in NackPairsFromSequenceNumbers the shift amount of the bit that is OR-ed into LostPackets is congruent mod 2^16 to m - PacketID - 1 for the current element m and the current pair's PacketID, as integers of the program (not masked, not offset); NPS-DIST: at that site the distance (m - PacketID) mod 2^16 is entailed <= 16, so a folded number is one the pair can represent."
	r.RuleText = "C12-RNG-STOP, C12-RNG-ARG, C12-PL, C12-NPS-SHIFT, C12-NPS-DIST."
	r.Trusted = []string{"go/ssa", "numeric engine checker/num (wrap atoms with congruences, bit-test refinement, load value numbering between stores)"}
	r.Assume = []string{"the callback does not modify the NackPair it is iterating (its effect on memory is otherwise arbitrary)"}
	r.NotCov("that Range invokes the callback for EVERY set bit and in ascending order, and that the pairs of NackPairsFromSequenceNumbers cover every input number (none missing): these need the bit-level loop invariant (b holds exactly the bits not yet visited), which is not expressible in the linear domain; the rules above are necessary, not sufficient")

	rng := p.Func("*NackPair.Range")
	pl := p.Func("*NackPair.PacketList")
	nps := p.Func("NackPairsFromSequenceNumbers")
	np := p.Named("NackPair")
	if rng == nil || pl == nil || nps == nil || np == nil {
		r.Fatalf("unresolved anchor: (*NackPair).Range / PacketList / NackPairsFromSequenceNumbers / NackPair")
		return
	}
	pidIdx := structFieldIndex(np, "PacketID")
	lostIdx := structFieldIndex(np, "LostPackets")
	if pidIdx < 0 || lostIdx < 0 {
		r.Fatalf("unresolved anchor: NackPair.PacketID / LostPackets")
		return
	}
	for _, f := range []*ssa.Function{rng, pl, nps} {
		r.Anchor("C12-ROOT", core.FuncName(f))
	}
	r.Floor("C12-ROOT", 3)
	c12Range(c, rng, pidIdx)
	c12PacketList(c, pl, rng)
	c12Pairs(c, nps, pidIdx, lostIdx)
}

func c12Range(c *Ctx, rng *ssa.Function, pidIdx int) {
	r := c.Rep
	p := c.Prog
	if len(rng.Params) != 2 {
		r.Fatalf("(*NackPair).Range: unexpected signature")
		return
	}
	recv, fparam := rng.Params[0], rng.Params[1]
	e := newNumEngine(c, nil)
	e.WrapLCong = true
	last := e.NewGhost("lastCallbackResult", 0, 1)
	pid0 := e.NewGhostUnbounded("PacketID@entry")
	e.RootInit = func(st *num.State) {
		st.Bind(last, num.Const(1))
		st.AssumeEq(e.PtrFieldExpr(st, recv, pidIdx).Sub(num.Var(pid0)))
	}
	type siteRes struct {
		pos            token.Pos
		seen           int
		stopBad        int
		argBad         int
		first          bool
		argDet, stpDet string
	}
	sites := map[ssa.Instruction]*siteRes{}
	var order []ssa.Instruction
	// the entry block's call is "the first" call
	e.DynCallHook = func(e *num.Engine, st *num.State, in *ssa.Call) bool {
		if in.Common().Value != ssa.Value(fparam) || in.Parent() != rng {
			return false
		}
		if e.Checking() {
			s := sites[in]
			if s == nil {
				s = &siteRes{pos: in.Pos(), first: in.Block() == rng.Blocks[0]}
				sites[in] = s
				order = append(order, in)
			}
			s.seen++
			if !st.EntailsEq(num.Var(last).AddConst(-1)) {
				s.stopBad++
				s.stpDet = "the previous callback result is not entailed to be true here"
			}
			arg := e.ExprOf(st, in.Common().Args[0])
			pid := num.Var(pid0)
			ok := false
			for _, v := range st.ModularValues(arg, 65536) {
				// v is determined modulo 2^16 only
				for q := int64(-2); q <= 2; q++ {
					d := v.Sub(pid).AddConst(q * 65536)
					if s.first {
						if st.EntailsEq(d) {
							ok = true
						}
					} else if st.Entails(d.AddConst(-1)) && st.Entails(d.Neg().AddConst(16)) {
						ok = true
					}
				}
			}
			if !ok && os.Getenv("C12_DEBUG") != "" {
				for _, v := range st.ModularValues(arg, 65536) {
					fmt.Printf("DEBUG cand %s  d=%s  bounds=%v\n", e.LinString(v), e.LinString(st.Subst(v.Sub(pid))), st.Bounds(v.Sub(pid)))
				}
				fmt.Println("DEBUG state", st.String())
			}
			if !ok {
				s.argBad++
				s.argDet = fmt.Sprintf("argument %s is not entailed to be PacketID%s (mod 2^16)", e.LinString(st.Subst(arg)), map[bool]string{true: "", false: " + k with 1 <= k <= 16"}[s.first])
			}
		}
		// effect of the callback: arbitrary on memory except the pair being iterated (assumption)
		keep := e.PtrFieldExpr(st, recv, pidIdx)
		e.HavocAllMemory(st)
		if !keep.Bad {
			st.AssumeEq(e.PtrFieldExpr(st, recv, pidIdx).Sub(num.Var(pid0)))
		}
		e.FreshCallResult(st, in)
		st.Bind(last, e.ExprOf(st, in))
		return true
	}
	if msg := guarded(func() { e.AnalyzeRoot(rng, num.RootOptions{}) }); msg != "" {
		r.Fatalf("analysis panic in (*NackPair).Range: %s", msg)
		return
	}
	if len(order) < 2 {
		r.Fatalf("(*NackPair).Range: %d callback call sites found (expected the first call and the per-bit call)", len(order))
		return
	}
	nfirst := 0
	for i, in := range order {
		s := sites[in]
		name := fmt.Sprintf("(*NackPair).Range/callback-site#%d", i+1)
		if s.first {
			nfirst++
			name += "(first)"
		}
		r.Check(s.stopBad == 0, "C12-RNG-STOP", name+"/only-after-true", p.Pos(s.pos),
			fmt.Sprintf("the most recent callback result is entailed true in all %d evaluation(s)", s.seen), s.stpDet)
		r.Check(s.argBad == 0, "C12-RNG-ARG", name+"/argument", p.Pos(s.pos),
			fmt.Sprintf("argument form entailed in all %d evaluation(s)", s.seen), s.argDet)
	}
	r.Check(nfirst == 1, "C12-RNG-ARG", "(*NackPair).Range/first-call-in-entry-block", p.Pos(rng.Pos()), "exactly one callback call in the entry block (PacketID itself is visited first)", fmt.Sprintf("%d callback calls in the entry block", nfirst))
}

func c12PacketList(c *Ctx, pl, rng *ssa.Function) {
	r := c.Rep
	p := c.Prog
	pos := p.Pos(pl.Pos())
	var mk *ssa.MakeClosure
	var call *ssa.Call
	for _, b := range pl.Blocks {
		for _, in := range b.Instrs {
			if cl, ok := in.(*ssa.Call); ok && cl.Common().StaticCallee() == rng {
				call = cl
				if m, ok := cl.Common().Args[1].(*ssa.MakeClosure); ok {
					mk = m
				}
			}
		}
	}
	if call == nil || mk == nil || call.Common().Args[0] != ssa.Value(pl.Params[0]) {
		r.Bad("C12-PL", "(*NackPair).PacketList/calls-Range-with-closure", pos, "PacketList does not call n.Range with a function literal")
		return
	}
	cl := mk.Fn.(*ssa.Function)
	// returns constant true on every path
	allTrue, nret := true, 0
	for _, b := range cl.Blocks {
		if ret, ok := b.Instrs[len(b.Instrs)-1].(*ssa.Return); ok {
			nret++
			k, ok := ret.Results[0].(*ssa.Const)
			if !ok || k.Value == nil || k.Value.String() != "true" {
				allTrue = false
			}
		}
	}
	r.Check(allTrue && nret > 0, "C12-PL", "(*NackPair).PacketList/closure-returns-true", p.Pos(cl.Pos()), "every return of the closure returns the constant true: Range is never cut short", "the closure may return something other than the constant true")
	// appends exactly its parameter to the captured list, once, in straight-line code
	okApp := false
	why := "no `out = append(out, seqno)` on the captured list"
	if len(cl.FreeVars) == 1 && len(cl.Params) == 1 && len(cl.Blocks) == 1 {
		fv := cl.FreeVars[0]
		nstore := 0
		for _, in := range cl.Blocks[0].Instrs {
			st, ok := in.(*ssa.Store)
			if !ok {
				continue
			}
			nstore++
			if st.Addr != ssa.Value(fv) {
				continue
			}
			ap, ok := st.Val.(*ssa.Call)
			if !ok {
				continue
			}
			bi, ok := ap.Common().Value.(*ssa.Builtin)
			if !ok || bi.Name() != "append" {
				continue
			}
			ld, ok := ap.Common().Args[0].(*ssa.UnOp)
			if !ok || ld.X != ssa.Value(fv) {
				continue
			}
			// variadic array holding the parameter
			if sl, ok := ap.Common().Args[1].(*ssa.Slice); ok {
				if al, ok := sl.X.(*ssa.Alloc); ok {
					cnt, good := 0, false
					for _, ref := range *al.Referrers() {
						if ia, ok := ref.(*ssa.IndexAddr); ok {
							for _, r2 := range *ia.Referrers() {
								if s2, ok := r2.(*ssa.Store); ok {
									cnt++
									if s2.Val == ssa.Value(cl.Params[0]) {
										good = true
									}
								}
							}
						}
					}
					if at, ok := al.Type().Underlying().(*types.Pointer).Elem().Underlying().(*types.Array); ok && at.Len() == 1 && cnt == 1 && good {
						okApp = true
					}
				}
			}
		}
		if nstore != 2 { // the store into the variadic array and the store to the captured list
			okApp = false
			why = fmt.Sprintf("%d stores in the closure (expected the append only)", nstore)
		}
	} else {
		why = "the closure is not a single block with one parameter and one captured variable"
	}
	r.Check(okApp, "C12-PL", "(*NackPair).PacketList/closure-appends-its-argument", p.Pos(cl.Pos()), "the closure performs exactly out = append(out, seqno)", why)
	// PacketList returns the captured list after Range
	okRet := false
	if len(mk.Bindings) == 1 {
		for _, b := range pl.Blocks {
			if ret, ok := b.Instrs[len(b.Instrs)-1].(*ssa.Return); ok && len(ret.Results) == 1 {
				if ld, ok := ret.Results[0].(*ssa.UnOp); ok && ld.X == mk.Bindings[0] && ld.Block() == call.Block() {
					after := false
					for _, in := range call.Block().Instrs {
						if in == ssa.Instruction(call) {
							after = true
						}
						if in == ssa.Instruction(ld) && after {
							okRet = true
						}
					}
				}
			}
		}
		// the list starts empty
		if al, ok := mk.Bindings[0].(*ssa.Alloc); ok {
			empty := false
			for _, ref := range *al.Referrers() {
				if st, ok := ref.(*ssa.Store); ok && st.Addr == ssa.Value(al) {
					switch v := st.Val.(type) {
					case *ssa.MakeSlice:
						empty = isConstInt(v.Len, 0)
					case *ssa.Slice:
						if v.High != nil && isConstInt(v.High, 0) {
							empty = true
						}
					}
				}
			}
			okRet = okRet && empty
		} else {
			okRet = false
		}
	}
	r.Check(okRet, "C12-PL", "(*NackPair).PacketList/returns-the-collected-list", pos, "the list starts empty, is filled only by the closure and is returned after Range", "PacketList does not return the (initially empty) captured list after Range")
}

func c12Pairs(c *Ctx, nps *ssa.Function, pidIdx, lostIdx int) {
	r := c.Rep
	p := c.Prog
	pos := p.Pos(nps.Pos())
	// the bit: Store(&pair.LostPackets, old | (1 << s))
	var shl *ssa.BinOp
	nst := 0
	for _, b := range nps.Blocks {
		for _, in := range b.Instrs {
			st, ok := in.(*ssa.Store)
			if !ok {
				continue
			}
			fa, ok := st.Addr.(*ssa.FieldAddr)
			if !ok || fa.Field != lostIdx {
				continue
			}
			nst++
			or, ok := st.Val.(*ssa.BinOp)
			if !ok || or.Op != token.OR {
				continue
			}
			for _, o := range []ssa.Value{or.X, or.Y} {
				if sh, ok := o.(*ssa.BinOp); ok && sh.Op == token.SHL && isConstInt(sh.X, 1) {
					shl = sh
				}
			}
		}
	}
	if shl == nil || nst != 1 {
		r.Unk("C12-NPS-SHIFT", "NackPairsFromSequenceNumbers/bit-site", pos, fmt.Sprintf("%d stores to LostPackets; no `LostPackets |= 1 << s` found", nst))
		return
	}
	// candidate operands: element loads and PacketID loads dominating the shift
	var elems, pids, subs []ssa.Value
	for _, b := range nps.Blocks {
		if !b.Dominates(shl.Block()) {
			continue
		}
		for _, in := range b.Instrs {
			if in == ssa.Instruction(shl) {
				break
			}
			switch x := in.(type) {
			case *ssa.UnOp:
				if x.Op != token.MUL {
					continue
				}
				if ia, ok := x.X.(*ssa.IndexAddr); ok {
					// an element of the input list: the parameter itself or a re-slice of it, any index
					base := ia.X
					for {
						sl, isSl := base.(*ssa.Slice)
						if !isSl {
							break
						}
						base = sl.X
					}
					if base == ssa.Value(nps.Params[0]) {
						elems = append(elems, x)
					}
				}
				if fa, ok := x.X.(*ssa.FieldAddr); ok && fa.Field == pidIdx {
					pids = append(pids, x)
				}
			case *ssa.BinOp:
				if x.Op == token.SUB {
					subs = append(subs, x)
				}
			}
		}
	}
	e := newNumEngine(c, nil)
	e.WrapLCong = true
	e.LoadGVN = true
	seen, shiftOK, distOK := 0, 0, 0
	var det string
	e.BinOpHook = func(e *num.Engine, st *num.State, x *ssa.BinOp) {
		if x != shl {
			return
		}
		seen++
		s := e.ExprOf(st, x.Y)
		okS, okD := false, false
		for _, m := range elems {
			for _, pid := range pids {
				want := e.ExprOf(st, m).Sub(e.ExprOf(st, pid))
				for _, v := range st.ModularValues(s, 65536) {
					if z := st.Subst(v.Sub(want).AddConst(1)); z.IsConst() && z.C%65536 == 0 {
						okS = true
					}
				}
				for _, d := range subs {
					dv := e.ExprOf(st, d)
					for _, v := range st.ModularValues(dv, 65536) {
						if z := st.Subst(v.Sub(want)); z.IsConst() && z.C%65536 == 0 && st.Entails(dv.Neg().AddConst(16)) && st.Entails(dv) {
							okD = true
						}
					}
				}
			}
		}
		if okS {
			shiftOK++
		} else {
			det = fmt.Sprintf("shift amount %s is not congruent to element - PacketID - 1 (mod 2^16) for any dominating element/PacketID load", e.LinString(st.Subst(s)))
		}
		if okD {
			distOK++
		}
	}
	if msg := guarded(func() { e.AnalyzeRoot(nps, num.RootOptions{}) }); msg != "" {
		r.Fatalf("analysis panic in NackPairsFromSequenceNumbers: %s", msg)
		return
	}
	sp := p.Pos(shl.Pos())
	r.Check(seen > 0 && shiftOK == seen, "C12-NPS-SHIFT", "NackPairsFromSequenceNumbers/bit-index-is-distance-minus-1", sp,
		fmt.Sprintf("shift amount ≡ m - PacketID - 1 (mod 2^16) in all %d evaluation(s) (%d element load(s), %d PacketID load(s) considered)", seen, len(elems), len(pids)), det)
	r.Check(seen > 0 && distOK == seen, "C12-NPS-DIST", "NackPairsFromSequenceNumbers/folded-distance-at-most-16", sp,
		fmt.Sprintf("(m - PacketID) mod 2^16 <= 16 entailed in all %d evaluation(s)", seen), "the distance of a folded sequence number is not entailed to be <= 16 at the bit site")
	_ = strings.Join
}
