package props

import (
	"fmt"
	"go/types"

	"rtcpverif/pe"
)

// c02CountRoundTrip (rule C02-CNT): the element count of a CCFB report block survives encode-then-decode.
// The count travels in a 16-bit field whose encoding is not the identity (the encoder writes n-1 for n > 0,
// the decoder reads field+1 unless the field is 0), so the bit-provenance layout cannot decide it. For each
// small list length n the encoder is evaluated by the conditional constant propagator on all report blocks
// with n metric blocks (every other field and every metric block unknown), the two octets of the count
// field are read from its result, and the decoder is evaluated on all inputs of the resulting length with
// those two octets (everything else unknown). A decoder that then returns only errors, or stores a list of
// a definite different length, breaks the round trip for every block of that length.
func c02CountRoundTrip(c *Ctx) {
	r := c.Rep
	p := c.Prog
	enc := p.Func("CCFeedbackReportBlock.marshal")
	dec := p.Func("*CCFeedbackReportBlock.unmarshal")
	named := p.Named("CCFeedbackReportBlock")
	mbT := p.Named("CCFeedbackMetricBlock")
	if enc == nil || dec == nil || named == nil || mbT == nil {
		r.Fatalf("unresolved anchor: CCFeedbackReportBlock.marshal / unmarshal")
		return
	}
	st := named.Underlying().(*types.Struct)
	li := structFieldIndex(named, "MetricBlocks")
	if li < 0 {
		r.Fatalf("unresolved anchor: CCFeedbackReportBlock.MetricBlocks")
		return
	}
	r.Anchor("C02-CNT", "CCFeedbackReportBlock")
	pos := p.Pos(enc.Pos())
	for n := 0; n <= 3; n++ {
		key := fmt.Sprintf("CCFeedbackReportBlock/metric-block-count-round-trip[n=%d]", n)
		// ---- encode
		m1 := newPE(c)
		elems := m1.NewObj("metrics", types.NewArray(mbT, int64(n)), false)
		ln := pe.IntV(int64(n))
		recv := pe.Val{K: pe.Struct, T: named}
		for i := 0; i < st.NumFields(); i++ {
			if i == li {
				recv.Fields = append(recv.Fields, pe.Val{K: pe.Slice, Obj: elems, Off: 0, Len: &ln})
			} else {
				recv.Fields = append(recv.Fields, pe.U)
			}
		}
		var res *pe.Result
		if msg := guarded(func() { res = runPE(c, m1, enc, []pe.Val{recv}) }); msg != "" {
			r.Unk("C02-CNT", key, pos, "analysis panic in the encoder: "+msg)
			continue
		}
		type wire struct{ hi, lo, size int64 }
		var outs []wire
		undecided := ""
		for _, rs := range res.Returns {
			if len(rs.Vals) != 2 || rs.Vals[1].K == pe.NonNil {
				continue
			}
			out := rs.Vals[0]
			if out.K != pe.Slice || out.Off != 0 || out.Len == nil || out.Len.K != pe.Int {
				undecided = "the encoder's result is not a buffer of definite length"
				continue
			}
			hi := rs.Load(pe.Val{K: pe.Addr, Obj: out.Obj, Path: "[6]"}, types.Typ[types.Uint8])
			lo := rs.Load(pe.Val{K: pe.Addr, Obj: out.Obj, Path: "[7]"}, types.Typ[types.Uint8])
			if hi.K != pe.Int || lo.K != pe.Int {
				undecided = "the count field written by the encoder is not a constant for this list length"
				continue
			}
			outs = append(outs, wire{hi.I, lo.I, out.Len.I})
		}
		if len(outs) == 0 {
			if undecided == "" {
				undecided = "the encoder has no successful return for this list length"
			}
			r.Unk("C02-CNT", key, pos, undecided)
			continue
		}
		// ---- decode
		ok := true
		det := ""
		for _, w := range outs {
			m2 := newPE(c)
			raw := m2.NewObj("raw", types.NewArray(types.Typ[types.Byte], w.size), false)
			m2.SetCell(raw, "[6]", pe.IntV(w.hi))
			m2.SetCell(raw, "[7]", pe.IntV(w.lo))
			rl := pe.IntV(w.size)
			ro := m2.NewObj("recv", named, true)
			var dres *pe.Result
			if msg := guarded(func() {
				dres = runPE(c, m2, dec, []pe.Val{{K: pe.Addr, Obj: ro}, {K: pe.Slice, Obj: raw, Off: 0, Len: &rl}})
			}); msg != "" {
				ok, det = false, "analysis panic in the decoder: "+msg
				continue
			}
			accepted := false
			for _, rs := range dres.Returns {
				if rs.Vals[0].K == pe.NonNil {
					continue
				}
				accepted = true
				got := rs.Load(pe.Val{K: pe.Addr, Obj: ro, Path: fmt.Sprintf(".f%d", li)}, st.Field(li).Type())
				switch {
				case got.K == pe.Nil && n == 0:
				case got.K == pe.Slice && got.Len != nil && got.Len.K == pe.Int && got.Len.I == int64(n):
				case got.K == pe.Nil || (got.K == pe.Slice && got.Len != nil && got.Len.K == pe.Int):
					m := int64(0)
					if got.K == pe.Slice {
						m = got.Len.I
					}
					ok = false
					det = fmt.Sprintf("a block with %d metric block(s) is encoded with count field %#02x%02x (%d octets) and decodes to %d metric block(s)", n, w.hi, w.lo, w.size, m)
				default:
					// length not definite: nothing is proved either way
				}
			}
			if !accepted {
				ok = false
				det = fmt.Sprintf("a block with %d metric block(s) is encoded with count field %#02x%02x (%d octets), which the decoder rejects on every path", n, w.hi, w.lo, w.size)
			}
		}
		r.Check(ok, "C02-CNT", key, pos, fmt.Sprintf("the count field written for %d metric block(s) is decoded to a list of %d (or is not decided to differ)", n, n), det)
	}
}
