package props

import (
	"fmt"
	"go/constant"
	"go/token"
	"go/types"
	"sort"
	"strings"

	"golang.org/x/tools/go/ssa"

	"rtcpverif/core"
)

func init() { register("C10", "other", checkC10) }

// Spec table written from the property text / the RFCs' notion of "the
// sources a packet refers to". Notation: Map(list,.field) = for each element
// of list in order its field; One(x); FlatCall(list) = concatenation of
// DestinationSSRC() of each element; Call(x) = DestinationSSRC() of x.
var c10Spec = map[string][]string{
	"SenderReport":                    {"Map(recv.Reports,.SSRC) One(recv.SSRC)"},
	"ReceiverReport":                  {"Map(recv.Reports,.SSRC)"},
	"SourceDescription":               {"Map(recv.Chunks,.Source)"},
	"Goodbye":                         {"Map(recv.Sources,.)"},
	"ApplicationDefined":              {"One(recv.SSRC)"},
	"TransportLayerNack":              {"One(recv.MediaSSRC)"},
	"PictureLossIndication":           {"One(recv.MediaSSRC)"},
	"RapidResynchronizationRequest":   {"One(recv.MediaSSRC)"},
	"SliceLossIndication":             {"One(recv.MediaSSRC)"},
	"TransportLayerCC":                {"One(recv.MediaSSRC)"},
	"FullIntraRequest":                {"Map(recv.FIR,.SSRC)"},
	"ReceiverEstimatedMaximumBitrate": {"Map(recv.SSRCs,.)"},
	"CCFeedbackReport":                {"Map(recv.ReportBlocks,.MediaSSRC)"},
	"ExtendedReport":                  {"One(recv.SenderSSRC) FlatCall(recv.Reports)"},
	"RawPacket":                       {""},
	"CompoundPacket":                  {"", "Call(recv[0])"}, // empty compound: nothing; else the first member's list
	// XR report blocks
	"LossRLEReportBlock":               {"One(recv.SSRC)"},
	"DuplicateRLEReportBlock":          {"One(recv.SSRC)"},
	"PacketReceiptTimesReportBlock":    {"One(recv.SSRC)"},
	"ReceiverReferenceTimeReportBlock": {""},
	"DLRRReportBlock":                  {"Map(recv.Reports,.SSRC)"},
	"StatisticsSummaryReportBlock":     {"One(recv.SSRC)"},
	"VoIPMetricsReportBlock":           {"One(recv.SSRC)"},
	"UnknownReportBlock":               {""},
}

type seqAn struct {
	fn    *ssa.Function
	loops map[ssa.Value]*seqLoop // index value used in the body -> loop
	memo  map[ssa.Value]string
}

type seqLoop struct {
	header *ssa.BasicBlock
	bound  string // term of the slice the loop ranges over ("recv.Reports")
	name   string
}

func newSeqAn(fn *ssa.Function) *seqAn {
	a := &seqAn{fn: fn, loops: map[ssa.Value]*seqLoop{}, memo: map[ssa.Value]string{}}
	for _, b := range fn.Blocks {
		if len(b.Instrs) == 0 {
			continue
		}
		iff, ok := b.Instrs[len(b.Instrs)-1].(*ssa.If)
		if !ok {
			continue
		}
		isHeader := false
		for _, p := range b.Preds {
			if b.Dominates(p) {
				isHeader = true
			}
		}
		if !isHeader {
			continue
		}
		cmp, ok := iff.Cond.(*ssa.BinOp)
		if !ok || cmp.Op != token.LSS {
			continue
		}
		// index value: phi (init 0, step 1) or phi+1 (range loops: init -1)
		var phi *ssa.Phi
		iv := cmp.X
		if p, ok := iv.(*ssa.Phi); ok {
			phi = p
		} else if add, ok := iv.(*ssa.BinOp); ok && add.Op == token.ADD && isConstInt(add.Y, 1) {
			phi, _ = add.X.(*ssa.Phi)
		}
		if phi == nil || phi.Block() != b || len(phi.Edges) != 2 {
			continue
		}
		okInit, okStep := false, false
		for i, e := range phi.Edges {
			if b.Dominates(b.Preds[i]) { // back edge
				if add, ok := e.(*ssa.BinOp); ok && add.Op == token.ADD && add.X == phi && isConstInt(add.Y, 1) {
					okStep = true
				}
			} else {
				if iv == ssa.Value(phi) && isConstInt(e, 0) || iv != ssa.Value(phi) && isConstInt(e, -1) {
					okInit = true
				}
			}
		}
		if !okInit || !okStep {
			continue
		}
		a.loops[iv] = &seqLoop{header: b, name: fmt.Sprintf("i%d", b.Index)}
		// bound filled lazily (needs term())
		lenCall, ok := cmp.Y.(*ssa.Call)
		if ok {
			if bi, ok := lenCall.Common().Value.(*ssa.Builtin); ok && bi.Name() == "len" {
				a.loops[iv].bound = a.term(lenCall.Common().Args[0])
			}
		}
	}
	return a
}

func isConstInt(v ssa.Value, n int64) bool {
	c, ok := v.(*ssa.Const)
	if !ok || c.Value == nil || c.Value.Kind() != constant.Int {
		return false
	}
	x, ok := constant.Int64Val(c.Value)
	return ok && x == n
}

// term renders the symbolic meaning of a value in terms of the receiver.
func (a *seqAn) term(v ssa.Value) string {
	if s, ok := a.memo[v]; ok {
		return s
	}
	a.memo[v] = "?cycle"
	s := a.term0(v)
	a.memo[v] = s
	return s
}

func (a *seqAn) term0(v ssa.Value) string {
	switch x := v.(type) {
	case *ssa.Parameter:
		if len(a.fn.Params) > 0 && x == a.fn.Params[0] {
			return "recv"
		}
		return "param:" + x.Name()
	case *ssa.Const:
		if x.Value == nil {
			return "nil"
		}
		return x.Value.ExactString()
	case *ssa.UnOp:
		if x.Op == token.MUL {
			return a.deref(x.X)
		}
	case *ssa.Field:
		st := x.X.Type().Underlying().(*types.Struct)
		return a.term(x.X) + "." + st.Field(x.Field).Name()
	case *ssa.ChangeType:
		return a.term(x.X)
	case *ssa.Convert:
		return a.term(x.X)
	case *ssa.Call:
		if bi, ok := x.Common().Value.(*ssa.Builtin); ok && bi.Name() == "len" {
			return "len(" + a.term(x.Common().Args[0]) + ")"
		}
	case *ssa.BinOp:
		if x.Op == token.ADD {
			if c, ok := x.Y.(*ssa.Const); ok && c.Value != nil {
				if l, ok := a.loops[v]; ok {
					return l.name
				}
				return a.term(x.X) + "+" + c.Value.ExactString()
			}
		}
	case *ssa.Phi:
		if l, ok := a.loops[v]; ok {
			return l.name
		}
	}
	if l, ok := a.loops[v]; ok {
		return l.name
	}
	return "?" + v.Name()
}

// deref: the value stored at address addr.
func (a *seqAn) deref(addr ssa.Value) string {
	switch x := addr.(type) {
	case *ssa.FieldAddr:
		st := x.X.Type().Underlying().(*types.Pointer).Elem().Underlying().(*types.Struct)
		return a.pointee(x.X) + "." + st.Field(x.Field).Name()
	case *ssa.IndexAddr:
		base := a.term(x.X)
		if _, isPtr := x.X.Type().Underlying().(*types.Pointer); isPtr {
			base = a.pointee(x.X)
		}
		return base + "[" + a.term(x.Index) + "]"
	case *ssa.Alloc:
		return a.pointee(x)
	case *ssa.Parameter:
		return a.pointee(x)
	}
	return "?*" + addr.Name()
}

// pointee: symbolic name of the object a pointer value points to.
func (a *seqAn) pointee(p ssa.Value) string {
	switch x := p.(type) {
	case *ssa.Parameter:
		if len(a.fn.Params) > 0 && x == a.fn.Params[0] {
			return "recv"
		}
	case *ssa.Alloc:
		// local copy: all stores of whole values into it must agree
		var vals []string
		if x.Referrers() != nil {
			for _, ref := range *x.Referrers() {
				if st, ok := ref.(*ssa.Store); ok && st.Addr == ssa.Value(x) {
					vals = append(vals, a.term(st.Val))
				}
			}
		}
		if len(vals) > 0 {
			for _, v := range vals[1:] {
				if v != vals[0] {
					return "?alloc-ambiguous"
				}
			}
			return vals[0]
		}
		return "local:" + x.Name()
	case *ssa.FieldAddr:
		st := x.X.Type().Underlying().(*types.Pointer).Elem().Underlying().(*types.Struct)
		return a.pointee(x.X) + "." + st.Field(x.Field).Name()
	case *ssa.IndexAddr:
		return a.deref(x)
	case *ssa.UnOp:
		if x.Op == token.MUL { // pointer loaded from memory
			return "*" + a.deref(x.X)
		}
	}
	return "?ptr:" + p.Name()
}

// seq computes the abstract sequence of a []uint32 value.
func (a *seqAn) seq(v ssa.Value, depth int) ([]string, error) {
	if depth > 12 {
		return nil, fmt.Errorf("too deep")
	}
	switch x := v.(type) {
	case *ssa.Const:
		if x.Value == nil {
			return nil, nil
		}
	case *ssa.Slice:
		if al, ok := x.X.(*ssa.Alloc); ok && x.Low == nil {
			at, ok := al.Type().(*types.Pointer).Elem().Underlying().(*types.Array)
			if !ok {
				break
			}
			// a slice literal (`[]T{a, b}`: the whole array) or a make with a constant size
			// (`make([]T, n)`: new [n]T sliced to n), filled by stores at constant indices
			if x.High != nil && !isConstInt(x.High, at.Len()) {
				break
			}
			out := make([]string, at.Len())
			cnt := make([]int, at.Len())
			refs := append([]ssa.Instruction{}, *al.Referrers()...)
			if x.High != nil {
				// the elements of a made slice are addressed through the slice value
				for _, r := range *x.Referrers() {
					if _, isIA := r.(*ssa.IndexAddr); isIA {
						refs = append(refs, r)
					}
				}
			}
			for _, ref := range refs {
				ia, ok := ref.(*ssa.IndexAddr)
				if !ok {
					if ref == ssa.Instruction(x) {
						continue
					}
					if _, ok := ref.(*ssa.DebugRef); ok {
						continue
					}
					return nil, fmt.Errorf("array literal %s has a use that is not an element store", al.Name())
				}
				c, ok := ia.Index.(*ssa.Const)
				if !ok {
					return nil, fmt.Errorf("array literal indexed by a non-constant")
				}
				k, _ := constant.Int64Val(c.Value)
				for _, r2 := range *ia.Referrers() {
					if st, ok := r2.(*ssa.Store); ok && st.Addr == ssa.Value(ia) {
						out[k] = "One(" + a.term(st.Val) + ")"
						cnt[k]++
					}
				}
			}
			for k := range out {
				if cnt[k] != 1 {
					return nil, fmt.Errorf("array literal element %d stored %d times", k, cnt[k])
				}
			}
			return out, nil
		}
	case *ssa.MakeSlice:
		return a.seqMake(x)
	case *ssa.Call:
		c := x.Common()
		if bi, ok := c.Value.(*ssa.Builtin); ok && bi.Name() == "append" {
			left, err := a.seq(c.Args[0], depth+1)
			if err != nil {
				return nil, err
			}
			right, err := a.seq(c.Args[1], depth+1)
			if err != nil {
				return nil, err
			}
			return append(append([]string{}, left...), right...), nil
		}
		if c.IsInvoke() && c.Method.Name() == "DestinationSSRC" {
			return []string{"Call(" + a.term(c.Value) + ")"}, nil
		}
		if f, ok := c.Value.(*ssa.Function); ok && f.Name() == "DestinationSSRC" && len(c.Args) == 1 {
			return []string{"Call(" + a.term(c.Args[0]) + ")"}, nil
		}
	case *ssa.Phi:
		return a.seqPhi(x, depth)
	case *ssa.UnOp:
		if x.Op == token.MUL {
			t := a.term(x)
			if !strings.Contains(t, "?") {
				return []string{"Map(" + t + ",.)"}, nil
			}
		}
	case *ssa.Field:
		t := a.term(x)
		if !strings.Contains(t, "?") {
			return []string{"Map(" + t + ",.)"}, nil
		}
	}
	return nil, fmt.Errorf("value %s = %s is outside the recognised idioms", v.Name(), v)
}

func (a *seqAn) loopOfBlock(b *ssa.BasicBlock) *seqLoop {
	var best *seqLoop
	for _, l := range a.loops {
		if l.header.Dominates(b) && inNaturalLoop(l.header, b) {
			if best == nil || best.header.Dominates(l.header) {
				best = l
			}
		}
	}
	return best
}

// inNaturalLoop: b can reach header without leaving through the header's exit
// (approximation: b is dominated by header and can reach header).
func inNaturalLoop(header, b *ssa.BasicBlock) bool {
	seen := map[*ssa.BasicBlock]bool{}
	stack := []*ssa.BasicBlock{b}
	for len(stack) > 0 {
		x := stack[len(stack)-1]
		stack = stack[:len(stack)-1]
		if seen[x] {
			continue
		}
		seen[x] = true
		for _, s := range x.Succs {
			if s == header {
				return true
			}
			if header.Dominates(s) {
				stack = append(stack, s)
			}
		}
	}
	return false
}

// generalise turns the per-iteration items of loop l into whole-loop segments.
func (a *seqAn) generalise(items []string, l *seqLoop) ([]string, error) {
	var out []string
	elem := l.bound + "[" + l.name + "]"
	for _, it := range items {
		switch {
		case strings.HasPrefix(it, "One("+elem):
			path := strings.TrimSuffix(strings.TrimPrefix(it, "One("+elem), ")")
			if path == "" {
				path = "."
			}
			if strings.Contains(path, l.name) || strings.Contains(path, "?") {
				return nil, fmt.Errorf("loop item %s depends on the index in an unrecognised way", it)
			}
			out = append(out, "Map("+l.bound+","+path+")")
		case it == "Call("+elem+")":
			out = append(out, "FlatCall("+l.bound+")")
		default:
			return nil, fmt.Errorf("loop item %s is not an element of the ranged list %s", it, l.bound)
		}
	}
	return out, nil
}

func (a *seqAn) seqPhi(phi *ssa.Phi, depth int) ([]string, error) {
	b := phi.Block()
	var l *seqLoop
	for _, cand := range a.loops {
		if cand.header == b {
			l = cand
		}
	}
	if l == nil || len(phi.Edges) != 2 {
		return nil, fmt.Errorf("phi %s is not a loop-carried accumulator", phi.Name())
	}
	var init, next ssa.Value
	for i, e := range phi.Edges {
		if b.Dominates(b.Preds[i]) {
			next = e
		} else {
			init = e
		}
	}
	call, ok := next.(*ssa.Call)
	if !ok {
		return nil, fmt.Errorf("accumulator %s is not updated by append", phi.Name())
	}
	bi, ok := call.Common().Value.(*ssa.Builtin)
	if !ok || bi.Name() != "append" || call.Common().Args[0] != ssa.Value(phi) {
		return nil, fmt.Errorf("accumulator %s is not updated by append(acc, ...)", phi.Name())
	}
	if a.loopOfBlock(call.Block()) != l {
		return nil, fmt.Errorf("append of %s is conditional or nested", phi.Name())
	}
	// the append must execute on every iteration: its block must dominate the back edge source
	for i := range phi.Edges {
		if b.Dominates(b.Preds[i]) && !call.Block().Dominates(b.Preds[i]) {
			return nil, fmt.Errorf("append of %s does not execute on every iteration", phi.Name())
		}
	}
	left, err := a.seq(init, depth+1)
	if err != nil {
		return nil, err
	}
	items, err := a.seq(call.Common().Args[1], depth+1)
	if err != nil {
		return nil, err
	}
	gen, err := a.generalise(items, l)
	if err != nil {
		return nil, err
	}
	return append(append([]string{}, left...), gen...), nil
}

// seqMake handles make([]uint32, n) filled by indexed stores / copy, and
// make([]uint32, 0, n).
func (a *seqAn) seqMake(ms *ssa.MakeSlice) ([]string, error) {
	lenT := a.term(ms.Len)
	if lenT == "0" {
		return nil, nil
	}
	type seg struct {
		pos  string
		text string
		n    string // count term
	}
	var segs []seg
	for _, ref := range *ms.Referrers() {
		switch r := ref.(type) {
		case *ssa.IndexAddr:
			idx := a.term(r.Index)
			for _, r2 := range *r.Referrers() {
				st, ok := r2.(*ssa.Store)
				if !ok || st.Addr != ssa.Value(r) {
					return nil, fmt.Errorf("element address of the result escapes")
				}
				if l, ok := a.loops[r.Index]; ok {
					if a.loopOfBlock(st.Block()) != l {
						return nil, fmt.Errorf("indexed store is conditional or nested")
					}
					gen, err := a.generalise([]string{"One(" + a.term(st.Val) + ")"}, l)
					if err != nil {
						return nil, err
					}
					segs = append(segs, seg{"0", gen[0], "len(" + l.bound + ")"})
				} else {
					if a.loopOfBlock(st.Block()) != nil {
						return nil, fmt.Errorf("store at index %s inside a loop", idx)
					}
					segs = append(segs, seg{idx, "One(" + a.term(st.Val) + ")", "1"})
				}
			}
		case *ssa.Call:
			if bi, ok := r.Common().Value.(*ssa.Builtin); ok && bi.Name() == "copy" && r.Common().Args[0] == ssa.Value(ms) {
				src := a.term(r.Common().Args[1])
				segs = append(segs, seg{"0", "Map(" + src + ",.)", "len(" + src + ")"})
				continue
			}
			return nil, fmt.Errorf("result slice passed to %s", r.Common().Value.Name())
		case *ssa.Return, *ssa.DebugRef:
		default:
			return nil, fmt.Errorf("result slice has an unrecognised use: %s", ref)
		}
	}
	// order: position "0" first (at most one variable-length segment), then len(X), then constants
	sort.SliceStable(segs, func(i, j int) bool { return posRank(segs[i].pos) < posRank(segs[j].pos) })
	var out []string
	cur := "0"
	for _, s := range segs {
		if s.pos != cur {
			return nil, fmt.Errorf("segment %s is written at position %s, expected %s (gap or overlap)", s.text, s.pos, cur)
		}
		out = append(out, s.text)
		cur = addTerm(cur, s.n)
	}
	if cur != lenT {
		return nil, fmt.Errorf("result has length %s but %s elements are written", lenT, cur)
	}
	return out, nil
}

func posRank(p string) int {
	switch {
	case p == "0":
		return 0
	case strings.HasPrefix(p, "len("):
		return 1 + strings.Count(p, "+")
	}
	return 5
}

// addTerm adds two simple terms: "0"+x = x; "len(X)"+"1" = "len(X)+1"; const+const.
func addTerm(a, b string) string {
	var x, y int
	_, ea := fmt.Sscanf(a, "%d", &x)
	_, eb := fmt.Sscanf(b, "%d", &y)
	isNumA := ea == nil && fmt.Sprint(x) == a
	isNumB := eb == nil && fmt.Sprint(y) == b
	switch {
	case isNumA && isNumB:
		return fmt.Sprint(x + y)
	case isNumA && x == 0:
		return b
	case isNumB && y == 0:
		return a
	case isNumB:
		// a = "len(X)" or "len(X)+k"
		if i := strings.LastIndex(a, ")+"); i >= 0 {
			var k int
			if _, err := fmt.Sscanf(a[i+2:], "%d", &k); err == nil {
				return fmt.Sprintf("%s+%d", a[:i+1], k+y)
			}
		}
		return a + "+" + b
	}
	return a + "+" + b
}

// c10SeqOf abstracts every return of a DestinationSSRC method to its segment sequence.
func c10SeqOf(fn *ssa.Function) (got []string, errs []string) {
	an := newSeqAn(fn)
	for _, b := range fn.Blocks {
		ret, ok := b.Instrs[len(b.Instrs)-1].(*ssa.Return)
		if !ok {
			continue
		}
		s, err := an.seq(ret.Results[0], 0)
		if err != nil {
			errs = append(errs, err.Error())
			continue
		}
		got = append(got, strings.Join(s, " "))
	}
	sort.Strings(got)
	got = uniq(got)
	return got, errs
}

func checkC10(c *Ctx) {
	r := c.Rep
	p := c.Prog
	r.Explain = "Sequence provenance: for each DestinationSSRC method the returned []uint32 is abstracted, on the SSA, to a concatenation of segments (One(field), Map(list,.field), FlatCall(list), Call(x)) through the idioms composite literal / make+indexed stores in an index loop (+ trailing store) / make(0,n)+append in a loop / copy / returning the field; index positions and the make length are checked symbolically (no gap, no overlap, length = elements written). The result is compared with a table written from the property text. Holds for every list length at once."
	r.RuleText = "C10-SEQ: abstract sequence of every return of T.DestinationSSRC equals the table row of T (24 types: 16 packets + 8 XR blocks). An implementation outside the recognised idioms is undecided and fails."
	r.Trusted = []string{"go/ssa", "table c10Spec (from the property text)", "field names of the packet structs (anchors)"}
	r.NotCov("that the list is the same after an encode/decode round trip (follows from C02's runtime part)")
	r.Floor("C10-SEQ", 24)

	var types_ []string
	for t := range c10Spec {
		types_ = append(types_, t)
	}
	sort.Strings(types_)
	for _, t := range types_ {
		fn, _ := p.Method(t, "DestinationSSRC")
		if fn == nil {
			r.Fatalf("unresolved anchor: %s.DestinationSSRC", t)
			continue
		}
		r.Anchor("C10-SEQ", t)
		got, errs := c10SeqOf(fn)
		want := append([]string{}, c10Spec[t]...)
		sort.Strings(want)
		key := core.FuncName(fn) + "/sequence"
		pos := p.Pos(fn.Pos())
		if len(errs) > 0 {
			r.Unk("C10-SEQ", key, pos, "cannot abstract the result: "+strings.Join(errs, "; "))
			continue
		}
		r.Check(strings.Join(got, " | ") == strings.Join(want, " | "), "C10-SEQ", key, pos,
			"returns ["+strings.Join(got, " | ")+"]", "returns ["+strings.Join(got, " | ")+"], the property says ["+strings.Join(want, " | ")+"]")
	}
	// every ReportBlock implementation must be in the table
	if rb := p.Named("ReportBlock"); rb != nil {
		if iface, ok := rb.Underlying().(*types.Interface); ok {
			sc := p.Types.Scope()
			for _, nm := range sc.Names() {
				tn, ok := sc.Lookup(nm).(*types.TypeName)
				if !ok || tn.IsAlias() {
					continue
				}
				n, ok := tn.Type().(*types.Named)
				if !ok || types.IsInterface(n) {
					continue
				}
				if types.Implements(types.NewPointer(n), iface) {
					if _, ok := c10Spec[nm]; !ok {
						r.Bad("C10-SEQ", "ReportBlock/"+nm+"/in-table", "-", "report block type "+nm+" has no row in the specification table")
					}
				}
			}
		}
	}
	for _, t := range p.ImplementsPacket() {
		if _, ok := c10Spec[t]; !ok {
			r.Bad("C10-SEQ", "Packet/"+t+"/in-table", "-", "packet type "+t+" has no row in the specification table")
		}
	}
}

func uniq(s []string) []string {
	var out []string
	for i, x := range s {
		if i == 0 || x != s[i-1] {
			out = append(out, x)
		}
	}
	return out
}
