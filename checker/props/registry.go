// Package props implements one static check per property.
package props

import (
	"rtcpverif/core"
)

type Ctx struct {
	Prog  *core.Prog
	Rep   *core.Report
	Tier  string
	Repo  string
	Verif string
}

type CheckFn func(*Ctx)

type entry struct {
	fn    CheckFn
	level string
}

var registry = map[string]entry{}

func register(id, level string, fn CheckFn) { registry[id] = entry{fn, level} }

func Lookup(id string) (CheckFn, string, bool) {
	e, ok := registry[id]
	return e.fn, e.level, ok
}

func (c *Ctx) thorough() bool { return c.Tier == "thorough" }
