package props

import (
	"fmt"
	"go/token"
	"go/types"
	"sort"
	"strings"
	"sync"

	"golang.org/x/tools/go/ssa"

	"rtcpverif/core"
	"rtcpverif/num"
	"rtcpverif/pe"
)

func init() { register("C06", "other", checkC06) }

func checkC06(c *Ctx) {
	r := c.Rep
	p := c.Prog
	r.Explain = "Structural clauses of datagram decoding, decided on Unmarshal, unmarshal and (*CompoundPacket).Unmarshal for every input at once. FRM: in `unmarshal` every decoder invocation receives the SSA value rawData[:n]; with an unconstrained input the numeric engine must entail n = 4*(h.Length+1) as an integer identity (no fixed-width wrap), n <= len(rawData), and at every nil-error return the `processed` result equals n; the datagram parameter of `unmarshal` has no other use than the header read, the cut rawData[:n] and len(), and that length is only compared (ordered) with the same n, so what a frame decodes to cannot depend on whether octets follow it (frame-local); h.Length is the big-endian uint16 of input bytes 2..3 (SSA pattern on (*Header).Unmarshal); both datagram loops thread the remainder rawData[processed:] of the same call, append exactly that call's packet, and run until the remainder is empty. VER: (*Header).Unmarshal evaluated (constant propagation) for all 256 first octets returns a non-nil error unless the version bits are 2. LOC: every index, slice (against the LENGTH, not the capacity) and binary.BigEndian read of every decoder is entailed within the slice it was handed, and no decoder uses 3-index slices or cap(): a decoder cannot observe bytes outside its frame, so frames of a||b are decoded from disjoint sub-slices exactly as in a and in b. AON: every return of Unmarshal whose error may be non-nil returns the constant nil slice; a nil-error return has len(packets) >= 1; CompoundPacket.Unmarshal stores the receiver only after the last decode call. ERR: no callee error is dropped in the three functions (E-ERR)."
	r.RuleText = "C06-FRM, C06-VER, C06-LOC, C06-AON, C06-ERR; undecided = failure."
	r.Trusted = []string{"go/ssa", "numeric engine checker/num, decoder summaries as in C01", "constant-propagation evaluator checker/pe", "encoding/binary model"}
	r.Assume = []string{"decoder receivers are fresh zero values (what unmarshal allocates)", "no slice longer than 2^50"}
	r.NotCov("that equal frames decode to equal values (determinism: C18); value-level correctness of each decoder (C04); a decoder that returns nil for a frame it should reject (C07-GRD for foreign kinds)")

	// ---- LOC + summaries
	var decoders []string
	for _, s := range DecoderRoots() {
		if s == "Unmarshal" || s == "*CompoundPacket.Unmarshal" {
			continue
		}
		if p.Func(s) == nil {
			r.Fatalf("unresolved anchor: %s", s)
			return
		}
		decoders = append(decoders, s)
		r.Anchor("C06-LOC", s)
	}
	r.Floor("C06-LOC", 20)
	res := newNumResult()
	runNumRoots(c, res, decoders, true)
	keys := append([]string{}, res.order...)
	sort.Strings(keys)
	nloc := 0
	for _, k := range keys {
		o := res.obls[k]
		if o.Rule != "B-SLC" && o.Rule != "B-IDX" && o.Rule != "B-BIN" && o.Rule != "B-CNV" {
			continue
		}
		nloc++
		key := strings.TrimPrefix(o.Key, o.Rule+"/")
		if o.Failed == 0 {
			r.Ok("C06-LOC", o.Rule+"/"+key, p.Pos(o.Pos), fmt.Sprintf("%s (within the length of the slice handed to the decoder, %d context(s))", o.Detail, o.Seen))
		} else {
			r.Unk("C06-LOC", o.Rule+"/"+key, p.Pos(o.Pos), fmt.Sprintf("not entailed in %d of %d context(s): %s", o.Failed, o.Seen, o.FailCtx))
		}
	}
	for _, x := range res.exceeded {
		r.Fatalf("numeric engine step budget exceeded in root %s", x)
	}
	if nloc < 200 {
		r.Fatalf("only %d access obligations generated for the decoders (expected several hundred)", nloc)
	}
	c06NoCap(c, res)

	// ---- FRM on unmarshal
	un := p.Func("unmarshal")
	top := p.Func("Unmarshal")
	comp := p.Func("*CompoundPacket.Unmarshal")
	hun := p.Func("*Header.Unmarshal")
	if un == nil || top == nil || comp == nil || hun == nil {
		r.Fatalf("unresolved anchor: unmarshal / Unmarshal / (*CompoundPacket).Unmarshal / (*Header).Unmarshal")
		return
	}
	r.Anchor("C06-FRM", "unmarshal")
	r.Anchor("C06-FRM", "Unmarshal")
	r.Anchor("C06-FRM", "(*CompoundPacket).Unmarshal")
	r.Floor("C06-FRM", 3)
	hidx, _ := headerFieldIdx(p)
	c06Frame(c, res, un, hun, hidx)
	c06HeaderLength(c, hun, hidx)
	for _, fn := range []*ssa.Function{top, comp} {
		ok, why := c06Loop(fn, un)
		r.Check(ok, "C06-FRM", core.FuncName(fn)+"/loop-threads-remainder", p.Pos(fn.Pos()), why, why)
	}

	// ---- AON + ERR
	c06AON(c, res, top, comp, un)

	// ---- VER
	c06Version(c, hun, "C06-VER")
}

// c06NoCap: no cap() and no 3-index slice in the decode universe.
func c06NoCap(c *Ctx, res *numResult) {
	r := c.Rep
	p := c.Prog
	var bad []string
	n := 0
	for _, fn := range p.Funcs {
		if !res.universe[core.FuncName(fn)] {
			continue
		}
		n++
		for _, b := range fn.Blocks {
			for _, in := range b.Instrs {
				switch x := in.(type) {
				case *ssa.Slice:
					if x.Max != nil {
						bad = append(bad, p.Pos(x.Pos())+": 3-index slice")
					}
				case *ssa.Call:
					if bi, ok := x.Common().Value.(*ssa.Builtin); ok && bi.Name() == "cap" {
						bad = append(bad, p.Pos(x.Pos())+": cap()")
					}
				}
			}
		}
	}
	r.Check(len(bad) == 0 && n >= 30, "C06-LOC", "decode-universe/no-cap-no-3-index-slice", "-",
		fmt.Sprintf("none of the %d functions reachable from the decoders uses cap() or a 3-index slice: a slice can only be narrowed within its length", n),
		fmt.Sprintf("%d functions scanned; %s", n, strings.Join(bad, "; ")))
}

// c06Frame: the frame handed to the decoders and the processed count.
func c06Frame(c *Ctx, res *numResult, un, hun *ssa.Function, hidx map[string]int) {
	r := c.Rep
	p := c.Prog
	pos := p.Pos(un.Pos())
	if len(un.Params) != 1 {
		r.Fatalf("unmarshal: unexpected signature")
		return
	}
	raw := un.Params[0]
	// syntactic: all decoder invocations take the same Slice(raw, nil, n)
	var frame *ssa.Slice
	ninv := 0
	okArg := true
	var halloc *ssa.Alloc
	for _, b := range un.Blocks {
		for _, in := range b.Instrs {
			call, ok := in.(*ssa.Call)
			if !ok {
				continue
			}
			cc := call.Common()
			if cc.IsInvoke() && cc.Method.Name() == "Unmarshal" {
				ninv++
				sl, ok := cc.Args[0].(*ssa.Slice)
				if !ok || sl.X != ssa.Value(raw) || sl.Low != nil || sl.High == nil || sl.Max != nil || (frame != nil && frame != sl) {
					okArg = false
					continue
				}
				frame = sl
			} else if cc.StaticCallee() == hun {
				if a, ok := cc.Args[0].(*ssa.Alloc); ok {
					halloc = a
				}
				if cc.Args[1] != ssa.Value(raw) {
					okArg = false
				}
			} else if f := cc.StaticCallee(); f != nil && f.Name() == "Unmarshal" && f.Signature.Recv() != nil {
				// a static decoder call must take the frame as well
				ninv++
				if sl, ok := cc.Args[len(cc.Args)-1].(*ssa.Slice); !ok || (frame != nil && sl != frame) {
					okArg = false
				}
			}
		}
	}
	r.Check(okArg && frame != nil && ninv >= 1 && halloc != nil, "C06-FRM", "unmarshal/decoders-get-the-frame", pos,
		fmt.Sprintf("%d decoder invocation(s), each on the one value rawData[:n]; the header is read from rawData", ninv),
		"a decoder invocation does not take rawData[:n] (or the header is not read from rawData)")
	if frame == nil || halloc == nil {
		return
	}
	c06Locality(c, un, hun, raw, frame)
	// engine
	e := newNumEngine(c, res.sums)
	e.ErrDiscipline = true
	e.WrapLCong = true // h.Length+1 is uint16 arithmetic: Length = 65535 wraps to an empty frame, which every decoder rejects
	var rets []num.RootReturn
	if msg := guarded(func() { rets = e.AnalyzeRoot(un, num.RootOptions{}) }); msg != "" {
		r.Fatalf("analysis panic in unmarshal: %s", msg)
		return
	}
	n, okN, okP, okB := 0, 0, 0, 0
	var det []string
	for _, rr := range rets {
		if len(rr.Ret.Results) != 3 || e.IsNonNilResult(rr.St, rr.Ret.Results[2]) {
			continue
		}
		n++
		st := rr.St
		N := e.LenExprOf(st, frame)
		L := e.AllocFieldExpr(st, halloc, hidx["Length"])
		if !L.Bad && st.EntailsEq(N.Sub(L.Scale(4)).AddConst(-4)) {
			okN++
		} else {
			det = append(det, fmt.Sprintf("frame length %s vs 4*(Length+1) with Length=%s", e.LinString(st.Subst(N)), e.LinString(st.Subst(L))))
		}
		P := e.ExprOf(st, rr.Ret.Results[1])
		if st.EntailsEq(P.Sub(N)) {
			okP++
		} else {
			det = append(det, fmt.Sprintf("processed=%s, frame length=%s", e.LinString(st.Subst(P)), e.LinString(st.Subst(N))))
		}
		if st.Entails(e.LenExprOf(st, raw).Sub(N)) && st.Entails(N.AddConst(-4)) {
			okB++
		} else {
			det = append(det, "frame length not within [4, len(rawData)]")
		}
	}
	r.Check(n > 0 && okN == n, "C06-FRM", "unmarshal/frame-length-is-4*(Length+1)", pos,
		fmt.Sprintf("entailed as an integer identity at %d possibly-successful return(s)", n), strings.Join(det, " | "))
	r.Check(n > 0 && okP == n, "C06-FRM", "unmarshal/processed-equals-frame-length", pos,
		fmt.Sprintf("entailed at %d possibly-successful return(s)", n), strings.Join(det, " | "))
	r.Check(n > 0 && okB == n, "C06-FRM", "unmarshal/frame-within-datagram", pos,
		fmt.Sprintf("4 <= n <= len(rawData) entailed at %d possibly-successful return(s)", n), strings.Join(det, " | "))
	c06ReportErr(c, e)
}

func c06ReportErr(c *Ctx, e *num.Engine) {
	for _, o := range e.SortedObls() {
		if o.Rule != "E-ERR" {
			continue
		}
		key := strings.TrimPrefix(o.Key, "E-ERR/")
		if o.Failed == 0 {
			c.Rep.Ok("C06-ERR", key, c.Prog.Pos(o.Pos), fmt.Sprintf("nil at every nil-error return of the caller (%d context(s))", o.Seen))
		} else {
			c.Rep.Unk("C06-ERR", key, c.Prog.Pos(o.Pos), fmt.Sprintf("in %d of %d context(s): %s", o.Failed, o.Seen, o.FailCtx))
		}
	}
}

// c06HeaderLength: (*Header).Unmarshal stores Length = BigEndian.Uint16(rawPacket[2:]).
func c06HeaderLength(c *Ctx, hun *ssa.Function, hidx map[string]int) {
	r := c.Rep
	p := c.Prog
	ok := false
	why := "no store of binary.BigEndian.Uint16(rawPacket[2:]) to h.Length found"
	nstores := 0
	for _, b := range hun.Blocks {
		for _, in := range b.Instrs {
			st, isStore := in.(*ssa.Store)
			if !isStore {
				continue
			}
			fa, isFA := st.Addr.(*ssa.FieldAddr)
			if !isFA || fa.X != ssa.Value(hun.Params[0]) || fa.Field != hidx["Length"] {
				continue
			}
			nstores++
			call, isCall := st.Val.(*ssa.Call)
			if !isCall || call.Common().StaticCallee() == nil || call.Common().StaticCallee().String() != "(encoding/binary.bigEndian).Uint16" {
				continue
			}
			args := call.Common().Args
			sl, isSl := args[len(args)-1].(*ssa.Slice)
			if isSl && sl.X == ssa.Value(hun.Params[1]) && sl.Low != nil && isConstInt(sl.Low, 2) {
				ok = true
			}
		}
	}
	if nstores != 1 {
		ok = false
		why = fmt.Sprintf("%d stores to h.Length", nstores)
	}
	r.Check(ok, "C06-FRM", "(*Header).Unmarshal/Length-is-bytes-2-3-big-endian", p.Pos(hun.Pos()),
		"the single store to h.Length is binary.BigEndian.Uint16(rawPacket[2:])", why)
}

// c06Loop: for len(rest) != 0 { p, n, err := unmarshal(rest); if err != nil {return ..}; acc = append(acc, p); rest = rest[n:] }
func c06Loop(fn, un *ssa.Function) (bool, string) {
	var call *ssa.Call
	ncall := 0
	for _, b := range fn.Blocks {
		for _, in := range b.Instrs {
			if cl, ok := in.(*ssa.Call); ok && cl.Common().StaticCallee() == un {
				call = cl
				ncall++
			}
		}
	}
	if ncall != 1 {
		return false, fmt.Sprintf("%d calls of unmarshal (expected one, in the loop)", ncall)
	}
	param := fn.Params[len(fn.Params)-1]
	var ex0, ex1 *ssa.Extract
	for _, ref := range *call.Referrers() {
		if ex, ok := ref.(*ssa.Extract); ok {
			switch ex.Index {
			case 0:
				ex0 = ex
			case 1:
				ex1 = ex
			}
		}
	}
	rest, ok := call.Common().Args[0].(*ssa.Phi)
	if !ok {
		// offset form: unmarshal(data[offset:]) with offset = 0, offset += processed, while offset < len(data)
		hdr, why := offsetFrameLoop(call, param, ex1)
		if hdr == nil {
			return false, why
		}
		if !c06Appended(ex0, hdr) {
			return false, "the packet returned by unmarshal is not appended to the loop-carried result list"
		}
		return true, "one unmarshal(data[offset:]) per iteration while offset < len(data); its packet is appended to the result list and offset += processed"
	}
	if len(rest.Edges) != 2 {
		return false, "the argument of unmarshal is not the loop-carried remainder"
	}
	okInit, okStep := false, false
	for _, e := range rest.Edges {
		if e == ssa.Value(param) {
			okInit = true
		} else if sl, ok := e.(*ssa.Slice); ok && sl.X == ssa.Value(rest) && sl.High == nil && sl.Max == nil && ex1 != nil && sl.Low == ssa.Value(ex1) {
			okStep = true
		}
	}
	if !okInit || !okStep {
		return false, "the remainder is not threaded as rest = rest[processed:] from the datagram parameter"
	}
	// loop condition: len(rest) != 0 decides between body and exit
	condOK := false
	for _, ref := range *rest.Referrers() {
		cl, ok := ref.(*ssa.Call)
		if !ok {
			continue
		}
		if bi, ok := cl.Common().Value.(*ssa.Builtin); !ok || bi.Name() != "len" {
			continue
		}
		for _, r2 := range *cl.Referrers() {
			if b, ok := r2.(*ssa.BinOp); ok && (b.Op == token.NEQ || b.Op == token.GTR) && isConstInt(b.Y, 0) {
				for _, r3 := range *b.Referrers() {
					if iff, ok := r3.(*ssa.If); ok && iff.Block() == rest.Block() && iff.Block().Succs[0].Dominates(call.Block()) {
						condOK = true
					}
				}
			}
		}
	}
	if !condOK {
		// bottom-tested form: the remainder just computed, rest[processed:], is measured; the loop goes round
		// again exactly when it is not empty and is left (other than by an error return) only when it is empty
		var next *ssa.Slice
		for _, e := range rest.Edges {
			if sl, ok := e.(*ssa.Slice); ok && sl.X == ssa.Value(rest) {
				next = sl
			}
		}
		hdr := rest.Block()
		inLoopB := map[*ssa.BasicBlock]bool{hdr: true}
		var work []*ssa.BasicBlock
		for _, pr := range hdr.Preds {
			if hdr.Dominates(pr) {
				work = append(work, pr)
			}
		}
		for len(work) > 0 {
			b := work[len(work)-1]
			work = work[:len(work)-1]
			if inLoopB[b] {
				continue
			}
			inLoopB[b] = true
			work = append(work, b.Preds...)
		}
		if next != nil {
			for _, ref := range *next.Referrers() {
				cl, ok := ref.(*ssa.Call)
				if !ok {
					continue
				}
				if bi, ok := cl.Common().Value.(*ssa.Builtin); !ok || bi.Name() != "len" {
					continue
				}
				for _, r2 := range *cl.Referrers() {
					b, ok := r2.(*ssa.BinOp)
					if !ok || !isConstInt(b.Y, 0) || (b.Op != token.EQL && b.Op != token.NEQ && b.Op != token.GTR) {
						continue
					}
					for _, r3 := range *b.Referrers() {
						iff, ok := r3.(*ssa.If)
						if !ok || !inLoopB[iff.Block()] {
							continue
						}
						nonEmpty, empty := iff.Block().Succs[0], iff.Block().Succs[1]
						if b.Op == token.EQL {
							nonEmpty, empty = empty, nonEmpty
						}
						if inLoopB[nonEmpty] && !inLoopB[empty] {
							condOK = true
						}
					}
				}
			}
		}
		// every other way round the loop would skip the test: the latch must be that branch
		if condOK {
			for _, pr := range hdr.Preds {
				if hdr.Dominates(pr) {
					if _, isIf := pr.Instrs[len(pr.Instrs)-1].(*ssa.If); !isIf && len(pr.Preds) != 1 {
						condOK = false
					}
				}
			}
		}
	}
	if !condOK {
		return false, "the loop is not controlled by len(rest) != 0"
	}
	appOK := c06Appended(ex0, rest.Block())
	if !appOK {
		return false, "the packet returned by unmarshal is not appended to the loop-carried result list"
	}
	return true, "one unmarshal(rest) per iteration while len(rest) != 0; its packet is appended to the result list and rest = rest[processed:]"
}

// c06Appended: the packet result ex0 of the unmarshal call is appended to a list carried by a phi of the
// loop header.
func c06Appended(ex0 *ssa.Extract, header *ssa.BasicBlock) bool {
	appOK := false
	if ex0 != nil {
		for _, ref := range *ex0.Referrers() {
			// stored into the variadic array of append
			st, ok := ref.(*ssa.Store)
			if !ok {
				continue
			}
			ia, ok := st.Addr.(*ssa.IndexAddr)
			if !ok {
				continue
			}
			al, ok := ia.X.(*ssa.Alloc)
			if !ok {
				continue
			}
			for _, r2 := range *al.Referrers() {
				sl, ok := r2.(*ssa.Slice)
				if !ok {
					continue
				}
				for _, r3 := range *sl.Referrers() {
					ap, ok := r3.(*ssa.Call)
					if !ok {
						continue
					}
					if bi, ok := ap.Common().Value.(*ssa.Builtin); ok && bi.Name() == "append" {
						if acc, ok := ap.Common().Args[0].(*ssa.Phi); ok && acc.Block() == header {
							for _, e := range acc.Edges {
								if e == ssa.Value(ap) {
									appOK = true
								}
							}
						}
					}
				}
			}
		}
	}
	return appOK
}

// offsetFrameLoop recognises the offset form of the frame loop and returns its header block:
// the argument of the call is data[offset:] of the datagram parameter, offset is a phi of the header
// with the edges 0 and offset + processed, and the header leaves the loop exactly when offset < len(data)
// is false.
func offsetFrameLoop(call *ssa.Call, param *ssa.Parameter, processed *ssa.Extract) (*ssa.BasicBlock, string) {
	sl, ok := call.Common().Args[0].(*ssa.Slice)
	if !ok || sl.X != ssa.Value(param) || sl.High != nil || sl.Max != nil {
		return nil, "the argument of unmarshal is not the loop-carried remainder"
	}
	off, ok := sl.Low.(*ssa.Phi)
	if !ok || len(off.Edges) != 2 || processed == nil {
		return nil, "the frame offset is not loop-carried"
	}
	okInit, okStep := false, false
	for _, e := range off.Edges {
		if isConstInt(e, 0) {
			okInit = true
		} else if bo, ok := e.(*ssa.BinOp); ok && bo.Op == token.ADD && ((bo.X == ssa.Value(off) && bo.Y == ssa.Value(processed)) || (bo.Y == ssa.Value(off) && bo.X == ssa.Value(processed))) {
			okStep = true
		}
	}
	if !okInit || !okStep {
		return nil, "the frame offset is not threaded as offset = 0; offset += processed"
	}
	h := off.Block()
	iff, ok := h.Instrs[len(h.Instrs)-1].(*ssa.If)
	if !ok {
		return nil, "the loop is not controlled by offset < len(data)"
	}
	cmp, ok := iff.Cond.(*ssa.BinOp)
	if !ok {
		return nil, "the loop is not controlled by offset < len(data)"
	}
	x, y := cmp.X, cmp.Y
	switch cmp.Op {
	case token.LSS:
	case token.GTR:
		x, y = y, x
	default:
		return nil, "the loop is not controlled by offset < len(data)"
	}
	ln, ok := y.(*ssa.Call)
	if !ok || x != ssa.Value(off) {
		return nil, "the loop is not controlled by offset < len(data)"
	}
	if bi, ok := ln.Common().Value.(*ssa.Builtin); !ok || bi.Name() != "len" || ln.Common().Args[0] != ssa.Value(param) {
		return nil, "the loop is not controlled by offset < len(data)"
	}
	if !iff.Block().Succs[0].Dominates(call.Block()) {
		return nil, "the loop body is not entered on offset < len(data)"
	}
	return h, ""
}

// c06Locality (C06-FRM/unmarshal/frame-local): what `unmarshal` returns for a frame may depend on the rest of
// the datagram only through the test that the frame fits. Def-use rule over the datagram parameter: it is
// passed to Header.Unmarshal (which reads four octets, C06-LOC), cut to the frame rawData[:n], and measured
// with len(); every use of that length must be an ordered comparison with the same n that bounds the frame
// (n > len, len < n, n <= len, len >= n). Any other use — an equality test with the frame size, arithmetic,
// an index, another call — makes the result of one frame depend on what follows it.
func c06Locality(c *Ctx, un, hun *ssa.Function, raw *ssa.Parameter, frame *ssa.Slice) {
	r := c.Rep
	p := c.Prog
	var bad []string
	nlen, ncmp := 0, 0
	for _, ref := range *raw.Referrers() {
		switch x := ref.(type) {
		case *ssa.DebugRef:
		case *ssa.Slice:
			if x != frame {
				bad = append(bad, p.Pos(x.Pos())+": the datagram is sliced a second time")
			}
		case *ssa.Call:
			cc := x.Common()
			if b, ok := cc.Value.(*ssa.Builtin); ok && b.Name() == "len" {
				nlen++
				for _, r2 := range *x.Referrers() {
					if _, isDbg := r2.(*ssa.DebugRef); isDbg {
						continue
					}
					cmp, ok := r2.(*ssa.BinOp)
					if !ok {
						bad = append(bad, p.Pos(r2.Pos())+": len(rawData) is used outside a comparison: "+r2.String())
						continue
					}
					// len(rawData) - n (or n - len(rawData)) whose only use is an ordered comparison with 0
					if cmp.Op == token.SUB && (cmp.X == frame.High || cmp.Y == frame.High) {
						okDiff := true
						nuse := 0
						for _, r3 := range *cmp.Referrers() {
							if _, isDbg := r3.(*ssa.DebugRef); isDbg {
								continue
							}
							c3, isCmp := r3.(*ssa.BinOp)
							if !isCmp || !(c3.Op == token.LSS || c3.Op == token.GTR || c3.Op == token.LEQ || c3.Op == token.GEQ) || !(isConstInt(c3.X, 0) || isConstInt(c3.Y, 0)) {
								okDiff = false
							}
							nuse++
						}
						if okDiff && nuse > 0 {
							ncmp++
						} else {
							bad = append(bad, p.Pos(cmp.Pos())+": the difference between len(rawData) and the frame size is used other than in an ordered comparison with 0")
						}
						continue
					}
					other := cmp.Y
					if other == ssa.Value(x) {
						other = cmp.X
					}
					switch cmp.Op {
					case token.LSS, token.GTR, token.LEQ, token.GEQ:
						if other != frame.High {
							bad = append(bad, p.Pos(cmp.Pos())+": len(rawData) is compared with something other than the frame size")
						} else {
							ncmp++
						}
					default:
						bad = append(bad, fmt.Sprintf("%s: len(rawData) %s ...: the result depends on whether more octets follow the frame", p.Pos(cmp.Pos()), cmp.Op))
					}
				}
				continue
			}
			if cc.StaticCallee() == hun {
				continue
			}
			bad = append(bad, p.Pos(x.Pos())+": the whole datagram is passed to "+x.String())
		default:
			bad = append(bad, p.Pos(ref.Pos())+": other use of the datagram: "+ref.String())
		}
	}
	sort.Strings(bad)
	r.Check(len(bad) == 0 && ncmp >= 1, "C06-FRM", "unmarshal/frame-local", p.Pos(un.Pos()),
		fmt.Sprintf("the datagram is only handed to Header.Unmarshal, cut to rawData[:n] and measured %d time(s); its length is only compared (ordered) with n", nlen),
		"the result for one frame can depend on the octets that follow it: "+trunc(bad, 3))
}

// c06AON: all-or-nothing.
func c06AON(c *Ctx, res *numResult, top, comp, un *ssa.Function) {
	r := c.Rep
	p := c.Prog
	var mu sync.Mutex
	_ = mu
	// the datagram roots use the summary-free inlining of unmarshal (as in C01)
	e := newNumEngine(c, res.sums)
	e.ErrDiscipline = true
	var rets []num.RootReturn
	if msg := guarded(func() { rets = e.AnalyzeRoot(top, num.RootOptions{}) }); msg != "" {
		r.Fatalf("analysis panic in Unmarshal: %s", msg)
		return
	}
	nerr, okErr, nok, okOK := 0, 0, 0, 0
	for _, rr := range rets {
		if len(rr.Ret.Results) != 2 {
			continue
		}
		if e.IsNilResult(rr.St, rr.Ret.Results[1]) {
			nok++
			if rr.St.Entails(e.LenExprOf(rr.St, rr.Ret.Results[0]).AddConst(-1)) {
				okOK++
			}
			continue
		}
		nerr++
		if cst, ok := rr.Ret.Results[0].(*ssa.Const); ok && cst.IsNil() {
			okErr++
		}
	}
	pos := p.Pos(top.Pos())
	r.Check(nerr > 0 && okErr == nerr, "C06-AON", "Unmarshal/error-returns-carry-no-packets", pos,
		fmt.Sprintf("all %d returns whose error may be non-nil return the constant nil slice", nerr),
		fmt.Sprintf("%d of %d possibly-failing returns return the constant nil slice", okErr, nerr))
	r.Check(nok > 0 && okOK == nok, "C06-AON", "Unmarshal/success-has-at-least-one-packet", pos,
		fmt.Sprintf("len(packets) >= 1 entailed at all %d nil-error return(s): an empty datagram is an error", nok),
		fmt.Sprintf("len(packets) >= 1 entailed at %d of %d nil-error returns", okOK, nok))
	c06ReportErr(c, e)

	e2 := newNumEngine(c, res.sums)
	e2.ErrDiscipline = true
	if msg := guarded(func() { e2.AnalyzeRoot(comp, num.RootOptions{ZeroReceiver: true}) }); msg != "" {
		r.Fatalf("analysis panic in (*CompoundPacket).Unmarshal: %s", msg)
		return
	}
	c06ReportErr(c, e2)
	// the receiver is stored only after the last decode call
	recv := comp.Params[0]
	nst, okSt := 0, 0
	for _, b := range comp.Blocks {
		for _, in := range b.Instrs {
			st, ok := in.(*ssa.Store)
			if !ok || st.Addr != ssa.Value(recv) {
				continue
			}
			nst++
			reach := map[*ssa.BasicBlock]bool{}
			var stack []*ssa.BasicBlock
			stack = append(stack, b.Succs...)
			for len(stack) > 0 {
				x := stack[len(stack)-1]
				stack = stack[:len(stack)-1]
				if reach[x] {
					continue
				}
				reach[x] = true
				stack = append(stack, x.Succs...)
			}
			clean := true
			after := false
			for _, i2 := range b.Instrs {
				if i2 == in {
					after = true
					continue
				}
				if cl, ok := i2.(*ssa.Call); ok && after && cl.Common().StaticCallee() == un {
					clean = false
				}
			}
			for x := range reach {
				for _, i2 := range x.Instrs {
					if cl, ok := i2.(*ssa.Call); ok && cl.Common().StaticCallee() == un {
						clean = false
					}
				}
			}
			if clean {
				okSt++
			}
		}
	}
	r.Check(nst >= 1 && okSt == nst, "C06-AON", "(*CompoundPacket).Unmarshal/receiver-stored-after-decoding", p.Pos(comp.Pos()),
		fmt.Sprintf("%d store(s) to *c, none followed by a decode call: a decode error leaves the receiver untouched", nst),
		"a store to *c can be followed by a decode call that may fail")
}

// c06Version: Header.Unmarshal rejects every first octet whose version bits are not 2.
func c06Version(c *Ctx, hun *ssa.Function, rule string) {
	r := c.Rep
	p := c.Prog
	var mu sync.Mutex
	accepts := map[int]bool{}
	parallelFor(256, func(b0 int) {
		m := newPE(c)
		raw := rawInput(m, b0, -1)
		ro := m.NewObj("recv", p.Named("Header"), true)
		res := runPE(c, m, hun, []pe.Val{{K: pe.Addr, Obj: ro}, raw})
		acc := false
		for _, o := range res.Returns {
			if len(o.Vals) == 1 && (o.Vals[0].K == pe.Nil || o.Vals[0].K == pe.Unknown) {
				acc = true
			}
		}
		mu.Lock()
		accepts[b0] = acc
		mu.Unlock()
	})
	var wrongAcc, wrongRej []string
	for b0 := 0; b0 < 256; b0++ {
		if b0>>6 == 2 && !accepts[b0] {
			wrongRej = append(wrongRej, fmt.Sprintf("0x%02x", b0))
		}
		if b0>>6 != 2 && accepts[b0] {
			wrongAcc = append(wrongAcc, fmt.Sprintf("0x%02x", b0))
		}
	}
	key := "(*Header).Unmarshal/rejects-version-not-2"
	if len(wrongAcc) > 0 {
		key += fmt.Sprintf("[accepts %d octets, first %s]", len(wrongAcc), wrongAcc[0])
	}
	r.Check(len(wrongAcc) == 0, rule, key, p.Pos(hun.Pos()),
		"for all 192 first octets with version bits != 2 every return carries a non-nil error", "a nil-error return is reachable for first octets "+strings.Join(wrongAcc, ","))
	r.Check(len(wrongRej) == 0, rule, "(*Header).Unmarshal/accepts-version-2", p.Pos(hun.Pos()),
		"for all 64 first octets with version bits 2 a nil-error return is reachable", "no nil-error return for "+strings.Join(wrongRej, ","))
	_ = types.Typ
}
