package props

import (
	"fmt"
	"go/constant"
	"go/token"
	"go/types"
	"sort"
	"strings"

	"golang.org/x/tools/go/ssa"

	"rtcpverif/core"
	"rtcpverif/pe"
)

func init() { register("C11", "other", checkC11) }

// retName names what a return site returns as error: "nil", the name of the
// package-level error variable, or "?".
func retName(rs *pe.ReturnSite, idx int) string {
	if idx >= len(rs.Instr.Results) {
		return "?"
	}
	v := rs.Instr.Results[idx]
	if c, ok := v.(*ssa.Const); ok && c.Value == nil {
		return "nil"
	}
	if u, ok := v.(*ssa.UnOp); ok && u.Op == token.MUL {
		if g, ok := u.X.(*ssa.Global); ok {
			return g.Name()
		}
	}
	switch rs.Vals[idx].K {
	case pe.Nil:
		return "nil"
	case pe.NonNil:
		if rs.Vals[idx].S != "" {
			return rs.Vals[idx].S
		}
		return "non-nil"
	}
	return "?"
}

type compoundWorld struct {
	m     *pe.Machine
	arr   *pe.Obj
	first pe.Val
	rest  pe.Val
}

// newCompoundWorld builds the abstract CompoundPacket: element 0 has dynamic
// type *A, every later element has dynamic type *B; an SDES element has chunks
// whose items all have the given type code (itemType < 0: unknown) and text.
func newCompoundWorld(c *Ctx, a, b string, itemType int) *compoundWorld {
	p := c.Prog
	m := newPE(c)
	w := &compoundWorld{m: m}
	pk := p.Named("Packet")
	w.arr = m.NewObj("compound", types.NewArray(pk, 0), false)
	mk := func(name string) pe.Val {
		if name == "" {
			return pe.Val{K: pe.Nil}
		}
		n := p.Named(name)
		o := m.NewObj("pkt:"+name, n, false)
		inner := pe.Val{K: pe.Addr, Obj: o}
		return pe.Val{K: pe.Iface, T: types.NewPointer(n), Inner: &inner}
	}
	w.first, w.rest = mk(a), mk(b)
	m.SetCell(w.arr, "[0]", w.first)
	chunkT := p.Named("SourceDescriptionChunk")
	itemT := p.Named("SourceDescriptionItem")
	chunks := m.NewObj("chunks", types.NewArray(chunkT, 0), false)
	items := m.NewObj("items", types.NewArray(itemT, 0), false)
	for _, v := range []pe.Val{w.first, w.rest} {
		if v.K == pe.Iface && namedOf(v.T) == "SourceDescription" {
			m.SetCell(v.Inner.Obj, ".f0", pe.Val{K: pe.Slice, Obj: chunks, Off: 0, Len: &pe.Val{}})
		}
	}
	prev := m.Hooks.Load
	m.Hooks.Load = func(mm *pe.Machine, in *ssa.UnOp, addr pe.Val) (pe.Val, bool) {
		if addr.K == pe.Addr {
			switch addr.Obj.ID {
			case w.arr.ID:
				if addr.Path == "[0]" {
					return w.first, true
				}
				return w.rest, true
			case chunks.ID:
				if st, ok := in.Type().Underlying().(*types.Struct); ok && st.NumFields() == 2 {
					return pe.Val{K: pe.Struct, T: in.Type(), Fields: []pe.Val{pe.U, {K: pe.Slice, Obj: items, Off: 0, Len: &pe.Val{}}}}, true
				}
			case items.ID:
				if st, ok := in.Type().Underlying().(*types.Struct); ok && st.NumFields() == 2 {
					ty := pe.U
					if itemType >= 0 {
						ty = pe.IntV(int64(itemType))
					}
					return pe.Val{K: pe.Struct, T: in.Type(), Fields: []pe.Val{ty, {K: pe.Str, S: "TEXT"}}}, true
				}
			}
		}
		return prev(mm, in, addr)
	}
	return w
}

func (w *compoundWorld) value() pe.Val {
	return pe.Val{K: pe.Slice, Obj: w.arr, Off: 0, Len: &pe.Val{}}
}

func outcomeSet(res *pe.Result, idx int) (set map[string]bool, s string) {
	set = map[string]bool{}
	for _, rs := range res.Returns {
		set[retName(rs, idx)] = true
	}
	var l []string
	for k := range set {
		l = append(l, k)
	}
	sort.Strings(l)
	return set, "{" + strings.Join(l, ",") + "}"
}

func subset(set map[string]bool, allowed ...string) bool {
	al := map[string]bool{}
	for _, a := range allowed {
		al[a] = true
	}
	for k := range set {
		if !al[k] {
			return false
		}
	}
	return true
}

func checkC11(c *Ctx) {
	r := c.Rep
	p := c.Prog
	r.Explain = "Structural clauses of the compound-packet rules, decided by evaluating Validate / CNAME / Marshal / Unmarshal of CompoundPacket with the constant-propagation evaluator for every dynamic type of the first member and of the later members and every SDES item type code 0..8 (lengths and all other data Unknown, both branch outcomes followed), plus def-use checks on the SSA. Grammar equivalence for all sequences is NOT decided."
	r.RuleText = "C11-FIRST: Validate rejects (errBadFirstPacket) exactly the first-member types other than *SenderReport/*ReceiverReport. C11-SCAN: for later members: *ReceiverReport continues, *SourceDescription ends the scan (nil only if an item type equals SDESCNAME=1, else errMissingCNAME), any other type returns errPacketBeforeCNAME; falling off the end returns errMissingCNAME; the scan loop carries no state between members. C11-GATE: Marshal returns bytes only after Validate returned nil; Unmarshal returns nil only as the result of Validate on the stored list. C11-CNAME: CNAME() returns the Text of the item whose Type compared equal to SDESCNAME, returned from inside the scan (first match); C11-AGG: CompoundPacket.DestinationSSRC abstracts to the list of member 0 (sequence provenance of C10) and CompoundPacket.MarshalSize is an accumulator over every member (shape rule of C05). An error returned together with the text can only stem from a member that is neither *SourceDescription nor *ReceiverReport, at which Validate fails."
	r.Trusted = []string{"go/ssa", "checker/pe evaluator", "type names of the 16 Packet implementations"}
		r.NotCov("sequences whose acceptance depends on interactions between members beyond the per-member decision (the scan loop of Validate is checked to carry no state; the one variable CNAME() carries, its error, is decided by CNAME/error-only-after-a-foreign-member)")
	// ---- C11-AGG: DestinationSSRC is the first member's, MarshalSize the sum over all members
	if ds, _ := p.Method("CompoundPacket", "DestinationSSRC"); ds == nil {
		r.Fatalf("unresolved anchor: CompoundPacket.DestinationSSRC")
	} else {
		r.Anchor("C11-AGG", "CompoundPacket.DestinationSSRC")
		got, errs := c10SeqOf(ds)
		want := append([]string{}, c10Spec["CompoundPacket"]...)
		sort.Strings(want)
		if len(errs) > 0 {
			r.Unk("C11-AGG", "CompoundPacket.DestinationSSRC/first-member", p.Pos(ds.Pos()), "cannot abstract the result: "+strings.Join(errs, "; "))
		} else {
			r.Check(strings.Join(got, " | ") == strings.Join(want, " | "), "C11-AGG", "CompoundPacket.DestinationSSRC/first-member", p.Pos(ds.Pos()),
				"returns ["+strings.Join(got, " | ")+"]: nothing for an empty compound, else exactly the list of member 0",
				"returns ["+strings.Join(got, " | ")+"], the property says ["+strings.Join(want, " | ")+"] (the first member's list and nothing else)")
		}
	}
	if ms := p.Func("CompoundPacket.MarshalSize"); ms == nil {
		r.Fatalf("unresolved anchor: CompoundPacket.MarshalSize")
	} else {
		r.Anchor("C11-AGG", "CompoundPacket.MarshalSize")
		ok, why := accumulatorOverMembers(ms, "MarshalSize", false)
		r.Check(ok, "C11-AGG", "CompoundPacket.MarshalSize/sum-over-members", p.Pos(ms.Pos()), why, why)
	}
	r.Floor("C11-AGG", 2)

	val := p.Func("CompoundPacket.Validate")
	cname := p.Func("CompoundPacket.CNAME")
	mar := p.Func("CompoundPacket.Marshal")
	unm := p.Func("*CompoundPacket.Unmarshal")
	for n, f := range map[string]*ssa.Function{"CompoundPacket.Validate": val, "CompoundPacket.CNAME": cname, "CompoundPacket.Marshal": mar, "(*CompoundPacket).Unmarshal": unm} {
		if f == nil {
			r.Fatalf("unresolved anchor: %s", n)
		}
	}
	if len(r.Fatal) > 0 {
		return
	}
	impl := p.ImplementsPacket()
	sdesCNAME := -1
	if cst, ok := p.Types.Scope().Lookup("SDESCNAME").(*types.Const); ok {
		if v, ok := constant.Int64Val(cst.Val()); ok {
			sdesCNAME = int(v)
		}
	}
	r.Check(sdesCNAME == 1, "C11-SCAN", "const/SDESCNAME", "-", "SDESCNAME = 1 (RFC 3550 6.5.1)", fmt.Sprintf("SDESCNAME = %d, RFC 3550 says 1", sdesCNAME))

	// ---- C11-FIRST
	r.Floor("C11-FIRST", 16)
	for _, a := range impl {
		w := newCompoundWorld(c, a, "Goodbye", -1)
		res := runPE(c, w.m, val, []pe.Val{w.value()})
		set, s := outcomeSet(res, 0)
		r.Anchor("C11-FIRST", a)
		key := "Validate/first=*" + a
		if a == "SenderReport" || a == "ReceiverReport" {
			r.Check(!set["errBadFirstPacket"] && len(set) > 1, "C11-FIRST", key, p.Pos(val.Pos()), "accepted as first member; scan outcomes "+s, "not accepted as first member: outcomes "+s)
		} else {
			r.Check(subset(set, "errEmptyCompound", "errBadFirstPacket") && set["errBadFirstPacket"], "C11-FIRST", key, p.Pos(val.Pos()), "rejected: outcomes "+s, "not rejected with errBadFirstPacket: outcomes "+s)
		}
	}
	{
		w := newCompoundWorld(c, "", "Goodbye", -1) // nil interface as first member
		res := runPE(c, w.m, val, []pe.Val{w.value()})
		set, s := outcomeSet(res, 0)
		r.Check(subset(set, "errEmptyCompound", "errBadFirstPacket"), "C11-FIRST", "Validate/first=nil", p.Pos(val.Pos()), "nil first member rejected: "+s, "nil first member not rejected: "+s)
	}

	// ---- C11-SCAN
	r.Floor("C11-SCAN", 16)
	for _, b := range impl {
		r.Anchor("C11-SCAN", b)
		for _, a := range []string{"SenderReport", "ReceiverReport"} {
			if b == "SourceDescription" {
				for k := 0; k <= 8; k++ {
					w := newCompoundWorld(c, a, b, k)
					res := runPE(c, w.m, val, []pe.Val{w.value()})
					set, s := outcomeSet(res, 0)
					key := fmt.Sprintf("Validate/first=*%s/later=*SourceDescription/itemType=%d", a, k)
					if k == 1 {
						r.Check(subset(set, "errEmptyCompound", "errMissingCNAME", "nil") && set["nil"], "C11-SCAN", key, p.Pos(val.Pos()), "CNAME item ends the scan with success: "+s, "outcomes "+s+" (want nil reachable, no other error)")
					} else {
						r.Check(subset(set, "errEmptyCompound", "errMissingCNAME"), "C11-SCAN", key, p.Pos(val.Pos()), "SDES without CNAME is rejected: "+s, "outcomes "+s+" (want only errMissingCNAME)")
					}
				}
				continue
			}
			w := newCompoundWorld(c, a, b, -1)
			res := runPE(c, w.m, val, []pe.Val{w.value()})
			set, s := outcomeSet(res, 0)
			key := fmt.Sprintf("Validate/first=*%s/later=*%s", a, b)
			if b == "ReceiverReport" {
				r.Check(subset(set, "errEmptyCompound", "errMissingCNAME") && set["errMissingCNAME"], "C11-SCAN", key, p.Pos(val.Pos()), "RRs are skipped; falling off the end gives errMissingCNAME: "+s, "outcomes "+s+" (want only errMissingCNAME)")
			} else {
				r.Check(subset(set, "errEmptyCompound", "errMissingCNAME", "errPacketBeforeCNAME") && set["errPacketBeforeCNAME"] && !set["nil"], "C11-SCAN", key, p.Pos(val.Pos()), "rejected before CNAME: "+s, "outcomes "+s+" (want errPacketBeforeCNAME, never nil)")
			}
		}
	}
	// per-member decision: the scan continues to the next member exactly for *ReceiverReport
	for _, b := range impl {
		w := newCompoundWorld(c, "ReceiverReport", b, -1)
		hdr := outerLoopHeader(val)
		cont := false
		w.m.Hooks.Edge = func(m *pe.Machine, from, to *ssa.BasicBlock) {
			if m.Depth() == 1 && to == hdr && hdr.Dominates(from) {
				cont = true
			}
		}
		runPE(c, w.m, val, []pe.Val{w.value()})
		key := "Validate/later=*" + b + "/continues-scan"
		if b == "ReceiverReport" {
			r.Check(cont, "C11-SCAN", key, p.Pos(val.Pos()), "the scan goes on to the next member", "the scan does not continue after a *ReceiverReport")
		} else {
			r.Check(!cont, "C11-SCAN", key, p.Pos(val.Pos()), "the scan ends at this member (no path back to the loop header)", "the scan can continue past a *"+b+" member: later members may turn a rejected sequence into an accepted one")
		}
	}
	{
		ok, det := cnameFlagMonotone(val)
		r.Check(ok, "C11-SCAN", "Validate/cname-flag-monotone", p.Pos(val.Pos()), "success is controlled by a flag that only ever goes from false to true, and only under `item.Type == SDESCNAME`", det)
	}
	// scan loop carries no state between members: the outermost loop header of
	// Validate has only the range index phi.
	{
		ok, det := scanLoopStateless(val)
		r.Check(ok, "C11-SCAN", "Validate/scan-loop-stateless", p.Pos(val.Pos()), "the member scan loop has no loop-carried variable besides its index", det)
	}

	// ---- C11-GATE
	r.Floor("C11-GATE", 2)
	r.Anchor("C11-GATE", "CompoundPacket.Marshal")
	marshalFn := p.Func("Marshal")
	for _, validateNil := range []bool{true, false} {
		w := newCompoundWorld(c, "ReceiverReport", "Goodbye", -1)
		calledMarshal := false
		validated := false
		w.m.Hooks.Call = func(m *pe.Machine, call ssa.CallInstruction, callee *ssa.Function, args []pe.Val) (bool, pe.Val) {
			switch callee {
			case val:
				validated = true
				if validateNil {
					return true, pe.Val{K: pe.Nil}
				}
				return true, pe.Val{K: pe.NonNil, S: "validate-error"}
			case marshalFn:
				calledMarshal = true
				return true, pe.Val{K: pe.Tuple, Fields: []pe.Val{{K: pe.NonNil, S: "bytes"}, {K: pe.Unknown}}}
			}
			return false, pe.U
		}
		res := runPE(c, w.m, mar, []pe.Val{w.value()})
		if validateNil {
			ok := validated && calledMarshal
			for _, rs := range res.Returns {
				if !(rs.Vals[0].K == pe.NonNil && rs.Vals[0].S == "bytes") {
					ok = false
				}
			}
			r.Check(ok && len(res.Returns) > 0, "C11-GATE", "CompoundPacket.Marshal/validate-ok", p.Pos(mar.Pos()), "when Validate returns nil the result is exactly rtcp.Marshal's result", "when Validate returns nil the result is not rtcp.Marshal's result")
		} else {
			ok := validated && !calledMarshal
			for _, rs := range res.Returns {
				if rs.Vals[0].K != pe.Nil || rs.Vals[1].K != pe.NonNil {
					ok = false
				}
			}
			r.Check(ok && len(res.Returns) > 0, "C11-GATE", "CompoundPacket.Marshal/validate-fails", p.Pos(mar.Pos()), "when Validate fails no bytes are produced: returns (nil, err) and rtcp.Marshal is not called", "when Validate fails the encoder is still reached or bytes are returned")
		}
	}
	r.Anchor("C11-GATE", "(*CompoundPacket).Unmarshal")
	{
		m := newPE(c)
		raw := rawInput(m, -1, -1)
		ro := m.NewObj("recv", p.Named("CompoundPacket"), true)
		recv := pe.Val{K: pe.Addr, Obj: ro}
		un := p.Func("unmarshal")
		var validatedOn pe.Val
		nval := 0
		m.Hooks.Inline = func(callee *ssa.Function, depth int) bool { return callee != un }
		m.Hooks.Call = func(mm *pe.Machine, call ssa.CallInstruction, callee *ssa.Function, args []pe.Val) (bool, pe.Val) {
			if callee == val {
				nval++
				validatedOn = args[0]
				// the argument must be the value currently stored in *c
				cur := mm.LoadAt(recv, p.Named("CompoundPacket"))
				same := cur.K == pe.Slice && args[0].K == pe.Slice && cur.Obj.ID == args[0].Obj.ID && cur.Off == args[0].Off
				if !same {
					return true, pe.Val{K: pe.NonNil, S: "validate-on-other-value"}
				}
				return true, pe.Val{K: pe.NonNil, S: "validate-result"}
			}
			return false, pe.U
		}
		res := runPE(c, m, unm, []pe.Val{recv, raw})
		ok := nval > 0
		var det []string
		for _, rs := range res.Returns {
			v := rs.Vals[0]
			switch {
			case v.K == pe.NonNil && v.S == "validate-result":
			case v.K == pe.NonNil && v.S == "":
			default:
				ok = false
				det = append(det, fmt.Sprintf("%s returns %s", p.Pos(rs.Instr.Pos()), v))
			}
		}
		_ = validatedOn
		r.Check(ok, "C11-GATE", "(*CompoundPacket).Unmarshal/returns-validate", p.Pos(unm.Pos()), "every return is a decode error or the result of Validate() on the list just stored in the receiver", "a return is neither a decode error nor Validate() of the stored list: "+strings.Join(det, "; "))
		// loop condition: decoding continues while bytes remain (no early exit that drops a tail)
		ok2, det2 := loopUntilEmpty(unm)
		r.Check(ok2, "C11-GATE", "(*CompoundPacket).Unmarshal/consumes-all", p.Pos(unm.Pos()), "the frame loop runs while len(rawData) != 0", det2)
	}

	// ---- C11-CNAME
	r.Floor("C11-CNAME", 1)
	r.Anchor("C11-CNAME", "CompoundPacket.CNAME")
	for k := 0; k <= 8; k++ {
		w := newCompoundWorld(c, "ReceiverReport", "SourceDescription", k)
		res := runPE(c, w.m, cname, []pe.Val{w.value()})
		text := false
		for _, rs := range res.Returns {
			if rs.Vals[0].K == pe.Str && rs.Vals[0].S == "TEXT" {
				text = true
			}
		}
		key := fmt.Sprintf("CNAME/itemType=%d", k)
		if k == 1 {
			r.Check(text, "C11-CNAME", key, p.Pos(cname.Pos()), "returns the item's Text", "does not return the CNAME item's Text")
		} else {
			r.Check(!text, "C11-CNAME", key, p.Pos(cname.Pos()), "does not return the Text of a non-CNAME item", "returns the Text of an item that is not a CNAME")
		}
	}
	{
		ok, det := cnameFirstMatch(cname)
		r.Check(ok, "C11-CNAME", "CNAME/first-match", p.Pos(cname.Pos()), "the Text is returned directly from the item whose Type was just compared, inside the scan loops (first match wins)", det)
	}
	{
		ok, det := cnameErrOnlyForForeign(cname)
		r.Check(ok, "C11-CNAME", "CNAME/error-only-after-a-foreign-member", p.Pos(cname.Pos()), det, det)
	}
	_ = core.PacketTypes
}

// cnameErrOnlyForForeign: an error that CNAME() carries in a variable and returns together with the text
// can only have been assigned at a member that is neither *SourceDescription nor *ReceiverReport — the
// members at which Validate's scan returns errPacketBeforeCNAME (C11-SCAN). So whenever Validate succeeds
// no such member precedes the first CNAME item and the returned error is nil. Def-use rule: every non-nil
// source that reaches the error operand of a return whose first result is not the constant "" (through
// phis) is evaluated in a block dominated by the failed outcome of both type assertions.
func cnameErrOnlyForForeign(fn *ssa.Function) (bool, string) {
	nsrc := 0
	var bad []string
	for _, b := range fn.Blocks {
		ret, ok := b.Instrs[len(b.Instrs)-1].(*ssa.Return)
		if !ok || len(ret.Results) != 2 {
			continue
		}
		if cst, isC := ret.Results[0].(*ssa.Const); isC && cst.Value != nil && cst.Value.Kind() == constant.String && constant.StringVal(cst.Value) == "" {
			continue // a failure return: its error is not constrained by the property
		}
		seen := map[ssa.Value]bool{}
		var walk func(v ssa.Value)
		walk = func(v ssa.Value) {
			if seen[v] {
				return
			}
			seen[v] = true
			switch x := v.(type) {
			case *ssa.Const:
				if x.Value != nil {
					bad = append(bad, "a non-nil constant error")
				}
			case *ssa.Phi:
				for _, e := range x.Edges {
					walk(e)
				}
			case *ssa.Extract:
				// the error result of a helper (first-match helper form): looked at separately by first-match
				if call, isCall := x.Tuple.(*ssa.Call); isCall && call.Common().StaticCallee() != nil {
					for _, hb := range call.Common().StaticCallee().Blocks {
						if hr, ok := hb.Instrs[len(hb.Instrs)-1].(*ssa.Return); ok && x.Index < len(hr.Results) {
							if c, isC := hr.Results[x.Index].(*ssa.Const); !isC || c.Value != nil {
								bad = append(bad, "an error produced by "+call.Common().StaticCallee().Name())
							}
						}
					}
					return
				}
				bad = append(bad, "an error of unknown origin: "+x.String())
			default:
				in, isInstr := v.(ssa.Instruction)
				if !isInstr {
					bad = append(bad, "an error of unknown origin: "+v.String())
					return
				}
				nsrc++
				failed := map[string]bool{}
				for _, cd := range dominatingConds(in.Block()) {
					ex, ok := cd.v.(*ssa.Extract)
					if !ok || ex.Index != 1 || cd.outcome {
						continue
					}
					if ta, ok := ex.Tuple.(*ssa.TypeAssert); ok && ta.CommaOk {
						failed[namedOf(ta.AssertedType)] = true
					}
				}
				if !failed["SourceDescription"] || !failed["ReceiverReport"] {
					bad = append(bad, fmt.Sprintf("%s is assigned where the member is not known to be neither *SourceDescription nor *ReceiverReport", v.String()))
				}
			}
		}
		walk(ret.Results[1])
	}
	if len(bad) > 0 {
		sort.Strings(bad)
		return false, "CNAME() can return the text together with " + trunc(bad, 2)
	}
	return true, fmt.Sprintf("the error returned with the text is nil or one of %d value(s) assigned only at a member that is neither *SourceDescription nor *ReceiverReport (where Validate fails)", nsrc)
}

// loopDepth: number of natural-loop headers that dominate b and can be reached back from b.
func inLoop(b *ssa.BasicBlock) bool {
	// b is in a loop iff b can reach itself
	seen := map[*ssa.BasicBlock]bool{}
	var stack []*ssa.BasicBlock
	stack = append(stack, b.Succs...)
	for len(stack) > 0 {
		x := stack[len(stack)-1]
		stack = stack[:len(stack)-1]
		if x == b {
			return true
		}
		if seen[x] {
			continue
		}
		seen[x] = true
		stack = append(stack, x.Succs...)
	}
	return false
}

func outerLoopHeader(fn *ssa.Function) *ssa.BasicBlock {
	for _, b := range fn.Blocks {
		for _, pr := range b.Preds {
			if b.Dominates(pr) {
				return b
			}
		}
	}
	return nil
}

// isTypeEqCNAME: v is `load(&x.Type) == 1`.
func isTypeEqCNAME(v ssa.Value) bool {
	cmp, ok := v.(*ssa.BinOp)
	if !ok || cmp.Op != token.EQL {
		return false
	}
	cst, ok := cmp.Y.(*ssa.Const)
	if !ok || cst.Value == nil {
		return false
	}
	if n, ok := constant.Int64Val(cst.Value); !ok || n != 1 {
		return false
	}
	ld, ok := cmp.X.(*ssa.UnOp)
	if !ok || ld.Op != token.MUL {
		return false
	}
	fa, ok := ld.X.(*ssa.FieldAddr)
	if !ok {
		return false
	}
	st := fa.X.Type().Underlying().(*types.Pointer).Elem().Underlying().(*types.Struct)
	return st.Field(fa.Field).Name() == "Type"
}

// cnameFlagMonotone: every `return nil` of Validate is controlled either
// directly by the true edge of `item.Type == SDESCNAME`, or by a boolean whose
// phi-closure has only the inputs: constant false, constant true arriving over
// the true edge of such a comparison, and members of the closure itself.
func cnameFlagMonotone(fn *ssa.Function) (bool, string) {
	found := false
	for _, b := range fn.Blocks {
		ret, ok := b.Instrs[len(b.Instrs)-1].(*ssa.Return)
		if !ok || len(ret.Results) != 1 {
			continue
		}
		c, ok := ret.Results[0].(*ssa.Const)
		if !ok || c.Value != nil {
			continue
		}
		found = true
		if len(b.Preds) != 1 {
			return false, "return nil has several predecessors"
		}
		pb := b.Preds[0]
		iff, ok := pb.Instrs[len(pb.Instrs)-1].(*ssa.If)
		if !ok {
			return false, "return nil is not guarded by a condition"
		}
		cond := iff.Cond
		positive := pb.Succs[0] == b
		if u, ok := cond.(*ssa.UnOp); ok && u.Op == token.NOT {
			cond, positive = u.X, !positive
		}
		if !positive {
			return false, "return nil is on the false side of its guard"
		}
		if isTypeEqCNAME(cond) {
			continue
		}
		seen := map[ssa.Value]bool{}
		var walk func(v ssa.Value) (bool, string)
		walk = func(v ssa.Value) (bool, string) {
			if seen[v] {
				return true, ""
			}
			seen[v] = true
			if ex, isEx := v.(*ssa.Extract); isEx {
				// the flag is the boolean result of a package-local scan helper: first-match form
				if call, isCall := ex.Tuple.(*ssa.Call); isCall {
					if g := call.Common().StaticCallee(); g != nil && g.Pkg == fn.Pkg {
						return firstMatchHelper(g, ex.Index)
					}
				}
			}
			phi, ok := v.(*ssa.Phi)
			if !ok {
				return false, fmt.Sprintf("the success flag is assigned a computed value (%s): a later item or chunk can reset it", v)
			}
			for i, e := range phi.Edges {
				if cst, ok := e.(*ssa.Const); ok && cst.Value != nil && cst.Value.Kind() == constant.Bool {
					if !constant.BoolVal(cst.Value) {
						// false may only come from outside the loops (initialisation)
						from := phi.Block().Preds[i]
						if phi.Block().Dominates(from) {
							return false, "the success flag is reset to false inside the scan"
						}
						continue
					}
					from := phi.Block().Preds[i]
					if len(from.Preds) != 1 {
						return false, "flag set to true on a merged path"
					}
					g := from.Preds[0]
					gi, ok := g.Instrs[len(g.Instrs)-1].(*ssa.If)
					if !ok || g.Succs[0] != from {
						return false, "flag set to true without `item.Type == SDESCNAME`"
					}
					if isTypeEqCNAME(gi.Cond) {
						continue
					}
					if _, isPhi := gi.Cond.(*ssa.Phi); isPhi { // `flag || ...`: true because the flag already is
						if ok, d := walk(gi.Cond); !ok {
							return false, d
						}
						continue
					}
					return false, "flag set to true without `item.Type == SDESCNAME`"
				}
				if isTypeEqCNAME(e) {
					// `flag = flag || item.Type == SDESCNAME`: the comparison result is taken
					// only on the path where the flag is still false
					from := phi.Block().Preds[i]
					okShape := false
					if len(from.Preds) == 1 {
						g := from.Preds[0]
						if gi, ok := g.Instrs[len(g.Instrs)-1].(*ssa.If); ok && len(g.Succs) == 2 && g.Succs[1] == from {
							if _, isPhi := gi.Cond.(*ssa.Phi); isPhi {
								if ok, _ := walk(gi.Cond); ok {
									okShape = true
								}
							}
						}
					}
					if okShape {
						continue
					}
				}
				if ok, d := walk(e); !ok {
					return false, d
				}
			}
			return true, ""
		}
		if ok, d := walk(cond); !ok {
			return false, d
		}
	}
	if !found {
		return false, "Validate has no `return nil`"
	}
	return true, ""
}

func scanLoopStateless(fn *ssa.Function) (bool, string) {
	// find the outermost loop header (first header in block order)
	for _, b := range fn.Blocks {
		isHeader := false
		for _, pr := range b.Preds {
			if b.Dominates(pr) {
				isHeader = true
			}
		}
		if !isHeader {
			continue
		}
		n := 0
		var names []string
		for _, in := range b.Instrs {
			if phi, ok := in.(*ssa.Phi); ok {
				n++
				names = append(names, phi.Comment)
			}
		}
		if n == 1 {
			return true, ""
		}
		return false, fmt.Sprintf("the member scan loop carries %d variables across iterations (%s): the per-member decision may depend on earlier members", n, strings.Join(names, ","))
	}
	return false, "no loop found in Validate"
}

// loopUntilEmpty checks that (*CompoundPacket).Unmarshal's loop condition is
// len(rawData) != 0 (or > 0) on the current remaining slice.
func loopUntilEmpty(fn *ssa.Function) (bool, string) {
	for _, b := range fn.Blocks {
		isHeader := false
		for _, pr := range b.Preds {
			if b.Dominates(pr) {
				isHeader = true
			}
		}
		if !isHeader || len(b.Instrs) == 0 {
			continue
		}
		iff, ok := b.Instrs[len(b.Instrs)-1].(*ssa.If)
		if !ok {
			continue
		}
		bo, ok := iff.Cond.(*ssa.BinOp)
		if !ok {
			return false, "loop condition is not a comparison"
		}
		// offset form: offset < len(data) with offset a counter of this header
		{
			x, y := bo.X, bo.Y
			if bo.Op == token.GTR {
				x, y = y, x
			}
			if phi, isPhi := x.(*ssa.Phi); isPhi && phi.Block() == b && (bo.Op == token.LSS || bo.Op == token.GTR) {
				if ln, isCall := y.(*ssa.Call); isCall {
					if bi, isB := ln.Common().Value.(*ssa.Builtin); isB && bi.Name() == "len" {
						if _, isParam := ln.Common().Args[0].(*ssa.Parameter); isParam {
							return true, ""
						}
					}
				}
			}
		}
		call, ok := bo.X.(*ssa.Call)
		cst, ok2 := bo.Y.(*ssa.Const)
		if !ok || !ok2 {
			return false, "loop condition is not len(x) <op> const"
		}
		if bi, ok := call.Common().Value.(*ssa.Builtin); !ok || bi.Name() != "len" {
			return false, "loop condition does not test len()"
		}
		v, _ := constant.Int64Val(cst.Value)
		if (bo.Op == token.NEQ && v == 0) || (bo.Op == token.GTR && v == 0) || (bo.Op == token.GEQ && v == 1) {
			return true, ""
		}
		return false, fmt.Sprintf("loop continues while len(rawData) %s %d: a non-empty tail can be dropped silently", bo.Op, v)
	}
	return false, "no loop found"
}

// cnameFirstMatch: some return of CNAME returns load(&item.Text) where the
// same item address feeds the compared Type, and that return is inside a loop
// body reached only through the true edge of the comparison.
func cnameFirstMatch(fn *ssa.Function) (bool, string) {
	for _, b := range fn.Blocks {
		ret, ok := b.Instrs[len(b.Instrs)-1].(*ssa.Return)
		if !ok || len(ret.Results) != 2 {
			continue
		}
		ld, ok := ret.Results[0].(*ssa.UnOp)
		if !ok || ld.Op != token.MUL {
			continue
		}
		fa, ok := ld.X.(*ssa.FieldAddr)
		if !ok {
			continue
		}
		// single predecessor with If on comparison of the same base's Type field
		if len(b.Preds) != 1 {
			continue
		}
		pb := b.Preds[0]
		iff, ok := pb.Instrs[len(pb.Instrs)-1].(*ssa.If)
		if !ok || pb.Succs[0] != b {
			continue
		}
		cmp, ok := iff.Cond.(*ssa.BinOp)
		if !ok || cmp.Op != token.EQL {
			continue
		}
		tl, ok := cmp.X.(*ssa.UnOp)
		if !ok {
			continue
		}
		tfa, ok := tl.X.(*ssa.FieldAddr)
		if !ok || tfa.X != fa.X {
			continue
		}
		if !inLoop(pb) {
			return false, "the matching return is not inside the scan loop"
		}
		return true, ""
	}
	// helper form: `if text, found := helper(chunks); found { return text, err }` with the helper
	// returning (item.Text, true) directly under the test of the same item inside its scan loops
	for _, b := range fn.Blocks {
		ret, ok := b.Instrs[len(b.Instrs)-1].(*ssa.Return)
		if !ok || len(ret.Results) != 2 {
			continue
		}
		ex, ok := ret.Results[0].(*ssa.Extract)
		if !ok {
			continue
		}
		call, ok := ex.Tuple.(*ssa.Call)
		if !ok {
			continue
		}
		g := call.Common().StaticCallee()
		if g == nil || g.Pkg != fn.Pkg || g.Signature.Results().Len() != 2 {
			continue
		}
		// guarded by the helper's boolean result
		guarded := false
		for _, cd := range dominatingConds(b) {
			if e2, ok := cd.v.(*ssa.Extract); ok && e2.Tuple == ex.Tuple && e2.Index == 1-ex.Index && cd.outcome {
				guarded = true
			}
		}
		if !guarded {
			continue
		}
		if ok, _ := firstMatchHelper(g, 1-ex.Index); !ok {
			continue
		}
		// the helper's true-returns return the tested item's Text
		okText := true
		for _, gb := range g.Blocks {
			gr, ok := gb.Instrs[len(gb.Instrs)-1].(*ssa.Return)
			if !ok {
				continue
			}
			if k, isC := gr.Results[1-ex.Index].(*ssa.Const); isC && k.Value != nil && k.Value.String() == "true" {
				ld, ok := gr.Results[ex.Index].(*ssa.UnOp)
				if !ok {
					okText = false
					continue
				}
				fa, ok := ld.X.(*ssa.FieldAddr)
				if !ok || len(gb.Preds) != 1 {
					okText = false
					continue
				}
				iff, ok := gb.Preds[0].Instrs[len(gb.Preds[0].Instrs)-1].(*ssa.If)
				if !ok {
					okText = false
					continue
				}
				cmp, ok := iff.Cond.(*ssa.BinOp)
				if !ok {
					okText = false
					continue
				}
				tl, ok := cmp.X.(*ssa.UnOp)
				if !ok {
					okText = false
					continue
				}
				tfa, ok := tl.X.(*ssa.FieldAddr)
				if !ok || tfa.X != fa.X {
					okText = false
				}
			}
		}
		if okText {
			return true, ""
		}
	}
	return false, "no return of `item.Text` directly guarded by `item.Type == SDESCNAME` on the same item inside the scan: CNAME() may not return the first match"
}

// firstMatchHelper: g's boolean result idx is true only from a return that is the sole continuation of
// the true edge of `item.Type == SDESCNAME` inside g's scan loops (first match wins), and false only
// from returns no CNAME-true edge can reach.
func firstMatchHelper(g *ssa.Function, idx int) (bool, string) {
	nTrue := 0
	trueBlocks := map[*ssa.BasicBlock]bool{}
	for _, b := range g.Blocks {
		iff, ok := b.Instrs[len(b.Instrs)-1].(*ssa.If)
		if ok && isTypeEqCNAME(iff.Cond) {
			trueBlocks[b.Succs[0]] = true
		}
	}
	reach := map[*ssa.BasicBlock]bool{}
	var stack []*ssa.BasicBlock
	for b := range trueBlocks {
		stack = append(stack, b)
	}
	for len(stack) > 0 {
		x := stack[len(stack)-1]
		stack = stack[:len(stack)-1]
		if reach[x] {
			continue
		}
		reach[x] = true
		stack = append(stack, x.Succs...)
	}
	for _, b := range g.Blocks {
		ret, ok := b.Instrs[len(b.Instrs)-1].(*ssa.Return)
		if !ok || idx >= len(ret.Results) {
			continue
		}
		k, isC := ret.Results[idx].(*ssa.Const)
		if !isC || k.Value == nil || k.Value.Kind() != constant.Bool {
			return false, "the scan helper " + g.Name() + " returns a computed flag"
		}
		if constant.BoolVal(k.Value) {
			nTrue++
			if !trueBlocks[b] || len(b.Preds) != 1 || !inLoop(b.Preds[0]) {
				return false, "the scan helper " + g.Name() + " returns true outside the true edge of `item.Type == SDESCNAME` in its scan"
			}
		} else if reach[b] {
			return false, "the scan helper " + g.Name() + " can return false after an item compared equal to SDESCNAME"
		}
	}
	if nTrue == 0 {
		return false, "the scan helper " + g.Name() + " never returns true"
	}
	return true, ""
}
