package props

import (
	"fmt"
	"go/token"
	"go/types"
	"math"
	"strings"

	"golang.org/x/tools/go/ssa"

	"rtcpverif/bits"
	"rtcpverif/core"
	"rtcpverif/num"
	"rtcpverif/pe"
)

func init() { register("C14", "other", checkC14) }

func checkC14(c *Ctx) {
	r := c.Rep
	p := c.Prog
	r.Explain = "The numeric content of this property (exact mantissa x 2^exponent decoding, largest-representable encoding, monotonicity, saturation) is IEEE-754 arithmetic and is NOT decided: no engine here models floating point. Its integer/structural clauses are: NEG - every nil-error return of MarshalTo is dominated by the false edge of a test `bitrate < 0` on the (clamped) receiver bitrate (SSA dominator conditions); EXP - at every nil-error return the exponent that was shifted into octet 17 is entailed below 64 (numeric engine; the conversion byte(exp<<2) is C08's obligation as well); PACK - the mantissa bits OR-ed into octet 17 next to the exponent are entailed <= 3, using the one piece of floating-point reasoning the engine has: an upper bound of a float value learned from a comparison with a constant on a branch (here the exit of `for bitrate >= 1<<18`), carried through float conversions, math.Floor and the conversion to an integer (NaN is outside the model); NORM - on the decode side the loop that left-normalises the mantissa (doubling it, decrementing the exponent) can be left only when bit 23, the implicit leading bit, is set (CFG exit edges); CNT-ENC - octet 16 of the encoding is the low 8 bits of len(SSRCs) (bit-provenance map) and a nil-error return entails len(SSRCs) <= 255; CNT-DEC - at every nil-error return of Unmarshal the number of decoded SSRCs equals the count octet buf[16] and the frame length 20 + 4*count (numeric engine)."
	r.RuleText = "C14-NEG, C14-EXP, C14-PACK, C14-NORM, C14-CNT-ENC, C14-CNT-DEC, C14-ZERO (a zero mantissa decodes to the bitrate 0, for four exponents)."
	r.Trusted = []string{"go/ssa", "checker/num", "checker/bits"}
	r.Assume = []string{"decoder receiver is a zero value"}
	r.NotCov("decode(mantissa, exponent) = mantissa x 2^exponent for all 2^24 pairs; encode(x) = largest representable value <= x; monotonicity; saturation at 0x3FFFF x 2^63; the mantissa/exponent bit packing of octets 17..19 — all float32 arithmetic (math.Floor, division by two, Float32frombits)")

	mt := p.Func("ReceiverEstimatedMaximumBitrate.MarshalTo")
	mar := p.Func("ReceiverEstimatedMaximumBitrate.Marshal")
	un := p.Func("*ReceiverEstimatedMaximumBitrate.Unmarshal")
	named := p.Named("ReceiverEstimatedMaximumBitrate")
	if mt == nil || mar == nil || un == nil || named == nil {
		r.Fatalf("unresolved anchor: ReceiverEstimatedMaximumBitrate.MarshalTo / Marshal / Unmarshal")
		return
	}
	for _, f := range []*ssa.Function{mt, mar, un} {
		r.Anchor("C14-ROOT", core.FuncName(f))
	}
	r.Floor("C14-ROOT", 3)
	brIdx := structFieldIndex(named, "Bitrate")
	ssIdx := structFieldIndex(named, "SSRCs")
	if brIdx < 0 || ssIdx < 0 {
		r.Fatalf("unresolved anchor: REMB fields Bitrate / SSRCs")
		return
	}

	// ---- NEG
	derivesFromBitrate := func(v ssa.Value) bool {
		seen := map[ssa.Value]bool{}
		var walk func(v ssa.Value, d int) bool
		walk = func(v ssa.Value, d int) bool {
			if v == nil || seen[v] || d > 8 {
				return false
			}
			seen[v] = true
			switch x := v.(type) {
			case *ssa.Field:
				return x.Field == brIdx && x.X == ssa.Value(mt.Params[0])
			case *ssa.UnOp:
				if fa, ok := x.X.(*ssa.FieldAddr); ok && x.Op == token.MUL && fa.Field == brIdx {
					return true
				}
			case *ssa.Phi:
				ok := false
				for _, e := range x.Edges {
					if _, isC := e.(*ssa.Const); isC {
						continue
					}
					if walk(e, d+1) {
						ok = true
					} else {
						return false
					}
				}
				return ok
			case *ssa.Convert:
				return walk(x.X, d+1)
			}
			return false
		}
		return walk(v, 0)
	}
	nret, nok := 0, 0
	for _, b := range mt.Blocks {
		ret, ok := b.Instrs[len(b.Instrs)-1].(*ssa.Return)
		if !ok {
			continue
		}
		if k, ok := ret.Results[len(ret.Results)-1].(*ssa.Const); !ok || !k.IsNil() {
			continue
		}
		nret++
		for _, cd := range dominatingConds(b) {
			cmp, ok := cd.v.(*ssa.BinOp)
			if !ok {
				continue
			}
			isZero := func(v ssa.Value) bool {
				k, ok := v.(*ssa.Const)
				return ok && k.Value != nil && k.Value.String() == "0"
			}
			// bitrate < 0 is false, or bitrate >= 0 is true
			if (cmp.Op == token.LSS && !cd.outcome || cmp.Op == token.GEQ && cd.outcome) && isZero(cmp.Y) && derivesFromBitrate(cmp.X) {
				nok++
				break
			}
			if (cmp.Op == token.GTR && !cd.outcome || cmp.Op == token.LEQ && cd.outcome) && isZero(cmp.X) && derivesFromBitrate(cmp.Y) {
				nok++
				break
			}
		}
	}
	r.Check(nret > 0 && nok == nret, "C14-NEG", "ReceiverEstimatedMaximumBitrate.MarshalTo/negative-bitrate-is-an-error", p.Pos(mt.Pos()),
		fmt.Sprintf("all %d nil-error return(s) are dominated by `bitrate < 0` being false for the receiver's (clamped) bitrate", nret),
		fmt.Sprintf("%d of %d nil-error returns are dominated by a sign test of the receiver's bitrate", nok, nret))

	// ---- EXP and CNT-ENC (numeric engine on Marshal)
	var expShift *ssa.BinOp
	for _, b := range mt.Blocks {
		for _, in := range b.Instrs {
			if bo, ok := in.(*ssa.BinOp); ok && bo.Op == token.SHL && isConstInt(bo.Y, 2) {
				if _, isInt := bo.X.Type().Underlying().(*types.Basic); isInt && strings.Contains(bo.X.Type().String(), "int") {
					expShift = bo
				}
			}
		}
	}
	e := newNumEngine(c, nil)
	e.WrapLCong = true
	// PACK: x<<s | y in MarshalTo: y must fit below bit s (the mantissa's top bits next to the exponent)
	packSeen, packOK := 0, 0
	packDet := ""
	shiftOf := func(v ssa.Value) (int64, bool) {
		for d := 0; d < 4; d++ {
			switch x := v.(type) {
			case *ssa.Convert:
				v = x.X
				continue
			case *ssa.BinOp:
				if x.Op == token.SHL {
					if k, ok := x.Y.(*ssa.Const); ok && k.Value != nil {
						return k.Int64(), true
					}
				}
			}
			break
		}
		return 0, false
	}
	e.BinOpHook = func(e *num.Engine, st *num.State, x *ssa.BinOp) {
		if x.Op != token.OR || x.Parent() != mt {
			return
		}
		for _, pair := range [][2]ssa.Value{{x.X, x.Y}, {x.Y, x.X}} {
			if s, ok := shiftOf(pair[0]); ok && s > 0 && s < 8 {
				packSeen++
				y := e.ExprOf(st, pair[1])
				if !y.Bad && st.Entails(y) && st.Entails(y.Neg().AddConst(int64(1)<<uint(s)-1)) {
					packOK++
				} else {
					b := st.Bounds(y)
					packDet = fmt.Sprintf("the operand OR-ed below a value shifted by %d is only known to lie in %s (needs [0,%d])", s, rangeStr(b), int64(1)<<uint(s)-1)
				}
				return
			}
		}
	}
	var rets []num.RootReturn
	if msg := guarded(func() { rets = e.AnalyzeRoot(mt, num.RootOptions{ElemsNonNil: true}) }); msg != "" {
		r.Fatalf("analysis panic in REMB MarshalTo: %s", msg)
		return
	}
	n, okExp, okCnt := 0, 0, 0
	for _, rr := range rets {
		if len(rr.Ret.Results) != 2 || e.IsNonNilResult(rr.St, rr.Ret.Results[1]) {
			continue
		}
		n++
		if expShift != nil {
			x := e.ExprOf(rr.St, expShift.X)
			if !x.Bad && rr.St.Entails(x) && rr.St.Entails(x.Neg().AddConst(63)) {
				okExp++
			}
		}
		ln := e.StructFieldLenExpr(rr.St, mt.Params[0], ssIdx)
		if !ln.Bad && rr.St.Entails(ln.Neg().AddConst(255)) {
			okCnt++
		}
	}
	r.Check(expShift != nil && n > 0 && okExp == n, "C14-EXP", "ReceiverEstimatedMaximumBitrate.MarshalTo/exponent-below-64", p.Pos(mt.Pos()),
		fmt.Sprintf("0 <= exp <= 63 entailed at all %d nil-error return(s) for the value shifted into octet 17", n), "the exponent written into octet 17 is not entailed to fit 6 bits at every nil-error return")
	r.Check(packSeen > 0 && packOK == packSeen, "C14-PACK", "ReceiverEstimatedMaximumBitrate.MarshalTo/mantissa-top-bits-below-the-exponent", p.Pos(mt.Pos()),
		fmt.Sprintf("in every `exp<<2 | mantissa>>16` the right operand is entailed <= 3 (%d evaluation(s)); the bound comes from the loop exit `!(bitrate >= 1<<18)` carried through Floor and the conversion to uint", packSeen),
		packDet)
	lr := runLayouts(c, "ReceiverEstimatedMaximumBitrate")["ReceiverEstimatedMaximumBitrate"]
	cntOK := false
	why := "encoder not analysable"
	if lr != nil && lr.enc != nil {
		cell, ok := lr.enc.Wire["16"]
		cntOK = ok
		for k := 0; k < 8 && cntOK; k++ {
			if cell[k] != (bits.Bit{K: bits.BSrc, Src: "L:len(SSRCs)", I: k}) {
				cntOK = false
				why = fmt.Sprintf("octet 16 bit %d is %s", k, cell[k])
			}
		}
	}
	r.Check(cntOK && n > 0 && okCnt == n, "C14-CNT-ENC", "ReceiverEstimatedMaximumBitrate.Marshal/count-octet-is-len(SSRCs)", p.Pos(mar.Pos()),
		fmt.Sprintf("octet 16 = low 8 bits of len(SSRCs) and len(SSRCs) <= 255 entailed at all %d nil-error return(s)", n), why)

	// ---- NORM: the decode-side normalisation loop (mantissa doubled, exponent decremented) is left only
	// when the implicit leading bit (bit 23) of the mantissa is set
	{
		loops := loopBlocksWithHeaders(un)
		var hdr *ssa.BasicBlock
		for _, b := range un.Blocks {
			for _, in := range b.Instrs {
				bo, ok := in.(*ssa.BinOp)
				if !ok || loops[b] == nil {
					continue
				}
				if (bo.Op == token.MUL && isConstInt(bo.Y, 2) || bo.Op == token.SHL && isConstInt(bo.Y, 1)) && strings.Contains(bo.Type().String(), "uint32") {
					hdr = loops[b]
				}
			}
		}
		ok := hdr != nil
		why := "no loop doubling a uint32 mantissa found in Unmarshal"
		nexit := 0
		if hdr != nil {
			for b, h := range loops {
				if h != hdr {
					continue
				}
				for _, sc := range b.Succs {
					if loops[sc] == hdr {
						continue
					}
					nexit++
					iff, isIf := b.Instrs[len(b.Instrs)-1].(*ssa.If)
					good := false
					if isIf {
						if cmp, isCmp := iff.Cond.(*ssa.BinOp); isCmp && (cmp.Op == token.EQL || cmp.Op == token.NEQ) && isConstInt(cmp.Y, 0) {
							if and, isAnd := cmp.X.(*ssa.BinOp); isAnd && and.Op == token.AND && (isConstInt(and.Y, 1<<23) || isConstInt(and.X, 1<<23)) {
								// leaving on the side where the bit is set
								exitOnTrue := b.Succs[0] == sc
								bitSetOnTrue := cmp.Op == token.NEQ
								good = exitOnTrue == bitSetOnTrue
							}
						}
					}
					if !good {
						ok = false
						why = "the normalisation loop can be left at " + p.Pos(b.Instrs[len(b.Instrs)-1].Pos()) + " without bit 23 of the mantissa being set"
					}
				}
			}
			if nexit == 0 {
				ok = false
				why = "the normalisation loop has no exit"
			}
		}
		r.Check(ok, "C14-NORM", "(*ReceiverEstimatedMaximumBitrate).Unmarshal/normalisation-runs-until-leading-bit", p.Pos(un.Pos()),
			fmt.Sprintf("the loop that doubles the mantissa has %d exit edge(s), each taken only when mantissa&(1<<23) != 0", nexit), why)
	}

	// ---- ENORM (encode side): the halving loop continues exactly while bitrate >= 2^18
	c14EncNorm(c, mt)

	// ---- CNT-DEC
	var numV ssa.Value // int(buf[16])
	for _, b := range un.Blocks {
		for _, in := range b.Instrs {
			cv, ok := in.(*ssa.Convert)
			if !ok {
				continue
			}
			ld, ok := cv.X.(*ssa.UnOp)
			if !ok || ld.Op != token.MUL {
				continue
			}
			ia, ok := ld.X.(*ssa.IndexAddr)
			if ok && ia.X == ssa.Value(un.Params[1]) && isConstInt(ia.Index, 16) {
				numV = cv
			}
		}
	}
	e2 := newNumEngine(c, nil)
	e2.WrapLCong = true
	var rets2 []num.RootReturn
	if msg := guarded(func() { rets2 = e2.AnalyzeRoot(un, num.RootOptions{ZeroReceiver: true}) }); msg != "" {
		r.Fatalf("analysis panic in REMB Unmarshal: %s", msg)
		return
	}
	n2, ok2 := 0, 0
	det := ""
	if numV == nil {
		det = "no conversion int(buf[16]) found"
	}
	if numV == nil {
		det = "no conversion int(buf[16]) found"
	}
	for _, rr := range rets2 {
		if len(rr.Ret.Results) != 1 || e2.IsNonNilResult(rr.St, rr.Ret.Results[0]) {
			continue
		}
		n2++
		if numV == nil {
			continue
		}
		ln := e2.PtrFieldLenExpr(rr.St, un.Params[0], ssIdx)
		cnt := e2.ExprOf(rr.St, numV)
		if !ln.Bad && !cnt.Bad && rr.St.EntailsEq(ln.Sub(cnt)) {
			ok2++
		} else {
			det += fmt.Sprintf(" | at %s: len(SSRCs)=%s, count octet=%s", p.Pos(rr.Ret.Pos()), e2.LinString(rr.St.Subst(ln)), e2.LinString(rr.St.Subst(cnt)))
		}
	}
	r.Check(n2 > 0 && ok2 == n2, "C14-CNT-DEC", "(*ReceiverEstimatedMaximumBitrate).Unmarshal/decoded-count-equals-count-octet", p.Pos(un.Pos()),
		fmt.Sprintf("len(p.SSRCs) = int(buf[16]) entailed at all %d nil-error return(s)", n2), det)
	c14Zero(c)
}

// c14Zero (rule C14-ZERO): a REMB whose mantissa field is zero carries the bitrate 0 x 2^exp = 0. The decoder
// is evaluated by the conditional constant propagator on all packets of 20 octets with the REMB identifier,
// no SSRC, a zero mantissa and a given exponent (every other octet arbitrary); the float it stores is followed
// as its bit pattern through math.Float32frombits. A definite non-zero pattern is a wrong decoding of every
// such packet; an undetermined value decides nothing.
func c14Zero(c *Ctx) {
	r := c.Rep
	p := c.Prog
	fn := p.Func("*ReceiverEstimatedMaximumBitrate.Unmarshal")
	named := p.Named("ReceiverEstimatedMaximumBitrate")
	if fn == nil || named == nil {
		r.Fatalf("unresolved anchor: (*ReceiverEstimatedMaximumBitrate).Unmarshal")
		return
	}
	bi := structFieldIndex(named, "Bitrate")
	if bi < 0 {
		r.Fatalf("unresolved anchor: ReceiverEstimatedMaximumBitrate.Bitrate")
		return
	}
	st := named.Underlying().(*types.Struct)
	var failing []string
	var dets []string
	undecided := ""
	exps := []int{0, 1, 47, 63}
	for _, e := range exps {
		m := newPE(c)
		raw := m.NewObj("raw", types.NewArray(types.Typ[types.Byte], 20), false)
		cells := map[int]int{0: 0x8F, 1: 206, 2: 0, 3: 4, 8: 0, 9: 0, 10: 0, 11: 0, 12: 'R', 13: 'E', 14: 'M', 15: 'B', 16: 0, 17: e << 2, 18: 0, 19: 0}
		for i, v := range cells {
			m.SetCell(raw, fmt.Sprintf("[%d]", i), pe.IntV(int64(v)))
		}
		ln := pe.IntV(20)
		ro := m.NewObj("recv", named, true)
		var res *pe.Result
		if msg := guarded(func() {
			res = runPE(c, m, fn, []pe.Val{{K: pe.Addr, Obj: ro}, {K: pe.Slice, Obj: raw, Off: 0, Len: &ln}})
		}); msg != "" {
			undecided = "analysis panic: " + msg
			continue
		}
		n := 0
		for _, rs := range res.Returns {
			if rs.Vals[0].K == pe.NonNil {
				continue
			}
			n++
			got := rs.Load(pe.Val{K: pe.Addr, Obj: ro, Path: fmt.Sprintf(".f%d", bi)}, st.Field(bi).Type())
			if got.K == pe.Int && got.S == "float32bits" && got.I != 0 {
				failing = append(failing, fmt.Sprint(e))
				dets = append(dets, fmt.Sprintf("exponent %d with a zero mantissa decodes to the float with bits %#08x (%g) instead of 0", e, got.I, math.Float32frombits(uint32(got.I))))
				break
			}
		}
		if n == 0 {
			undecided = fmt.Sprintf("no successful return reached for exponent %d", e)
		}
	}
	key := "(*ReceiverEstimatedMaximumBitrate).Unmarshal/zero-mantissa-decodes-to-zero"
	if len(failing) > 0 {
		key += "[exponents " + strings.Join(failing, ",") + " decode to a non-zero bitrate]"
	}
	switch {
	case len(failing) > 0:
		r.Bad("C14-ZERO", key, p.Pos(fn.Pos()), strings.Join(dets, "; "))
	case undecided != "":
		r.Unk("C14-ZERO", key, p.Pos(fn.Pos()), undecided)
	default:
		r.Ok("C14-ZERO", key, p.Pos(fn.Pos()), fmt.Sprintf("for the exponents %v a zero mantissa is not decoded to a definite non-zero bitrate", exps))
	}
}

// c14EncNorm: "18-bit mantissa, minimal exponent" needs the encoder to divide by two exactly while the
// value is >= 2^18 and to count one exponent step per division. The rule finds the loop that halves a
// float phi in MarshalTo and decides the set of values on which it continues from the comparison that
// guards the halving: it has to be [2^18, inf). A comparison against another constant, or a strict one
// (x > 2^18-1 continues for 262143.5, which then gets exponent 1 although it fits exponent 0), is a
// violation; a loop whose guard is not a comparison with a constant is undecided. An encoder without a
// halving loop (closed form) is outside this rule and only noted.
func c14EncNorm(c *Ctx, mt *ssa.Function) {
	r, p := c.Rep, c.Prog
	isFloat := func(t types.Type) bool {
		b, ok := t.Underlying().(*types.Basic)
		return ok && b.Info()&types.IsFloat != 0
	}
	constFloat := func(v ssa.Value) (float64, bool) {
		k, ok := v.(*ssa.Const)
		if !ok || k.Value == nil {
			return 0, false
		}
		if !isFloat(k.Type()) && k.Type().Underlying().(*types.Basic).Info()&types.IsInteger == 0 {
			return 0, false
		}
		return k.Float64(), true
	}
	var phi *ssa.Phi
	var halve *ssa.BinOp
	for _, b := range mt.Blocks {
		for _, in := range b.Instrs {
			ph, ok := in.(*ssa.Phi)
			if !ok || !isFloat(ph.Type()) {
				continue
			}
			for _, e := range ph.Edges {
				bo, ok := e.(*ssa.BinOp)
				if !ok || bo.X != ssa.Value(ph) {
					continue
				}
				if k, isK := constFloat(bo.Y); isK && (bo.Op == token.QUO && k == 2 || bo.Op == token.MUL && k == 0.5) {
					phi, halve = ph, bo
				}
			}
		}
	}
	key := "ReceiverEstimatedMaximumBitrate.MarshalTo/halving-continues-exactly-from-2^18"
	if phi == nil {
		r.Check(true, "C14-ENORM", key, p.Pos(mt.Pos()), "MarshalTo has no loop halving a float value: the exponent is not computed by repeated division and minimality is not decided by this rule", "")
		r.NotCov("C14-ENORM found no halving loop in MarshalTo: exponent minimality of a closed-form encoder is not decided")
		return
	}
	body := halve.Block()
	// the If that decides between the halving block and leaving: the last instruction of the phi's block,
	// or of a block between it and the body
	var iff *ssa.If
	var ib *ssa.BasicBlock
	for _, b := range mt.Blocks {
		if len(b.Instrs) == 0 {
			continue
		}
		i2, ok := b.Instrs[len(b.Instrs)-1].(*ssa.If)
		if !ok || !(b == phi.Block() || phi.Block().Dominates(b)) || !(b.Dominates(body)) || b == body {
			continue
		}
		if cmp, ok := i2.Cond.(*ssa.BinOp); ok {
			if c14derivesFrom(cmp.X, phi) || c14derivesFrom(cmp.Y, phi) {
				iff, ib = i2, b
			}
		}
	}
	if iff == nil {
		r.Unk("C14-ENORM", key, p.Pos(halve.Pos()), "the block halving the bitrate is not guarded by a comparison of the bitrate with a constant")
		return
	}
	cmp := iff.Cond.(*ssa.BinOp)
	x, kv, op := cmp.X, cmp.Y, cmp.Op
	if _, isK := constFloat(kv); !isK {
		// constant on the left: mirror
		x, kv = cmp.Y, cmp.X
		switch op {
		case token.LSS:
			op = token.GTR
		case token.LEQ:
			op = token.GEQ
		case token.GTR:
			op = token.LSS
		case token.GEQ:
			op = token.LEQ
		}
	}
	k, isK := constFloat(kv)
	if !isK {
		r.Unk("C14-ENORM", key, p.Pos(cmp.Pos()), "the guard of the halving loop does not compare with a constant")
		return
	}
	contOnTrue := ib.Succs[0] == body || (ib.Succs[0] != phi.Block() && ib.Succs[0].Dominates(body))
	if !contOnTrue {
		switch op { // negate: continue-set is the complement
		case token.LSS:
			op = token.GEQ
		case token.LEQ:
			op = token.GTR
		case token.GTR:
			op = token.LEQ
		case token.GEQ:
			op = token.LSS
		}
	}
	integral := c14integral(x, phi)
	good := op == token.GEQ && k == 262144 || integral && op == token.GTR && k == 262143
	form := fmt.Sprintf("continues while x %s %v", op, k)
	if integral {
		form += " (x integer-valued)"
	}
	r.Check(good, "C14-ENORM", key, p.Pos(cmp.Pos()),
		"the loop dividing the bitrate by two "+form+", i.e. exactly on [2^18, inf): the mantissa is the largest 18-bit one and the exponent minimal",
		"the loop dividing the bitrate by two "+form+"; the property needs it to continue exactly on [2^18, inf): a value in the gap is halved once too often or too seldom, so the exponent is not minimal / the mantissa exceeds 18 bits")
	// one exponent step per halving, starting from 0
	okExp := false
	for _, in := range phi.Block().Instrs {
		ph, ok := in.(*ssa.Phi)
		if !ok || ph == phi || len(ph.Edges) != len(phi.Edges) {
			continue
		}
		if b, ok := ph.Type().Underlying().(*types.Basic); !ok || b.Info()&types.IsInteger == 0 {
			continue
		}
		all := true
		for i, e := range ph.Edges {
			if phi.Edges[i] == ssa.Value(halve) {
				bo, ok := e.(*ssa.BinOp)
				if !(ok && bo.Op == token.ADD && bo.X == ssa.Value(ph) && isConstInt(bo.Y, 1) && bo.Block() == body) {
					all = false
				}
			} else if !isConstInt(e, 0) {
				all = false
			}
		}
		if all {
			okExp = true
		}
	}
	r.Check(okExp, "C14-ENORM", "ReceiverEstimatedMaximumBitrate.MarshalTo/one-exponent-step-per-halving", p.Pos(halve.Pos()),
		"an integer counter starts at 0 and is incremented by exactly 1 in the block that halves the bitrate",
		"no integer counter that starts at 0 and grows by exactly 1 per halving was found next to the halved bitrate")
}

// c14derivesFrom: v is ph itself or ph through float conversions / math.Floor / conversion to an integer.
func c14derivesFrom(v ssa.Value, ph *ssa.Phi) bool {
	for d := 0; d < 6; d++ {
		if v == ssa.Value(ph) {
			return true
		}
		switch x := v.(type) {
		case *ssa.Convert:
			v = x.X
		case *ssa.Call:
			if f := x.Call.StaticCallee(); f != nil && f.Pkg != nil && f.Pkg.Pkg.Path() == "math" && (f.Name() == "Floor" || f.Name() == "Trunc") && len(x.Call.Args) == 1 {
				v = x.Call.Args[0]
			} else {
				return false
			}
		default:
			return false
		}
	}
	return false
}

// c14integral: on the way from the phi to the compared value there is a math.Floor/Trunc or a conversion to an integer type.
func c14integral(v ssa.Value, ph *ssa.Phi) bool {
	for d := 0; d < 6 && v != ssa.Value(ph); d++ {
		switch x := v.(type) {
		case *ssa.Convert:
			if b, ok := x.Type().Underlying().(*types.Basic); ok && b.Info()&types.IsInteger != 0 {
				return true
			}
			v = x.X
		case *ssa.Call:
			if len(x.Call.Args) == 1 {
				return true // Floor / Trunc (checked by c14derivesFrom)
			}
			return false
		default:
			return false
		}
	}
	return false
}
