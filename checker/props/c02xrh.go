package props

import (
	"go/token"
	"go/types"
	"sort"
	"strings"

	"golang.org/x/tools/go/ssa"
)

// c02HeaderInputs (rule C02-XRH): the wire form of an XR block is a function of its semantic fields
// only. ExtendedReport.Marshal fills the embedded XRHeader through setupBlockHeader on every call, so a
// packet that was marshalled or decoded before carries header values from that earlier state. If
// setupBlockHeader reads an XRHeader field that it has not itself stored on the way (directly, or by
// copying the header struct into a call), the encoding of "the same value" depends on that stale state
// and encode-then-decode stops being the identity after the value is edited. Decided per
// setupBlockHeader on the SSA: every load of receiver.XRHeader.F (or of the whole header) must be
// dominated by a store to F (to all three fields) in the same function.
func c02HeaderInputs(c *Ctx) {
	r, p := c.Rep, c.Prog
	hdr := p.Named("XRHeader")
	if hdr == nil {
		r.Fatalf("unresolved anchor: XRHeader")
		return
	}
	hs, _ := hdr.Underlying().(*types.Struct)
	var blocks []string
	for name := range xrWire {
		blocks = append(blocks, name)
	}
	sort.Strings(blocks)
	isHdrPtr := func(v ssa.Value) bool { // v : *XRHeader reached from the receiver
		pt, ok := v.Type().Underlying().(*types.Pointer)
		return ok && types.Identical(pt.Elem(), hdr)
	}
	for _, b := range blocks {
		fn := p.Func("*" + b + ".setupBlockHeader")
		if fn == nil {
			r.Fatalf("unresolved anchor: %s.setupBlockHeader", b)
			continue
		}
		r.Anchor("C02-XRH", b)
		// stores: field index -> instructions
		stores := map[int][]ssa.Instruction{}
		var whole []ssa.Instruction
		for _, blk := range fn.Blocks {
			for _, in := range blk.Instrs {
				st, ok := in.(*ssa.Store)
				if !ok {
					continue
				}
				if fa, ok := st.Addr.(*ssa.FieldAddr); ok && isHdrPtr(fa.X) {
					stores[fa.Field] = append(stores[fa.Field], in)
				} else if isHdrPtr(st.Addr) {
					whole = append(whole, in)
				}
			}
		}
		dominated := func(load ssa.Instruction, by []ssa.Instruction) bool {
			for _, s := range by {
				if s.Block() == load.Block() {
					for _, in := range s.Block().Instrs {
						if in == s {
							return true
						}
						if in == load {
							break
						}
					}
				} else if s.Block().Dominates(load.Block()) {
					return true
				}
			}
			return false
		}
		var bad []string
		nload := 0
		for _, blk := range fn.Blocks {
			for _, in := range blk.Instrs {
				ld, ok := in.(*ssa.UnOp)
				if !ok || ld.Op != token.MUL {
					continue
				}
				if fa, ok := ld.X.(*ssa.FieldAddr); ok && isHdrPtr(fa.X) {
					nload++
					if !dominated(ld, stores[fa.Field]) && !dominated(ld, whole) {
						bad = append(bad, p.Pos(ld.Pos())+": reads XRHeader."+hs.Field(fa.Field).Name()+" before storing it")
					}
				} else if isHdrPtr(ld.X) {
					nload++
					all := true
					for i := 0; i < hs.NumFields(); i++ {
						if !dominated(ld, stores[i]) {
							all = false
						}
					}
					if !all && !dominated(ld, whole) {
						bad = append(bad, p.Pos(ld.Pos())+": copies the whole XRHeader before every field of it is stored")
					}
				}
			}
		}
		// the header's address must not leave the function (a callee could read it): calls may take the
		// receiver itself (wireSize(b) walks types and lengths only, decided by C05-XR), not &b.XRHeader
		for _, blk := range fn.Blocks {
			for _, in := range blk.Instrs {
				ci, ok := in.(ssa.CallInstruction)
				if !ok {
					continue
				}
				for _, a := range ci.Common().Args {
					if isHdrPtr(a) {
						bad = append(bad, p.Pos(in.Pos())+": passes the address of the XRHeader to a call")
					}
				}
			}
		}
		r.Check(len(bad) == 0, "C02-XRH", b+"/setupBlockHeader-reads-no-stale-header-field", p.Pos(fn.Pos()),
			"every read of an XRHeader field follows a store to that field in the same call ("+itoa(nload)+" read(s)): the header written is a function of the semantic fields",
			strings.Join(bad, "; "))
	}
	r.Floor("C02-XRH", 8)
}

func itoa(n int) string {
	if n == 0 {
		return "0"
	}
	s := ""
	for n > 0 {
		s = string(rune('0'+n%10)) + s
		n /= 10
	}
	return s
}
