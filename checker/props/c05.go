package props

import (
	"fmt"
	"go/token"
	"go/types"
	"os"
	"reflect"
	"sort"
	"strings"
	"sync"

	"golang.org/x/tools/go/ssa"

	"rtcpverif/core"
	"rtcpverif/effects"
	"rtcpverif/num"
)

func init() { register("C05", "other", checkC05) }

// c05MaxBytes is the size domain of the checks: one UDP datagram. The property
// speaks of encodings that fit the 16-bit length field (262144 bytes); sizes
// between 65533 and 262144 bytes are not covered (CCFeedbackReport computes its
// size in uint16 there), see DESIGN.md.
var c05MaxBytes int64 = 65532

type c05Type struct {
	name        string
	marshal     *ssa.Function
	marshalSize *ssa.Function
	header      *ssa.Function
	length      *ssa.Function // Len(), where offered
}

func c05Types(c *Ctx) []c05Type {
	var out []c05Type
	for _, n := range core.PacketTypes {
		if only := os.Getenv("C05_ONLY"); only != "" && only != n {
			continue
		}
		t := c05Type{name: n}
		t.marshal, _ = c.Prog.Method(n, "Marshal")
		t.marshalSize, _ = c.Prog.Method(n, "MarshalSize")
		t.header, _ = c.Prog.Method(n, "Header")
		t.length, _ = c.Prog.Method(n, "Len")
		out = append(out, t)
	}
	sort.Slice(out, func(i, j int) bool { return out[i].name < out[j].name })
	return out
}

// headerFieldIdx resolves the field indices of rtcp.Header by name.
func headerFieldIdx(p *core.Prog) (map[string]int, *types.Named) {
	n := p.Named("Header")
	if n == nil {
		return nil, nil
	}
	st, ok := n.Underlying().(*types.Struct)
	if !ok {
		return nil, nil
	}
	m := map[string]int{}
	for i := 0; i < st.NumFields(); i++ {
		m[st.Field(i).Name()] = i
	}
	return m, n
}

func checkC05(c *Ctx) {
	r := c.Rep
	p := c.Prog
	if os.Getenv("C05_MAXBYTES") != "" {
		fmt.Sscanf(os.Getenv("C05_MAXBYTES"), "%d", &c05MaxBytes)
	}
	r.Explain = "Per packet type T: (DET) MarshalSize/Header/Len are effect-free and T.Marshal never modifies its receiver copy, so every evaluation of T.MarshalSize on the receiver during and after Marshal denotes ONE value MS; (ALN) the numeric abstract interpreter (linear constraints + linear congruences) evaluates T.MarshalSize on an unconstrained receiver and must derive result ≡ 0 (mod 4) at every return; (LEN) it evaluates T.Marshal on an unconstrained receiver and, at every return whose error is nil, must entail len(result) = MS, where MS is obtained both from the in-Marshal calls and from a re-evaluation of T.MarshalSize on the same receiver in the return state; (HDR) the 16-bit value handed to the single header write that reaches output bytes 2..3 (Header.Marshal of the root frame, or PutUint16(buf[2:..]) in MarshalTo) must satisfy 4*(Length+1) = len(result); (ACC) T.Header() and T.Len() re-evaluated in the return state must agree with the header written and with MS. ExtendedReport: sizes are wireSize(x) (reflection) — decided by the type-shape rule over the XR type graph. CompoundPacket / rtcp.Marshal: SSA shape rules (accumulator over every member)."
	r.RuleText = "C05-DET, C05-ALN, C05-LEN, C05-HDR, C05-ACC per packet type; C05-XR (wire forms of the report-block types, wireSize reads no field contents); C05-SUM / C05-CAT for CompoundPacket.MarshalSize / rtcp.Marshal / CompoundPacket.Marshal."
	r.Trusted = []string{"go/ssa, VTA call graph", "numeric engine checker/num", "effects analysis checker/effects (write sets)", "models of encoding/binary, copy, append, make", "reflect: Type.Size/NumField/Len depend only on types and slice lengths"}
	r.Assume = []string{
		fmt.Sprintf("size domain: the encoding is at most %d bytes (one UDP datagram) and the fixed-width arithmetic of the size computations (functions reachable from a MarshalSize method) therefore does not wrap; the property's full domain is 262144 bytes (above 65535 bytes CCFeedbackReport.Marshal and TransportLayerCC compute sizes in uint16: CCFB panics there, it does not succeed)", c05MaxBytes),
		"receivers are non-nil and their list elements are non-nil (a nil element makes Marshal panic, outside this property)",
		"no slice longer than 2^50; int arithmetic on lengths does not overflow 64 bits",
	}
	r.NotCov("version bits, packet type and FMT/count of the emitted header: decided by C07-SELF (emitted kinds); placement of Header.Marshal's own bytes (C10 field order)")
	r.NotCov("TransportLayerCC and RawPacket headers are caller-supplied: only LEN/ALN (TWCC) and LEN (RawPacket) are decided")
	r.NotCov(fmt.Sprintf("sizes between %d and 262144 bytes", c05MaxBytes+1))

	hidx, hdrNamed := headerFieldIdx(p)
	hdrMarshal := p.Func("Header.Marshal")
	if hidx == nil || hdrMarshal == nil || hdrNamed == nil {
		r.Fatalf("unresolved anchor: Header / Header.Marshal")
		return
	}
	for _, f := range []string{"Length", "Type", "Count", "Padding"} {
		if _, ok := hidx[f]; !ok {
			r.Fatalf("unresolved anchor: Header.%s", f)
			return
		}
	}
	an := effects.New(p.SPkg, p.Funcs, p.CallGraph(), nil)
	ts := c05Types(c)
	c05SizeFns = sizeUniverse(c)
	for _, t := range ts {
		if t.marshal == nil || t.marshalSize == nil {
			r.Fatalf("unresolved anchor: %s.Marshal / MarshalSize", t.name)
			return
		}
		r.Anchor("C05-LEN", t.name)
	}
	if os.Getenv("C05_ONLY") == "" {
		r.Floor("C05-LEN", 16)
	}
	var mu sync.Mutex
	p.CallGraph()

	// ---- DET
	det := make([]bool, len(ts))
	recvAllocs := make([][]*ssa.Alloc, len(ts))
	for i, t := range ts {
		ok, why, allocs := c05Det(p, an, t)
		det[i] = ok
		recvAllocs[i] = allocs
		if t.name == "ExtendedReport" {
			continue // decided by C05-XR below
		}
		r.Check(ok, "C05-DET", t.name+"/size-is-a-function-of-the-unmodified-receiver", p.Pos(t.marshal.Pos()),
			"MarshalSize/Header/Len write nothing; Marshal never writes its receiver copy nor memory reachable from it", why)
	}

	// ---- XR type shape
	xrAligned, xrFixedAligned := c05XR(c, an)
	_ = xrAligned

	// ---- ALN
	aln := make([]bool, len(ts))
	parallelFor(len(ts), func(i int) {
		t := ts[i]
		switch t.name {
		case "ExtendedReport":
			// LEN/HDR are decided for values whose report blocks are aligned; the unaligned
			// element sizes are reported by C05-XR
			aln[i] = xrFixedAligned
			return
		case "RawPacket":
			return // caller-supplied bytes
		case "CompoundPacket":
			return // sum of aligned members (C05-SUM)
		}
		ok, det, pmsg := c05Aln(c, t)
		if pmsg != "" {
			mu.Lock()
			r.Fatalf("analysis panic in %s.MarshalSize: %s", t.name, pmsg)
			mu.Unlock()
			return
		}
		mu.Lock()
		aln[i] = ok
		key := t.name + ".MarshalSize/multiple-of-4"
		if ok {
			r.Ok("C05-ALN", key, p.Pos(t.marshalSize.Pos()), strings.Join(det, "; "))
		} else {
			r.Unk("C05-ALN", key, p.Pos(t.marshalSize.Pos()), "not derived: "+strings.Join(det, "; "))
		}
		mu.Unlock()
	})

	// ---- LEN / HDR / ACC
	parallelFor(len(ts), func(i int) {
		t := ts[i]
		if t.name == "CompoundPacket" {
			return
		}
		res := c05Marshal(c, an, t, det[i], aln[i], recvAllocs[i], hidx, hdrMarshal)
		mu.Lock()
		for k := range res {
			// LEN left open by the numeric engine (an encoder that grows its buffer by append in a loop
			// relates two sums): decided by the symbolic-sum engine as an identity of sizes; the other rules
			// are then re-evaluated with that identity
			if res[k].rule == "C05-LEN" && res[k].st != core.Discharged && det[i] && t.marshalSize != nil {
				if ok, why := c05LenBySums(c, an, t); ok {
					mu.Unlock()
					res2 := c05Marshal(c, an, t, det[i], aln[i], recvAllocs[i], hidx, hdrMarshal, why)
					mu.Lock()
					for k2 := range res2 {
						if res2[k2].rule == "C05-LEN" && res2[k2].st == core.Discharged {
							res2[k2].detail = "not entailed by the numeric engine; " + why
						}
					}
					res = res2
				}
				break
			}
		}
		for _, o := range res {
			switch o.st {
			case core.Discharged:
				r.Ok(o.rule, o.key, o.pos, o.detail)
			case core.Violated:
				r.Bad(o.rule, o.key, o.pos, o.detail)
			default:
				r.Unk(o.rule, o.key, o.pos, o.detail)
			}
		}
		mu.Unlock()
	})

	// ---- CompoundPacket
	if os.Getenv("C05_ONLY") == "" || os.Getenv("C05_ONLY") == "CompoundPacket" {
		c05Compound(c)
	}
}

// c05Aln: the numeric engine derives MarshalSize() ≡ 0 (mod 4) at every return.
func c05Aln(c *Ctx, t c05Type) (ok bool, det []string, panicMsg string) {
	e := newNumEngine(c, nil)
	e.AssumeNoWrap = c05SizeFns
	var rets []num.RootReturn
	if msg := guarded(func() { rets = e.AnalyzeRoot(t.marshalSize, num.RootOptions{ElemsNonNil: true}) }); msg != "" {
		return false, nil, msg
	}
	ok = len(rets) > 0 && !e.Exceeded
	for _, rr := range rets {
		v := rr.Ret.Results[0]
		ex := e.ExprOf(rr.St, v)
		cg := rr.St.CongOfExpr(rr.St.Subst(ex))
		good := cg.M > 0 && cg.M%4 == 0 && cg.R%4 == 0
		if len(ex.T) == 0 && !ex.Bad {
			good = ex.C%4 == 0
		}
		det = append(det, fmt.Sprintf("%s ≡ %d (mod %d)", e.LinString(rr.St.Subst(ex)), cg.R, cg.M))
		if !good {
			ok = false
		}
	}
	return ok, det, ""
}

// c05LenHolds re-establishes, for one packet type, the identity len(T.Marshal()) = T.MarshalSize() at
// the nil-error returns (rules DET, ALN, LEN of C05) for use as a premise elsewhere.
func c05LenHolds(c *Ctx, an *effects.Analysis, t c05Type) (bool, string) {
	p := c.Prog
	hidx, hdrNamed := headerFieldIdx(p)
	hdrMarshal := p.Func("Header.Marshal")
	if hidx == nil || hdrMarshal == nil || hdrNamed == nil || t.marshal == nil || t.marshalSize == nil {
		return false, "unresolved anchor"
	}
	if c05SizeFns == nil {
		c05SizeFns = sizeUniverse(c)
	}
	det, why, allocs := c05Det(p, an, t)
	if !det {
		return false, "C05-DET: " + why
	}
	aln, alnDet, pmsg := c05Aln(c, t)
	if pmsg != "" || !aln {
		return false, "C05-ALN: " + pmsg + strings.Join(alnDet, "; ")
	}
	n := 0
	for _, o := range c05Marshal(c, an, t, det, aln, allocs, hidx, hdrMarshal) {
		if o.rule != "C05-LEN" {
			continue
		}
		if o.st != core.Discharged {
			return false, "C05-LEN: " + o.key + ": " + o.detail
		}
		n++
	}
	if n == 0 {
		return false, "C05-LEN: no obligation generated"
	}
	return true, fmt.Sprintf("C05-DET, C05-ALN and %d C05-LEN obligation(s) of %s re-established", n, t.name)
}

// c05LenBySums: len(T.Marshal()) and T.MarshalSize() have the same symbolic normal form (engine E3), at the
// nil-error returns and for the unmodified receiver (C05-DET).
var c05SumMu sync.Mutex

func c05LenBySums(c *Ctx, an *effects.Analysis, t c05Type) (bool, string) {
	c05SumMu.Lock()
	defer c05SumMu.Unlock()
	var ok bool
	var why string
	if msg := guarded(func() {
		se := newSumEngine(c, an)
		res := se.EvalRoot(t.marshal)
		got, good := res.ResultLin(0)
		if !good || res.Mutates != "" || res.NRetNil == 0 {
			return
		}
		want, good := se.SizeOf(t.marshalSize)
		if !good || !got.Equal(want) {
			return
		}
		ok, why = true, "symbolic sums (E3): len(result) = MarshalSize() = "+got.Key()
	}); msg != "" {
		return false, ""
	}
	return ok, why
}

// c05SizeFns: functions reachable from a MarshalSize method or wireSize; under the size-domain
// assumption (the true encoding size is at most c05MaxBytes) their fixed-width arithmetic does not wrap.
var c05SizeFns map[*ssa.Function]bool

func sizeUniverse(c *Ctx) map[*ssa.Function]bool {
	p := c.Prog
	cg := p.CallGraph()
	out := map[*ssa.Function]bool{}
	var work []*ssa.Function
	for _, n := range core.PacketTypes {
		if f, _ := p.Method(n, "MarshalSize"); f != nil {
			work = append(work, f)
		}
	}
	if ws := p.Func("wireSize"); ws != nil {
		work = append(work, ws)
	}
	for len(work) > 0 {
		f := work[len(work)-1]
		work = work[:len(work)-1]
		if out[f] || f.Pkg != p.SPkg {
			continue
		}
		out[f] = true
		if n := cg.Nodes[f]; n != nil {
			for _, e := range n.Out {
				work = append(work, e.Callee.Func)
			}
		}
	}
	return out
}

func guarded(f func()) (msg string) {
	defer func() {
		if x := recover(); x != nil {
			msg = fmt.Sprint(x)
		}
	}()
	f()
	return ""
}

type c05Obl struct {
	rule, key, pos, detail string
	st                     core.Status
}

// ---------------------------------------------------------------- DET

func c05Det(p *core.Prog, an *effects.Analysis, t c05Type) (bool, string, []*ssa.Alloc) {
	var why []string
	for _, f := range []*ssa.Function{t.marshalSize, t.header, t.length} {
		if f == nil {
			continue
		}
		s := an.Sum[f]
		if s == nil {
			why = append(why, "no effect summary for "+core.FuncName(f))
			continue
		}
		for k := 0; k < s.NRoots; k++ {
			if s.WritesThrough(k) {
				why = append(why, core.FuncName(f)+" may write: "+siteStr(p, s.Writes[k][0]))
			}
		}
		for _, u := range s.Undecided {
			why = append(why, core.FuncName(f)+": unknown effects at "+p.Pos(u.Pos))
		}
	}
	m := t.marshal
	s := an.Sum[m]
	if s == nil {
		return false, "no effect summary for Marshal", nil
	}
	for _, w := range s.Writes[0] {
		// a member ExtendedReport fills in its blocks' XRHeader fields (documented; the sizes read no field contents: C05-XR)
		if t.name == "CompoundPacket" && xrHeaderOnlySite(an, w, map[string]bool{"XRHeader.BlockType": true, "XRHeader.TypeSpecific": true, "XRHeader.BlockLength": true}, 0) {
			continue
		}
		why = append(why, "Marshal may write through its receiver: "+siteStr(p, w))
		break
	}
	if s.WritesThrough(s.GlobalRoot()) {
		why = append(why, "Marshal may write package state")
	}
	var allocs []*ssa.Alloc
	if len(m.Params) == 0 {
		return false, "Marshal has no receiver", nil
	}
	recv := m.Params[0]
	for _, ref := range *recv.Referrers() {
		st, ok := ref.(*ssa.Store)
		if !ok || st.Val != recv {
			continue
		}
		a, ok := st.Addr.(*ssa.Alloc)
		if !ok {
			why = append(why, "receiver stored to a non-local location at "+p.Pos(st.Pos()))
			continue
		}
		allocs = append(allocs, a)
		if bad := addrWritten(an, a, st, 0); bad != "" {
			why = append(why, "receiver copy may be modified: "+bad)
		}
	}
	return len(why) == 0, strings.Join(why, "; "), allocs
}

// addrWritten reports a construct through which the memory at address v may be
// written (other than the initial store `init`), or "".
func addrWritten(an *effects.Analysis, v ssa.Value, init ssa.Instruction, depth int) string {
	if depth > 6 {
		return "address chain too deep at " + v.String()
	}
	for _, ref := range *v.Referrers() {
		if ref == init {
			continue
		}
		switch x := ref.(type) {
		case *ssa.Store:
			if x.Addr == v {
				return "store " + x.String()
			}
			return "address escapes into memory: " + x.String()
		case *ssa.UnOp:
			if x.Op != token.MUL {
				return "unexpected use " + x.String()
			}
		case *ssa.FieldAddr:
			if s := addrWritten(an, x, nil, depth+1); s != "" {
				return s
			}
		case *ssa.IndexAddr:
			if s := addrWritten(an, x, nil, depth+1); s != "" {
				return s
			}
		case *ssa.Call:
			cc := x.Common()
			f := cc.StaticCallee()
			if f == nil {
				return "address passed to a dynamic call " + x.String()
			}
			s := an.Sum[f]
			if s == nil {
				return "address passed to " + f.String() + " (no summary)"
			}
			for k, a := range cc.Args {
				if a == v && s.WritesThrough(k) {
					return "passed to " + f.String() + " which may write through parameter " + fmt.Sprint(k)
				}
			}
		case *ssa.DebugRef:
		default:
			return "unexpected use " + ref.String()
		}
	}
	return ""
}

// ---------------------------------------------------------------- LEN / HDR / ACC

// hdrSource: a construct in the root frame that produces output bytes 2..3.
type hdrSource struct {
	in    ssa.Instruction
	kind  string // "Header.Marshal" | "PutUint16"
	flows bool   // reaches offset 0 of the returned buffer
	why   string
}

func c05Marshal(c *Ctx, an *effects.Analysis, t c05Type, det, aln bool, recvAllocs []*ssa.Alloc, hidx map[string]int, hdrMarshal *ssa.Function, lenProved ...string) []c05Obl {
	p := c.Prog
	var out []c05Obl
	add := func(rule, key string, pos token.Pos, st core.Status, detail string) {
		out = append(out, c05Obl{rule, key, p.Pos(pos), detail, st})
	}
	e := newNumEngine(c, nil)
	e.AssumeNoWrap = c05SizeFns
	// helper Marshal methods of member types are effect-free; their bytes are copied into the
	// (already sized) buffer, so their results are left opaque
	e.Opaque = map[*ssa.Function]bool{}
	for _, fn := range p.Funcs {
		if (fn.Name() != "Marshal" && fn.Name() != "marshal") || fn.Signature.Recv() == nil || fn == hdrMarshal {
			continue
		}
		isPacket := false
		for _, n := range core.PacketTypes {
			if m, _ := p.Method(n, "Marshal"); m == fn {
				isPacket = true
			}
		}
		if isPacket {
			continue
		}
		s := an.Sum[fn]
		pure := s != nil && len(s.Undecided) == 0
		if pure {
			for k := 0; k < s.NRoots; k++ {
				if s.WritesThrough(k) {
					pure = false
				}
			}
		}
		if pure {
			e.Opaque[fn] = true
		}
	}
	msGhost := e.NewGhost("MS("+t.name+")", 0, c05MaxBytes)
	wGhost := e.NewGhost("wireSize(x)", 0, c05MaxBytes-4)
	hLen := e.NewGhost("H.Length", 0, 65535)
	hType := e.NewGhost("H.Type", 0, 255)
	hCount := e.NewGhost("H.Count", 0, 255)
	hPad := e.NewGhost("H.Padding", 0, 1)
	hGhosts := []struct {
		name string
		g    num.Atom
	}{{"Length", hLen}, {"Type", hType}, {"Count", hCount}, {"Padding", hPad}}
	recvObjs := map[string]bool{}
	for _, a := range recvAllocs {
		recvObjs[e.AllocObject(a)] = true
	}
	root := t.marshal
	recv := root.Params[0]
	recvObjs[e.TempObject(recv)] = true
	isRecv := func(st *num.State, v ssa.Value) bool {
		if v == recv {
			return true
		}
		if u, ok := v.(*ssa.UnOp); ok && u.Op == token.MUL {
			if ad, ok := e.AddrOfValue(st, u.X); ok && recvObjs[ad.Obj] && ad.Path == "" {
				return true
			}
			return false
		}
		if _, ok := v.Type().Underlying().(*types.Pointer); ok {
			if ad, ok := e.AddrOfValue(st, v); ok && recvObjs[ad.Obj] && ad.Path == "" {
				return true
			}
		}
		return false
	}
	isXR := t.name == "ExtendedReport"
	e.PostCallHook = func(e *num.Engine, st *num.State, in *ssa.Call, f *ssa.Function) {
		args := in.Common().Args
		if f == t.marshalSize && det && len(args) > 0 && isRecv(st, args[0]) {
			v := e.ExprOf(st, in)
			st.Assume(v.Neg().AddConst(c05MaxBytes))
			st.AssumeEq(v.Sub(num.Var(msGhost)))
			if aln {
				st.AddLCong(num.Var(msGhost), 4)
			}
			return
		}
		if isXR && f.Name() == "wireSize" && len(args) == 1 {
			// wireSize(x) with x the receiver parameter of ExtendedReport.Marshal / MarshalSize:
			// one value W (C05-XR: wireSize depends on types and slice lengths only)
			if mi, ok := args[0].(*ssa.MakeInterface); ok && (in.Parent() == t.marshal || in.Parent() == t.marshalSize) && isReceiverValue(mi.X) {
				v := e.ExprOf(st, in)
				st.Assume(v)
				st.Assume(v.Neg().AddConst(c05MaxBytes - 4))
				st.AssumeEq(v.Sub(num.Var(wGhost)))
				if aln {
					st.AddLCong(num.Var(wGhost), 4)
				}
			}
		}
	}
	// header sources (static)
	e.HooksAlways = true
	e.WrapLCong = true
	srcs := c05HeaderSources(p, t, hdrMarshal)
	srcSeen := map[ssa.Instruction]int{}
	e.CallHook = func(e *num.Engine, st *num.State, in *ssa.Call, f *ssa.Function) {
		if f != hdrMarshal {
			return
		}
		for _, s := range srcs {
			if s.in == in {
				srcSeen[in]++
				hv := in.Common().Args[0]
				for _, hg := range hGhosts {
					ex := e.StructFieldExpr(st, hv, hidx[hg.name])
					if !ex.Bad {
						st.AssumeEq(ex.Sub(num.Var(hg.g)))
					}
				}
			}
		}
	}
	e.ExternalHook = func(e *num.Engine, st *num.State, in *ssa.Call, name string, args []ssa.Value) {
		if name != "(encoding/binary.bigEndian).PutUint16" || len(args) < 3 {
			return
		}
		for _, s := range srcs {
			if s.in == in {
				srcSeen[in]++
				st.AssumeEq(e.ExprOf(st, args[2]).Sub(num.Var(hLen)))
			}
		}
	}
	var rets []num.RootReturn
	if msg := guarded(func() { rets = e.AnalyzeRoot(root, num.RootOptions{ElemsNonNil: true}) }); msg != "" {
		add("C05-LEN", t.name+".Marshal/len-equals-MarshalSize", root.Pos(), core.Undecided, "analysis panic: "+msg)
		return out
	}
	if e.Exceeded {
		add("C05-LEN", t.name+".Marshal/len-equals-MarshalSize", root.Pos(), core.Undecided, "step budget exceeded")
		return out
	}
	hdrApplies := t.name != "TransportLayerCC" && t.name != "RawPacket"
	n, lenOK, hdrOK, accOK, accN, lenAccOK, lenAccN, cntN, cntOK := 0, 0, 0, 0, 0, 0, 0, 0, 0
	var cntDet []string
	var lenDet, hdrDet, accDet, lacDet []string
	for _, rr := range rets {
		if len(rr.Ret.Results) != 2 {
			continue
		}
		if e.IsNonNilResult(rr.St, rr.Ret.Results[1]) {
			continue
		}
		n++
		if !e.IsNilResult(rr.St, rr.Ret.Results[1]) {
			lenDet = append(lenDet, "a return whose error is neither provably nil nor provably non-nil")
			continue
		}
		if !rr.St.Feasible() {
			lenDet = append(lenDet, "inconsistent return state")
			continue
		}
		L := e.LenExprOf(rr.St, rr.Ret.Results[0])
		if len(lenProved) > 0 && det {
			// len(out) = MarshalSize() was established as an identity of symbolic sizes (engine E3): the
			// remaining rules (HDR, ACC) may use it
			rr.St.AssumeEq(L.Sub(num.Var(msGhost)))
		}
		// the accessors are re-evaluated in a slimmed copy of the return state: only facts about
		// the receiver, the ghosts and len(out) matter
		keepAtoms := map[num.Atom]bool{msGhost: true, wGhost: true, hLen: true, hType: true, hCount: true, hPad: true}
		for _, a := range rr.St.AtomsOf(L) {
			keepAtoms[a] = true
		}
		recvPrefixes := []string{"[" + e.AggObject(recv) + ".", "[" + e.TempObject(recv) + "."}
		for o := range recvObjs {
			recvPrefixes = append(recvPrefixes, "["+o+".")
		}
		full := rr.St
		rr.St = full.Slim(func(a num.Atom, name string) bool {
			if keepAtoms[a] {
				return true
			}
			for _, p := range recvPrefixes {
				if strings.HasPrefix(name, p) {
					return true
				}
			}
			return false
		})
		ms := e.EvalMethodOn(rr.St, t.marshalSize, recv)
		if len(ms) == 0 {
			lenDet = append(lenDet, "MarshalSize has no return")
			continue
		}
		allM := true
		for _, m := range ms {
			M := m.Ints[0]
			if det {
				m.St.AssumeEq(M.Sub(num.Var(msGhost)))
			}
			m.St.Assume(M.Neg().AddConst(c05MaxBytes))
			if !m.St.Feasible() {
				allM = false
				lenDet = append(lenDet, "inconsistent state after re-evaluating MarshalSize")
				continue
			}
			if !m.St.EntailsEq(L.Sub(M)) {
				allM = false
				lenDet = append(lenDet, fmt.Sprintf("len(out)=%s but MarshalSize=%s", e.LinString(m.St.Subst(L)), e.LinString(m.St.Subst(M))))
			}
		}
		if allM {
			lenOK++
		}
		// HDR: 4*(H+1) == len(out), given the size domain and alignment
		if hdrApplies {
			hs := full.Clone()
			hs.Assume(L.Neg().AddConst(c05MaxBytes))
			if aln {
				hs.AddLCong(L, 4)
			}
			goal := num.Var(hLen).Scale(4).AddConst(4).Sub(L)
			if hs.Feasible() && hs.EntailsEq(goal) {
				hdrOK++
			} else {
				hdrDet = append(hdrDet, fmt.Sprintf("4*(Length+1)=%s but len(out)=%s", e.LinString(hs.Subst(num.Var(hLen).Scale(4).AddConst(4))), e.LinString(hs.Subst(L))))
			}
		}
		// CNT: the count field equals the number of list elements
		if cf, ok := c05CountField[t.name]; ok && hdrApplies {
			cntN++
			idx := structFieldIndex(recv.Type(), cf)
			lx := e.StructFieldLenExpr(full, recv, idx)
			if idx >= 0 && !lx.Bad && c05UsesHeaderValue(srcs) && full.EntailsEq(lx.Sub(num.Var(hCount))) {
				cntOK++
			} else {
				cntDet = append(cntDet, fmt.Sprintf("Count=%s but len(%s)=%s", e.LinString(full.Subst(num.Var(hCount))), cf, e.LinString(full.Subst(lx))))
			}
		}
		// ACC: Header() accessor
		if t.header != nil && hdrApplies {
			accN++
			hrs := e.EvalMethodOn(rr.St, t.header, recv)
			good := len(hrs) > 0
			for _, h := range hrs {
				h.St.Assume(L.Neg().AddConst(c05MaxBytes))
				if aln {
					h.St.AddLCong(L, 4)
				}
				hv := h.Results[0]
				lenx := e.StructFieldExpr(h.St, hv, hidx["Length"])
				if lenx.Bad || !h.St.Feasible() || !h.St.EntailsEq(lenx.Scale(4).AddConst(4).Sub(L)) {
					good = false
					accDet = append(accDet, fmt.Sprintf("Header().Length=%s, len(out)=%s", e.LinString(h.St.Subst(lenx)), e.LinString(h.St.Subst(L))))
				}
				// Type/Count/Padding agree with the marshalled header where it was built as a Header value
				if c05UsesHeaderValue(srcs) {
					for _, hg := range hGhosts[1:] {
						fx := e.StructFieldExpr(h.St, hv, hidx[hg.name])
						if fx.Bad || !h.St.EntailsEq(fx.Sub(num.Var(hg.g))) {
							good = false
							accDet = append(accDet, fmt.Sprintf("Header().%s=%s differs from the marshalled header's %s", hg.name, e.LinString(h.St.Subst(fx)), e.LinString(h.St.Subst(num.Var(hg.g)))))
						}
					}
				}
			}
			if good {
				accOK++
			}
		}
		if t.length != nil {
			lenAccN++
			lrs := e.EvalMethodOn(rr.St, t.length, recv)
			good := len(lrs) > 0
			for _, l := range lrs {
				l.St.Assume(L.Neg().AddConst(c05MaxBytes))
				if l.Ints[0].Bad || !l.St.Feasible() || !l.St.EntailsEq(l.Ints[0].Sub(L)) {
					good = false
					lacDet = append(lacDet, fmt.Sprintf("Len()=%s, len(out)=%s", e.LinString(l.St.Subst(l.Ints[0])), e.LinString(l.St.Subst(L))))
				}
			}
			if good {
				lenAccOK++
			}
		}
	}
	key := t.name + ".Marshal/len-equals-MarshalSize"
	if n > 0 && lenOK == n {
		add("C05-LEN", key, root.Pos(), core.Discharged, fmt.Sprintf("entailed at %d success return(s)", n))
	} else {
		add("C05-LEN", key, root.Pos(), core.Undecided, fmt.Sprintf("%d of %d success returns: %s", lenOK, n, strings.Join(lenDet, " | ")))
	}
	if hdrApplies {
		// static part: exactly one header source, outside loops, flowing to offset 0
		key := t.name + ".Marshal/header-length-field"
		if isXR {
			key += "[given aligned report blocks]"
		}
		switch {
		case len(srcs) != 1:
			add("C05-HDR", key, root.Pos(), core.Undecided, fmt.Sprintf("%d header-length writes found in the root frame (need exactly one)", len(srcs)))
		case !srcs[0].flows:
			add("C05-HDR", key, srcs[0].in.Pos(), core.Undecided, "the header bytes do not provably land at offset 0 of the result: "+srcs[0].why)
		case n > 0 && hdrOK == n && srcSeen[srcs[0].in] > 0:
			add("C05-HDR", key, srcs[0].in.Pos(), core.Discharged, fmt.Sprintf("%s: 4*(Length+1)=len(out) entailed at %d success return(s); %s", srcs[0].kind, n, srcs[0].why))
		default:
			add("C05-HDR", key, srcs[0].in.Pos(), core.Undecided, fmt.Sprintf("%d of %d success returns: %s", hdrOK, n, strings.Join(hdrDet, " | ")))
		}
	}
	if cf, ok := c05CountField[t.name]; ok && hdrApplies {
		key := t.name + ".Marshal/count-field-equals-len(" + cf + ")"
		if cntN > 0 && cntOK == cntN {
			add("C05-CNT", key, root.Pos(), core.Discharged, fmt.Sprintf("Header.Count = len(%s) entailed at %d success return(s) (the conversion to uint8 cannot wrap there)", cf, cntN))
		} else {
			add("C05-CNT", key, root.Pos(), core.Undecided, fmt.Sprintf("%d of %d: %s", cntOK, cntN, strings.Join(cntDet, " | ")))
		}
	}
	if t.header != nil && hdrApplies {
		key := t.name + ".Header/agrees-with-Marshal"
		if accN > 0 && accOK == accN {
			add("C05-ACC", key, t.header.Pos(), core.Discharged, "Header() re-evaluated in every success return state agrees with the header written and with len(out)")
		} else {
			add("C05-ACC", key, t.header.Pos(), core.Undecided, fmt.Sprintf("%d of %d: %s", accOK, accN, strings.Join(accDet, " | ")))
		}
	}
	if t.length != nil {
		key := t.name + ".Len/agrees-with-Marshal"
		if lenAccN > 0 && lenAccOK == lenAccN {
			add("C05-ACC", key, t.length.Pos(), core.Discharged, "Len() re-evaluated in every success return state equals len(out)")
		} else {
			add("C05-ACC", key, t.length.Pos(), core.Undecided, fmt.Sprintf("%d of %d: %s", lenAccOK, lenAccN, strings.Join(lacDet, " | ")))
		}
	}
	_ = wGhost
	return out
}

// isReceiverValue: v is the receiver parameter of its function, or a load of a
// local copy that is initialised from it and never stored to again.
func isReceiverValue(v ssa.Value) bool {
	fn := v.Parent()
	if fn == nil || len(fn.Params) == 0 || fn.Signature.Recv() == nil {
		return false
	}
	recv := fn.Params[0]
	if v == ssa.Value(recv) {
		return true
	}
	u, ok := v.(*ssa.UnOp)
	if !ok || u.Op != token.MUL {
		return false
	}
	al, ok := u.X.(*ssa.Alloc)
	if !ok {
		return false
	}
	n := 0
	for _, ref := range *al.Referrers() {
		if st, ok := ref.(*ssa.Store); ok && st.Addr == al {
			if st.Val != ssa.Value(recv) {
				return false
			}
			n++
		}
	}
	return n == 1
}

// c05CountField: packet types whose header count field carries the number of
// elements of a list (RFC 3550 RC/SC), and the field holding that list.
var c05CountField = map[string]string{
	"SenderReport": "Reports", "ReceiverReport": "Reports", "SourceDescription": "Chunks", "Goodbye": "Sources",
}

func structFieldIndex(t types.Type, name string) int {
	st, ok := t.Underlying().(*types.Struct)
	if !ok {
		return -1
	}
	for i := 0; i < st.NumFields(); i++ {
		if st.Field(i).Name() == name {
			return i
		}
	}
	return -1
}

func c05UsesHeaderValue(srcs []hdrSource) bool {
	return len(srcs) == 1 && srcs[0].kind == "Header.Marshal"
}

// c05HeaderSources finds, in T.Marshal (and T.MarshalTo when Marshal hands it
// the result buffer), the constructs that write output bytes 2..3.
func c05HeaderSources(p *core.Prog, t c05Type, hdrMarshal *ssa.Function) []hdrSource {
	var out []hdrSource
	// a Marshal that only hands its fields to a shared helper (`return marshalX(p.Header(), ...)`): the header
	// write is looked for in that helper, which the numeric engine evaluates in Marshal's context
	root := tailCallee(p, t.marshal, 2)
	inLoop := loopBlocks(root)
	returned := returnedBuffers(root)
	for _, b := range root.Blocks {
		for _, in := range b.Instrs {
			call, ok := in.(*ssa.Call)
			if !ok {
				continue
			}
			if call.Common().StaticCallee() == hdrMarshal {
				s := hdrSource{in: call, kind: "Header.Marshal"}
				if inLoop[b] {
					s.why = "inside a loop"
				} else {
					s.flows, s.why = headerFlowsToResult(call, returned)
				}
				out = append(out, s)
			}
		}
	}
	// MarshalTo(buf) with buf the returned buffer
	if mt, _ := p.Method(t.name, "MarshalTo"); mt != nil {
		var site *ssa.Call
		nsite := 0
		for _, b := range root.Blocks {
			for _, in := range b.Instrs {
				if call, ok := in.(*ssa.Call); ok && call.Common().StaticCallee() == mt {
					nsite++
					site = call
				}
			}
		}
		if nsite == 1 && len(site.Common().Args) == 2 && returned[site.Common().Args[1]] && !inLoop[site.Block()] {
			bufParam := mt.Params[1]
			mtLoops := loopBlocks(mt)
			for _, b := range mt.Blocks {
				for _, in := range b.Instrs {
					call, ok := in.(*ssa.Call)
					if !ok {
						continue
					}
					f := call.Common().StaticCallee()
					if f == nil || f.String() != "(encoding/binary.bigEndian).PutUint16" || len(call.Common().Args) < 3 {
						continue
					}
					sl, ok := call.Common().Args[1].(*ssa.Slice)
					if !ok || sl.X != bufParam || sl.Low == nil || !isConstInt(sl.Low, 2) {
						continue
					}
					s := hdrSource{in: call, kind: "PutUint16"}
					if mtLoops[b] {
						s.why = "inside a loop"
					} else {
						s.flows, s.why = true, "binary.BigEndian.PutUint16(buf[2:..], length) in MarshalTo, buf = the buffer Marshal returns"
					}
					out = append(out, s)
				}
			}
		}
	}
	return out
}

// loopBlocks: blocks that lie on a cycle of the CFG.
func loopBlocks(fn *ssa.Function) map[*ssa.BasicBlock]bool {
	out := map[*ssa.BasicBlock]bool{}
	for _, b := range fn.Blocks {
		seen := map[*ssa.BasicBlock]bool{}
		var stack []*ssa.BasicBlock
		stack = append(stack, b.Succs...)
		for len(stack) > 0 {
			x := stack[len(stack)-1]
			stack = stack[:len(stack)-1]
			if x == b {
				out[b] = true
				break
			}
			if seen[x] {
				continue
			}
			seen[x] = true
			stack = append(stack, x.Succs...)
		}
	}
	return out
}

// returnedBuffers: values that are (phi-)equal to the first result of a
// non-error return of fn.
// tailCallee: if every return of fn that can succeed returns the results of one and the same call of a
// function of the package (a tail call), that function (followed up to depth levels); otherwise fn.
func tailCallee(p *core.Prog, fn *ssa.Function, depth int) *ssa.Function {
	if depth == 0 {
		return fn
	}
	var call *ssa.Call
	for _, b := range fn.Blocks {
		ret, ok := b.Instrs[len(b.Instrs)-1].(*ssa.Return)
		if !ok || len(ret.Results) == 0 {
			continue
		}
		if c, ok := ret.Results[0].(*ssa.Const); ok && c.IsNil() {
			continue
		}
		var src *ssa.Call
		switch x := ret.Results[0].(type) {
		case *ssa.Extract:
			src, _ = x.Tuple.(*ssa.Call)
		case *ssa.Call:
			src = x
		}
		if src == nil || (call != nil && call != src) {
			return fn
		}
		call = src
	}
	if call == nil {
		return fn
	}
	g := call.Common().StaticCallee()
	if g == nil || g.Pkg != p.SPkg || g.Blocks == nil {
		return fn
	}
	return tailCallee(p, g, depth-1)
}

func returnedBuffers(fn *ssa.Function) map[ssa.Value]bool {
	out := map[ssa.Value]bool{}
	var add func(v ssa.Value, d int)
	add = func(v ssa.Value, d int) {
		if out[v] || d > 8 {
			return
		}
		out[v] = true
		switch x := v.(type) {
		case *ssa.Phi:
			for _, e := range x.Edges {
				add(e, d+1)
			}
		case *ssa.UnOp:
			// named result: load of the result variable -> the stored values
			if al, ok := x.X.(*ssa.Alloc); ok && x.Op == token.MUL {
				for _, ref := range *al.Referrers() {
					if st, ok := ref.(*ssa.Store); ok && st.Addr == al {
						add(st.Val, d+1)
					}
				}
			}
		}
	}
	for _, b := range fn.Blocks {
		if ret, ok := b.Instrs[len(b.Instrs)-1].(*ssa.Return); ok && len(ret.Results) >= 1 {
			if c, ok := ret.Results[0].(*ssa.Const); ok && c.IsNil() {
				continue
			}
			add(ret.Results[0], 0)
		}
	}
	return out
}

// headerFlowsToResult: the []byte result of call is copied to offset 0 of a
// returned buffer (copy(buf, h)) or is the base of the returned append chain.
func headerFlowsToResult(call *ssa.Call, returned map[ssa.Value]bool) (bool, string) {
	var hbytes []ssa.Value
	for _, ref := range *call.Referrers() {
		if ex, ok := ref.(*ssa.Extract); ok && ex.Index == 0 {
			hbytes = append(hbytes, ex)
		}
	}
	for _, h := range hbytes {
		for _, ref := range *h.Referrers() {
			var c *ssa.Call
			switch x := ref.(type) {
			case *ssa.Call:
				c = x
			case *ssa.MakeInterface:
				// packetBuffer.write(headerBuffer) as the first write into a buffer over the result (XR)
				for _, r2 := range *x.Referrers() {
					if wc, ok := r2.(*ssa.Call); ok {
						if f := wc.Common().StaticCallee(); f != nil && f.Name() == "write" {
							if ok, why := firstWriteIntoResult(wc, returned); ok {
								return true, why
							}
						}
					}
				}
				continue
			default:
				continue
			}
			b, ok := c.Common().Value.(*ssa.Builtin)
			if !ok {
				continue
			}
			switch b.Name() {
			case "copy":
				dst := c.Common().Args[0]
				orig := dst
				if sl, ok := dst.(*ssa.Slice); ok && (sl.Low == nil || isConstInt(sl.Low, 0)) {
					dst = sl.X
				}
				// (a buffer made with a constant size is itself `new [N]byte` sliced from 0)
				if c.Common().Args[1] == h && (returned[dst] || returned[orig]) {
					return true, "copy(out, header) with out the returned buffer"
				}
			case "append":
				if c.Common().Args[0] == h && returned[c] {
					return true, "append(header, body...) is returned"
				}
			}
		}
	}
	return false, "no copy(out, header) / append(header, ...) / buffer.write(header) reaching the returned buffer"
}

// firstWriteIntoResult: w is buffer.write(h) where buffer is a local
// packetBuffer{bytes: out}, out is returned, and no other call on that buffer
// can precede w.
func firstWriteIntoResult(w *ssa.Call, returned map[ssa.Value]bool) (bool, string) {
	args := w.Common().Args
	if len(args) < 2 {
		return false, ""
	}
	al, ok := args[0].(*ssa.Alloc)
	if !ok {
		return false, ""
	}
	bytesInit := false
	for _, ref := range *al.Referrers() {
		switch x := ref.(type) {
		case *ssa.FieldAddr:
			for _, r2 := range *x.Referrers() {
				if st, ok := r2.(*ssa.Store); ok && st.Addr == x && returned[st.Val] {
					bytesInit = true
				}
			}
		case *ssa.Call:
			if x == w {
				continue
			}
			if x.Block() == w.Block() {
				for _, in := range w.Block().Instrs {
					if in == ssa.Instruction(x) {
						return false, ""
					}
					if in == ssa.Instruction(w) {
						break
					}
				}
			} else if !w.Block().Dominates(x.Block()) {
				return false, ""
			}
		}
	}
	if !bytesInit {
		return false, ""
	}
	return true, "packetBuffer{bytes: out}.write(header) is the first write into the returned buffer"
}

// ---------------------------------------------------------------- XR

type wireForm struct {
	c     int
	terms []wireTerm
	probs []string
}
type wireTerm struct {
	path string
	elem *wireForm
}

func basicWire(b *types.Basic) (int, bool) {
	switch b.Kind() {
	case types.Uint8, types.Int8, types.Bool:
		return 1, true
	case types.Uint16, types.Int16:
		return 2, true
	case types.Uint32, types.Int32, types.Float32:
		return 4, true
	case types.Uint64, types.Int64, types.Float64:
		return 8, true
	}
	return 0, false
}

// wireFormOf mirrors wireSize: exported struct fields recursively (omit-tagged
// skipped), unexported ones by memory size, slices element-wise.
func wireFormOf(t types.Type, path string, depth int) *wireForm {
	f := &wireForm{}
	if depth > 12 {
		f.probs = append(f.probs, "type nesting too deep at "+path)
		return f
	}
	switch u := t.Underlying().(type) {
	case *types.Basic:
		n, ok := basicWire(u)
		if !ok {
			f.probs = append(f.probs, fmt.Sprintf("%s: kind %s has no fixed wire size", path, u.Name()))
		}
		f.c = n
	case *types.Pointer:
		return wireFormOf(u.Elem(), path, depth+1)
	case *types.Array:
		ef := wireFormOf(u.Elem(), path+"[]", depth+1)
		f.probs = append(f.probs, ef.probs...)
		if len(ef.terms) > 0 {
			f.probs = append(f.probs, path+": array of variable-size elements")
		}
		f.c = int(u.Len()) * ef.c
	case *types.Struct:
		for i := 0; i < u.NumFields(); i++ {
			if reflect.StructTag(u.Tag(i)).Get("encoding") == "omit" {
				continue
			}
			fl := u.Field(i)
			ff := wireFormOf(fl.Type(), path+"."+fl.Name(), depth+1)
			if !fl.Exported() && len(ff.terms) > 0 {
				f.probs = append(f.probs, path+"."+fl.Name()+": unexported variable-size field (counted by memory size)")
			}
			f.c += ff.c
			f.terms = append(f.terms, ff.terms...)
			f.probs = append(f.probs, ff.probs...)
		}
	case *types.Slice:
		ef := wireFormOf(u.Elem(), path+"[]", depth+1)
		f.probs = append(f.probs, ef.probs...)
		f.terms = append(f.terms, wireTerm{path: path, elem: ef})
	case *types.Interface:
		f.probs = append(f.probs, path+": interface-typed member")
	default:
		f.probs = append(f.probs, fmt.Sprintf("%s: type %s not handled", path, t))
	}
	return f
}

// unaligned lists the parts of the form that can make a size that is not a multiple of 4.
func (f *wireForm) unaligned(prefix string) []string {
	var out []string
	if f.c%4 != 0 {
		out = append(out, fmt.Sprintf("%s: fixed part is %d bytes", prefix, f.c))
	}
	for _, t := range f.terms {
		if t.elem.c%4 != 0 {
			out = append(out, fmt.Sprintf("%s: elements of %s are %d bytes", prefix, t.path, t.elem.c))
		}
		for _, t2 := range t.elem.terms {
			out = append(out, t2.elem.unaligned(prefix+" "+t2.path)...)
		}
	}
	return out
}

var wireSizeReflectAllowed = map[string]bool{
	"reflect.ValueOf": true, "reflect.Indirect": true, "(reflect.Value).Kind": true, "(reflect.Value).Len": true,
	"(reflect.Value).Index": true, "(reflect.Value).CanInterface": true, "(reflect.Value).Interface": true,
	"(reflect.Value).Type": true, "(reflect.Value).NumField": true, "(reflect.Value).Field": true,
	"(reflect.StructTag).Get": true,
}

// c05XR decides the ExtendedReport clauses by the type-shape rule. It returns
// whether every XR encoding is aligned.
func c05XR(c *Ctx, an *effects.Analysis) (bool, bool) {
	r := c.Rep
	p := c.Prog
	if only := os.Getenv("C05_ONLY"); only != "" && only != "ExtendedReport" {
		return false, false
	}
	ws := p.Func("wireSize")
	xr := p.Named("ExtendedReport")
	rb := p.Named("ReportBlock")
	if ws == nil || xr == nil || rb == nil {
		r.Fatalf("unresolved anchor: wireSize / ExtendedReport / ReportBlock")
		return false, false
	}
	// (1) wireSize reads no field contents
	var bad []string
	for _, b := range ws.Blocks {
		for _, in := range b.Instrs {
			call, ok := in.(ssa.CallInstruction)
			if !ok {
				continue
			}
			cc := call.Common()
			if cc.IsInvoke() {
				m := cc.Method
				if m.Pkg() != nil && m.Pkg().Path() == "reflect" && (m.Name() == "Size" || m.Name() == "Field") {
					continue // reflect.Type.Size / Type.Field
				}
				bad = append(bad, "interface call "+m.FullName())
				continue
			}
			f := cc.StaticCallee()
			if f == nil {
				if _, ok := cc.Value.(*ssa.Builtin); ok {
					continue
				}
				bad = append(bad, "dynamic call "+cc.Value.String())
				continue
			}
			if f == ws || wireSizeReflectAllowed[f.String()] {
				continue
			}
			bad = append(bad, "call of "+f.String())
		}
	}
	r.Anchor("C05-XR", "wireSize")
	r.Check(len(bad) == 0, "C05-XR", "wireSize/reads-structure-only", p.Pos(ws.Pos()),
		"wireSize uses only ValueOf/Indirect/Kind/Len/Index/CanInterface/Interface/Type/Size/NumField/Field/Tag.Get and itself: its result is a function of dynamic types and slice lengths, not of field contents; setupBlockHeader (C18-RECV) writes scalar XRHeader fields only",
		"wireSize may depend on field contents: "+strings.Join(bad, "; "))
	// (2) the XRHeader fields written by setupBlockHeader are scalars
	if h := p.Named("XRHeader"); h != nil {
		st, _ := h.Underlying().(*types.Struct)
		ok := st != nil
		for i := 0; st != nil && i < st.NumFields(); i++ {
			if _, isB := st.Field(i).Type().Underlying().(*types.Basic); !isB {
				ok = false
			}
		}
		r.Check(ok, "C05-XR", "XRHeader/scalar-fields", "-", "all XRHeader fields are basic scalars: writing them cannot change any length or dynamic type", "XRHeader has a non-scalar field")
	} else {
		r.Fatalf("unresolved anchor: XRHeader")
	}
	// (3) wire forms
	xf := wireFormOf(xr, "ExtendedReport", 0)
	var probs []string
	for _, pr := range xf.probs {
		if !strings.Contains(pr, "interface-typed member") {
			probs = append(probs, pr)
		}
	}
	aligned, fixedAligned := true, true
	fixed := 4 + xf.c // common header + SenderSSRC
	r.Check(fixed%4 == 0 && len(probs) == 0, "C05-XR", "ExtendedReport/fixed-part-aligned", "-", fmt.Sprintf("header + fixed fields = %d bytes", fixed), fmt.Sprintf("fixed part %d bytes; %s", fixed, strings.Join(probs, "; ")))
	if fixed%4 != 0 || len(probs) > 0 {
		aligned, fixedAligned = false, false
	}
	iface, _ := rb.Underlying().(*types.Interface)
	var blocks []string
	scope := p.Types.Scope()
	for _, name := range scope.Names() {
		tn, ok := scope.Lookup(name).(*types.TypeName)
		if !ok {
			continue
		}
		named, ok := tn.Type().(*types.Named)
		if !ok || iface == nil {
			continue
		}
		if _, isIface := named.Underlying().(*types.Interface); isIface {
			continue
		}
		if types.Implements(types.NewPointer(named), iface) || types.Implements(named, iface) {
			blocks = append(blocks, name)
		}
	}
	sort.Strings(blocks)
	for _, b := range blocks {
		r.Anchor("C05-XR", b)
		bf := wireFormOf(p.Named(b), b, 0)
		if len(bf.probs) > 0 {
			r.Unk("C05-XR", "block "+b+"/wire-form", "-", strings.Join(bf.probs, "; "))
			aligned, fixedAligned = false, false
			continue
		}
		r.Check(bf.c%4 == 0, "C05-XR", "block "+b+"/fixed-part-aligned", "-", fmt.Sprintf("fixed part %d bytes", bf.c), fmt.Sprintf("fixed part is %d bytes", bf.c))
		if bf.c%4 != 0 {
			aligned, fixedAligned = false, false
		}
		for _, t := range bf.terms {
			k := fmt.Sprintf("block %s/elements-aligned[%s:%d]", b, strings.TrimPrefix(t.path, b+"."), t.elem.c)
			if t.elem.c%4 == 0 && len(t.elem.unaligned("")) == 0 {
				r.Ok("C05-XR", k, "-", fmt.Sprintf("every element of %s is %d bytes", t.path, t.elem.c))
			} else {
				aligned = false
				r.Bad("C05-XR", k, "-", fmt.Sprintf("elements of %s are %d bytes: an odd element count gives an encoding that is not a multiple of four, and ExtendedReport.Marshal / setupBlockHeader truncate the length fields (wireSize/4)", t.path, t.elem.c))
			}
		}
	}
	r.Floor("C05-XR", 8)
	return aligned, fixedAligned
}

// ---------------------------------------------------------------- CompoundPacket

func c05Compound(c *Ctx) {
	r := c.Rep
	p := c.Prog
	ms := p.Func("CompoundPacket.MarshalSize")
	mar := p.Func("Marshal")
	cm := p.Func("CompoundPacket.Marshal")
	if ms == nil || mar == nil || cm == nil {
		r.Fatalf("unresolved anchor: CompoundPacket.MarshalSize / Marshal / CompoundPacket.Marshal")
		return
	}
	ok, why := accumulatorOverMembers(ms, "MarshalSize", false)
	r.Check(ok, "C05-SUM", "CompoundPacket.MarshalSize/sum-over-members", p.Pos(ms.Pos()), why, why)
	ok, why = accumulatorOverMembers(mar, "Marshal", true)
	r.Check(ok, "C05-CAT", "Marshal/concatenation-of-members", p.Pos(mar.Pos()), why, why)
	ok, why = returnsCallOf(cm, mar)
	r.Check(ok, "C05-CAT", "CompoundPacket.Marshal/returns-Marshal-of-members", p.Pos(cm.Pos()), why, why)
}

// rangeElem recognises `elem` as the value of xs[i] inside a loop that visits
// i = 0..len(xs)-1 in steps of one (range loop or index loop) and returns the
// loop header block.
func rangeElem(elem ssa.Value, xs ssa.Value) (*ssa.BasicBlock, string) {
	ld, ok := elem.(*ssa.UnOp)
	if !ok || ld.Op != token.MUL {
		return nil, "member is not loaded from the list"
	}
	ia, ok := ld.X.(*ssa.IndexAddr)
	if !ok || stripChange(ia.X) != xs {
		return nil, "member is not an element of the receiver/argument list"
	}
	idx := ia.Index
	var phi *ssa.Phi
	start := int64(0)
	if b, ok := idx.(*ssa.BinOp); ok && b.Op == token.ADD && isConstInt(b.Y, 1) {
		phi, _ = b.X.(*ssa.Phi)
		start = -1
	} else {
		phi, _ = idx.(*ssa.Phi)
	}
	if phi == nil || len(phi.Edges) != 2 {
		return nil, "index is not a loop induction variable"
	}
	okInit, okStep := false, false
	for _, e := range phi.Edges {
		if isConstInt(e, start) {
			okInit = true
		} else if b, ok := e.(*ssa.BinOp); ok && b.Op == token.ADD && b.X == phi && isConstInt(b.Y, 1) {
			okStep = true
		}
	}
	if !okInit || !okStep {
		return nil, "index does not run from 0 in steps of one"
	}
	for _, ref := range *idx.Referrers() {
		b, ok := ref.(*ssa.BinOp)
		if !ok || b.Op != token.LSS || b.X != idx {
			continue
		}
		if call, ok := b.Y.(*ssa.Call); ok {
			if bi, ok := call.Common().Value.(*ssa.Builtin); ok && bi.Name() == "len" && stripChange(call.Common().Args[0]) == xs {
				for _, r2 := range *b.Referrers() {
					if iff, ok := r2.(*ssa.If); ok && iff.Block().Succs[0].Dominates(ld.Block()) {
						return phi.Block(), ""
					}
				}
			}
		}
	}
	return nil, "no `index < len(list)` guard found"
}

func stripChange(v ssa.Value) ssa.Value {
	for {
		switch x := v.(type) {
		case *ssa.ChangeType:
			v = x.X
		default:
			return v
		}
	}
}

// accumulatorOverMembers checks fn(xs) = fold over every member of xs of the
// interface method `method`: integer sum (bytes=false) or append (bytes=true).
func accumulatorOverMembers(fn *ssa.Function, method string, bytes bool) (bool, string) {
	if len(fn.Params) == 0 {
		return false, "no list parameter"
	}
	xs := ssa.Value(fn.Params[0])
	var acc *ssa.Phi
	nret := 0
	for _, b := range fn.Blocks {
		ret, ok := b.Instrs[len(b.Instrs)-1].(*ssa.Return)
		if !ok {
			continue
		}
		if bytes {
			if c, ok := ret.Results[0].(*ssa.Const); ok && c.IsNil() {
				continue
			}
			if c, ok := ret.Results[1].(*ssa.Const); !ok || !c.IsNil() {
				return false, "a return with a non-nil buffer and a non-constant error"
			}
		}
		nret++
		ph, ok := ret.Results[0].(*ssa.Phi)
		if !ok {
			return false, "the result is not the loop accumulator"
		}
		acc = ph
	}
	if nret != 1 || acc == nil || len(acc.Edges) != 2 {
		return false, "expected exactly one success return of a two-edge accumulator"
	}
	var call *ssa.Call
	okInit := false
	for _, e := range acc.Edges {
		switch x := e.(type) {
		case *ssa.Const:
			if !bytes && isConstInt(x, 0) {
				okInit = true
			}
		case *ssa.MakeSlice:
			if bytes && isConstInt(x.Len, 0) {
				okInit = true
			}
		case *ssa.Slice:
			// make([]byte, 0) with constant size compiles to new [0]byte + slice
			if al, ok := x.X.(*ssa.Alloc); ok && bytes {
				if at, ok := al.Type().Underlying().(*types.Pointer).Elem().Underlying().(*types.Array); ok && at.Len() == 0 {
					okInit = true
				}
			}
		case *ssa.BinOp:
			if bytes || x.Op != token.ADD {
				return false, "accumulator step is not an addition"
			}
			other := x.Y
			if x.X != acc {
				other = x.X
				if x.Y != acc {
					return false, "accumulator step does not add to the accumulator"
				}
			}
			call, _ = other.(*ssa.Call)
		case *ssa.Call:
			bi, ok := x.Common().Value.(*ssa.Builtin)
			if !bytes || !ok || bi.Name() != "append" || x.Common().Args[0] != acc {
				return false, "accumulator step is not append(acc, data...)"
			}
			ex, ok := x.Common().Args[1].(*ssa.Extract)
			if !ok || ex.Index != 0 {
				return false, "appended value is not the member's Marshal result"
			}
			call, _ = ex.Tuple.(*ssa.Call)
		}
	}
	if !okInit {
		return false, "accumulator does not start empty"
	}
	if call == nil || !call.Common().IsInvoke() || call.Common().Method.Name() != method {
		return false, "accumulator step does not use member." + method + "()"
	}
	hdr, why := rangeElem(call.Common().Value, xs)
	if hdr == nil {
		return false, why
	}
	if acc.Block() != hdr {
		return false, "accumulator and index belong to different loops"
	}
	if bytes {
		found := false
		for _, ref := range *call.Referrers() {
			if ex, ok := ref.(*ssa.Extract); ok && ex.Index == 1 {
				for _, r2 := range *ex.Referrers() {
					if ret, ok := r2.(*ssa.Return); ok {
						if c, ok := ret.Results[0].(*ssa.Const); ok && c.IsNil() {
							found = true
						}
					}
				}
			}
		}
		if !found {
			return false, "a member's Marshal error is not returned"
		}
		return true, "out starts empty, every member (index 0..len-1, step 1) contributes append(out, member.Marshal()...), a member error aborts: len(result) = Σ len(member.Marshal())"
	}
	return true, "l starts at 0 and every member (index 0..len-1, step 1) contributes member.MarshalSize(): result = Σ member.MarshalSize()"
}

func returnsCallOf(fn, callee *ssa.Function) (bool, string) {
	n := 0
	for _, b := range fn.Blocks {
		ret, ok := b.Instrs[len(b.Instrs)-1].(*ssa.Return)
		if !ok {
			continue
		}
		if c, ok := ret.Results[0].(*ssa.Const); ok && c.IsNil() {
			continue
		}
		n++
		ex0, ok0 := ret.Results[0].(*ssa.Extract)
		ex1, ok1 := ret.Results[1].(*ssa.Extract)
		if !ok0 || !ok1 || ex0.Tuple != ex1.Tuple || ex0.Index != 0 || ex1.Index != 1 {
			return false, "a success return does not return the callee's results unchanged"
		}
		call, ok := ex0.Tuple.(*ssa.Call)
		if !ok || call.Common().StaticCallee() != callee {
			return false, "a success return does not come from " + callee.Name()
		}
		if stripChange(call.Common().Args[0]) != fn.Params[0] {
			return false, callee.Name() + " is not applied to the receiver's member list"
		}
	}
	if n != 1 {
		return false, fmt.Sprintf("%d success returns", n)
	}
	return true, "returns " + callee.Name() + "([]Packet(c)) unchanged"
}
