package props

import (
	"fmt"
	"go/constant"
	"go/token"
	"go/types"
	"sort"
	"strings"

	"golang.org/x/tools/go/ssa"

	"rtcpverif/core"
	"rtcpverif/num"
)

func init() { register("C13", "other", checkC13) }

func fieldNameOf(fa *ssa.FieldAddr) string {
	st := fa.X.Type().Underlying().(*types.Pointer).Elem().Underlying().(*types.Struct)
	return st.Field(fa.Field).Name()
}

// loadOfField: v is a load of a field with the given name (through any base).
func loadOfField(v ssa.Value, name string) bool {
	u, ok := v.(*ssa.UnOp)
	if !ok || u.Op != token.MUL {
		return false
	}
	fa, ok := u.X.(*ssa.FieldAddr)
	return ok && fieldNameOf(fa) == name
}

// findTotalLength: the uint16 value 4*(Header.Length+1) of TWCC.Unmarshal.
func findTotalLength(fn *ssa.Function) ssa.Value {
	for _, b := range fn.Blocks {
		for _, in := range b.Instrs {
			mul, ok := in.(*ssa.BinOp)
			if !ok || mul.Op != token.MUL {
				continue
			}
			var other ssa.Value
			if isConstInt(mul.X, 4) {
				other = mul.Y
			} else if isConstInt(mul.Y, 4) {
				other = mul.X
			} else {
				continue
			}
			add, ok := other.(*ssa.BinOp)
			if !ok || add.Op != token.ADD {
				continue
			}
			if (loadOfField(add.X, "Length") && isConstInt(add.Y, 1)) || (loadOfField(add.Y, "Length") && isConstInt(add.X, 1)) {
				return mul
			}
		}
	}
	return nil
}

func checkC13(c *Ctx) {
	r := c.Rep
	p := c.Prog
	r.Explain = "Structural clauses of the TWCC decoder decided on (*TransportLayerCC).Unmarshal with the numeric engine (unconstrained input) and SSA def-use rules. Chunking invariance and the one-to-one correspondence of deltas and statuses are relations between run-time sequences and are NOT decided."
	r.RuleText = "C13-DECL: every read of rawPacket that is dominated by the declared-length checks has its extent (index+1 / slice high bound / offset+N of a BigEndian read) entailed <= totalLength = 4*(Header.Length+1), not merely <= len(rawPacket). C13-NOWRAP: every addition that updates a loop-carried cursor or counter of fixed width in the decoder is proven not to wrap. C13-WIDTH: the slice given to RecvDelta.Unmarshal has constant width w, reached only under delta.Type == w (1 small, 2 large), and the delta cursor advances by the same w. C13-SCALE: RecvDelta.Unmarshal stores 250*zext(byte) resp. 250*sext16(BigEndian.Uint16). C13-CLIP: the run-length arm creates exactly N placeholders and advances the processed counter by the same N = localMin(count-processed, runLength), and localMin returns the smaller argument. C13-SYM: every RecvDelta placeholder created while expanding the status chunks gets a Type entailed within {1 small delta, 2 large delta} (a symbol that carries no delta never yields one)."
	r.Trusted = []string{"go/ssa", "numeric engine checker/num", "field names Header.Length, PacketStatusCount, Type, Delta (anchors)"}
	r.NotCov("chunking invariance; one-to-one, in-order correspondence of deltas with received statuses; equality of decoded values (run-time relations)")
	r.NotCov("chunk bit extraction (C13-BITS) is decided under C16")

	fn := p.Func("*TransportLayerCC.Unmarshal")
	rd := p.Func("*RecvDelta.Unmarshal")
	lm := p.Func("localMin")
	if fn == nil || rd == nil {
		r.Fatalf("unresolved anchor: (*TransportLayerCC).Unmarshal / (*RecvDelta).Unmarshal")
		return
	}
	total := findTotalLength(fn)
	if total == nil {
		r.Fatalf("unresolved anchor: totalLength = 4*(Header.Length+1) not found in (*TransportLayerCC).Unmarshal")
		return
	}
	raw := fn.Params[1]
	// the decoder and the helpers it is split into (methods and functions of the package it calls statically,
	// transitively; the chunk/delta/header decoders are units of their own)
	uni := map[*ssa.Function]bool{fn: true}
	{
		work := []*ssa.Function{fn}
		for len(work) > 0 {
			f := work[len(work)-1]
			work = work[:len(work)-1]
			for _, b := range f.Blocks {
				for _, in := range b.Instrs {
					call, ok := in.(*ssa.Call)
					if !ok {
						continue
					}
					g := call.Common().StaticCallee()
					if g == nil || g.Pkg != p.SPkg || g.Blocks == nil || uni[g] || g.Name() == "Unmarshal" || g == lm {
						continue
					}
					uni[g] = true
					work = append(work, g)
				}
			}
		}
	}
	var uniFns []*ssa.Function
	for f := range uni {
		uniFns = append(uniFns, f)
	}
	sort.Slice(uniFns, func(i, j int) bool {
		if (uniFns[i] == fn) != (uniFns[j] == fn) {
			return uniFns[i] == fn
		}
		return uniFns[i].String() < uniFns[j].String()
	})
	var guardBlock0 func(b *ssa.BasicBlock) bool
	inGuard := func(e *num.Engine, in ssa.Instruction) bool {
		if in.Parent() == fn {
			return guardBlock0(in.Block())
		}
		rc := e.RootCall()
		return rc != nil && rc.Parent() == fn && guardBlock0(rc.Block())
	}

	// blocks dominated by both declared-length guards: totalLength >= 20 and len(rawPacket) >= totalLength
	guardBlock := declaredLengthGuard(fn, total, raw)
	if guardBlock == nil {
		r.Fatalf("C13-DECL: the guards `totalLength < 20` / `len(rawPacket) < int(totalLength)` were not found")
		return
	}

	guardBlock0 = func(b *ssa.BasicBlock) bool { return guardBlock.Dominates(b) && b != guardBlock }

	// ---- run the engine with hooks
	e := newNumEngine(c, nil)
	e.LoadGVN = true
	type declRes struct {
		seen, failed int
		pos         token.Pos
		detail      string
	}
	decl := map[string]*declRes{}
	var declOrder []string
	kinds := map[string]int{}
	e.AccessHook = func(e *num.Engine, st *num.State, in ssa.Instruction, base ssa.Value, extent num.Lin) {
		if !uni[in.Parent()] || e.ActualOf(base) != ssa.Value(raw) {
			return
		}
		if !inGuard(e, in) {
			return
		}
		kind := strings.TrimPrefix(fmt.Sprintf("%T", in), "*ssa.")
		owner := core.FuncName(in.Parent())
		key := fmt.Sprintf("%s/%s@%s", owner, kind, p.Pos(instrPos(in)))
		d := decl[key]
		if d == nil {
			kinds[owner+"/"+kind]++
			key = fmt.Sprintf("%s/%s#%d", owner, kind, kinds[owner+"/"+kind])
			d = &declRes{pos: instrPos(in)}
			decl[key] = d
			declOrder = append(declOrder, key)
			// remember mapping by position for later visits
			decl[fmt.Sprintf("%s/%s@%s", owner, kind, p.Pos(instrPos(in)))] = d
		}
		d.seen++
		tl := e.ExprOf(st, total)
		if !st.Entails(tl.Sub(extent)) {
			d.failed++
			if d.detail == "" {
				d.detail = fmt.Sprintf("read extent %s is not entailed <= totalLength", e.LinString(st.Subst(extent)))
			}
		}
	}
	// C13-SYM: a receive-delta placeholder is created only for a status symbol that carries a delta
	// (small = 1, large = 2), and its Type is that symbol
	rdNamed := p.Named("RecvDelta")
	symSeen, symBad := 0, 0
	symDet := ""
	var symPos token.Pos
	if rdNamed != nil {
		tIdx := structFieldIndex(rdNamed, "Type")
		e.StoreHook = func(e *num.Engine, st *num.State, x *ssa.Store) {
			fa, ok := x.Addr.(*ssa.FieldAddr)
			if !ok || fa.Field != tIdx || !uni[x.Parent()] {
				return
			}
			al, ok := fa.X.(*ssa.Alloc)
			if !ok || !al.Heap {
				return
			}
			if nt, ok := al.Type().Underlying().(*types.Pointer).Elem().(*types.Named); !ok || nt.Obj().Name() != "RecvDelta" {
				return
			}
			symSeen++
			symPos = x.Pos()
			v := e.ExprOf(st, x.Val)
			if v.Bad || !st.Entails(v.AddConst(-1)) || !st.Entails(v.Neg().AddConst(2)) {
				symBad++
				symDet = fmt.Sprintf("a RecvDelta placeholder is created with Type %s, only known to lie in %s (a delta exists only for symbols 1 and 2)", e.LinString(st.Subst(v)), rangeStr(st.Bounds(v)))
			}
		}
	}
	e.AnalyzeRoot(fn, num.RootOptions{ZeroReceiver: true})
	if e.Exceeded {
		r.Fatalf("numeric engine budget exceeded")
	}
	r.Check(symSeen >= 3 && symBad == 0, "C13-SYM", "(*TransportLayerCC).Unmarshal/placeholder-only-for-delta-symbols", p.Pos(symPos),
		fmt.Sprintf("every RecvDelta placeholder gets a Type entailed within {1 small, 2 large} (%d evaluation(s) of the 3+ creation sites)", symSeen),
		fmt.Sprintf("%d creation site evaluation(s); %s", symSeen, symDet))
	r.Floor("C13-DECL", 6)
	for _, k := range declOrder {
		d := decl[k]
		r.Anchor("C13-DECL", k)
		if d.failed == 0 {
			r.Ok("C13-DECL", k, p.Pos(d.pos), fmt.Sprintf("extent <= totalLength entailed (%d visit(s))", d.seen))
		} else {
			r.Bad("C13-DECL", k, p.Pos(d.pos), d.detail+": the decoder can read bytes beyond the packet's declared length (the next packet of a compound datagram)")
		}
	}

	// ---- C13-NOWRAP
	r.Floor("C13-NOWRAP", 3)
	var cursorAdds []*ssa.BinOp
	for _, f := range uniFns {
		adds := loopCarriedAdds(f)
		sort.Slice(adds, func(i, j int) bool { return adds[i].Pos() < adds[j].Pos() })
		cursorAdds = append(cursorAdds, adds...)
	}
	n := 0
	for _, add := range cursorAdds {
		if !isFixedUnsigned(add.Type()) {
			continue
		}
		n++
		key := fmt.Sprintf("(*TransportLayerCC).Unmarshal/cursor-add#%d", n)
		r.Anchor("C13-NOWRAP", key)
		w, ok := e.Wraps[add]
		switch {
		case !ok || w[0] == 0:
			r.Unk("C13-NOWRAP", key, p.Pos(instrPos(add)), "the addition was never evaluated by the engine")
		case w[1] == 0:
			r.Ok("C13-NOWRAP", key, p.Pos(instrPos(add)), fmt.Sprintf("%s: proven not to wrap in %d evaluation(s)", add, w[0]))
		default:
			r.Bad("C13-NOWRAP", key, p.Pos(instrPos(add)), fmt.Sprintf("%s (type %s) may wrap around: a cursor/counter that wraps lets the chunk loop run on and allocate without bound", add, add.Type()))
		}
	}

	// ---- C13-WIDTH
	r.Floor("C13-WIDTH", 2)
	nw := 0
	for _, f := range uniFns {
		for _, b := range f.Blocks {
			for _, in := range b.Instrs {
				call, ok := in.(*ssa.Call)
				if !ok || call.Common().Value != ssa.Value(rd) {
					continue
				}
				nw++
				key := fmt.Sprintf("(*TransportLayerCC).Unmarshal/delta-call#%d", nw)
				r.Anchor("C13-WIDTH", key)
				ok2, why := deltaWidthRule(b, call)
				r.Check(ok2, "C13-WIDTH", key, p.Pos(call.Pos()), why, why)
			}
		}
	}

	// ---- C13-SCALE
	r.Floor("C13-SCALE", 1)
	r.Anchor("C13-SCALE", "(*RecvDelta).Unmarshal")
	okS, whyS := deltaScaleRule(rd)
	r.Check(okS, "C13-SCALE", "(*RecvDelta).Unmarshal/scale", p.Pos(rd.Pos()), whyS, whyS)
	if k, ok := p.Types.Scope().Lookup("TypeTCCDeltaScaleFactor").(*types.Const); ok {
		v, _ := constant.Int64Val(k.Val())
		r.Check(v == 250, "C13-SCALE", "const/TypeTCCDeltaScaleFactor", "-", "delta unit is 250 microseconds", fmt.Sprintf("delta unit is %d, the draft says 250 us", v))
	}

	// ---- C13-CLIP
	r.Floor("C13-CLIP", 1)
	if lm == nil {
		r.Fatalf("unresolved anchor: localMin")
	} else {
		r.Anchor("C13-CLIP", "localMin")
		okM, whyM := isMinFunction(lm)
		r.Check(okM, "C13-CLIP", "localMin/returns-min", p.Pos(lm.Pos()), whyM, whyM)
		okC, whyC := clipRule(uniFns, lm)
		r.Check(okC, "C13-CLIP", "(*TransportLayerCC).Unmarshal/run-length-clip", p.Pos(fn.Pos()), whyC, whyC)
	}
}

func instrPos(in ssa.Instruction) token.Pos { return core.InstrPos(in) }

func isFixedUnsigned(t types.Type) bool {
	b, ok := t.Underlying().(*types.Basic)
	if !ok {
		return false
	}
	switch b.Kind() {
	case types.Uint8, types.Uint16, types.Uint32:
		return true
	}
	return false
}

// declaredLengthGuard returns the block from which both declared-length guards hold.
func declaredLengthGuard(fn *ssa.Function, total, raw ssa.Value) *ssa.BasicBlock {
	var minGuard, lenGuard *ssa.BasicBlock
	for _, b := range fn.Blocks {
		iff, ok := b.Instrs[len(b.Instrs)-1].(*ssa.If)
		if !ok {
			continue
		}
		cmp, ok := iff.Cond.(*ssa.BinOp)
		if !ok || cmp.Op != token.LSS {
			continue
		}
		// totalLength < 20  -> error
		if cmp.X == total {
			if _, ok := cmp.Y.(*ssa.Const); ok {
				minGuard = b.Succs[1]
			}
		}
		// len(rawPacket) < int(totalLength) -> error
		if call, ok := cmp.X.(*ssa.Call); ok {
			if bi, ok := call.Common().Value.(*ssa.Builtin); ok && bi.Name() == "len" && call.Common().Args[0] == raw {
				if cv, ok := cmp.Y.(*ssa.Convert); ok && cv.X == total {
					lenGuard = b.Succs[1]
				}
			}
		}
	}
	if minGuard == nil || lenGuard == nil {
		return nil
	}
	if minGuard.Dominates(lenGuard) {
		return lenGuard
	}
	if lenGuard.Dominates(minGuard) {
		return minGuard
	}
	return nil
}

// loopCarriedAdds: ADD instructions whose result flows (through phis only) into a loop-header phi that is also one of its operands (x = x + k).
func loopCarriedAdds(fn *ssa.Function) []*ssa.BinOp {
	var out []*ssa.BinOp
	seen := map[*ssa.BinOp]bool{}
	for _, b := range fn.Blocks {
		isHeader := false
		for _, pr := range b.Preds {
			if b.Dominates(pr) {
				isHeader = true
			}
		}
		if !isHeader {
			continue
		}
		for _, in := range b.Instrs {
			phi, ok := in.(*ssa.Phi)
			if !ok {
				break
			}
			// walk phi operands through phis
			visited := map[ssa.Value]bool{}
			var walk func(v ssa.Value)
			walk = func(v ssa.Value) {
				if visited[v] {
					return
				}
				visited[v] = true
				switch x := v.(type) {
				case *ssa.Phi:
					for _, e := range x.Edges {
						walk(e)
					}
				case *ssa.BinOp:
					if x.Op == token.ADD && !seen[x] {
						if reaches(x.X, phi) || reaches(x.Y, phi) {
							seen[x] = true
							out = append(out, x)
						}
					}
				}
			}
			for _, e := range phi.Edges {
				walk(e)
			}
		}
	}
	return out
}

// reaches: v is phi or a phi-chain leading to phi.
func reaches(v ssa.Value, phi *ssa.Phi) bool {
	seen := map[ssa.Value]bool{}
	var walk func(v ssa.Value) bool
	walk = func(v ssa.Value) bool {
		if v == ssa.Value(phi) {
			return true
		}
		if seen[v] {
			return false
		}
		seen[v] = true
		if x, ok := v.(*ssa.Phi); ok {
			for _, e := range x.Edges {
				if walk(e) {
					return true
				}
			}
		}
		return false
	}
	return walk(v)
}

// deltaWidthRule: call delta.Unmarshal(rawPacket[pos:pos+w]) under delta.Type == w; cursor += w afterwards.
func deltaWidthRule(b *ssa.BasicBlock, call *ssa.Call) (bool, string) {
	arg := call.Common().Args[1]
	sl, ok := arg.(*ssa.Slice)
	if !ok || sl.Low == nil || sl.High == nil {
		return false, "the argument of RecvDelta.Unmarshal is not rawPacket[pos:pos+w]"
	}
	add, ok := sl.High.(*ssa.BinOp)
	if !ok || add.Op != token.ADD || add.X != sl.Low {
		// high may be computed in int after conversion: high = convert(pos)+w with low = convert(pos)
		return false, "slice high bound is not low + constant"
	}
	wc, ok := add.Y.(*ssa.Const)
	if !ok {
		return false, "slice width is not a constant"
	}
	w, _ := constant.Int64Val(wc.Value)
	// dominating condition delta.Type == w
	found := false
	for _, cd := range dominatingConds(b) {
		bo, ok := cd.v.(*ssa.BinOp)
		if !ok || !cd.outcome || bo.Op != token.EQL {
			continue
		}
		k, ok := bo.Y.(*ssa.Const)
		if !ok || !loadOfField(bo.X, "Type") {
			continue
		}
		kv, _ := constant.Int64Val(k.Value)
		if kv == w {
			found = true
		} else {
			return false, fmt.Sprintf("a %d-byte delta is read under delta.Type == %d", w, kv)
		}
	}
	if !found {
		return false, fmt.Sprintf("the %d-byte read is not guarded by delta.Type == %d", w, w)
	}
	if (w != 1 && w != 2) || false {
		return false, fmt.Sprintf("delta width %d is neither 1 (small) nor 2 (large)", w)
	}
	// the cursor advance in the region dominated by b's guard: an ADD of the same base with constant w
	okAdv := false
	var seenAdv []int64
	for _, blk := range b.Parent().Blocks {
		if !b.Dominates(blk) && blk != b {
			continue
		}
		for _, in := range blk.Instrs {
			a2, ok := in.(*ssa.BinOp)
			if !ok || a2.Op != token.ADD || a2 == add {
				continue
			}
			if c2, ok := a2.Y.(*ssa.Const); ok && sameRoot(a2.X, sl.Low) {
				v, _ := constant.Int64Val(c2.Value)
				seenAdv = append(seenAdv, v)
				if v == w && isLoopCarried(a2) {
					okAdv = true
				}
			}
		}
		if blk != b {
			break
		}
	}
	if !okAdv {
		// look in the immediately following blocks (the advance is after the error check)
		for _, blk := range b.Parent().Blocks {
			if !b.Dominates(blk) {
				continue
			}
			for _, in := range blk.Instrs {
				a2, ok := in.(*ssa.BinOp)
				if !ok || a2.Op != token.ADD {
					continue
				}
				if c2, ok := a2.Y.(*ssa.Const); ok && sameRoot(a2.X, sl.Low) && isLoopCarried(a2) {
					v, _ := constant.Int64Val(c2.Value)
					seenAdv = append(seenAdv, v)
					if v == w {
						okAdv = true
					}
				}
			}
		}
	}
	if !okAdv {
		return false, fmt.Sprintf("after a %d-byte delta the cursor does not advance by %d (advances seen: %v)", w, w, seenAdv)
	}
	return true, fmt.Sprintf("%d-byte slice under delta.Type == %d, cursor advances by %d", w, w, w)
}

func sameRoot(a, b ssa.Value) bool {
	strip := func(v ssa.Value) ssa.Value {
		for {
			if c, ok := v.(*ssa.Convert); ok {
				v = c.X
				continue
			}
			return v
		}
	}
	return strip(a) == strip(b)
}

func isLoopCarried(add *ssa.BinOp) bool {
	refs := add.Referrers()
	if refs == nil {
		return false
	}
	for _, r := range *refs {
		if _, ok := r.(*ssa.Phi); ok {
			return true
		}
	}
	return false
}

// deltaScaleRule: every store to the Delta field stores 250 * conv(x) where conv is int64<-uint8 load (1 byte) or int64<-int16<-Uint16 (2 bytes).
func deltaScaleRule(fn *ssa.Function) (bool, string) {
	n := 0
	forms := map[string]bool{}
	for _, b := range fn.Blocks {
		for _, in := range b.Instrs {
			st, ok := in.(*ssa.Store)
			if !ok {
				continue
			}
			fa, ok := st.Addr.(*ssa.FieldAddr)
			if !ok || fieldNameOf(fa) != "Delta" {
				continue
			}
			n++
			mul, ok := st.Val.(*ssa.BinOp)
			if !ok || mul.Op != token.MUL {
				return false, "Delta is not stored as a product with the scale factor"
			}
			var v ssa.Value
			switch {
			case isConstInt(mul.X, 250):
				v = mul.Y
			case isConstInt(mul.Y, 250):
				v = mul.X
			default:
				return false, "Delta is not scaled by 250"
			}
			cv, ok := v.(*ssa.Convert)
			if !ok {
				return false, "scaled value is not a widening conversion of the wire value"
			}
			switch inner := cv.X.(type) {
			case *ssa.UnOp: // load of rawPacket[0] (uint8, zero extended)
				if b, ok := inner.Type().Underlying().(*types.Basic); ok && b.Kind() == types.Uint8 {
					forms["250*zext8"] = true
					continue
				}
				return false, "1-byte delta is not an unsigned octet"
			case *ssa.Convert: // int16(Uint16(...)) sign extended
				b, ok := inner.Type().Underlying().(*types.Basic)
				if !ok || b.Kind() != types.Int16 {
					return false, "2-byte delta is not converted through int16 (sign extension)"
				}
				call, ok := inner.X.(*ssa.Call)
				if !ok || calleeName(call) != "(encoding/binary.bigEndian).Uint16" {
					return false, "2-byte delta is not read with binary.BigEndian.Uint16"
				}
				forms["250*sext16(BE16)"] = true
				continue
			}
			return false, "unrecognised delta conversion"
		}
	}
	if n != 2 || !forms["250*zext8"] || !forms["250*sext16(BE16)"] {
		return false, fmt.Sprintf("expected the two delta forms 250*zext8 and 250*sext16(BE16), found %v", forms)
	}
	return true, "Delta = 250*zext(octet) for 1 byte, 250*sext16(BigEndian.Uint16) for 2 bytes"
}

// isMinFunction: f(x,y) returns x on the true side of x<y (or x<=y) and y otherwise.
func isMinFunction(f *ssa.Function) (bool, string) {
	if len(f.Params) != 2 || len(f.Blocks) == 0 {
		return false, "localMin does not have the shape f(x, y)"
	}
	iff, ok := f.Blocks[0].Instrs[len(f.Blocks[0].Instrs)-1].(*ssa.If)
	if !ok {
		return false, "localMin has no comparison"
	}
	cmp, ok := iff.Cond.(*ssa.BinOp)
	if !ok {
		return false, "localMin has no comparison"
	}
	x, y := ssa.Value(f.Params[0]), ssa.Value(f.Params[1])
	retOf := func(b *ssa.BasicBlock) ssa.Value {
		if r, ok := b.Instrs[len(b.Instrs)-1].(*ssa.Return); ok && len(r.Results) == 1 {
			return r.Results[0]
		}
		return nil
	}
	t, e := retOf(f.Blocks[0].Succs[0]), retOf(f.Blocks[0].Succs[1])
	var smallOnTrue, smallOnFalse ssa.Value
	switch {
	case (cmp.Op == token.LSS || cmp.Op == token.LEQ) && cmp.X == x && cmp.Y == y:
		smallOnTrue, smallOnFalse = x, y
	case (cmp.Op == token.GTR || cmp.Op == token.GEQ) && cmp.X == x && cmp.Y == y:
		smallOnTrue, smallOnFalse = y, x
	case (cmp.Op == token.LSS || cmp.Op == token.LEQ) && cmp.X == y && cmp.Y == x:
		smallOnTrue, smallOnFalse = y, x
	case (cmp.Op == token.GTR || cmp.Op == token.GEQ) && cmp.X == y && cmp.Y == x:
		smallOnTrue, smallOnFalse = x, y
	default:
		return false, "localMin does not compare its two parameters"
	}
	if t == smallOnTrue && e == smallOnFalse {
		return true, "returns the smaller of its two arguments"
	}
	return false, "localMin does not return the smaller argument on both branches"
}

// clipRule: N = localMin(count - processed, runLength); inner loop j < N; processed += N.
func clipRule(fns []*ssa.Function, lm *ssa.Function) (bool, string) {
	var call *ssa.Call
	for _, fn := range fns {
		for _, b := range fn.Blocks {
			for _, in := range b.Instrs {
				if cl, ok := in.(*ssa.Call); ok && cl.Common().Value == ssa.Value(lm) {
					// the one in the run-length arm: second argument is a load of RunLength
					if loadOfField(cl.Common().Args[1], "RunLength") || loadOfField(cl.Common().Args[0], "RunLength") {
						call = cl
					}
				}
			}
		}
	}
	if call == nil {
		return false, "no localMin(..., RunLength) call found in the run-length arm"
	}
	isClipSub := func(v ssa.Value) *ssa.BinOp {
		if s, ok := v.(*ssa.BinOp); ok && s.Op == token.SUB && loadOfField(s.X, "PacketStatusCount") {
			return s
		}
		return nil
	}
	// first argument: PacketStatusCount - processed, computed here or by the caller of a helper that
	// receives it as a parameter
	var sub *ssa.BinOp
	var viaCall *ssa.Call // the helper's call site when the difference is computed by the caller
	for _, a := range call.Common().Args {
		if s := isClipSub(a); s != nil {
			sub = s
		}
		if prm, ok := a.(*ssa.Parameter); ok {
			h := prm.Parent()
			k := -1
			for i, q := range h.Params {
				if q == prm {
					k = i
				}
			}
			for _, fn := range fns {
				for _, b := range fn.Blocks {
					for _, in := range b.Instrs {
						cl, ok := in.(*ssa.Call)
						if !ok || cl.Common().StaticCallee() != h || k < 0 || k >= len(cl.Common().Args) {
							continue
						}
						if s := isClipSub(cl.Common().Args[k]); s != nil {
							sub, viaCall = s, cl
						} else {
							return false, "a caller of " + h.Name() + " does not pass PacketStatusCount - processed as the remaining count"
						}
					}
				}
			}
		}
	}
	if sub == nil {
		return false, "the run length is not clipped against PacketStatusCount - processed"
	}
	if _, ok := sub.Y.(*ssa.Phi); !ok {
		return false, "the run length is clipped against PacketStatusCount minus something that is not the running counter"
	}
	usedAsBound, usedAsAdvance := false, false
	for _, ref := range *call.Referrers() {
		switch x := ref.(type) {
		case *ssa.BinOp:
			if x.Op == token.LSS && x.Y == ssa.Value(call) {
				usedAsBound = true
			}
			if x.Op == token.ADD && (x.X == sub.Y || x.Y == sub.Y) {
				usedAsAdvance = true
			}
		}
	}
	if !usedAsAdvance && viaCall != nil {
		// the helper returns N (possibly merged with the counts of its other arms) and the caller adds that
		// result to the running counter
		h := call.Parent()
		for _, b := range h.Blocks {
			ret, ok := b.Instrs[len(b.Instrs)-1].(*ssa.Return)
			if !ok {
				continue
			}
			for ri, rv := range ret.Results {
				if !flowsThroughPhis(call, rv) {
					continue
				}
				for _, ref := range *viaCall.Referrers() {
					ex, ok := ref.(*ssa.Extract)
					if !ok || ex.Index != ri {
						continue
					}
					for _, r2 := range *ex.Referrers() {
						if x, ok := r2.(*ssa.BinOp); ok && x.Op == token.ADD && (x.X == sub.Y || x.Y == sub.Y) {
							usedAsAdvance = true
						}
					}
				}
			}
		}
	}
	if !usedAsBound {
		return false, "the number of placeholders created is not bounded by the clipped run length (j < N)"
	}
	if !usedAsAdvance {
		return false, "the processed counter is not advanced by the clipped run length N"
	}
	return true, "N = localMin(PacketStatusCount - processed, RunLength) bounds the placeholder loop and is added to processed"
}

// flowsThroughPhis: v is src or a phi (of phis) one of whose operands is src.
func flowsThroughPhis(src ssa.Value, v ssa.Value) bool {
	seen := map[ssa.Value]bool{}
	var walk func(v ssa.Value) bool
	walk = func(v ssa.Value) bool {
		if v == src {
			return true
		}
		if seen[v] {
			return false
		}
		seen[v] = true
		if phi, ok := v.(*ssa.Phi); ok {
			for _, e := range phi.Edges {
				if walk(e) {
					return true
				}
			}
		}
		return false
	}
	return walk(v)
}
