package props

import (
	"fmt"
	"sort"
	"strings"
	"sync"

	"rtcpverif/bits"
	"rtcpverif/num"
)

// layoutRun is the result of the bit-provenance analysis of one unit.
type layoutRun struct {
	u      *unitSpec
	enc    *bits.EncResult
	dec    *bits.DecResult
	encErr error
	decErr error
}

// runLayouts evaluates the named units' encoders and decoders with the bit-provenance engine.
func runLayouts(c *Ctx, names ...string) map[string]*layoutRun {
	want := map[string]bool{}
	for _, n := range names {
		want[n] = true
	}
	var units []*unitSpec
	for _, u := range layoutUnits {
		if len(names) == 0 || want[u.name] {
			units = append(units, u)
		}
	}
	layoutRuns := map[string]*layoutRun{}
	var mu sync.Mutex
	parallelFor(len(units), func(i int) {
		u := units[i]
		r := &layoutRun{u: u}
		func() {
			defer func() {
				if x := recover(); x != nil {
					r.encErr = fmt.Errorf("analysis panic: %v", x)
				}
			}()
			if u.enc != "" {
				fn := c.Prog.Func(u.enc)
				if fn == nil {
					r.encErr = fmt.Errorf("unresolved anchor %s", u.enc)
				} else {
					be := bits.New(c.Prog.SPkg)
					be.FieldConst, be.ListLen = u.encConst, u.encLens
					r.enc, r.encErr = be.AnalyzeEncoder(fn)
				}
			}
		}()
		func() {
			defer func() {
				if x := recover(); x != nil {
					r.decErr = fmt.Errorf("analysis panic: %v", x)
				}
			}()
			if u.dec != "" {
				fn := c.Prog.Func(u.dec)
				if fn == nil {
					r.decErr = fmt.Errorf("unresolved anchor %s", u.dec)
				} else {
					// a unit that describes one alternative of the decoder (selected by an input bit) is
					// evaluated on the inputs having that bit
					var fixed map[string]bool
					if u.decAlt != "" {
						fixed = map[string]bool{strings.TrimPrefix(u.decAlt, "!"): !strings.HasPrefix(u.decAlt, "!")}
					}
					r.dec, r.decErr = bits.New(c.Prog.SPkg).AnalyzeDecoderAssuming(fn, fixed)
				}
			}
		}()
		mu.Lock()
		layoutRuns[u.name] = r
		mu.Unlock()
	})
	return layoutRuns
}

func layoutOrder() []string {
	var names []string
	for _, u := range layoutUnits {
		names = append(names, u.name)
	}
	sort.Strings(names)
	return names
}

func trunc(xs []string, n int) string {
	if len(xs) > n {
		xs = append(append([]string(nil), xs[:n]...), fmt.Sprintf("... (%d more)", len(xs)-n))
	}
	return strings.Join(xs, " | ")
}

func init() { register("C16", "other", checkC16) }

// c16Units: the fixed-width wire units of the property that the bit-provenance engine can summarise.
var c16Units = []string{"Header", "ReceptionReport", "RunLengthChunk", "CCFeedbackMetricBlock", "TransportLayerNack", "SliceLossIndication", "FullIntraRequest"}

func checkC16(c *Ctx) {
	r := c.Rep
	p := c.Prog
	r.Explain = "Bit-provenance abstract interpretation (checker/bits): every integer SSA value is a vector of bit sources (constant, bit k of a receiver field, bit k of an input octet, unknown); byte buffers map (stride, offset) to 8 sources; merge points use if-then-else on single-bit conditions; loop bodies are evaluated once with affine induction variables, so per-entry layouts are relative to the entry. For each unit the encoder yields wire bit <- field bit and the decoder yields field bit <- wire bit, for ALL values at once. C16-RT: composing the two maps is the identity on every field bit that reaches the wire, and every wire bit the decoder uses is one the encoder wrote from the same field bit (so encode-then-decode is the identity on values that fit the wire width, and decode-then-encode on the bits the unit owns). C16-ENC / C16-DEC: both maps equal the RFC layout table (position, width, big-endian order, constant bits). C16-CNT: Header.Marshal returns a nil error only with Count <= 31 (numeric engine). Version and length guards of Header.Unmarshal are C06-VER and C01."
	r.RuleText = "C16-RT, C16-ENC, C16-DEC per unit; C16-CNT; C16-NR (not-received metric block decodes to zero fields); C16-ACC (13 corner shapes of the units — fixed length, some octets fixed, the rest arbitrary — none of which the unit decoder may reject on every path: the decoder side of 'over the whole domain')."
	r.Trusted = []string{"go/ssa", "bit-provenance engine checker/bits (transfer functions of & | ^ &^ << >> conversions, + on disjoint bits, power-of-two * / %, encoding/binary big-endian accessors, copy/append on tracked buffers)", "layout tables written from the RFCs (props/layout.go)", "numeric engine for C16-CNT"}
	r.Assume = []string{"values wider than their wire field are outside the identity claim (C08 decides whether they are rejected)"}
	r.NotCov("StatusVectorChunk.Marshal with fewer symbols than fit (decided for full lists: 14 one-bit or 7 two-bit symbols; a shorter list leaves the remaining bits zero by the same loop) and with a SymbolSize outside {0,1} (finding F15); RecvDelta (scaled arithmetic: C13-SCALE/WIDTH); for the XR RLE chunk accessors only the bit selections of each return are decided, not which return is taken for which chunk type")

	runs := runLayouts(c, c16Units...)
	for _, name := range c16Units {
		lr := runs[name]
		if lr == nil {
			r.Fatalf("unit %s missing", name)
			continue
		}
		r.Anchor("C16-UNIT", name)
		pos := "-"
		if fn := p.Func(lr.u.enc); fn != nil {
			pos = p.Pos(fn.Pos())
		}
		if lr.encErr != nil || lr.decErr != nil {
			r.Unk("C16-RT", name+"/analysable", pos, fmt.Sprintf("encoder: %v; decoder: %v", lr.encErr, lr.decErr))
			continue
		}
		n, bad := roundTrip(lr.enc, lr.dec, lr.u.decAlt, layoutFields(lr.u), lr.u.encConst)
		r.Check(len(bad) == 0 && n > 0, "C16-RT", name+"/encode-decode-identity", pos, fmt.Sprintf("%d bit correspondences: every encoded field bit is decoded from the octet/bit it was written to, and vice versa", n), trunc(bad, 3))
		n, bad = encVsSpec(lr.u, lr.enc)
		r.Check(len(bad) == 0 && n > 0, "C16-ENC", name+"/encoder-matches-"+strings.Fields(lr.u.rfc)[0]+strings.Fields(lr.u.rfc)[1], pos, fmt.Sprintf("%d wire bits equal the layout of %s", n, lr.u.rfc), trunc(bad, 3))
		dpos := pos
		if fn := p.Func(lr.u.dec); fn != nil {
			dpos = p.Pos(fn.Pos())
		}
		n, bad = decVsSpec(lr.u, lr.dec)
		r.Check(len(bad) == 0 && n > 0, "C16-DEC", name+"/decoder-matches-"+strings.Fields(lr.u.rfc)[0]+strings.Fields(lr.u.rfc)[1], dpos, fmt.Sprintf("%d field bits equal the layout of %s", n, lr.u.rfc), trunc(bad, 3))
	}
	r.Floor("C16-UNIT", 9)
	// StatusVectorChunk: one unit per symbol size. The encoder places the symbols in a loop whose shift
	// comes from a table lookup on SymbolSize; it is evaluated once per symbol size with a full symbol list
	// (14 one-bit or 7 two-bit symbols), which makes the loop a constant-trip loop the engine unrolls.
	for _, name := range []string{"StatusVectorChunk/one-bit", "StatusVectorChunk/two-bit"} {
		lr := runLayouts(c, name)[name]
		if lr == nil || lr.decErr != nil || lr.dec == nil {
			r.Unk("C16-DEC", name+"/analysable", "-", fmt.Sprint(lr))
			continue
		}
		r.Anchor("C16-UNIT", name)
		dpos := "-"
		if fn := p.Func(lr.u.dec); fn != nil {
			dpos = p.Pos(fn.Pos())
		}
		n, bad := decVsSpec(lr.u, lr.dec)
		r.Check(len(bad) == 0 && n > 0, "C16-DEC", name+"/decoder-matches-"+unitKey(lr.u), dpos, fmt.Sprintf("%d field bits equal the layout of %s (the two constant-trip loops are unrolled)", n, lr.u.rfc), trunc(bad, 3))
		epos := "-"
		if fn := p.Func(lr.u.enc); fn != nil {
			epos = p.Pos(fn.Pos())
		}
		if lr.encErr != nil || lr.enc == nil {
			r.Unk("C16-ENC", name+"/analysable", epos, fmt.Sprintf("encoder: %v", lr.encErr))
			continue
		}
		n, bad = encVsSpec(lr.u, lr.enc)
		r.Check(len(bad) == 0 && n > 0, "C16-ENC", name+"/encoder-matches-"+unitKey(lr.u), epos, fmt.Sprintf("%d wire bits equal the layout of %s (encoder evaluated with SymbolSize = %d and %d symbols: the symbol loop is unrolled, the shift table is read as a constant map)", n, lr.u.rfc, lr.u.encConst["SymbolSize"], lr.u.encLens["SymbolList"]), trunc(bad, 3))
		n, bad = roundTrip(lr.enc, lr.dec, lr.u.decAlt, layoutFields(lr.u), lr.u.encConst)
		r.Check(len(bad) == 0 && n > 0, "C16-RT", name+"/encode-decode-identity", epos, fmt.Sprintf("%d bit correspondences between the encoder (this symbol size, full list) and the decoder alternative it selects", n), trunc(bad, 3))
	}
	c16Accept(c)
	// not-received metric block: canonical zero fields
	if lr := runs["CCFeedbackMetricBlock"]; lr != nil && lr.dec != nil {
		ok := false
		why := "no successful decode of an input with the R bit clear"
		// the decoder evaluated on the inputs whose R bit (octet 0 bit 7) is clear
		var nr *bits.DecResult
		if fn := p.Func(lr.u.dec); fn != nil {
			if msg := guarded(func() {
				nr, _ = bits.New(c.Prog.SPkg).AnalyzeDecoderAssuming(fn, map[string]bool{"W:0.7": false})
			}); msg != "" {
				why = "analysis panic: " + msg
			}
		}
		if nr != nil && nr.NRet > 0 {
			ok = true
			for _, f := range []string{"ECN", "ArrivalTimeOffset"} {
				if len(nr.Fields[f]) == 0 {
					ok = false
					why = "field " + f + " is not stored as an integer"
				}
				for _, b := range nr.Fields[f] {
					if b != bits.Zero {
						ok = false
						why = "field " + f + " is not zero for a not-received block"
					}
				}
			}
		}
		r.Check(ok, "C16-NR", "CCFeedbackMetricBlock/not-received-decodes-to-zero", "-", "when the R bit is clear ECN and ArrivalTimeOffset are the constant 0 whatever the other 15 bits are", why)
	}
	// headers with a version other than 2 are rejected (all 256 first octets, constant propagation)
	if hun := p.Func("*Header.Unmarshal"); hun != nil {
		c06Version(c, hun, "C16-VER")
	} else {
		r.Fatalf("unresolved anchor: (*Header).Unmarshal")
	}
	c16Chunk(c)
	// a count above 31 cannot be encoded
	hm := p.Func("Header.Marshal")
	hidx, _ := headerFieldIdx(p)
	if hm == nil || hidx == nil {
		r.Fatalf("unresolved anchor: Header.Marshal")
		return
	}
	e := newNumEngine(c, nil)
	var rets []num.RootReturn
	if msg := guarded(func() { rets = e.AnalyzeRoot(hm, num.RootOptions{}) }); msg != "" {
		r.Fatalf("analysis panic in Header.Marshal: %s", msg)
		return
	}
	n, okc := 0, 0
	for _, rr := range rets {
		if len(rr.Ret.Results) != 2 || e.IsNonNilResult(rr.St, rr.Ret.Results[1]) {
			continue
		}
		n++
		cnt := e.StructFieldExpr(rr.St, hm.Params[0], hidx["Count"])
		if !cnt.Bad && rr.St.Entails(cnt.Neg().AddConst(31)) {
			okc++
		}
	}
	r.Check(n > 0 && okc == n, "C16-CNT", "Header.Marshal/count-above-31-is-an-error", p.Pos(hm.Pos()), fmt.Sprintf("Count <= 31 entailed at all %d nil-error return(s)", n), fmt.Sprintf("Count <= 31 entailed at %d of %d nil-error returns", okc, n))
}

// c16Chunk: XR RLE chunk accessors (RFC 3611 4.1): chunk type = bit 15 (all-zero word = terminating
// null), run type = bit 14, run length = low 14 bits, bit vector = low 15 bits.
func c16Chunk(c *Ctx) {
	r := c.Rep
	p := c.Prog
	bitsOf := func(lo, n, w int) string {
		out := make(bits.BV, w)
		for i := range out {
			out[i] = bits.Zero
			if i < n {
				out[i] = bits.Bit{K: bits.BSrc, Src: "F:c", I: lo + i}
			}
		}
		return out.String()
	}
	type exp struct {
		fn    string
		forms []string // every return's first result must be one of these
		must  []string // and each of these must occur
	}
	w8 := func(v uint64) string { return bitsConst(v, 8) }
	for _, x := range []exp{
		{"Chunk.Type", []string{w8(2), bitsOf(15, 1, 8)}, []string{w8(2), bitsOf(15, 1, 8)}},
		{"Chunk.RunType", []string{bitsOf(14, 1, 64), bitsConst(0, 64)}, []string{bitsOf(14, 1, 64)}},
		{"Chunk.Value", []string{bitsOf(0, 14, 64), bitsOf(0, 15, 64), bitsOf(0, 16, 64), bitsConst(0, 64)}, []string{bitsOf(0, 14, 64), bitsOf(0, 15, 64)}},
	} {
		fn := p.Func(x.fn)
		if fn == nil {
			r.Fatalf("unresolved anchor: %s", x.fn)
			continue
		}
		alts, err := bits.New(p.SPkg).AnalyzeFunc(fn)
		if err != nil {
			r.Unk("C16-CHK", x.fn+"/bit-selection", p.Pos(fn.Pos()), err.Error())
			continue
		}
		seen := map[string]bool{}
		var bad []string
		for _, a := range alts {
			if a.ErrKnown && !a.ErrNil {
				continue
			}
			if len(a.Results) == 0 || a.Results[0] == nil {
				bad = append(bad, "a return without an integer result")
				continue
			}
			s := a.Results[0].String()
			ok := false
			for _, f := range x.forms {
				if f == s {
					ok = true
					seen[f] = true
				}
			}
			if !ok {
				// a constant returned under a path condition that pins the selected bit to that constant
				// (`if c&0x8000 != 0 { return 1 }`) selects the same bit
				for _, f := range x.forms {
					if pinnedEqual(a.Results[0], a.Cond, f) {
						ok = true
						seen[f] = true
					}
				}
			}
			if !ok {
				bad = append(bad, "a return yields "+s)
			}
		}
		for _, m := range x.must {
			if !seen[m] {
				bad = append(bad, "no return yields "+m)
			}
		}
		if x.fn == "Chunk.Type" {
			// the terminating-null case is exactly the all-zero word
			okNull := false
			for _, a := range alts {
				if len(a.Results) > 0 && a.Results[0] != nil && a.Results[0].String() == w8(2) {
					for _, cd := range a.Cond {
						if cd.String() == "cmp:F:c==0.0" {
							okNull = true
						}
					}
				}
			}
			if !okNull {
				bad = append(bad, "the terminating-null result is not guarded by a comparison of the whole chunk with 0")
			}
		}
		r.Check(len(bad) == 0, "C16-CHK", x.fn+"/bit-selection", p.Pos(fn.Pos()), fmt.Sprintf("every return selects the RFC 3611 bits (%d returns)", len(alts)), trunc(bad, 2))
	}
}

// pinnedEqual: the bit vector got equals the form (given as its printed bit list) once every source bit that
// the path condition fixes is replaced by its value.
func pinnedEqual(got bits.BV, cond []bits.Bit, form string) bool {
	pin := map[string]bits.Bit{}
	for _, c := range cond {
		switch c.K {
		case bits.BSrc:
			pin[c.String()] = bits.One
		case bits.BNot:
			pin[bits.Bit{K: bits.BSrc, Src: c.Src, I: c.I}.String()] = bits.Zero
		}
	}
	sub := make(bits.BV, len(got))
	changed := false
	fs := strings.Fields(strings.Trim(form, "[]"))
	if len(fs) != len(got) {
		return false
	}
	// the printed form lists the most significant bit first
	for i := range got {
		want := fs[len(got)-1-i]
		sub[i] = got[i]
		if v, ok := pin[want]; ok && (got[i] == bits.Zero || got[i] == bits.One) {
			if got[i] != v {
				return false
			}
			changed = true
			continue
		}
		if got[i].String() != want {
			return false
		}
	}
	return changed
}

func bitsConst(v uint64, w int) string {
	out := make(bits.BV, w)
	for i := range out {
		out[i] = bits.Zero
		if v>>uint(i)&1 == 1 {
			out[i] = bits.One
		}
	}
	return out.String()
}
