package props

import (
	"fmt"
	"sort"
	"strconv"
	"strings"

	"rtcpverif/bits"
)

// unitSpec describes the wire layout of one encoder/decoder pair, written from
// the governing RFC (the oracle). Layout segments use a small notation:
//
//	"@<base> item item ..."   base = byte offset, optionally strided: "24i+28"
//	1, 0          a constant bit
//	Name:w        w bits of Go field Name, most significant first
//	len(X):w      w bits of the length of list X
//	z:w           w reserved bits: zero when encoding, ignored when decoding
//	_:w           w bits not checked here (computed values decided elsewhere)
//	c:0xNN        a constant octet
//
// Items are consumed most-significant-bit first from the base offset.
type unitSpec struct {
	name   string
	rfc    string
	enc    string   // encoder function ("" = none)
	dec    string   // decoder function ("" = none)
	layout []string // segments
	// decAlt: the decoder has several successful returns (alternatives); the layout is checked on the
	// alternative whose path condition contains this bit, e.g. "W:0.7".
	decAlt string
	// decoder-only fields that carry no wire bits (tags), with their constant value
	decConst map[string]uint64
	// fields the decoder leaves to other code (not compared)
	decSkip map[string]bool
	// the encoder emits more than the layout lists (variable tails etc.): only the listed bits are compared
	partial bool
	// encConst / encLens: the encoder is evaluated on the receivers whose integer field has this value and
	// whose list has this length (a unit that describes one form of a data-dependent encoder); the layout's
	// bits of an assumed field are then the bits of the constant
	encConst map[string]uint64
	encLens  map[string]int64
	// tails: variable-length runs the encoder copies opaquely (texts, extension octets, application data):
	// "<offset>: <field>", the offset as an affine expression of list lengths as the bit engine prints it
	tails []string
	// encLayout: the layout as the encoder must produce it, where it says more than the decoder's view
	// (a bit the decoder does not look at but the encoder must set)
	encLayout []string
}

type specBit struct {
	kind  byte // '0','1','f' field, 'l' len, 'z' reserved, '_' unchecked
	field string
	bit   int
}

type wirePos struct {
	cell string // "24i+28" style byte name
	bit  int    // 7 = most significant
}

// expand turns the layout into an ordered list of (wire position, expectation).
func (u *unitSpec) expand() ([]wirePos, []specBit, error) {
	var pos []wirePos
	var exp []specBit
	for _, seg := range u.layout {
		items := strings.Fields(seg)
		if len(items) == 0 || !strings.HasPrefix(items[0], "@") {
			return nil, nil, fmt.Errorf("segment %q does not start with @base", seg)
		}
		base := items[0][1:]
		sym, off := "", int64(0)
		if i := strings.LastIndex(base, "+"); i >= 0 {
			sym = base[:i]
			base = base[i+1:]
		}
		o, err := strconv.ParseInt(base, 10, 64)
		if err != nil {
			return nil, nil, fmt.Errorf("bad base in %q", seg)
		}
		off = o
		nbit := 0
		emit := func(b specBit) {
			byteOff := off + int64(nbit/8)
			cell := fmt.Sprint(byteOff)
			if sym != "" {
				cell = fmt.Sprintf("%s+%d", sym, byteOff)
			}
			pos = append(pos, wirePos{cell, 7 - nbit%8})
			exp = append(exp, b)
			nbit++
		}
		for _, it := range items[1:] {
			switch {
			case it == "0" || it == "1":
				emit(specBit{kind: it[0]})
			case len(it) > 2 && it[0] == 'c' && it[1] >= '0' && it[1] <= '9':
				// cN:V  an N-bit constant
				i := strings.Index(it, ":")
				w, err1 := strconv.Atoi(it[1:i])
				v, err2 := strconv.ParseUint(it[i+1:], 10, 64)
				if err1 != nil || err2 != nil {
					return nil, nil, fmt.Errorf("bad constant %q", it)
				}
				for k := w - 1; k >= 0; k-- {
					if v>>uint(k)&1 == 1 {
						emit(specBit{kind: '1'})
					} else {
						emit(specBit{kind: '0'})
					}
				}
			case strings.HasPrefix(it, "c:"):
				v, err := strconv.ParseUint(strings.TrimPrefix(it[2:], "0x"), 16, 8)
				if err != nil {
					return nil, nil, fmt.Errorf("bad constant %q", it)
				}
				for k := 7; k >= 0; k-- {
					if v>>uint(k)&1 == 1 {
						emit(specBit{kind: '1'})
					} else {
						emit(specBit{kind: '0'})
					}
				}
			default:
				i := strings.LastIndex(it, ":")
				if i < 0 {
					return nil, nil, fmt.Errorf("bad item %q", it)
				}
				w, err := strconv.Atoi(it[i+1:])
				if err != nil {
					return nil, nil, fmt.Errorf("bad width in %q", it)
				}
				name := it[:i]
				for k := w - 1; k >= 0; k-- {
					switch {
					case name == "z":
						emit(specBit{kind: 'z'})
					case name == "_":
						emit(specBit{kind: '_'})
					case strings.HasPrefix(name, "len("):
						emit(specBit{kind: 'l', field: name, bit: k})
					default:
						emit(specBit{kind: 'f', field: name, bit: k})
					}
				}
			}
		}
		if nbit%8 != 0 {
			return nil, nil, fmt.Errorf("segment %q is not a whole number of octets (%d bits)", seg, nbit)
		}
	}
	return pos, exp, nil
}

func wireBit(w bits.WireMap, p wirePos) (bits.Bit, bool) {
	c, ok := w[p.cell]
	if !ok {
		return bits.Bit{}, false
	}
	return c[p.bit], true
}

// encVsSpec compares an encoder's wire map with the layout. It returns the mismatches.
func encVsSpec(u *unitSpec, res *bits.EncResult) (checked int, bad []string) {
	if u.encLayout != nil {
		cp := *u
		cp.layout, cp.encLayout = u.encLayout, nil
		u = &cp
	}
	pos, exp, err := u.expand()
	if err != nil {
		return 0, []string{err.Error()}
	}
	owned := map[string]bool{}
	for i, p := range pos {
		owned[fmt.Sprintf("%s.%d", p.cell, p.bit)] = true
		e := exp[i]
		if e.kind == '_' {
			continue
		}
		got, ok := wireBit(res.Wire, p)
		if !ok {
			// a cell never written: zero in a zero-initialised buffer
			got = bits.Zero
		}
		checked++
		var want bits.Bit
		switch e.kind {
		case '0', 'z':
			want = bits.Zero
		case '1':
			want = bits.One
		case 'f':
			want = bits.Bit{K: bits.BSrc, Src: "F:" + e.field, I: e.bit}
			if v, assumed := u.encConst[e.field]; assumed {
				want = bits.Zero
				if v>>uint(e.bit)&1 == 1 {
					want = bits.One
				}
			}
		case 'l':
			want = bits.Bit{K: bits.BSrc, Src: "L:" + e.field, I: e.bit}
		}
		if got != want {
			bad = append(bad, fmt.Sprintf("octet %s bit %d: encoder emits %s, %s says %s", p.cell, p.bit, got, u.rfc, want))
		}
	}
	if res.Clobber {
		bad = append(bad, "the encoder writes at an offset the analysis cannot place")
	}
	// variable-length tails start where the layout says
	for _, want := range u.tails {
		i := strings.Index(want, ": ")
		off, field := want[:i], want[i+2:]
		found := ""
		for _, t := range res.Tails {
			j := strings.Index(t, ": ")
			if j >= 0 && (t[j+2:] == field || strings.HasSuffix(t[j+2:], "."+field)) {
				found = t[:j]
			}
		}
		checked++
		switch {
		case found == "":
			bad = append(bad, fmt.Sprintf("the octets of %s are not copied to the wire as one run (expected from offset %s)", field, off))
		case found != off:
			bad = append(bad, fmt.Sprintf("the octets of %s start at offset %s, %s says %s", field, found, u.rfc, off))
		}
	}
	if !u.partial {
		// every written bit must be owned by the layout
		var extra []string
		for cell, c := range res.Wire {
			for k := 0; k < 8; k++ {
				if !owned[fmt.Sprintf("%s.%d", cell, k)] && c[k] != bits.Zero {
					extra = append(extra, fmt.Sprintf("%s.%d=%s", cell, k, c[k]))
				}
			}
		}
		sort.Strings(extra)
		if len(extra) > 0 {
			if len(extra) > 4 {
				extra = append(extra[:4], "...")
			}
			bad = append(bad, "the encoder emits bits the layout does not know: "+strings.Join(extra, " "))
		}
	}
	return checked, bad
}

// decVsSpec compares what a decoder stores with the layout.
func decVsSpec(u *unitSpec, res *bits.DecResult) (checked int, bad []string) {
	pos, exp, err := u.expand()
	if err != nil {
		return 0, []string{err.Error()}
	}
	if u.decAlt != "" {
		var pick *bits.DecResult
		for _, a := range res.Alts {
			for _, c := range a.Cond {
				if c.String() == u.decAlt {
					pick = a
				}
			}
		}
		if pick == nil {
			return 0, []string{"no decoder alternative with path condition " + u.decAlt}
		}
		res = pick
	}
	want := map[string]map[int]bits.Bit{}
	for i, p := range pos {
		e := exp[i]
		if e.kind != 'f' {
			continue
		}
		if want[e.field] == nil {
			want[e.field] = map[int]bits.Bit{}
		}
		want[e.field][e.bit] = bits.Bit{K: bits.BSrc, Src: "W:" + p.cell, I: p.bit}
	}
	var fields []string
	for f := range want {
		fields = append(fields, f)
	}
	sort.Strings(fields)
	for _, f := range fields {
		if u.decSkip[f] {
			continue
		}
		got, ok := res.Fields[f]
		if !ok {
			bad = append(bad, fmt.Sprintf("field %s is not stored by the decoder (%s)", f, res.Other[f]))
			continue
		}
		for j, b := range got {
			checked++
			w, has := want[f][j]
			if !has {
				w = bits.Zero
			}
			if b != w {
				bad = append(bad, fmt.Sprintf("field %s bit %d: decoder takes %s, %s says %s", f, j, b, u.rfc, w))
				break
			}
		}
		for j := range want[f] {
			if j >= len(got) {
				bad = append(bad, fmt.Sprintf("field %s is narrower (%d bits) than its wire width", f, len(got)))
				break
			}
		}
	}
	// decoder-side constants (tags)
	for f, v := range u.decConst {
		got, ok := res.Fields[f]
		if !ok {
			bad = append(bad, "tag field "+f+" not stored")
			continue
		}
		for j, b := range got {
			w := bits.Zero
			if v>>uint(j)&1 == 1 {
				w = bits.One
			}
			if b != w {
				bad = append(bad, fmt.Sprintf("tag field %s bit %d is %s, expected constant %d", f, j, b, v))
				break
			}
		}
	}
	// every integer field the decoder stores must be known to the layout (or be a tag)
	var extra []string
	for f := range res.Fields {
		if _, ok := want[f]; !ok && !u.decSkip[f] {
			if _, isTag := u.decConst[f]; !isTag {
				extra = append(extra, f)
			}
		}
	}
	sort.Strings(extra)
	if len(extra) > 0 && !u.partial {
		bad = append(bad, "the decoder stores fields the layout does not know: "+strings.Join(extra, ", "))
	}
	return checked, bad
}

// roundTrip checks enc then dec is the identity on every field bit that reaches the wire,
// directly on the two extracted maps (independent of the layout table).
func roundTrip(enc *bits.EncResult, dec *bits.DecResult, decAlt string, only map[string]bool, encConst map[string]uint64) (checked int, bad []string) {
	if decAlt != "" {
		for _, a := range dec.Alts {
			for _, c := range a.Cond {
				if c.String() == decAlt {
					dec = a
				}
			}
		}
	}
	var cells []string
	for c := range enc.Wire {
		cells = append(cells, c)
	}
	sort.Strings(cells)
	for _, cell := range cells {
		c := enc.Wire[cell]
		for k := 0; k < 8; k++ {
			b := c[k]
			if b.K != bits.BSrc || !strings.HasPrefix(b.Src, "F:") {
				continue
			}
			f := strings.TrimPrefix(b.Src, "F:")
			got, ok := dec.Fields[f]
			if !ok {
				bad = append(bad, fmt.Sprintf("field %s is encoded (octet %s) but not decoded", f, cell))
				break
			}
			checked++
			want := bits.Bit{K: bits.BSrc, Src: "W:" + cell, I: k}
			if b.I >= len(got) || got[b.I] != want {
				g := "nothing"
				if b.I < len(got) {
					g = got[b.I].String()
				}
				bad = append(bad, fmt.Sprintf("bit %d of %s is written to octet %s bit %d but read back from %s", b.I, f, cell, k, g))
			}
		}
	}
	// bits the decoder takes from the wire must be bits the encoder wrote from the same field bit
	var fs []string
	for f := range dec.Fields {
		fs = append(fs, f)
	}
	sort.Strings(fs)
	for _, f := range fs {
		if only != nil && !only[f] {
			continue // partial unit: fields outside the layout are not compared here
		}
		for j, b := range dec.Fields[f] {
			if b.K != bits.BSrc || !strings.HasPrefix(b.Src, "W:") {
				continue
			}
			cell := strings.TrimPrefix(b.Src, "W:")
			c, ok := enc.Wire[cell]
			checked++
			if !ok {
				bad = append(bad, fmt.Sprintf("field %s bit %d is read from octet %s which the encoder never writes", f, j, cell))
				break
			}
			want := bits.Bit{K: bits.BSrc, Src: "F:" + f, I: j}
			if v, assumed := encConst[f]; assumed {
				// the encoder was evaluated with this field fixed: it must put the constant's bit there
				want = bits.Zero
				if v>>uint(j)&1 == 1 {
					want = bits.One
				}
			}
			if c[b.I] != want {
				bad = append(bad, fmt.Sprintf("field %s bit %d is read from octet %s bit %d, where the encoder puts %s", f, j, cell, b.I, c[b.I]))
			}
		}
	}
	return checked, bad
}

// ---- the layout tables (RFC 3550 / 4585 / 5104 / 6051 / 8888, draft-holmer-rmcat-transport-wide-cc, draft-alvestrand-rmcat-remb)

const rrBlock = "Reports[].SSRC:32 Reports[].FractionLost:8 Reports[].TotalLost:24 Reports[].LastSequenceNumber:32 Reports[].Jitter:32 Reports[].LastSenderReport:32 Reports[].Delay:32"

var layoutUnits = []*unitSpec{
	{name: "Header", rfc: "RFC 3550 6.4.1 (common header)", enc: "Header.Marshal", dec: "*Header.Unmarshal",
		layout: []string{"@0 1 0 Padding:1 Count:5 Type:8 Length:16"}},
	{name: "ReceptionReport", rfc: "RFC 3550 6.4.1 (report block)", enc: "ReceptionReport.Marshal", dec: "*ReceptionReport.Unmarshal",
		layout: []string{"@0 SSRC:32 FractionLost:8 TotalLost:24 LastSequenceNumber:32 Jitter:32 LastSenderReport:32 Delay:32"}},
	{name: "SenderReport", rfc: "RFC 3550 6.4.1", enc: "SenderReport.Marshal", dec: "*SenderReport.Unmarshal", partial: true, tails: []string{"24len(Reports)+28: ProfileExtensions"},
		layout: []string{"@0 1 0 0 len(Reports):5 c:0xC8 _:16", "@4 SSRC:32 NTPTime:64 RTPTime:32 PacketCount:32 OctetCount:32", "@24i+28 " + rrBlock}},
	{name: "ReceiverReport", rfc: "RFC 3550 6.4.2", enc: "ReceiverReport.Marshal", dec: "*ReceiverReport.Unmarshal", partial: true, tails: []string{"24len(Reports)+8: ProfileExtensions"},
		layout: []string{"@0 1 0 0 len(Reports):5 c:0xC9 _:16", "@4 SSRC:32", "@24i+8 " + rrBlock}},
	{name: "Goodbye", rfc: "RFC 3550 6.6", enc: "Goodbye.Marshal", dec: "", partial: true, tails: []string{"4len(Sources)+5: Reason"},
		layout: []string{"@0 1 0 0 len(Sources):5 c:0xCB _:16", "@4i+4 Sources[]:32"}},
	{name: "SourceDescriptionItem", rfc: "RFC 3550 6.5 (SDES item)", enc: "SourceDescriptionItem.Marshal", dec: "", partial: true, tails: []string{"2: Text"},
		layout: []string{"@0 Type:8 _:8"}},
	{name: "ApplicationDefined", rfc: "RFC 3550 6.7", enc: "ApplicationDefined.Marshal", dec: "*ApplicationDefined.Unmarshal", partial: true, tails: []string{"12: Data"},
		layout: []string{"@0 1 0 _:1 SubType:5 c:0xCC _:16", "@4 SSRC:32"}},
	{name: "TransportLayerNack", rfc: "RFC 4585 6.2.1", enc: "TransportLayerNack.Marshal", dec: "*TransportLayerNack.Unmarshal",
		layout: []string{"@0 1 0 0 c5:1 c:0xCD _:16", "@4 SenderSSRC:32 MediaSSRC:32", "@4i+12 Nacks[].PacketID:16 Nacks[].LostPackets:16"}},
	{name: "RapidResynchronizationRequest", rfc: "RFC 6051 3.2", enc: "RapidResynchronizationRequest.Marshal", dec: "*RapidResynchronizationRequest.Unmarshal",
		layout: []string{"@0 1 0 0 c5:5 c:0xCD c:0x00 c:0x02", "@4 SenderSSRC:32 MediaSSRC:32"}},
	{name: "PictureLossIndication", rfc: "RFC 4585 6.3.1", enc: "PictureLossIndication.Marshal", dec: "*PictureLossIndication.Unmarshal",
		layout: []string{"@0 1 0 0 c5:1 c:0xCE c:0x00 c:0x02", "@4 SenderSSRC:32 MediaSSRC:32"}},
	{name: "SliceLossIndication", rfc: "RFC 4585 6.3.2", enc: "SliceLossIndication.Marshal", dec: "*SliceLossIndication.Unmarshal",
		layout: []string{"@0 1 0 0 c5:2 _:8 _:16", "@4 SenderSSRC:32 MediaSSRC:32", "@4i+12 SLI[].First:13 SLI[].Number:13 SLI[].Picture:6"}},
	{name: "FullIntraRequest", rfc: "RFC 5104 4.3.1", enc: "FullIntraRequest.Marshal", dec: "*FullIntraRequest.Unmarshal",
		layout: []string{"@0 1 0 0 c5:4 c:0xCE _:16", "@4 SenderSSRC:32 MediaSSRC:32", "@8i+12 FIR[].SSRC:32 FIR[].SequenceNumber:8 z:24"}},
	{name: "ReceiverEstimatedMaximumBitrate", rfc: "draft-alvestrand-rmcat-remb-03 2.2", enc: "ReceiverEstimatedMaximumBitrate.Marshal", dec: "*ReceiverEstimatedMaximumBitrate.Unmarshal", partial: true,
		layout: []string{"@0 1 0 0 c5:15 c:0xCE _:16", "@4 SenderSSRC:32 z:32 c:0x52 c:0x45 c:0x4D c:0x42 len(SSRCs):8 _:24", "@4i+20 SSRCs[]:32"}},
	{name: "TransportLayerCC", rfc: "draft-holmer-rmcat-transport-wide-cc-extensions-01 3.1", enc: "TransportLayerCC.Marshal", dec: "*TransportLayerCC.Unmarshal", partial: true,
		layout:  []string{"@0 1 0 Header.Padding:1 Header.Count:5 Header.Type:8 Header.Length:16", "@4 SenderSSRC:32 MediaSSRC:32 BaseSequenceNumber:16 PacketStatusCount:16 ReferenceTime:24 FbPktCount:8"},
		decSkip: map[string]bool{}},
	{name: "RunLengthChunk", rfc: "draft-holmer-rmcat-transport-wide-cc-extensions-01 3.1.3", enc: "RunLengthChunk.Marshal", dec: "*RunLengthChunk.Unmarshal",
		layout: []string{"@0 0 PacketStatusSymbol:2 RunLength:13"}, decConst: map[string]uint64{"Type": 0}},
	{name: "StatusVectorChunk/one-bit", rfc: "draft-holmer-rmcat-transport-wide-cc-extensions-01 3.1.4 (one-bit symbols)", enc: "StatusVectorChunk.Marshal", encConst: map[string]uint64{"SymbolSize": 0}, encLens: map[string]int64{"SymbolList": 14},
		encLayout: []string{"@0 1 SymbolSize:1 SymbolList[0]:1 SymbolList[1]:1 SymbolList[2]:1 SymbolList[3]:1 SymbolList[4]:1 SymbolList[5]:1 SymbolList[6]:1 SymbolList[7]:1 SymbolList[8]:1 SymbolList[9]:1 SymbolList[10]:1 SymbolList[11]:1 SymbolList[12]:1 SymbolList[13]:1"},
		dec: "*StatusVectorChunk.Unmarshal", decAlt: "!W:0.6",
		layout: []string{"@0 _:1 SymbolSize:1 SymbolList[0]:1 SymbolList[1]:1 SymbolList[2]:1 SymbolList[3]:1 SymbolList[4]:1 SymbolList[5]:1 SymbolList[6]:1 SymbolList[7]:1 SymbolList[8]:1 SymbolList[9]:1 SymbolList[10]:1 SymbolList[11]:1 SymbolList[12]:1 SymbolList[13]:1"}, decConst: map[string]uint64{"Type": 1}},
	{name: "StatusVectorChunk/two-bit", rfc: "draft-holmer-rmcat-transport-wide-cc-extensions-01 3.1.4 (two-bit symbols)", enc: "StatusVectorChunk.Marshal", encConst: map[string]uint64{"SymbolSize": 1}, encLens: map[string]int64{"SymbolList": 7},
		encLayout: []string{"@0 1 SymbolSize:1 SymbolList[0]:2 SymbolList[1]:2 SymbolList[2]:2 SymbolList[3]:2 SymbolList[4]:2 SymbolList[5]:2 SymbolList[6]:2"},
		dec: "*StatusVectorChunk.Unmarshal", decAlt: "W:0.6",
		layout: []string{"@0 _:1 SymbolSize:1 SymbolList[0]:2 SymbolList[1]:2 SymbolList[2]:2 SymbolList[3]:2 SymbolList[4]:2 SymbolList[5]:2 SymbolList[6]:2"}, decConst: map[string]uint64{"Type": 1}},
	{name: "CCFeedbackMetricBlock", rfc: "RFC 8888 3.1 (metric block, received)", enc: "CCFeedbackMetricBlock.marshal", dec: "*CCFeedbackMetricBlock.unmarshal", decAlt: "W:0.7",
		layout: []string{"@0 Received:1 ECN:2 ArrivalTimeOffset:13"}},
}

// layoutFields: the Go fields a unit's layout lists (nil for complete units: everything is compared).
func layoutFields(u *unitSpec) map[string]bool {
	if !u.partial {
		return nil
	}
	_, exp, err := u.expand()
	if err != nil {
		return nil
	}
	out := map[string]bool{}
	for _, e := range exp {
		if e.kind == 'f' {
			out[e.field] = true
		}
	}
	return out
}
