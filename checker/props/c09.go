package props

import (
	"fmt"
	"sort"
	"strings"
	"sync"

	"golang.org/x/tools/go/ssa"

	"rtcpverif/core"
	"rtcpverif/effects"
	"rtcpverif/num"
)

func init() { register("C09", "other", checkC09) }

// c09Triaged: run-time-check obligations of encoders that the numeric engine cannot decide and that were
// confirmed safe by reading the code. Keyed by "function|rule" (all undecided obligations of that rule in
// that function share the reason); an entry that matches no undecided obligation fails the check.
var c09Triaged = map[string]string{
	"(ApplicationDefined).Marshal|B-IDX":                  "padding loop rawPacket[12+dataLength+i] with i < paddingSize: rawPacket has MarshalSize() = 12 + dataLength + paddingSize' octets where paddingSize' is the same expression (4 - dataLength%4, or 0 when that is 4) evaluated in MarshalSize; the engine keeps both as convex relations and loses the disjunction (remainder 0 / remainder non-zero) that makes them equal",
	"(CCFeedbackReport).Marshal|B-SLC":                    "prefix sums: buf has MarshalSize() = 8 + sum(block.len()) + 4 octets and offset = 8 + the sum of block.len() over the blocks already written (block.len() is effect-free and block.marshal() returns exactly block.len() octets), so offset <= len(buf)-4 at every slice",
	"(CCFeedbackReport).Marshal|B-BIN":                    "after the loop offset = len(buf)-4 (see B-SLC), PutUint32 has its 4 octets",
	"(SourceDescription).Marshal|B-SLC":                   "prefix sums: rawPacket has 4 + sum(chunk.len()) octets and chunkOffset advances by len(chunk.Marshal()) = chunk.len() (4 + items + 1 + padding, the same computation in both)",
	"(TransportLayerCC).Marshal|B-SLC":                    "prefix sums: payload has pad4(16 + 2*len(PacketChunks) + sum(size(d))) octets with size(d) = 1 for small deltas and 2 otherwise (packetLen); the write cursor advances by 1, plus 1 only for large deltas, i.e. by at most size(d), and a delta of any other type makes delta.Marshal fail before the copy",
	"(ReceiverEstimatedMaximumBitrate).MarshalTo|T-LOOP":  "floating-point loop `for bitrate >= 1<<18 { bitrate /= 2; exp++ }`: bitrate is clamped to the finite constant 0x3FFFFp+63 before the loop and a NaN fails the loop condition, so the loop runs at most 64 times (the integer engine does not model floats)",
}

func checkC09(c *Ctx) {
	r := c.Rep
	p := c.Prog
	r.Explain = "One clause of the property is decided: 'marshalling the returned packets never panics'. The numeric abstract interpreter evaluates every packet type's Marshal (and rtcp.Marshal / CompoundPacket.Marshal with the member encoders opaque) on an UNCONSTRAINED receiver — every field value and list length, list elements non-nil — which includes every packet a decoder can return (decoders append only fresh, non-nil elements: C01's B-NIL facts). Every index, slice bound (against the length), binary.BigEndian access, nil dereference, division, type assertion, negative make and loop in the reachable universe is an obligation that must be entailed at the instruction; six obligation groups that need prefix-sum, disjunctive or floating-point reasoning are discharged by a frozen table of reasons confirmed by reading (c09Triaged). The other clauses of the property — the re-encoded bytes are accepted again and decode to an equal packet list — relate run-time values of two executions and are NOT decided (the structural part of them is C02-LAY/C05/C16)."
	r.RuleText = "C09-NOPANIC: B-IDX, B-SLC, B-BIN, B-NIL, B-DIV, B-TAS, B-MAKE, B-CALL, B-PANIC, T-LOOP over the universe of the 15 packet encoders, rtcp.Marshal and CompoundPacket.Marshal. Undecided = failure unless the (function, rule) pair is in c09Triaged."
	r.Trusted = []string{"go/ssa, VTA call graph", "numeric engine checker/num", "effects analysis (purity of the opaque member encoders in the two datagram-level roots; determinism of the size functions)", "Go's panic conditions", "frozen table c09Triaged (6 entries with reasons)"}
	r.Assume = []string{
		fmt.Sprintf("size domain: the re-encoded packet is at most %d octets (a decoded datagram is at most 65535 octets; above that CCFeedbackReport.Marshal does panic: its buffer length is computed in uint16)", c05MaxBytes),
		"receivers and list elements are non-nil (what decoders produce)",
	}
	r.NotCov("that the new bytes are accepted again and decode to an equal packet list (idempotence), and the TransportLayerCC header-consistency condition: equality of run-time values across two executions")
	r.NotCov("panics inside fmt/reflect themselves")

	ts := c05Types(c)
	cg := p.CallGraph()
	an := effects.New(p.SPkg, p.Funcs, cg, nil)
	sizeFns := sizeUniverse(c)
	isMS := map[*ssa.Function]bool{}
	packetMarshal := map[*ssa.Function]bool{}
	for i := range ts {
		if ts[i].marshal == nil {
			r.Fatalf("unresolved anchor: %s.Marshal", ts[i].name)
			return
		}
		if ts[i].marshalSize != nil {
			isMS[ts[i].marshalSize] = true
		}
		packetMarshal[ts[i].marshal] = true
	}
	wsFn := p.Func("wireSize")
	topMarshal := p.Func("Marshal")
	if wsFn == nil || topMarshal == nil {
		r.Fatalf("unresolved anchor: wireSize / Marshal")
		return
	}
	type rootT struct {
		name   string
		fn     *ssa.Function
		packet *c05Type
		opaque map[*ssa.Function]bool
	}
	var roots []rootT
	for i := range ts {
		t := &ts[i]
		if t.name == "CompoundPacket" {
			roots = append(roots, rootT{"CompoundPacket.Marshal", t.marshal, nil, packetMarshal})
			continue
		}
		roots = append(roots, rootT{t.name + ".Marshal", t.marshal, t, nil})
	}
	roots = append(roots, rootT{"Marshal", topMarshal, nil, packetMarshal})
	var mu sync.Mutex
	obls := map[string]*num.Obl{}
	var order []string
	parallelFor(len(roots), func(i int) {
		rt := roots[i]
		op := map[*ssa.Function]bool{}
		for f := range rt.opaque {
			if f != rt.fn {
				op[f] = true
			}
		}
		e := c08Engine(c, an, c08RootSpec{rt.name, rt.fn, rt.packet}, sizeFns, isMS, wsFn, op)
		e.ErrDiscipline = false
		if msg := guarded(func() { e.AnalyzeRoot(rt.fn, num.RootOptions{ElemsNonNil: true}) }); msg != "" {
			mu.Lock()
			r.Fatalf("analysis panic in %s: %s", rt.name, msg)
			mu.Unlock()
			return
		}
		mu.Lock()
		defer mu.Unlock()
		if e.Exceeded {
			r.Fatalf("step budget exceeded in %s", rt.name)
			return
		}
		r.Anchor("C09-ROOT", rt.name)
		for _, o := range e.SortedObls() {
			if !(strings.HasPrefix(o.Rule, "B-") || o.Rule == "T-LOOP") || o.Rule == "B-EXT" {
				continue
			}
			if x := obls[o.Key]; x != nil {
				x.Seen += o.Seen
				x.Failed += o.Failed
				if x.FailCtx == "" {
					x.FailCtx = o.FailCtx
				}
				continue
			}
			cp := *o
			obls[o.Key] = &cp
			order = append(order, o.Key)
		}
	})
	r.Floor("C09-ROOT", 17)
	sort.Strings(order)
	used := map[string]bool{}
	for _, k := range order {
		o := obls[k]
		key := o.Key
		pos := p.Pos(o.Pos)
		if o.Failed == 0 {
			r.Ok("C09-NOPANIC", key, pos, fmt.Sprintf("%s (entailed in %d context(s))", o.Detail, o.Seen))
			continue
		}
		tk := o.Fn + "|" + o.Rule
		if why, ok := c09Triaged[tk]; ok {
			used[tk] = true
			r.Ok("C09-NOPANIC", key, pos, "not decided by the engine; confirmed by reading (frozen table): "+why)
			continue
		}
		r.Unk("C09-NOPANIC", key, pos, fmt.Sprintf("not entailed in %d of %d context(s): %s", o.Failed, o.Seen, o.FailCtx))
	}
	var stale []string
	for k := range c09Triaged {
		if !used[k] {
			stale = append(stale, k)
		}
	}
	sort.Strings(stale)
	for _, k := range stale {
		r.Fatalf("triage table entry %q matches no undecided obligation (stale table)", k)
	}
	if len(order) < 600 {
		r.Fatalf("only %d run-time-check obligations generated for the encoders (expected about 900)", len(order))
	}
	_ = core.Discharged
}
