package props

import (
	"fmt"
	"go/constant"
	"go/token"
	"go/types"
	"os"
	"sort"
	"strings"
	"sync"

	"golang.org/x/tools/go/ssa"

	"rtcpverif/core"
	"rtcpverif/effects"
	"rtcpverif/num"
	"rtcpverif/sum"
)

func init() { register("C09", "other", checkC09) }

// c09Triaged: run-time-check obligations of encoders that the numeric engine cannot decide and that were
// confirmed safe by reading the code. Keyed by "function|rule" (all undecided obligations of that rule in
// that function share the reason); an entry that matches no undecided obligation is reported as unused (information only).
var c09Triaged = map[string]string{
	"(TransportLayerCC).Marshal|B-SLC":                    "fallback, unused on the pinned tree where the symbolic-sum engine proves the obligation (cursor = base + prefix sum of the per-delta step, payload = base + full sum of the per-delta size of packetLen, step <= size for every value class of RecvDelta.Type, round-up >= packetLen; size-domain assumption for the 16-bit arithmetic of the size functions). For encoder forms the engine cannot put into that shape (e.g. a cursor advanced by len(b) of a helper with two successful returns) the argument is the same, read from the code: the write cursor advances by exactly the number of octets delta.Marshal returned, which is what packetLen adds for that delta (both checked per size class by C09-SIZE/RecvDelta), and a delta of any other type makes delta.Marshal fail before the copy",
}

func checkC09(c *Ctx) {
	r := c.Rep
	p := c.Prog
	r.Explain = "One clause of the property is decided: 'marshalling the returned packets never panics'. The numeric abstract interpreter evaluates every packet type's Marshal (and rtcp.Marshal / CompoundPacket.Marshal with the member encoders opaque) on an UNCONSTRAINED receiver — every field value and list length, list elements non-nil — which includes every packet a decoder can return (decoders append only fresh, non-nil elements: C01's B-NIL facts). Every index, slice bound (against the length), binary.BigEndian access, nil dereference, division, type assertion, negative make and loop in the reachable universe is an obligation that must be entailed at the instruction; slice-bound and binary-access obligations that relate two loops (the size function adds up the element sizes, the encoder advances its cursor by them: SourceDescription, CCFeedbackReport; ApplicationDefined's padding loop against the padding computed again in MarshalSize; TransportLayerCC's delta cursor, whose step is an if-then-else on the delta type, against packetLen's per-delta size by a case split over the values the type is compared with) are proved by the symbolic-sum engine E3 (cursor = base + prefix sum, buffer = base + full sum of the same per-element term, evaluated from the element encoder and from the size function; for CCFeedbackReport with len(buffer) = MarshalSize() re-established by C05's DET/ALN/LEN rules); REMB's normalisation loop `for bitrate >= 2^18 { bitrate /= 2 }` is decided by a geometric-progress rule of the numeric engine (the value entering the loop is a NaN or at most the clamp constant). A frozen table (c09Triaged) holds one fallback entry for TransportLayerCC's delta cursor in encoder forms outside the symbolic engine's reach; it is unused on the pinned tree. C09-SIZE: every element encoder returns, at its nil-error returns, exactly the number of octets its container reserves for it (symbolic identity between the length of the encoder's result and the size function of the same receiver, or a constant). The other clauses of the property — the re-encoded bytes are accepted again and decode to an equal packet list — relate run-time values of two executions and are NOT decided (the structural part of them is C02-LAY/C05/C16)."
	r.RuleText = "C09-NOPANIC: B-IDX, B-SLC, B-BIN, B-NIL, B-DIV, B-TAS, B-MAKE, B-CALL, B-PANIC, T-LOOP over the universe of the 15 packet encoders, rtcp.Marshal and CompoundPacket.Marshal; an obligation the numeric engine leaves open is handed to the symbolic-sum engine (B-SLC, B-BIN), then to c09Triaged; undecided = failure. C09-SIZE: len(enc(x)) = size(x) for the 8 pairs of c09SizePairs. C09-OWNBUF: the []byte rtcp.Marshal and CompoundPacket.Marshal return aliases neither the packet list nor a global (effect analysis): decoded packets may refer to the received datagram (RawPacket, APP data, profile extensions), so a re-encoder that hands back or appends into a member's buffer writes into the datagram it was decoded from, and the next re-encoding differs."
	r.Trusted = []string{"go/ssa, VTA call graph", "numeric engine checker/num", "effects analysis (purity of the opaque member encoders in the two datagram-level roots; determinism of the size functions)", "symbolic-sum engine checker/sum", "Go's panic conditions", "frozen table c09Triaged (1 fallback entry, unused on the pinned tree)", "table c09SizePairs (which size each container reserves: 8 entries, confirmed by reading the containers)"}
	r.Assume = []string{
		fmt.Sprintf("size domain: the re-encoded packet is at most %d octets (a decoded datagram is at most 65535 octets; above that CCFeedbackReport.Marshal does panic: its buffer length is computed in uint16)", c05MaxBytes),
		"receivers and list elements are non-nil (what decoders produce)",
		"no slice longer than 2^50; int arithmetic on lengths does not overflow 64 bits",
	}
	r.NotCov("that the new bytes are accepted again and decode to an equal packet list (idempotence), and the TransportLayerCC header-consistency condition: equality of run-time values across two executions")
	r.NotCov("panics inside fmt/reflect themselves")

	ts := c05Types(c)
	cg := p.CallGraph()
	an := effects.New(p.SPkg, p.Funcs, cg, nil)
	sizeFns := sizeUniverse(c)
	isMS := map[*ssa.Function]bool{}
	packetMarshal := map[*ssa.Function]bool{}
	for i := range ts {
		if ts[i].marshal == nil {
			r.Fatalf("unresolved anchor: %s.Marshal", ts[i].name)
			return
		}
		if ts[i].marshalSize != nil {
			isMS[ts[i].marshalSize] = true
		}
		packetMarshal[ts[i].marshal] = true
	}
	wsFn := p.Func("wireSize")
	topMarshal := p.Func("Marshal")
	if wsFn == nil || topMarshal == nil {
		r.Fatalf("unresolved anchor: wireSize / Marshal")
		return
	}
	type rootT struct {
		name   string
		fn     *ssa.Function
		packet *c05Type
		opaque map[*ssa.Function]bool
	}
	var roots []rootT
	for i := range ts {
		t := &ts[i]
		if t.name == "CompoundPacket" {
			roots = append(roots, rootT{"CompoundPacket.Marshal", t.marshal, nil, packetMarshal})
			continue
		}
		roots = append(roots, rootT{t.name + ".Marshal", t.marshal, t, nil})
	}
	roots = append(roots, rootT{"Marshal", topMarshal, nil, packetMarshal})
	var mu sync.Mutex
	obls := map[string]*num.Obl{}
	var order []string
	parallelFor(len(roots), func(i int) {
		rt := roots[i]
		op := map[*ssa.Function]bool{}
		for f := range rt.opaque {
			if f != rt.fn {
				op[f] = true
			}
		}
		e := c08Engine(c, an, c08RootSpec{rt.name, rt.fn, rt.packet}, sizeFns, isMS, wsFn, op)
		e.ErrDiscipline = false
		if msg := guarded(func() { e.AnalyzeRoot(rt.fn, num.RootOptions{ElemsNonNil: true}) }); msg != "" {
			mu.Lock()
			r.Fatalf("analysis panic in %s: %s", rt.name, msg)
			mu.Unlock()
			return
		}
		mu.Lock()
		defer mu.Unlock()
		if e.Exceeded {
			r.Fatalf("step budget exceeded in %s", rt.name)
			return
		}
		r.Anchor("C09-ROOT", rt.name)
		for _, o := range e.SortedObls() {
			if !(strings.HasPrefix(o.Rule, "B-") || o.Rule == "T-LOOP") || o.Rule == "B-EXT" {
				continue
			}
			if x := obls[o.Key]; x != nil {
				x.Seen += o.Seen
				x.Failed += o.Failed
				if x.FailCtx == "" {
					x.FailCtx = o.FailCtx
				}
				continue
			}
			cp := *o
			obls[o.Key] = &cp
			order = append(order, o.Key)
		}
	})
	r.Floor("C09-ROOT", 17)
	sort.Strings(order)
	used := map[string]bool{}
	sm := &c09Sum{c: c, an: an, ts: ts}
	nSum := 0
	for _, k := range order {
		o := obls[k]
		sumWhy := ""
		key := o.Key
		pos := p.Pos(o.Pos)
		if o.Failed == 0 {
			r.Ok("C09-NOPANIC", key, pos, fmt.Sprintf("%s (entailed in %d context(s))", o.Detail, o.Seen))
			continue
		}
		if o.Rule == "B-SLC" || o.Rule == "B-BIN" || o.Rule == "B-IDX" {
			ok, det := sm.prove(o.In)
			if os.Getenv("C09_DEBUG") != "" {
				fmt.Fprintf(os.Stderr, "E3 %s: %v %s\n", key, ok, det)
			}
			if ok {
				r.Ok("C09-NOPANIC", key, pos, "not entailed by the numeric engine; "+det)
				nSum++
				continue
			} else if det != "" {
				sumWhy = "; symbolic sums: " + det
			}
		}
		tk := o.Fn + "|" + o.Rule
		if why, ok := c09Triaged[tk]; ok {
			used[tk] = true
			r.Ok("C09-NOPANIC", key, pos, "not decided by the engine; confirmed by reading (frozen table): "+why)
			continue
		}
		r.Unk("C09-NOPANIC", key, pos, fmt.Sprintf("not entailed in %d of %d context(s): %s%s", o.Failed, o.Seen, o.FailCtx, sumWhy))
	}
	c09Sizes(c, sm)
	c09OwnBuffer(c, sm.an)
	var stale []string
	for k := range c09Triaged {
		if !used[k] {
			stale = append(stale, k)
		}
	}
	sort.Strings(stale)
	for _, k := range stale {
		r.Infof("triage table entry %q matches no undecided obligation on this tree (unused: the engines decide it themselves or the code changed)", k)
	}
	r.Infof("%d obligation(s) discharged by the symbolic-sum engine", nSum)
	if len(order) < 600 {
		r.Fatalf("only %d run-time-check obligations generated for the encoders (expected about 900)", len(order))
	}
	_ = core.Discharged
}

// ---------------------------------------------------------------- symbolic sums (engine E3)

func pureFn(an *effects.Analysis) func(*ssa.Function) bool {
	return func(fn *ssa.Function) bool {
		s := an.Sum[fn]
		if s == nil || len(s.Undecided) > 0 || len(s.Forbidden) > 0 {
			return false
		}
		for k := 0; k < s.NRoots; k++ {
			if s.WritesThrough(k) {
				return false
			}
		}
		return true
	}
}

// numNonNeg: the numeric engine bounds result 0 of fn below by 0 at every return, for every receiver.
func numNonNeg(c *Ctx, fn *ssa.Function, intArgsNonNeg bool) bool {
	e := newNumEngine(c, nil)
	e.AssumeNoWrap = c05SizeFns
	if intArgsNonNeg {
		e.RootInit = func(st *num.State) {
			for _, p := range fn.Params {
				if b, ok := p.Type().Underlying().(*types.Basic); ok && b.Info()&types.IsInteger != 0 {
					st.Assume(e.ExprOf(st, p))
				}
			}
		}
	}
	var rets []num.RootReturn
	if msg := guarded(func() { rets = e.AnalyzeRoot(fn, num.RootOptions{ElemsNonNil: true}) }); msg != "" || e.Exceeded || len(rets) == 0 {
		return false
	}
	for _, rr := range rets {
		if len(rr.Ret.Results) == 0 {
			return false
		}
		b := rr.St.Bounds(rr.St.Subst(e.ExprOf(rr.St, rr.Ret.Results[0])))
		if !b.HasLo || b.Lo < 0 {
			return false
		}
	}
	return true
}

func newSumEngine(c *Ctx, an *effects.Analysis) *sum.Engine {
	se := sum.New(c.Prog.SPkg)
	se.Pure = pureFn(an)
	se.AddrWritten = func(a *ssa.Alloc, init *ssa.Store) string { return addrWritten(an, a, init, 0) }
	se.NonNegOracle = func(fn *ssa.Function, nn bool) bool { return numNonNeg(c, fn, nn) }
	// size-domain assumption (stated in the evidence): the fixed-width arithmetic of the size functions does not wrap
	if c05SizeFns == nil {
		c05SizeFns = sizeUniverse(c)
	}
	se.NoWrap = c05SizeFns
	return se
}

// c09Sum discharges slice-bound and binary-access obligations of encoders with the symbolic-sum engine:
// the cursor of a `for range list` loop is a prefix sum of the per-element size, the buffer length is
// the full sum (plus non-negative terms), both evaluated from the code of the encoder and of the size
// function it calls. For a packet encoder whose buffer length is not itself a symbolic sum (computed
// from the 16-bit header length), the identity len(buffer) = MarshalSize() is taken from C05's rules
// (re-established here by the numeric engine) when the buffer is the slice returned at every nil-error
// return.
type c09Sum struct {
	c       *Ctx
	an      *effects.Analysis
	ts      []c05Type
	plain   *sum.Engine
	withLen map[*ssa.Function]*sum.Engine // engines with the C05-LEN identity installed
	lenWhy  map[*ssa.Function]string
}

func (s *c09Sum) try(se *sum.Engine, in ssa.Instruction) (bool, string) {
	fn := in.Parent()
	res := se.EvalRoot(fn)
	if res.Frame == nil {
		return false, "not evaluated"
	}
	if res.Mutates != "" {
		return false, "the encoder writes its receiver: " + res.Mutates
	}
	switch x := in.(type) {
	case *ssa.Slice:
		return res.Frame.ProveSlice(x)
	case *ssa.IndexAddr:
		return res.Frame.ProveIndex(x)
	case *ssa.Call:
		f := x.Common().StaticCallee()
		if f == nil {
			return false, "dynamic call"
		}
		n := int64(0)
		switch f.String() {
		case "(encoding/binary.bigEndian).Uint16", "(encoding/binary.bigEndian).PutUint16":
			n = 2
		case "(encoding/binary.bigEndian).Uint32", "(encoding/binary.bigEndian).PutUint32":
			n = 4
		case "(encoding/binary.bigEndian).Uint64", "(encoding/binary.bigEndian).PutUint64":
			n = 8
		default:
			return false, "not a binary.BigEndian access"
		}
		if len(x.Common().Args) < 2 {
			return false, "unexpected argument list"
		}
		return res.Frame.ProveMinLen(x.Common().Args[1], x, n)
	}
	return false, "not a slice expression or binary access"
}

func (s *c09Sum) prove(in ssa.Instruction) (bool, string) {
	if in == nil || in.Parent() == nil {
		return false, ""
	}
	if s.plain == nil {
		s.plain = newSumEngine(s.c, s.an)
		s.withLen = map[*ssa.Function]*sum.Engine{}
		s.lenWhy = map[*ssa.Function]string{}
	}
	ok, why := s.try(s.plain, in)
	if ok {
		return true, "symbolic sums (E3): " + why
	}
	fn := in.Parent()
	se, done := s.withLen[fn]
	if !done {
		s.withLen[fn] = nil
		for i := range s.ts {
			t := s.ts[i]
			if t.marshal != fn || t.marshalSize == nil {
				continue
			}
			mk := returnedMake(fn)
			if mk == nil {
				s.lenWhy[fn] = "the encoder does not return one made buffer at all its nil-error returns"
				break
			}
			holds, det := c05LenHolds(s.c, s.an, t)
			if !holds {
				s.lenWhy[fn] = "len(result) = MarshalSize() not established: " + det
				break
			}
			ms, good := s.plain.EvalRoot(t.marshalSize).ResultLin(0)
			if !good {
				s.lenWhy[fn] = "MarshalSize() is not a symbolic sum"
				break
			}
			se = newSumEngine(s.c, s.an)
			se.LenOverride[mk] = ms
			s.withLen[fn] = se
			s.lenWhy[fn] = "len(buffer) = MarshalSize() = " + ms.Key() + " (" + det + ")"
		}
	}
	if se == nil {
		if w := s.lenWhy[fn]; w != "" {
			why += "; " + w
		}
		return false, why
	}
	ok, why2 := s.try(se, in)
	if ok {
		return true, "symbolic sums (E3) with " + s.lenWhy[fn] + ": " + why2
	}
	return false, why + "; with the C05-LEN identity: " + why2
}

// returnedMake: the MakeSlice whose value is result 0 of every return of fn that does not return a
// nil slice constant; nil if there is none or more than one.
func returnedMake(fn *ssa.Function) *ssa.MakeSlice {
	var mk *ssa.MakeSlice
	for _, b := range fn.Blocks {
		if len(b.Instrs) == 0 {
			continue
		}
		ret, ok := b.Instrs[len(b.Instrs)-1].(*ssa.Return)
		if !ok || len(ret.Results) == 0 {
			continue
		}
		if cst, ok := ret.Results[0].(*ssa.Const); ok && cst.Value == nil {
			continue
		}
		m, ok := ret.Results[0].(*ssa.MakeSlice)
		if !ok || (mk != nil && mk != m) {
			return nil
		}
		mk = m
	}
	return mk
}

// c09SizePairs: element encoders and the size their container reserves for them (a size function of the
// same receiver, or a package constant). Confirmed by reading the container encoders: the cursor of the
// container advances by this size, or the container's MarshalSize adds it up.
var c09SizePairs = []struct{ enc, size, why string }{
	{"SourceDescriptionChunk.Marshal", "SourceDescriptionChunk.len", "SourceDescription.MarshalSize sums chunk.len(); Marshal advances by len(chunk bytes)"},
	{"SourceDescriptionItem.Marshal", "SourceDescriptionItem.Len", "SourceDescriptionChunk.len sums item.Len(); the chunk decoder advances by item.Len()"},
	{"CCFeedbackReportBlock.marshal", "*CCFeedbackReportBlock.len", "CCFeedbackReport.MarshalSize sums block.len(); Marshal advances by block.len()"},
	{"CCFeedbackMetricBlock.marshal", "const:2", "CCFeedbackReportBlock.marshal places metric block i at reportsOffset+2i"},
	{"ReceptionReport.Marshal", "const:receptionReportLength", "SenderReport/ReceiverReport place report i at a multiple of receptionReportLength"},
	{"Header.Marshal", "const:headerLength", "every packet encoder copies the header into the first headerLength octets"},
	{"RunLengthChunk.Marshal", "const:2", "TransportLayerCC.Marshal places chunk i at packetStatusChunkOffset+2i"},
	{"StatusVectorChunk.Marshal", "const:2", "TransportLayerCC.Marshal places chunk i at packetStatusChunkOffset+2i"},
}

// c09Sizes (rule C09-SIZE): at its nil-error returns an element encoder returns exactly as many octets
// as its container reserves for it — the symbolic length of the result (engine E3) equals the symbolic
// value of the size function on the same receiver, or the constant.
func c09Sizes(c *Ctx, sm *c09Sum) {
	r := c.Rep
	p := c.Prog
	if sm.plain == nil {
		sm.plain = newSumEngine(sm.c, sm.an)
		sm.withLen = map[*ssa.Function]*sum.Engine{}
		sm.lenWhy = map[*ssa.Function]string{}
	}
	se := sm.plain
	for _, pr := range c09SizePairs {
		enc := p.Func(pr.enc)
		if enc == nil {
			r.Fatalf("unresolved anchor: %s", pr.enc)
			continue
		}
		r.Anchor("C09-SIZE", pr.enc)
		key := pr.enc + "/returns-its-reserved-size"
		pos := p.Pos(enc.Pos())
		res := se.EvalRoot(enc)
		got, ok := res.ResultLin(0)
		if !ok || res.Mutates != "" || res.NRetNil == 0 {
			r.Unk("C09-SIZE", key, pos, "the length of the encoder's result at its nil-error returns is not a symbolic size"+noteTail(se))
			continue
		}
		var want sum.Lin
		if strings.HasPrefix(pr.size, "const:") {
			n := strings.TrimPrefix(pr.size, "const:")
			var v int64
			if _, err := fmt.Sscanf(n, "%d", &v); err != nil {
				cst, isC := p.Types.Scope().Lookup(n).(*types.Const)
				if !isC {
					r.Fatalf("unresolved anchor: constant %s", n)
					continue
				}
				v, _ = constant.Int64Val(cst.Val())
			}
			want = sum.Const(v)
		} else {
			sf := p.Func(pr.size)
			if sf == nil {
				r.Fatalf("unresolved anchor: %s", pr.size)
				continue
			}
			w, ok := se.SizeOf(sf)
			if !ok {
				r.Unk("C09-SIZE", key, pos, pr.size+" is not a symbolic size"+noteTail(se))
				continue
			}
			want = w
		}
		if got.Equal(want) {
			r.Ok("C09-SIZE", key, pos, fmt.Sprintf("len(result) = %s = %s (%s)", got.Key(), strings.TrimPrefix(pr.size, "const:"), pr.why))
		} else if got.IsConst() && want.IsConst() {
			r.Bad("C09-SIZE", key, pos, fmt.Sprintf("the encoder returns %d octets, its container reserves %d (%s)", got.C, want.C, pr.why))
		} else {
			// different normal forms are not a proof of different values: reported as undecided
			r.Unk("C09-SIZE", key, pos, fmt.Sprintf("not shown equal: len(result) = %s, %s = %s (%s)", got.Key(), strings.TrimPrefix(pr.size, "const:"), want.Key(), pr.why))
		}
	}
	r.Floor("C09-SIZE", len(c09SizePairs))
	c09DeltaClasses(c, sm)
}

// c09DeltaClasses (rule C09-SIZE, TWCC receive deltas): the three places that must agree on the size of a
// receive delta — RecvDelta.Marshal (octets returned), TransportLayerCC.packetLen (what the size function
// adds per delta) and the delta loop of TransportLayerCC.Marshal (what the write cursor advances by) — are
// evaluated by the symbolic-sum engine once per value class of RecvDelta.Type. The classes are the constants
// the three functions compare the field with, plus one representative of all other values (the functions
// use the field in no other way, which is checked). For a class whose delta encoder can succeed, the three
// sizes must be the same constant; for a class it always rejects nothing is required (Marshal fails before
// the copy: C08-ERR).
func c09DeltaClasses(c *Ctx, sm *c09Sum) {
	r := c.Rep
	p := c.Prog
	enc := p.Func("RecvDelta.Marshal")
	plen := p.Func("*TransportLayerCC.packetLen")
	mar := p.Func("TransportLayerCC.Marshal")
	rd := p.Named("RecvDelta")
	if enc == nil || plen == nil || mar == nil || rd == nil {
		r.Fatalf("unresolved anchor: RecvDelta.Marshal / (*TransportLayerCC).packetLen / TransportLayerCC.Marshal")
		return
	}
	r.Anchor("C09-SIZE", "RecvDelta size classes")
	// value classes of RecvDelta.Type
	consts := map[int64]bool{}
	var other []string
	for _, fn := range []*ssa.Function{enc, plen, mar} {
		for _, b := range fn.Blocks {
			for _, in := range b.Instrs {
				ld, ok := in.(*ssa.UnOp)
				if !ok || ld.Op != token.MUL {
					continue
				}
				fa, ok := ld.X.(*ssa.FieldAddr)
				if !ok {
					continue
				}
				st, ok := derefStruct(fa.X.Type())
				if !ok || !isNamed(fa.X.Type(), rd) || st.Field(fa.Field).Name() != "Type" {
					continue
				}
				for _, ref := range *ld.Referrers() {
					cmp, ok := ref.(*ssa.BinOp)
					if ok && (cmp.Op == token.EQL || cmp.Op == token.NEQ) {
						o := cmp.Y
						if o == ssa.Value(ld) {
							o = cmp.X
						}
						if k, isC := o.(*ssa.Const); isC && k.Value != nil {
							consts[k.Int64()] = true
							continue
						}
					}
					if _, isDbg := ref.(*ssa.DebugRef); isDbg {
						continue
					}
					other = append(other, p.Pos(ref.Pos())+": "+ref.String())
				}
			}
		}
		// value receivers read the field with a Field instruction
		for _, b := range fn.Blocks {
			for _, in := range b.Instrs {
				fl, ok := in.(*ssa.Field)
				if !ok || !isNamed(fl.X.Type(), rd) {
					continue
				}
				st, _ := fl.X.Type().Underlying().(*types.Struct)
				if st == nil || st.Field(fl.Field).Name() != "Type" {
					continue
				}
				for _, ref := range *fl.Referrers() {
					cmp, ok := ref.(*ssa.BinOp)
					if ok && (cmp.Op == token.EQL || cmp.Op == token.NEQ) {
						o := cmp.Y
						if o == ssa.Value(fl) {
							o = cmp.X
						}
						if k, isC := o.(*ssa.Const); isC && k.Value != nil {
							consts[k.Int64()] = true
							continue
						}
					}
					other = append(other, p.Pos(ref.Pos())+": "+ref.String())
				}
			}
		}
	}
	key := "RecvDelta/size-classes"
	pos := p.Pos(enc.Pos())
	if len(other) > 0 {
		r.Unk("C09-SIZE", key+"/enumerable", pos, "RecvDelta.Type is used other than in comparisons with constants: "+trunc(other, 2))
		return
	}
	if len(consts) == 0 {
		r.Unk("C09-SIZE", key+"/enumerable", pos, "no comparison of RecvDelta.Type with a constant found in the three functions")
		return
	}
	var classes []int64
	for k := range consts {
		classes = append(classes, k)
	}
	sort.Slice(classes, func(i, j int) bool { return classes[i] < classes[j] })
	rest := int64(0)
	for consts[rest] {
		rest++
	}
	classes = append(classes, rest)
	accepted := 0
	for _, k := range classes {
		name := fmt.Sprintf("Type=%d", k)
		if k == rest {
			name = fmt.Sprintf("Type=other(%d)", k)
		}
		mk := func(nowrap *ssa.Function) *sum.Engine {
			se := newSumEngine(c, sm.an)
			se.AssumeField = map[string]int64{"RecvDelta.Type": k}
			if nowrap != nil {
				se.NoWrap = map[*ssa.Function]bool{nowrap: true}
			}
			return se
		}
		er := mk(nil).EvalRoot(enc)
		if er.NRetNil == 0 {
			r.Ok("C09-SIZE", key+"/"+name, pos, "RecvDelta.Marshal has no nil-error return for this class: such a delta is rejected before anything is copied")
			continue
		}
		l, ok := er.ResultLin(0)
		if !ok || !l.IsConst() {
			r.Unk("C09-SIZE", key+"/"+name, pos, "the number of octets RecvDelta.Marshal returns for this class is not a constant")
			continue
		}
		accepted++
		var bad []string
		n := 0
		for _, who := range []struct {
			fn     *ssa.Function
			nowrap bool
			what   string
		}{{plen, true, "packetLen adds"}, {mar, false, "the write cursor of Marshal advances by"}} {
			var nw *ssa.Function
			if who.nowrap {
				nw = who.fn // the size function: 16-bit arithmetic does not wrap in the size domain
			}
			steps := mk(nw).EvalRoot(who.fn).LoopSteps("1*len(r.RecvDeltas)")
			if len(steps) == 0 {
				bad = append(bad, core.FuncName(who.fn)+": no accumulator loop over RecvDeltas recognised")
			}
			for _, st := range steps {
				n++
				if !st.Delta.IsConst() || st.Delta.C != l.C {
					bad = append(bad, fmt.Sprintf("%s %s per delta (variable %s), the encoder returns %d octet(s)", who.what, st.Delta.Key(), st.Var, l.C))
				}
			}
		}
		r.Check(len(bad) == 0 && n >= 2, "C09-SIZE", key+"/"+name, pos,
			fmt.Sprintf("RecvDelta.Marshal returns %d octet(s); packetLen adds %d and the write cursor of TransportLayerCC.Marshal advances by %d per such delta (%d accumulators)", l.C, l.C, l.C, n),
			strings.Join(bad, "; "))
	}
	if accepted < 2 {
		r.Unk("C09-SIZE", key+"/accepted-classes", pos, fmt.Sprintf("only %d value class(es) of RecvDelta.Type can be encoded (expected small and large deltas)", accepted))
	}
}

func derefStruct(t types.Type) (*types.Struct, bool) {
	if pt, ok := t.Underlying().(*types.Pointer); ok {
		t = pt.Elem()
	}
	st, ok := t.Underlying().(*types.Struct)
	return st, ok
}

func isNamed(t types.Type, n *types.Named) bool {
	if pt, ok := t.Underlying().(*types.Pointer); ok {
		t = pt.Elem()
	}
	return types.Identical(t, n)
}

func noteTail(se *sum.Engine) string {
	if len(se.Notes) == 0 {
		return ""
	}
	return " (" + se.Notes[len(se.Notes)-1] + ")"
}

// c09OwnBuffer (rule C09-OWNBUF): see RuleText. A decoded RawPacket IS a slice of the received
// datagram; if rtcp.Marshal returned (or appended into) a member's own buffer, re-encoding the
// decoded list would write the later members over the datagram the earlier ones still refer to.
func c09OwnBuffer(c *Ctx, an *effects.Analysis) {
	r, p := c.Rep, c.Prog
	for _, spec := range []string{"Marshal", "CompoundPacket.Marshal"} {
		fn := p.Func(spec)
		if fn == nil {
			r.Fatalf("unresolved anchor: %s", spec)
			continue
		}
		r.Anchor("C09-OWNBUF", spec)
		s := an.Sum[fn]
		if s == nil || len(s.RetAlias) == 0 {
			r.Unk("C09-OWNBUF", spec+"/result-owns-its-buffer", p.Pos(fn.Pos()), "no effect summary")
			continue
		}
		det := ""
		for k := 0; k < s.NRoots; k++ {
			if s.RetAlias[0].Has(k) {
				det += fmt.Sprintf(" root %d", k)
			}
		}
		r.Check(s.RetAlias[0].Empty(), "C09-OWNBUF", spec+"/result-owns-its-buffer", p.Pos(fn.Pos()),
			"the returned []byte aliases neither the packets handed in nor a global: members' encodings are copied into a buffer of its own",
			"the returned []byte may alias the packets handed in (which may be slices of the received datagram):"+det)
	}
	r.Floor("C09-OWNBUF", 2)
}
